(* C40 model: cassandra/datastax/graph/graphson.py -- GraphSON1/2/3 serializers, the GraphSON2/3 readers and the
   *TypeIO classes.  JSON-like tree; dispatch = exact type first, then first isinstance match in registration order;
   typed envelopes for GraphSON 2/3; containers by structural recursion; Int32/Int64 specialisation; Duration
   decomposition in integers (microseconds); base64 concrete.  Leaf formatters that are Python's own (str(Decimal),
   str(UUID), isoformat/strftime/strptime, WKT) are Section variables.  No proofs here. *)
From Coq Require Import ZArith List Bool.
From Verif Require Import DyFloat.
Import ListNotations.
Local Open Scope Z_scope.

(* ------------------------------------------------------------------ base64 (RFC 4648, with padding), concrete *)
Definition b64_char (n : Z) : Z :=
  if n <? 26 then 65 + n else if n <? 52 then 97 + (n - 26) else if n <? 62 then 48 + (n - 52)
  else if n =? 62 then 43 else 47.

Definition b64_val (c : Z) : option Z :=
  if (65 <=? c) && (c <=? 90) then Some (c - 65)
  else if (97 <=? c) && (c <=? 122) then Some (c - 97 + 26)
  else if (48 <=? c) && (c <=? 57) then Some (c - 48 + 52)
  else if c =? 43 then Some 62 else if c =? 47 then Some 63 else None.

Fixpoint b64_encode (bs : list Z) : list Z :=
  match bs with
  | [] => []
  | [a] => [b64_char (a / 4); b64_char ((a mod 4) * 16); 61; 61]
  | [a; b] => [b64_char (a / 4); b64_char ((a mod 4) * 16 + b / 16); b64_char ((b mod 16) * 4); 61]
  | a :: b :: c :: rest =>
      b64_char (a / 4) :: b64_char ((a mod 4) * 16 + b / 16) :: b64_char ((b mod 16) * 4 + c / 64) :: b64_char (c mod 64)
      :: b64_encode rest
  end.

Fixpoint b64_decode_fuel (fuel : nat) (cs : list Z) : option (list Z) :=
  match fuel with
  | O => match cs with [] => Some [] | _ => None end
  | S fuel' =>
    match cs with
    | [] => Some []
    | c1 :: c2 :: c3 :: c4 :: rest =>
        if (c3 =? 61) && (c4 =? 61) then
          match rest, b64_val c1, b64_val c2 with
          | [], Some v1, Some v2 => Some [v1 * 4 + v2 / 16]
          | _, _, _ => None
          end
        else if c4 =? 61 then
          match rest, b64_val c1, b64_val c2, b64_val c3 with
          | [], Some v1, Some v2, Some v3 => Some [v1 * 4 + v2 / 16; (v2 mod 16) * 16 + v3 / 4]
          | _, _, _, _ => None
          end
        else
          match b64_val c1, b64_val c2, b64_val c3, b64_val c4, b64_decode_fuel fuel' rest with
          | Some v1, Some v2, Some v3, Some v4, Some out =>
              Some (v1 * 4 + v2 / 16 :: (v2 mod 16) * 16 + v3 / 4 :: (v3 mod 4) * 64 + v4 :: out)
          | _, _, _, _, _ => None
          end
    | _ => None
    end
  end.

Definition b64_decode (cs : list Z) : option (list Z) := b64_decode_fuel (S (length cs)) cs.

(* ------------------------------------------------------------------ Python classes, TypeIO classes, GraphSON type tags *)
Inductive pycls : Type :=
| KStr | KBool | KBytearray | KDecimal | KDate | KTime | KTimedelta | KDatetime | KUuid | KPolygon | KPoint | KLineString
| KDict | KFloat | KIPv4 | KIPv6 | KMemoryview | KBytes | KInt | KList | KSet | KTuple | KDuration | KWrapper.

Inductive tio : Type :=
| TText | TBoolean | TByteBuffer | TBlob | TBigDecimal | TLocalDate | TLocalTime | TDurationIO | TInstant | TUUID
| TPolygon | TPoint | TLineString | TJsonMap | TFloat | TDouble | TInet | TInteger | TInt16 | TInt32 | TInt64 | TBigInteger
| TMap | TListIO | TSetIO | TTupleIO | TDseDuration | TWrapper.

Definition pycls_eqb (a b : pycls) : bool :=
  match a, b with
  | KStr, KStr | KBool, KBool | KBytearray, KBytearray | KDecimal, KDecimal | KDate, KDate | KTime, KTime
  | KTimedelta, KTimedelta | KDatetime, KDatetime | KUuid, KUuid | KPolygon, KPolygon | KPoint, KPoint
  | KLineString, KLineString | KDict, KDict | KFloat, KFloat | KIPv4, KIPv4 | KIPv6, KIPv6 | KMemoryview, KMemoryview
  | KBytes, KBytes | KInt, KInt | KList, KList | KSet, KSet | KTuple, KTuple | KDuration, KDuration | KWrapper, KWrapper => true
  | _, _ => false
  end.

Definition tio_eqb (a b : tio) : bool :=
  match a, b with
  | TText, TText | TBoolean, TBoolean | TByteBuffer, TByteBuffer | TBlob, TBlob | TBigDecimal, TBigDecimal
  | TLocalDate, TLocalDate | TLocalTime, TLocalTime | TDurationIO, TDurationIO | TInstant, TInstant | TUUID, TUUID
  | TPolygon, TPolygon | TPoint, TPoint | TLineString, TLineString | TJsonMap, TJsonMap | TFloat, TFloat | TDouble, TDouble
  | TInet, TInet | TInteger, TInteger | TInt16, TInt16 | TInt32, TInt32 | TInt64, TInt64 | TBigInteger, TBigInteger
  | TMap, TMap | TListIO, TListIO | TSetIO, TSetIO | TTupleIO, TTupleIO | TDseDuration, TDseDuration | TWrapper, TWrapper => true
  | _, _ => false
  end.

(* issubclass(c, k) among the registered classes: datetime <: date, bool <: int *)
Definition issub (c k : pycls) : bool :=
  pycls_eqb c k || match c, k with KDatetime, KDate | KBool, KInt => true | _, _ => false end.

(* GraphSON1Serializer._serializers (OrderedDict literal, then four register() calls).
   Repaired order: datetime.datetime is registered BEFORE its base class datetime.date, so that the isinstance
   fallback gives an instance of a datetime subclass the Instant serializer. *)
Definition registry1 : list (pycls * tio) :=
  [(KStr, TText); (KBool, TBoolean); (KBytearray, TByteBuffer); (KDecimal, TBigDecimal); (KDatetime, TInstant);
   (KDate, TLocalDate); (KTime, TLocalTime); (KTimedelta, TDurationIO); (KUuid, TUUID); (KPolygon, TPolygon);
   (KPoint, TPoint); (KLineString, TLineString); (KDict, TJsonMap); (KFloat, TFloat);
   (KIPv4, TInet); (KIPv6, TInet); (KMemoryview, TByteBuffer); (KBytes, TByteBuffer)].

(* the order before the repair: date first *)
Definition registry1_legacy : list (pycls * tio) :=
  [(KStr, TText); (KBool, TBoolean); (KBytearray, TByteBuffer); (KDecimal, TBigDecimal); (KDate, TLocalDate);
   (KTime, TLocalTime); (KTimedelta, TDurationIO); (KDatetime, TInstant); (KUuid, TUUID); (KPolygon, TPolygon);
   (KPoint, TPoint); (KLineString, TLineString); (KDict, TJsonMap); (KFloat, TFloat);
   (KIPv4, TInet); (KIPv6, TInet); (KMemoryview, TByteBuffer); (KBytes, TByteBuffer)].

(* OrderedDict assignment: an existing key keeps its position *)
Fixpoint register (k : pycls) (t : tio) (r : list (pycls * tio)) : list (pycls * tio) :=
  match r with
  | [] => [(k, t)]
  | (k', t') :: r' => if pycls_eqb k k' then (k, t) :: r' else (k', t') :: register k t r'
  end.

Definition registry2 := register KInt TInteger registry1.
Definition registry3 :=
  register KWrapper TWrapper (register KDuration TDseDuration (register KTuple TTupleIO (register KSet TSetIO
    (register KList TListIO (register KDict TMap registry2))))).

Inductive version : Type := V1 | V2 | V3.
Definition registry (ver : version) := match ver with V1 => registry1 | V2 => registry2 | V3 => registry3 end.

Fixpoint assoc_cls (k : pycls) (r : list (pycls * tio)) : option tio :=
  match r with [] => None | (k', t) :: r' => if pycls_eqb k k' then Some t else assoc_cls k r' end.

Fixpoint first_isinstance (c : pycls) (r : list (pycls * tio)) : option tio :=
  match r with [] => None | (k, t) :: r' => if issub c k then Some t else first_isinstance c r' end.

Definition MAX_INT32 : Z := 2 ^ 32 - 1.       (* sic: graphson.py defines MAX_INT32 = 2 ** 32 - 1 *)
Definition MIN_INT32 : Z := - 2 ^ 31.

(* _BaseGraphSONSerializer.get_serializer: exact type, else first isinstance match; then get_specialized_serializer.
   exact = false: the value is an instance of a strict (user) subclass of c.  int_val: the value when it is an int. *)
Definition get_serializer (ver : version) (c : pycls) (exact : bool) (int_val : option Z) : option tio :=
  let base := if exact then match assoc_cls c (registry ver) with
                            | Some t => Some t
                            | None => first_isinstance c (registry ver)
                            end
              else first_isinstance c (registry ver) in
  match base with
  | Some TInteger =>
      match int_val with
      | Some z => if exact && ((MAX_INT32 <? z) || (z <? MIN_INT32)) then Some TInt64 else Some TInt32
      | None => Some TInt32
      end
  | other => other
  end.

Inductive tag : Type :=
| GInt32 | GInt64 | GxInt16 | GxBigInteger | GFloatT | GDoubleT | GUUID | GxBigDecimal | GxDuration | DseDuration
| GxInetAddress | GxInstant | GxLocalDate | GxLocalTime | DsePolygon | DsePoint | DseLineString | DseBlob | GxByteBuffer
| GListT | GMapT | GSetT | DseTuple.

Definition tag_eqb (a b : tag) : bool :=
  match a, b with
  | GInt32, GInt32 | GInt64, GInt64 | GxInt16, GxInt16 | GxBigInteger, GxBigInteger | GFloatT, GFloatT | GDoubleT, GDoubleT
  | GUUID, GUUID | GxBigDecimal, GxBigDecimal | GxDuration, GxDuration | DseDuration, DseDuration
  | GxInetAddress, GxInetAddress | GxInstant, GxInstant | GxLocalDate, GxLocalDate | GxLocalTime, GxLocalTime
  | DsePolygon, DsePolygon | DsePoint, DsePoint | DseLineString, DseLineString | DseBlob, DseBlob
  | GxByteBuffer, GxByteBuffer | GListT, GListT | GMapT, GMapT | GSetT, GSetT | DseTuple, DseTuple => true
  | _, _ => false
  end.

(* <TypeIO>.graphson_type; None when graphson_base_type is None (value written without envelope) *)
Definition tag_of (t : tio) : option tag :=
  match t with
  | TText | TBoolean | TJsonMap | TInteger | TWrapper => None
  | TByteBuffer => Some GxByteBuffer | TBlob => Some DseBlob | TBigDecimal => Some GxBigDecimal
  | TLocalDate => Some GxLocalDate | TLocalTime => Some GxLocalTime | TDurationIO => Some GxDuration
  | TInstant => Some GxInstant | TUUID => Some GUUID | TPolygon => Some DsePolygon | TPoint => Some DsePoint
  | TLineString => Some DseLineString | TFloat => Some GFloatT | TDouble => Some GDoubleT | TInet => Some GxInetAddress
  | TInt16 => Some GxInt16 | TInt32 => Some GInt32 | TInt64 => Some GInt64 | TBigInteger => Some GxBigInteger
  | TMap => Some GMapT | TListIO => Some GListT | TSetIO => Some GSetT | TTupleIO => Some DseTuple
  | TDseDuration => Some DseDuration
  end.

(* GraphSON{1,2,3}Deserializer._deserializers: graphson_type -> TypeIO *)
Definition deserializer_for (ver : version) (g : tag) : option tio :=
  match g with
  | GUUID => Some TUUID | GxBigDecimal => Some TBigDecimal | GxInstant => Some TInstant | DseBlob => Some TBlob
  | GxByteBuffer => Some TByteBuffer | DsePoint => Some TPoint | DseLineString => Some TLineString
  | DsePolygon => Some TPolygon | GxLocalDate => Some TLocalDate | GxLocalTime => Some TLocalTime
  | GxDuration => Some TDurationIO | GxInetAddress => Some TInet
  | GxInt16 => match ver with V1 => None | _ => Some TInt16 end
  | GInt32 => match ver with V1 => None | _ => Some TInt32 end
  | GInt64 => match ver with V1 => None | _ => Some TInt64 end
  | GDoubleT => match ver with V1 => None | _ => Some TDouble end
  | GFloatT => match ver with V1 => None | _ => Some TFloat end
  | GxBigInteger => match ver with V1 => None | _ => Some TBigInteger end
  | GMapT => match ver with V3 => Some TMap | _ => None end
  | GListT => match ver with V3 => Some TListIO | _ => None end
  | GSetT => match ver with V3 => Some TSetIO | _ => None end
  | DseTuple => match ver with V3 => Some TTupleIO | _ => None end
  | DseDuration => match ver with V3 => Some TDseDuration | _ => None end
  end.

(* ------------------------------------------------------------------ timedelta <-> "[-]P{d}DT{h}H{m}M{s}S" *)
(* The text is kept as its tokens: optional leading '-', days / hours / minutes as Python ints, the seconds token as
   the exact value sec + us / 10^6 it stands for, and whether that token is written in exponent notation. *)
Record durtext : Type :=
  { d_neg : bool; d_days : Z; d_hours : Z; d_minutes : Z; d_sec : Z; d_us : Z; d_sci : bool }.

(* DurationTypeIO.serialize, repaired:
     micros = (value.days * 86400 + value.seconds) * 1000000 + value.microseconds        -- exact
     sign = '-' if micros < 0 else ''
     total_seconds, micros = divmod(abs(micros), 1000000)
     days, total_seconds = divmod(total_seconds, 86400); hours, ... = divmod(..., 3600); minutes, ... = divmod(..., 60)
     seconds = '%d.%06d' % (total_seconds, micros), trailing zeros stripped (one decimal kept)  -- never an exponent *)
Definition duration_serialize (us : Z) : durtext :=
  let a := Z.abs us in
  let t := a / 1000000 in
  let days := t / 86400 in let t1 := t mod 86400 in
  let hours := t1 / 3600 in let t2 := t1 mod 3600 in
  let minutes := t2 / 60 in let t3 := t2 mod 60 in
  {| d_neg := us <? 0; d_days := days; d_hours := hours; d_minutes := minutes; d_sec := t3; d_us := a mod 1000000;
     d_sci := false |}.

(* repr(float) of sec + us/1e6 (0 <= sec < 60) switches to exponent notation below 1e-4: '1e-06' *)
Definition seconds_plain (sec us : Z) : bool := negb ((sec =? 0) && (0 <? us) && (us <? 100)).

(* DurationTypeIO.serialize before the repair:
     total_seconds = int(value.total_seconds())                      -- float division, truncation toward zero
     days, total_seconds = divmod(total_seconds, 86400); ... ; total_seconds += value.microseconds / 1e6
     "P{days}DT{hours}H{minutes}M{seconds}S".format(...)             -- seconds through repr(float) *)
Definition duration_serialize_legacy (us : Z) : durtext :=
  let t := ftrunc (int_truediv us 1000000) in
  let days := t / 86400 in let t1 := t mod 86400 in
  let hours := t1 / 3600 in let t2 := t1 mod 3600 in
  let minutes := t2 / 60 in let t3 := t2 mod 60 in
  {| d_neg := false; d_days := days; d_hours := hours; d_minutes := minutes; d_sec := t3; d_us := us mod 1000000;
     d_sci := negb (seconds_plain t3 (us mod 1000000)) |}.

(* DurationTypeIO._duration_regex: ^(-)?P((\d+)D)?T((\d+)H)?((\d+)M)?(([0-9.]+)S)?$ -- a '-' inside a component or an
   'e' in the seconds matches nothing (the optional leading '-' is part of the repair; the legacy text never has it) *)
Definition duration_regex_ok (d : durtext) : bool :=
  (0 <=? d_days d) && (0 <=? d_hours d) && (0 <=? d_minutes d) && (0 <=? d_sec d) && negb (d_sci d).

(* DurationTypeIO.deserialize: sign * timedelta(days=float, hours=float, minutes=float, seconds=float) -> microseconds *)
Definition duration_deserialize (d : durtext) : option Z :=
  if duration_regex_ok d
  then let a := ((d_days d * 24 + d_hours d) * 60 + d_minutes d) * 60000000 + d_sec d * 1000000 + d_us d in
       Some (if d_neg d then - a else a)
  else None.

Inductive blobkind : Type := BBytearray | BBytes | BMemoryview.
Inductive geomkind : Type := GPolygon | GPoint | GLineString.

(* ------------------------------------------------------------------ geometry (cassandra.util Point / LineString / Polygon) *)
(* coordinates are floats (dyadics); the text of a coordinate is repr(float), read back by geomet's wkt.loads (trusted).
   The WKT text is kept as tokens. *)
Definition pt : Type := ((Z * Z) * (Z * Z))%type.
Inductive geom : Type :=
| GeoPoint (p : pt)
| GeoLine (l : list pt)
| GeoPoly (ext : list pt) (ints : list (list pt)).     (* exterior ring, interior rings (holes) *)

Inductive wkt : Type :=
| WPoint (p : pt)                  (* "POINT (x y)" *)
| WLineEmpty | WLine (l : list pt) (* "LINESTRING EMPTY" / "LINESTRING (x y, ...)" *)
| WPolyEmpty | WPoly (rings : list (list pt)).   (* "POLYGON EMPTY" / "POLYGON ((..), (..), ...)" *)

Definition geom_kind (g : geom) : geomkind :=
  match g with GeoPoint _ => GPoint | GeoLine _ => GLineString | GeoPoly _ _ => GPolygon end.

(* __str__ *)
Definition geom_wkt (g : geom) : wkt :=
  match g with
  | GeoPoint p => WPoint p
  | GeoLine [] => WLineEmpty
  | GeoLine l => WLine l
  | GeoPoly [] _ => WPolyEmpty                    (* if not self.exterior.coords: "POLYGON EMPTY" *)
  | GeoPoly ext ints => WPoly (ext :: ints)       (* chain((self.exterior,), self.interiors) *)
  end.

(* <Class>.from_wkt: geomet gives {'type', 'coordinates'}; a type mismatch raises; then
     Polygon: exterior = coords[0] if len(coords) > 0 else (); interiors = coords[1:] if len(coords) > 1 else None *)
Definition from_wkt (k : geomkind) (w : wkt) : option geom :=
  match k, w with
  | GPoint, WPoint p => Some (GeoPoint p)
  | GLineString, WLineEmpty => Some (GeoLine [])
  | GLineString, WLine l => Some (GeoLine l)
  | GPolygon, WPolyEmpty => Some (GeoPoly [] [])
  | GPolygon, WPoly rings =>
      let ext := match rings with r :: _ => r | [] => [] end in
      let ints := if (1 <? length rings)%nat then tl rings else [] in
      Some (GeoPoly ext ints)
  | _, _ => None
  end.

(* ------------------------------------------------------------------ values and JSON *)

Section Leaves.
  (* Python's own formatters / parsers at the leaves *)
  Variables D Dt Tm Dtm U : Type.
  Variable dec_str : D -> list Z.                 (* str(Decimal) *)
  Variable dec_parse : list Z -> option D.        (* Decimal(text) *)
  Variable uuid_str : U -> list Z.                (* str(UUID) *)
  Variable uuid_parse : list Z -> option U.       (* uuid.UUID(text) *)
  Variable date_iso : Dt -> list Z.               (* date.isoformat() *)
  Variable strptime_date : list Z -> option Dt.   (* strptime(text, '%Y-%m-%d').date(); None = ValueError *)
  Variable time_fmt : Tm -> list Z.               (* time.strftime('%H:%M:%S.%f') *)
  Variable strptime_hm strptime_hms strptime_hmsf : list Z -> option Tm.
  Variable dtm_iso : Dtm -> list Z.               (* naive datetime .isoformat() *)
  Variable strptime_frac strptime_nofrac : list Z -> option Dtm.   (* '%Y-%m-%dT%H:%M:%S.%fZ' / '%Y-%m-%dT%H:%M:%SZ' *)

  Inductive gval : Type :=
  | GStr (s : list Z)
  | GBool (b : bool)
  | GInt (z : Z)
  | GFloat (m e : Z)                               (* finite float m * 2^e; json round trip of a float is exact (repr) *)
  | GBlob (k : blobkind) (bs : list Z)
  | GDecimal (d : D)
  | GDate (d : Dt)
  | GTime (t : Tm)
  | GDatetime (x : Dtm) (sub : bool)               (* naive datetime; sub = instance of a user subclass of datetime *)
  | GDatetimeAware (wall utc : Dtm)                (* aware datetime: its own wall-clock reading, and the naive UTC reading of
                                                      the same instant (wall - utcoffset; Python's datetime arithmetic) *)
  | GTimedelta (us : Z)                            (* datetime.timedelta, total microseconds *)
  | GUuid (u : U)
  | GGeom (g : geom)
  | GDuration (mo d ns : Z)                        (* cassandra.util.Duration *)
  | GList (l : list gval)
  | GSet (l : list gval)                           (* iteration order *)
  | GTuple (l : list gval)
  | GDict (l : list (gval * gval)).                (* items() order *)

  Inductive json : Type :=
  | JNull
  | JBool (b : bool)
  | JInt (z : Z)
  | JFloat (m e : Z)
  | JStr (s : list Z)
  | JWkt (w : wkt)                                 (* the WKT string of a geometry, tokenised *)
  | JDur (d : durtext)                             (* the string "P{days}DT{hours}H{minutes}M{seconds}S", tokenised *)
  | JList (l : list json)
  | JObj (l : list (list Z * json))                (* plain JSON object, string keys *)
  | JTyped (g : tag) (v : json)                    (* {"@type": g, "@value": v} *)
  | JPairs (l : list (json * json))                (* g:Map payload [k1, v1, k2, v2, ...] *)
  | JTuple (l : list json)                         (* dse:Tuple payload {"cqlType","definition","value": l}: value part *)
  | JDseDur (mo d ns : json).                      (* {"months":..,"days":..,"nanos":..} *)

  Definition class_of (v : gval) : pycls * bool :=
    match v with
    | GStr _ => (KStr, true) | GBool _ => (KBool, true) | GInt _ => (KInt, true) | GFloat _ _ => (KFloat, true)
    | GBlob BBytearray _ => (KBytearray, true) | GBlob BBytes _ => (KBytes, true) | GBlob BMemoryview _ => (KMemoryview, true)
    | GDecimal _ => (KDecimal, true) | GDate _ => (KDate, true) | GTime _ => (KTime, true)
    | GDatetime _ sub => (KDatetime, negb sub) | GDatetimeAware _ _ => (KDatetime, true) | GTimedelta _ => (KTimedelta, true) | GUuid _ => (KUuid, true)
    | GGeom g => (match geom_kind g with GPolygon => KPolygon | GPoint => KPoint | GLineString => KLineString end, true)
    | GDuration _ _ _ => (KDuration, true) | GList _ => (KList, true) | GSet _ => (KSet, true) | GTuple _ => (KTuple, true)
    | GDict _ => (KDict, true)
    end.

  Definition serializer_of (ver : version) (v : gval) : option tio :=
    let '(c, exact) := class_of v in
    get_serializer ver c exact (match v with GInt z => Some z | _ => None end).

  Definition gs_mapM {A B : Type} (f : A -> option B) : list A -> option (list B) :=
    fix go (l : list A) : option (list B) :=
    match l with
    | [] => Some []
    | x :: l' => match f x, go l' with Some y, Some ys => Some (y :: ys) | _, _ => None end
    end.

  (* <TypeIO>.serialize(value, writer) of the non-container classes.  None = Python raises. *)
  Definition tio_serialize (t : tio) (v : gval) : option json :=
    match t, v with
    | TText, GStr s => Some (JStr s)
    | TBoolean, GBool b => Some (JBool b)
    | TByteBuffer, GBlob _ bs | TBlob, GBlob _ bs => Some (JStr (b64_encode bs))
    | TBigDecimal, GDecimal d => Some (JStr (dec_str d))
    | TLocalDate, GDate d => Some (JStr (date_iso d))
    | TLocalDate, GDatetime x _ => Some (JStr (dtm_iso x))          (* value.isoformat() of a datetime *)
    | TLocalTime, GTime t => Some (JStr (time_fmt t))
    | TDurationIO, GTimedelta us => Some (JDur (duration_serialize us))
    | TInstant, GDatetime x _ => Some (JStr (dtm_iso x ++ [90]))    (* "{0}Z" *)
    (* built from value.utctimetuple() plus value.microsecond: the UTC reading of the instant, not the wall clock *)
    | TInstant, GDatetimeAware _ utc => Some (JStr (dtm_iso utc ++ [90]))
    | TUUID, GUuid u => Some (JStr (uuid_str u))
    | TPolygon, GGeom g | TPoint, GGeom g | TLineString, GGeom g => Some (JWkt (geom_wkt g))     (* str(value) *)
    | TFloat, GFloat m e | TDouble, GFloat m e => Some (JFloat m e)
    | TInt16, GInt z | TInt32, GInt z | TInt64, GInt z | TBigInteger, GInt z => Some (JInt z)
    | TDseDuration, GDuration mo d ns => Some (JDseDur (JInt mo) (JInt d) (JInt ns))
    | _, _ => None
    end.

  (* GraphSON2Serializer.serialize / GraphSON3Serializer (same method): typed envelope unless the base type is None *)
  Definition envelope (t : tio) (j : json) : json :=
    match tag_of t with Some g => JTyped g j | None => j end.

  (* containers by structural recursion (writer.serialize on the members) *)
  Fixpoint serialize23 (ver : version) (v : gval) {struct v} : option json :=
    match serializer_of ver v with
    | None => None                                 (* ValueError("Unable to find a serializer ...") *)
    | Some t =>
        option_map (envelope t)
          match t, v with
          | TJsonMap, GDict l =>                   (* {k: writer.serialize(v)}: JSON object, string keys *)
              option_map JObj (gs_mapM (fun kv => match kv with
                                                  | (GStr k, x) => option_map (pair k) (serialize23 ver x)
                                                  | _ => None end) l)
          | TMap, GDict l =>
              option_map JPairs (gs_mapM (fun kv => match kv with
                                                    | (k, x) => match serialize23 ver k, serialize23 ver x with
                                                                | Some a, Some b => Some (a, b) | _, _ => None end
                                                    end) l)
          | TListIO, GList l => option_map JList (gs_mapM (serialize23 ver) l)
          | TSetIO, GSet l => option_map JList (gs_mapM (serialize23 ver) l)
          | TTupleIO, GTuple l => option_map JTuple (gs_mapM (serialize23 ver) l)
          | _, _ => tio_serialize t v
          end
    end.

  (* GraphSON1Serializer.serialize (classmethod): no envelope; a value without serializer is returned as it is *)
  Definition serialize1 (v : gval) : option json :=
    match serializer_of V1 v with
    | Some t => tio_serialize t v       (* scalars; nested GraphSON1 maps carry no types: not modelled *)
    | None => match v with GInt z => Some (JInt z) | _ => None end
    end.

  (* ---------------------------------------------------------------- deserialisation *)
  Definition raw_of_json (j : json) : option gval :=
    match j with
    | JBool b => Some (GBool b) | JInt z => Some (GInt z) | JFloat m e => Some (GFloat m e) | JStr s => Some (GStr s)
    | _ => None
    end.

  (* hash(value): bytearray, list, set, dict are unhashable *)
  Fixpoint hashable (v : gval) : bool :=
    match v with
    | GBlob BBytearray _ | GList _ | GSet _ | GDict _ => false
    | GTuple l => forallb hashable l
    | _ => true
    end.

  (* set(lst) unless two deserialised elements are equal (then the list is returned); TypeError on an unhashable one *)
  Variable geqb : gval -> gval -> bool.
  Fixpoint nodupb (l : list gval) : bool :=
    match l with [] => true | x :: l' => negb (existsb (geqb x) l') && nodupb l' end.
  Definition set_build (l : list gval) : option gval :=
    if forallb hashable l then Some (if nodupb l then GSet l else GList l) else None.
  (* out[key] = val in order: a later equal key overwrites the earlier value (position kept) *)
  Fixpoint dict_put (k v : gval) (d : list (gval * gval)) : list (gval * gval) :=
    match d with
    | [] => [(k, v)]
    | (k', v') :: d' => if geqb k' k then (k', v) :: d' else (k', v') :: dict_put k v d'
    end.
  Definition dict_build (l : list (gval * gval)) : option gval :=
    if forallb (fun kv => hashable (fst kv)) l
    then Some (GDict (fold_left (fun d kv => dict_put (fst kv) (snd kv) d) l []))
    else None.

  (* scalar <TypeIO>.deserialize(value) *)
  Definition tio_deserialize_scalar (t : tio) (j : json) : option gval :=
    match t, j with
    | TInt16, _ | TInt32, _ | TInt64, _ | TBigInteger, _ | TInet, _ => raw_of_json j        (* value returned as it is *)
    | TFloat, JFloat m e | TDouble, JFloat m e => Some (GFloat m e)
    | TFloat, JInt z | TDouble, JInt z => let '(m, e) := f_of_int z in Some (GFloat m e)     (* float(value) *)
    | TUUID, JStr s => option_map GUuid (uuid_parse s)
    | TBigDecimal, JStr s => option_map GDecimal (dec_parse s)
    | TLocalDate, JStr s => match strptime_date s with Some d => Some (GDate d) | None => Some (GStr s) end
    | TLocalTime, JStr s =>
        match strptime_hm s with
        | Some t => Some (GTime t)
        | None => match strptime_hms s with
                  | Some t => Some (GTime t)
                  | None => option_map GTime (strptime_hmsf s)
                  end
        end
    | TInstant, JStr s =>
        match strptime_frac s with
        | Some x => Some (GDatetime x false)
        | None => option_map (fun x => GDatetime x false) (strptime_nofrac s)
        end
    | TByteBuffer, JStr s | TBlob, JStr s => option_map (GBlob BBytearray) (b64_decode s)
    | TDurationIO, JDur d => option_map GTimedelta (duration_deserialize d)
    | TPolygon, JWkt w => option_map GGeom (from_wkt GPolygon w)
    | TPoint, JWkt w => option_map GGeom (from_wkt GPoint w)
    | TLineString, JWkt w => option_map GGeom (from_wkt GLineString w)
    | _, _ => None
    end.

  Definition is_type_key (k : list Z) : bool :=       (* "@type" *)
    match k with [64; 116; 121; 112; 101] => true | _ => false end.

  (* GraphSON2Reader.deserialize / GraphSON3Reader.deserialize *)
  Fixpoint deserialize23 (ver : version) (j : json) {struct j} : option gval :=
    match j with
    | JTyped g body =>
        match deserializer_for ver g with
        | None => None                               (* unknown tag: falls to the plain-dict branch; not modelled *)
        | Some TListIO => match body with JList l => option_map GList (gs_mapM (deserialize23 ver) l) | _ => None end
        | Some TSetIO => match body with
                         | JList l => match gs_mapM (deserialize23 ver) l with Some xs => set_build xs | None => None end
                         | _ => None end
        | Some TMap =>
            match body with
            | JPairs l =>
                match gs_mapM (fun kv => match kv with
                                         | (a, b) => match deserialize23 ver a, deserialize23 ver b with
                                                     | Some x, Some y => Some (x, y) | _, _ => None end
                                         end) l with
                | Some xs => dict_build xs
                | None => None
                end
            | _ => None
            end
        | Some TTupleIO => match body with JTuple l => option_map GTuple (gs_mapM (deserialize23 ver) l) | _ => None end
        | Some TDseDuration =>
            match body with
            | JDseDur a b c =>
                match deserialize23 ver a, deserialize23 ver b, deserialize23 ver c with
                | Some (GInt mo), Some (GInt d), Some (GInt ns) => Some (GDuration mo d ns)
                | _, _, _ => None
                end
            | _ => None
            end
        | Some t => tio_deserialize_scalar t body
        end
    | JObj l =>
        (* {self.deserialize(k): self.deserialize(v)}; a user key "@type" would be taken for an envelope: not modelled *)
        if existsb (fun kv => is_type_key (fst kv)) l then None
        else match gs_mapM (fun kv => match kv with (k, x) => option_map (pair (GStr k)) (deserialize23 ver x) end) l with
             | Some xs => dict_build xs
             | None => None
             end
    | JList l => option_map GList (gs_mapM (deserialize23 ver) l)
    | JPairs _ | JTuple _ | JDseDur _ _ _ | JNull | JDur _ | JWkt _ => None
    | _ => raw_of_json j
    end.

  (* GraphSON1: the caller names the type: GraphSON1Deserializer.deserialize(graphson_type, value), or the
     deserialize_<cql type> helpers for the untagged scalars *)
  Definition deserialize1 (t : option tio) (j : json) : option gval :=
    match t with
    | Some TText | Some TBoolean | Some TInet => raw_of_json j            (* deserialize_boolean / deserialize_inet: value *)
    | Some TFloat => tio_deserialize_scalar TFloat j                      (* deserialize_double: float(value) *)
    | None => match j with JInt z => Some (GInt z) | _ => None end         (* deserialize_int: int(value) *)
    | Some t' => match tag_of t' with
                 | Some g => match deserializer_for V1 g with Some t'' => tio_deserialize_scalar t'' j | None => None end
                 | None => None
                 end
    end.

  (* what an equal value looks like after the trip: blobs come back as bytearray, a subclass instance as the base class *)
  Fixpoint norm (v : gval) : gval :=
    match v with
    | GBlob _ bs => GBlob BBytearray bs
    | GDatetime x _ => GDatetime x false
    | GDatetimeAware _ utc => GDatetime utc false      (* the same instant, read in UTC *)
    | GList l => GList (map norm l)
    | GSet l => GSet (map norm l)
    | GTuple l => GTuple (map norm l)
    | GDict l => GDict (map (fun kv => (norm (fst kv), norm (snd kv))) l)
    | _ => v
    end.
End Leaves.
