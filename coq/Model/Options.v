(* C46 model: cassandra/cluster.py Session._create_response_future (option resolution only) and
   cassandra/query.py BoundStatement.__init__ / Statement.__init__ (inheritance from the PreparedStatement).
   Policies, row factories, consistency levels, keyspaces, paging states are opaque integers.  NO proofs here. *)
From Coq Require Import ZArith List Bool.
Import ListNotations.
Local Open Scope Z_scope.

Inductive mode : Type := Legacy | Profiles.          (* cluster._config_mode == LEGACY / anything else *)
Inductive kind : Type := Simple | Bound | Batch.

(* Statement.fetch_size: FETCH_SIZE_UNSET, or an explicit value (None = "do not page") *)
Inductive fetch : Type := FUnset | FSet (v : option Z).

Record stmt_opts : Type := mkStmt {
  s_cl : option Z;            (* consistency_level (None = not set) *)
  s_serial : option Z;        (* serial_consistency_level *)
  s_retry : option Z;         (* retry_policy (None = not set) *)
  s_fetch : fetch;
  s_keyspace : option Z;
  s_idem : bool               (* is_idempotent *)
}.

(* BoundStatement(prepared, explicit constructor arguments): attributes copied from the PreparedStatement,
   then Statement.__init__ overwrites those given explicitly *)
Definition bound_of (prep expl : stmt_opts) (meta_keyspace : option Z) : stmt_opts :=
  mkStmt (match s_cl expl with Some v => Some v | None => s_cl prep end)
         (match s_serial expl with Some v => Some v | None => s_serial prep end)
         (match s_retry expl with Some v => Some v | None => s_retry prep end)
         (match s_fetch expl with FSet v => FSet v | FUnset => s_fetch prep end)
         (match s_keyspace expl with Some v => Some v | None => meta_keyspace end)
         (s_idem prep).

Record profile_opts : Type := mkProf {
  p_cl : Z; p_serial : option Z; p_retry : Z; p_timeout : option Z; p_rowf : Z; p_lbp : Z; p_spec : Z
}.

Record session_opts : Type := mkSess {
  d_cl : Z; d_serial : option Z; d_retry : Z; d_timeout : option Z; d_rowf : Z; d_lbp : Z;
  d_fetch : option Z;         (* Session.default_fetch_size *)
  d_use_ts : bool;            (* use_client_timestamp *)
  d_ts : Z;                   (* what cluster.timestamp_generator() returns next *)
  d_keyspace : option Z       (* session keyspace (for the speculative plan only) *)
}.

(* Where the profile's / the session's consistency level comes from: ExecutionProfile.__init__ records whether a level
   was passed (_consistency_level_explicit; default LOCAL_ONE = 10 otherwise) and Cluster._set_default_dbaas_consistency
   (run by connect() and add_execution_profile()) replaces only levels that were NOT chosen by LOCAL_QUORUM = 6 when the
   cluster is a DBaaS (Astra) one; the legacy session default is LOCAL_QUORUM there until the user assigns one. *)
Definition configured_cl (dbaas : bool) (chosen : option Z) : Z :=
  match chosen with Some v => v | None => if dbaas then 6 else 10 end.

(* the `timeout` argument of execute(): _NOT_SET or an explicit value (None = no timeout) *)
Inductive targ : Type := TNotSet | TSet (v : option Z).

Record fields : Type := mkFields {
  m_cl : Z; m_serial : option Z;
  m_fetch : option Z;          (* message.fetch_size; for a BatchMessage: None (no such field) *)
  m_ts : option Z; m_keyspace : option Z; m_paging : option Z;
  f_timeout : option Z; f_retry : Z; f_rowf : Z; f_lbp : Z;
  f_spec : option (Z * option Z)     (* speculative plan: (policy, keyspace passed to new_plan), None = no speculation *)
}.

Definition uses_keyspace_flag (pv : Z) : bool := (5 <=? pv) && negb (pv =? 65).    (* >= V5 and != DSE_V1 *)

Definition or_else (a : option Z) (b : option Z) : option Z := match a with Some v => Some v | None => b end.

Definition effective (m : mode) (k : kind) (st : stmt_opts) (pr : profile_opts) (se : session_opts)
    (t : targ) (paging : option Z) (pv : Z) : option fields :=
  let timeout := match t with TSet v => v | TNotSet => match m with Legacy => d_timeout se | Profiles => p_timeout pr end end in
  let cl := match s_cl st with Some v => v | None => match m with Legacy => d_cl se | Profiles => p_cl pr end end in
  let serial := match s_serial st with Some v => Some v | None => match m with Legacy => d_serial se | Profiles => p_serial pr end end in
  let retry := match s_retry st with Some v => v | None => match m with Legacy => d_retry se | Profiles => p_retry pr end end in
  let rowf := match m with Legacy => d_rowf se | Profiles => p_rowf pr end in
  let lbp := match m with Legacy => d_lbp se | Profiles => p_lbp pr end in
  let spec := match m with Legacy => None | Profiles => Some (p_spec pr) end in
  let fs := match s_fetch st with
            | FUnset => if 2 <=? pv then d_fetch se else None
            | FSet v => if pv =? 1 then None else v
            end in
  let ts := if (3 <=? pv) && d_use_ts se then Some (d_ts se) else None in
  let ks := if uses_keyspace_flag pv then s_keyspace st else None in
  let plan := match spec with
              | Some p => if s_idem st then Some (p, or_else (s_keyspace st) (d_keyspace se)) else None
              | None => None
              end in
  match k with
  | Simple => Some (mkFields cl serial fs ts ks paging timeout retry rowf lbp plan)
  | Bound => Some (mkFields cl serial fs ts None paging timeout retry rowf lbp plan)
  | Batch => if pv <? 2 then None      (* UnsupportedOperation *)
             else Some (mkFields cl serial None ts ks None timeout retry rowf lbp plan)
  end.

(* Can the request be encoded at this protocol version?  The encoder (cassandra/protocol.py) never drops an option it
   was given: a version that cannot carry it makes send_body raise UnsupportedOperation.
   BATCH below v3 has no flags byte (no serial consistency / timestamp / keyspace); QUERY/EXECUTE on v1 carry neither
   serial consistency nor paging.  (Keyspace and timestamp are already gated by `effective`.) *)
Definition truthy (o : option Z) : bool := match o with Some v => negb (v =? 0) | None => false end.
Definition is_some (o : option Z) : bool := match o with Some _ => true | None => false end.
Definition encodes (k : kind) (f : fields) (pv : Z) : bool :=
  match k with
  | Batch => if pv <? 3 then negb (truthy (m_serial f) || is_some (m_ts f) || is_some (m_keyspace f)) else true
  | _ => if pv <? 2 then negb (truthy (m_serial f) || truthy (m_fetch f) || is_some (m_paging f)) else true
  end.
Definition encodes_opt (k : kind) (o : option fields) (pv : Z) : bool :=
  match o with Some f => encodes k f pv | None => true end.

(* ResponseFuture._start_timer when the future is created: is the speculative-execution policy really in effect?
   delay = plan.next_execution(host) (negative: no speculation); the client timeout may be None (no timeout). *)
Inductive timer : Type := TSpec (delay : Z) | TTimeout (after : Z) | TNoTimer.
Definition first_timer (plan : option (Z * option Z)) (delay : Z) (timeout : option Z) : timer :=
  let by_timeout := match timeout with Some t => TTimeout t | None => TNoTimer end in
  match plan with
  | Some _ =>
      if 0 <=? delay then
        match timeout with
        | None => TSpec delay
        | Some t => if delay <? t then TSpec delay else by_timeout
        end
      else by_timeout
  | None => by_timeout
  end.
Definition first_timer_opt (o : option fields) (delay : Z) : timer :=
  match o with Some f => first_timer (f_spec f) delay (f_timeout f) | None => TNoTimer end.
Definition timer_eqb (a b : timer) : bool :=
  match a, b with TSpec x, TSpec y | TTimeout x, TTimeout y => x =? y | TNoTimer, TNoTimer => true | _, _ => false end.

(* Which configuration mode the cluster is in is derived from the history of configuration calls:
   SetLegacy  = a legacy setting is given: Cluster(load_balancing_policy= / default_retry_policy=), assigning
                cluster.default_retry_policy / load_balancing_policy or session.default_timeout /
                default_consistency_level / default_serial_consistency_level / row_factory
   UseProfiles = Cluster(execution_profiles=)
   AddProfile  = cluster.add_execution_profile(): refused in legacy mode, but (code as is) it does NOT commit the
                 cluster to profile mode -- a later legacy assignment is still accepted
   A call that contradicts the committed mode raises ValueError (None) and changes nothing. *)
Inductive cmode : Type := Uncommitted | CLegacy | CProfiles.
Inductive cfg_op : Type := SetLegacy | UseProfiles | AddProfile.
Definition cfg_step (m : cmode) (o : cfg_op) : option cmode :=
  match o, m with
  | SetLegacy, CProfiles => None
  | SetLegacy, _ => Some CLegacy
  | UseProfiles, CLegacy => None
  | UseProfiles, _ => Some CProfiles
  | AddProfile, CLegacy => None
  | AddProfile, _ => Some m
  end.
(* the application goes on after a ValueError: trace of (accepted?, mode afterwards) *)
Fixpoint cfg_trace (m : cmode) (ops : list cfg_op) : list (bool * cmode) :=
  match ops with
  | [] => []
  | o :: r => match cfg_step m o with Some m' => (true, m') :: cfg_trace m' r | None => (false, m) :: cfg_trace m r end
  end.
Fixpoint cfg_final (m : cmode) (ops : list cfg_op) : cmode :=
  match ops with [] => m | o :: r => cfg_final (match cfg_step m o with Some m' => m' | None => m end) r end.
Definition mode_of (m : cmode) : mode := match m with CLegacy => Legacy | _ => Profiles end.
Definition cmode_eqb (a b : cmode) : bool :=
  match a, b with Uncommitted, Uncommitted | CLegacy, CLegacy | CProfiles, CProfiles => true | _, _ => false end.
Fixpoint cfg_trace_eqb (a b : list (bool * cmode)) : bool :=
  match a, b with
  | [], [] => true
  | (x, m) :: a', (y, n) :: b' => Bool.eqb x y && cmode_eqb m n && cfg_trace_eqb a' b'
  | _, _ => false
  end.

(* Continuous paging (DSE): the options are a profile-only setting (none in legacy mode).  Whichever path delivers the
   rows -- an ordinary ROWS result or the pages streamed by a continuous paging session -- they are built by the row
   factory in effect (ResponseFuture.row_factory is handed to Connection.new_continuous_paging_session). *)
Definition continuous_in_effect (m : mode) (profile_has_options : bool) : bool :=
  match m with Legacy => false | Profiles => profile_has_options end.
Definition rows_built_by (f : fields) (continuous_path : bool) : Z := f_rowf f.
Definition built_by_opt (o : option fields) (continuous_path : bool) : option Z :=
  match o with Some f => Some (rows_built_by f continuous_path) | None => None end.

(* ---------- comparison helpers ---------- *)
Definition oz_eqb (a b : option Z) : bool :=
  match a, b with Some x, Some y => x =? y | None, None => true | _, _ => false end.
Definition plan_eqb (a b : option (Z * option Z)) : bool :=
  match a, b with Some (p, k), Some (q, l) => (p =? q) && oz_eqb k l | None, None => true | _, _ => false end.
Definition fields_eqb (a b : fields) : bool :=
  (m_cl a =? m_cl b) && oz_eqb (m_serial a) (m_serial b) && oz_eqb (m_fetch a) (m_fetch b) && oz_eqb (m_ts a) (m_ts b)
  && oz_eqb (m_keyspace a) (m_keyspace b) && oz_eqb (m_paging a) (m_paging b) && oz_eqb (f_timeout a) (f_timeout b)
  && (f_retry a =? f_retry b) && (f_rowf a =? f_rowf b) && (f_lbp a =? f_lbp b) && plan_eqb (f_spec a) (f_spec b).
Definition ofields_eqb (a b : option fields) : bool :=
  match a, b with Some x, Some y => fields_eqb x y | None, None => true | _, _ => false end.
Definition stmt_eqb (a b : stmt_opts) : bool :=
  oz_eqb (s_cl a) (s_cl b) && oz_eqb (s_serial a) (s_serial b) && oz_eqb (s_retry a) (s_retry b)
  && match s_fetch a, s_fetch b with FUnset, FUnset => true | FSet x, FSet y => oz_eqb x y | _, _ => false end
  && oz_eqb (s_keyspace a) (s_keyspace b) && Bool.eqb (s_idem a) (s_idem b).
