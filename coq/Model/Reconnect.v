(* C24 model: reconnection schedules over exact rationals (the policies are duck-typed; the correspondence runs
   the real code with fractions.Fraction parameters so results are compared exactly).
   Mirrors cassandra/policies.py ConstantReconnectionPolicy / ExponentialReconnectionPolicy (new_schedule, _add_jitter). *)
From Coq Require Import QArith Qminmax ZArith List Bool.
Local Open Scope Q_scope.

(* schedule = function from the attempt index to the delay (None = the iterator is exhausted at that index) *)
Definition limited {A} (max_attempts : option nat) (item : nat -> A) (i : nat) : option A :=
  match max_attempts with
  | Some n => if (i <? n)%nat then Some (item i) else None
  | None => Some (item i)
  end.

(* ConstantReconnectionPolicy.new_schedule: repeat(delay, max_attempts) / repeat(delay) *)
Definition constant_schedule (delay : Q) (max_attempts : option nat) : nat -> option Q :=
  limited max_attempts (fun _ => delay).

(* _add_jitter: jitter = randint(85, 115); delay = (jitter * value) / 100; min(max(base, delay), max) *)
Definition add_jitter (base max : Q) (jitter : Z) (value : Q) : Q :=
  Qmin (Qmax base ((inject_Z jitter * value) / (100 # 1))) max.

(* the doubling variable of new_schedule: starts at base_delay, doubles while still below max_delay *)
Fixpoint raw (base max : Q) (i : nat) : Q :=
  match i with
  | O => base
  | S k => let v := raw base max k in if Qlt_le_dec v max then v * (2 # 1) else v
  end.

Definition exp_item (base max : Q) (jit : nat -> Z) (i : nat) : Q :=
  add_jitter base max (jit i) (Qmin (raw base max i) max).

Definition exp_schedule (base max : Q) (max_attempts : option nat) (jit : nat -> Z) : nat -> option Q :=
  limited max_attempts (exp_item base max jit).

(* the pure doubling curve the property talks about *)
Definition curve (base max : Q) (i : nat) : Q := Qmin (base * (2 # 1) ^ (Z.of_nat i)) max.

(* executable helpers for the correspondence *)
Definition optQ_eqb (a b : option Q) : bool :=
  match a, b with Some x, Some y => Qeq_bool x y | None, None => true | _, _ => false end.

Fixpoint prefix_eqb (f : nat -> option Q) (i : nat) (l : list (option Q)) : bool :=
  match l with
  | nil => true
  | x :: l' => optQ_eqb (f i) x && prefix_eqb f (S i) l'
  end.

Definition jit_of (l : list Z) (i : nat) : Z := nth i l 100%Z.

(* ---- _ReconnectionHandler (cassandra/pool.py): how a schedule is consumed ----
   start(): first_delay = next(schedule) (StopIteration on an empty schedule: None here), schedule run().
   run(): try_reconnect; on failure next_delay = next(schedule) (None when exhausted); on_exception decides whether to
   continue (False for authentication failures); when next_delay is None the series ends, otherwise run() is scheduled
   again after next_delay.  A delay of 0 is a delay like any other. *)
Inductive attempt := AFail | AAuthFail | ASucceed.

Fixpoint handler_run (sched : list Q) (outcomes : list attempt) : list Q :=
  match outcomes with
  | nil => nil
  | AFail :: os => match sched with nil => nil | d :: r => d :: handler_run r os end
  | AAuthFail :: _ => nil
  | ASucceed :: _ => nil
  end.

(* delays passed to scheduler.schedule, in order; None = start() raised *)
Definition handler (sched : list Q) (outcomes : list attempt) : option (list Q) :=
  match sched with
  | nil => None
  | d0 :: r => Some (d0 :: handler_run r outcomes)
  end.

Fixpoint listQ_eqb (a b : list Q) : bool :=
  match a, b with
  | nil, nil => true
  | x :: a', y :: b' => Qeq_bool x y && listQ_eqb a' b'
  | _, _ => false
  end.
Definition optlistQ_eqb (a b : option (list Q)) : bool :=
  match a, b with Some x, Some y => listQ_eqb x y | None, None => true | _, _ => false end.
