(* Model of cassandra/pool.py HostConnectionPool (protocol v1/v2 pool): C12.  NO proofs in this file.
   One op per lock region / unlocked statement group, coarser than Model/Pool.v where nothing of the property depends on it:
   the condition-variable regions (_signal_available_conn, _await_available_conn) are not steps; connect failures of
   _add_conn_if_under_max are not modelled (the harness never scripts them).
   Connections: l_inflight = Connection.in_flight, l_orph = len(orphaned_request_ids), flags; ghost l_live = streams handed
   out and neither returned nor orphaned.  Connection ids = indices into `lconns` (every connection the pool ever opened). *)
From Coq Require Import ZArith List Bool.
From Verif Require Import Pool.
Import ListNotations.
Local Open Scope Z_scope.

Record lconn := mkL { l_inflight : Z; l_orph : Z; l_closed : bool; l_defunct : bool; l_signaled : bool; l_live : Z }.
Definition new_lconn : lconn := mkL 0 0 false false false 0.

Record lstate := mkLS {
  lconns : list lconn;
  active : list nat;             (* self._connections, in list order *)
  ltrash : list nat;             (* self._trash *)
  open_count : Z;
  scheduled : Z;                 (* self._scheduled_for_creation *)
  lshut : bool;
  lqueue : list bool;            (* executor: true = _create_new_connection, false = _retrying_replace *)
  adding : list (nat * bool);    (* (ticket, kind): tasks past the first region of _add_conn_if_under_max (open_count already incremented) *)
  appending : list (nat * (bool * nat)); (* (ticket, (kind, fresh connection)): before the locked append *)
  next_tid : nat;                (* ghost: ticket handed to the next task that passes the first region *)
  donec : Z;                     (* _create_new_connection calls whose `finally: scheduled -= 1` is still to run *)
  closing : list (nat * bool);   (* _replace: connection taken out of _connections (or not: false), close() still to run *)
  lphase : Z;                    (* shutdown(): 0 not started, 1 flag set, 2 looping over the connection list it read, 3 trash closed (done) *)
  sd_todo : list nat;            (* shutdown(): what is left of the list object `for conn in self._connections` iterates *)
  sd_hot : bool;                 (* shutdown(): inside the loop body, after conn.close() and before `self.open_count -= 1` *)
  core : Z; maxc : Z; lmaxid : Z; maxreqs : Z; minreqs : Z
}.

Definition linit (ncore : nat) (co mc mx mr mn : Z) : lstate :=
  mkLS (repeat new_lconn ncore) (seq 0 ncore) [] (Z.of_nat ncore) 0 false [] [] [] O 0 [] 0 [] false co mc mx mr mn.

Definition lset_conns s v := mkLS v (active s) (ltrash s) (open_count s) (scheduled s) (lshut s) (lqueue s) (adding s) (appending s) (next_tid s) (donec s) (closing s) (lphase s) (sd_todo s) (sd_hot s) (core s) (maxc s) (lmaxid s) (maxreqs s) (minreqs s).
Definition lset_active s v := mkLS (lconns s) v (ltrash s) (open_count s) (scheduled s) (lshut s) (lqueue s) (adding s) (appending s) (next_tid s) (donec s) (closing s) (lphase s) (sd_todo s) (sd_hot s) (core s) (maxc s) (lmaxid s) (maxreqs s) (minreqs s).
Definition lset_trash s v := mkLS (lconns s) (active s) v (open_count s) (scheduled s) (lshut s) (lqueue s) (adding s) (appending s) (next_tid s) (donec s) (closing s) (lphase s) (sd_todo s) (sd_hot s) (core s) (maxc s) (lmaxid s) (maxreqs s) (minreqs s).
Definition lset_open s v := mkLS (lconns s) (active s) (ltrash s) v (scheduled s) (lshut s) (lqueue s) (adding s) (appending s) (next_tid s) (donec s) (closing s) (lphase s) (sd_todo s) (sd_hot s) (core s) (maxc s) (lmaxid s) (maxreqs s) (minreqs s).
Definition lset_sched s v := mkLS (lconns s) (active s) (ltrash s) (open_count s) v (lshut s) (lqueue s) (adding s) (appending s) (next_tid s) (donec s) (closing s) (lphase s) (sd_todo s) (sd_hot s) (core s) (maxc s) (lmaxid s) (maxreqs s) (minreqs s).
Definition lset_shut s v := mkLS (lconns s) (active s) (ltrash s) (open_count s) (scheduled s) v (lqueue s) (adding s) (appending s) (next_tid s) (donec s) (closing s) (lphase s) (sd_todo s) (sd_hot s) (core s) (maxc s) (lmaxid s) (maxreqs s) (minreqs s).
Definition lset_queue s v := mkLS (lconns s) (active s) (ltrash s) (open_count s) (scheduled s) (lshut s) v (adding s) (appending s) (next_tid s) (donec s) (closing s) (lphase s) (sd_todo s) (sd_hot s) (core s) (maxc s) (lmaxid s) (maxreqs s) (minreqs s).
Definition lset_adding s v := mkLS (lconns s) (active s) (ltrash s) (open_count s) (scheduled s) (lshut s) (lqueue s) v (appending s) (next_tid s) (donec s) (closing s) (lphase s) (sd_todo s) (sd_hot s) (core s) (maxc s) (lmaxid s) (maxreqs s) (minreqs s).
Definition lset_appending s v := mkLS (lconns s) (active s) (ltrash s) (open_count s) (scheduled s) (lshut s) (lqueue s) (adding s) v (next_tid s) (donec s) (closing s) (lphase s) (sd_todo s) (sd_hot s) (core s) (maxc s) (lmaxid s) (maxreqs s) (minreqs s).
Definition lset_tid s v := mkLS (lconns s) (active s) (ltrash s) (open_count s) (scheduled s) (lshut s) (lqueue s) (adding s) (appending s) v (donec s) (closing s) (lphase s) (sd_todo s) (sd_hot s) (core s) (maxc s) (lmaxid s) (maxreqs s) (minreqs s).
Definition lset_donec s v := mkLS (lconns s) (active s) (ltrash s) (open_count s) (scheduled s) (lshut s) (lqueue s) (adding s) (appending s) (next_tid s) v (closing s) (lphase s) (sd_todo s) (sd_hot s) (core s) (maxc s) (lmaxid s) (maxreqs s) (minreqs s).
Definition lset_closing s v := mkLS (lconns s) (active s) (ltrash s) (open_count s) (scheduled s) (lshut s) (lqueue s) (adding s) (appending s) (next_tid s) (donec s) v (lphase s) (sd_todo s) (sd_hot s) (core s) (maxc s) (lmaxid s) (maxreqs s) (minreqs s).
Definition lset_phase s v := mkLS (lconns s) (active s) (ltrash s) (open_count s) (scheduled s) (lshut s) (lqueue s) (adding s) (appending s) (next_tid s) (donec s) (closing s) v (sd_todo s) (sd_hot s) (core s) (maxc s) (lmaxid s) (maxreqs s) (minreqs s).
Definition lset_todo s v := mkLS (lconns s) (active s) (ltrash s) (open_count s) (scheduled s) (lshut s) (lqueue s) (adding s) (appending s) (next_tid s) (donec s) (closing s) (lphase s) v (sd_hot s) (core s) (maxc s) (lmaxid s) (maxreqs s) (minreqs s).
Definition lset_hot s v := mkLS (lconns s) (active s) (ltrash s) (open_count s) (scheduled s) (lshut s) (lqueue s) (adding s) (appending s) (next_tid s) (donec s) (closing s) (lphase s) (sd_todo s) v (core s) (maxc s) (lmaxid s) (maxreqs s) (minreqs s).

Definition lget (s : lstate) (c : nat) : lconn := nth c (lconns s) new_lconn.
Definition lvalid (s : lstate) (c : nat) : bool := Nat.ltb c (length (lconns s)).
Definition lupd (s : lstate) (c : nat) (f : lconn -> lconn) : lstate := lset_conns s (upd c f (lconns s)).

Definition j_take (k : lconn) := mkL (l_inflight k + 1) (l_orph k) (l_closed k) (l_defunct k) (l_signaled k) (l_live k + 1).
Definition j_give (k : lconn) := mkL (l_inflight k - 1) (l_orph k) (l_closed k) (l_defunct k) (l_signaled k) (l_live k - 1).
Definition j_orphan (k : lconn) := mkL (l_inflight k) (l_orph k + 1) (l_closed k) (l_defunct k) (l_signaled k) (l_live k - 1).
Definition j_late (k : lconn) := mkL (l_inflight k - 1) (l_orph k - 1) (l_closed k) (l_defunct k) (l_signaled k) (l_live k).
Definition j_close (k : lconn) := mkL (l_inflight k) (l_orph k) true (l_defunct k) (l_signaled k) (l_live k).
Definition j_defunct (k : lconn) := mkL (l_inflight k) (l_orph k) true true (l_signaled k) (l_live k).
Definition j_signal (k : lconn) := mkL (l_inflight k) (l_orph k) (l_closed k) (l_defunct k) true (l_live k).
Definition ldead (k : lconn) : bool := l_defunct k || l_closed k.
Definition lclose_all (l : list nat) (cs : list lconn) : list lconn := fold_left (fun acc c => upd c j_close acc) l cs.

(* min(conns, key=lambda c: c.in_flight): the first connection with the smallest in_flight *)
Fixpoint least_busy_from (s : lstate) (best : nat) (l : list nat) : nat :=
  match l with
  | [] => best
  | c :: t => if l_inflight (lget s c) <? l_inflight (lget s best) then least_busy_from s c t else least_busy_from s best t
  end.
Definition least_busy (s : lstate) : option nat :=
  match active s with [] => None | c :: t => Some (least_busy_from s c t) end.

Fixpoint find_tid {A} (tid : nat) (l : list (nat * A)) : option A :=
  match l with [] => None | (i, a) :: t => if Nat.eqb i tid then Some a else find_tid tid t end.
Fixpoint del_tid {A} (tid : nat) (l : list (nat * A)) : list (nat * A) :=
  match l with [] => [] | (i, a) :: t => if Nat.eqb i tid then t else (i, a) :: del_tid tid t end.

Inductive lout :=
| LConn (c : nat) | LErrShutdown | LErrNoConn | LBool (b : bool) | LNum (z : Z)
| LRead (isdead signaled intrash : bool) (nconns : Z)
| LClose (c : nat) | LOpen (c : nat) | LNone.

Inductive lop :=
| LShutCheck                     (* unlocked read of is_shutdown (borrow_connection, _wait_for_conn) *)
| LPick                          (* unlocked read of _connections + min by in_flight *)
| LTake (c : nat)                (* `with least_busy.lock`: capacity test, in_flight += 1 *)
| LScheduleCore                  (* empty-pool branch of borrow_connection / ensure_core_connections: `with self._lock` *)
| LSpawnRead (c : nat)           (* unlocked: least_busy.in_flight >= max_reqs and len(_connections) < max_conns *)
| LMaybeSpawn                    (* _maybe_spawn_new_connection: `with self._lock` (+ submit) *)
| LTaskCheck                     (* _add_conn_if_under_max: first `with self._lock` *)
| LTaskConnect (tid : nat)       (* connection_factory *)
| LTaskAppend (tid : nat)        (* _add_conn_if_under_max: `with self._lock` appending the fresh connection (closing it if shut down) *)
| LTaskDone                      (* _create_new_connection: `finally: with self._lock: scheduled -= 1` *)
| LReturnDec (c : nat) (orphaned : bool)   (* return_connection: `with connection.lock` *)
| LReturnRead (c : nat)          (* unlocked reads: is_defunct/is_closed/signaled_error, `in self._trash`, len(_connections) *)
| LSignal (c : nat)              (* signal_connection_failure returned (oracle in the program), signaled_error = True *)
| LReplaceRemove (c : nat)       (* _replace: `with self._lock` *)
| LReplaceClose                  (* _replace: connection.close() (+ submit _retrying_replace) *)
| LReturnTrash (c : nat)         (* return_connection trash branch: `with connection.lock` (+ `self._lock`) *)
| LTrash (c : nat)               (* _maybe_trash_connection: `with self._lock` *)
| LShutdownFlag                  (* shutdown(): `with self._lock` *)
| LShutdownSnap                  (* shutdown(): `for conn in self._connections` reads the list object *)
| LShutdownNext                  (* [self.open_count -= 1 of the previous iteration;] the iterator advances; conn.close() *)
| LShutdownTrash                 (* `for conn in self._trash: conn.close()` *)
| LWait                          (* _await_available_conn: the borrower is parked on the condition; it resumes after other steps *)
| LOrphan (c : nat) | LLate (c : nat) | LRecycle | LDefunct (c : nat).   (* LRecycle: process_msg `with self.lock: request_ids.append` *)

Definition lstep (s : lstate) (o : lop) : lstate * list lout :=
  match o with
  | LShutCheck => (s, [LBool (lshut s)])
  | LPick => (s, [match least_busy s with Some c => LConn c | None => LNone end])
  | LTake c =>
      let k := lget s c in
      if lvalid s c && (l_inflight k <? lmaxid s) then (lupd s c j_take, [LBool true]) else (s, [LBool false])
  | LScheduleCore =>
      let n := core s - (Z.of_nat (length (active s)) + scheduled s) in
      if 0 <? n then (lset_queue (lset_sched s (scheduled s + n)) (lqueue s ++ repeat true (Z.to_nat n)), [LNum n]) else (s, [LNum 0])
  | LSpawnRead c => (s, [LBool ((maxreqs s <=? l_inflight (lget s c)) && (Z.of_nat (length (active s)) <? maxc s))])
  | LMaybeSpawn =>
      if (1 <=? scheduled s) || (maxc s <=? open_count s) then (s, [LBool false])
      else (lset_queue (lset_sched s (scheduled s + 1)) (lqueue s ++ [true]), [LBool true])
  | LTaskCheck =>
      match lqueue s with
      | t :: q =>
          let s1 := lset_queue s q in
          if lshut s || (maxc s <=? open_count s)
          then (if t then lset_donec s1 (donec s + 1) else s1, [LBool false; LBool t])
          else (lset_tid (lset_adding (lset_open s1 (open_count s + 1)) (adding s ++ [(next_tid s, t)])) (S (next_tid s)),
                [LBool true; LBool t; LNum (Z.of_nat (next_tid s))])
      | [] => (s, [])
      end
  | LTaskConnect tid =>
      match find_tid tid (adding s) with
      | Some t => let n := length (lconns s) in
                  (lset_appending (lset_conns (lset_adding s (del_tid tid (adding s))) (lconns s ++ [new_lconn])) (appending s ++ [(tid, (t, n))]), [LOpen n])
      | None => (s, [])
      end
  | LTaskAppend tid =>
      match find_tid tid (appending s) with
      | Some (t, n) =>
          let s1 := lset_appending s (del_tid tid (appending s)) in
          let s2 := if lshut s then lupd (lset_open s1 (open_count s - 1)) n j_close else lset_active s1 (active s ++ [n]) in
          (if t then lset_donec s2 (donec s + 1) else s2, if lshut s then [LClose n] else [])
      | None => (s, [])
      end
  | LTaskDone => if 0 <? donec s then (lset_sched (lset_donec s (donec s - 1)) (scheduled s - 1), []) else (s, [])
  | LReturnDec c orphaned =>
      if lvalid s c then
        if orphaned then (s, [LNum (l_inflight (lget s c))])
        else if 0 <? l_live (lget s c) then (lupd s c j_give, [LNum (l_inflight (lget s c) - 1)]) else (s, [])
      else (s, [])
  | LReturnRead c =>
      let k := lget s c in (s, [LRead (ldead k) (l_signaled k) (mem c (ltrash s)) (Z.of_nat (length (active s)))])
  | LSignal c => if lvalid s c then (lupd s c j_signal, []) else (s, [])
  | LReplaceRemove c =>
      if mem c (active s) then (lset_closing (lset_open (lset_active s (del c (active s))) (open_count s - 1)) (closing s ++ [(c, true)]), [LBool true])
      else (lset_closing s (closing s ++ [(c, false)]), [LBool false])
  | LReplaceClose =>
      match closing s with
      | (c, removed) :: r =>
          let s1 := lupd (lset_closing s r) c j_close in
          (if removed then lset_queue s1 (lqueue s ++ [false]) else s1, [LClose c])
      | [] => (s, [])
      end
  | LReturnTrash c =>
      if lvalid s c && (l_inflight (lget s c) =? 0)
      then (lupd (lset_trash s (del c (ltrash s))) c j_close, [LClose c]) else (s, [])
  | LTrash c =>
      if mem c (active s) && (core s <? open_count s) then
        let s1 := lset_open (lset_active s (del c (active s))) (open_count s - 1) in
        if l_inflight (lget s c) =? 0 then (lupd s1 c j_close, [LClose c]) else (lset_trash s1 (ins c (ltrash s)), [LBool true])
      else (s, [])
  | LShutdownFlag => if lshut s then (s, [LBool false]) else (lset_phase (lset_shut s true) 1, [LBool true])
  | LShutdownSnap => if lphase s =? 1 then (lset_todo (lset_phase s 2) (active s), []) else (s, [])
  | LShutdownNext =>
      if lphase s =? 2 then
        let s0 := if sd_hot s then lset_open s (open_count s - 1) else s in     (* `self.open_count -= 1` of the previous iteration *)
        match sd_todo s with
        | c :: r => (lupd (lset_hot (lset_todo s0 r) true) c j_close, [LBool true; LClose c])
        | [] => (lset_hot s0 false, [LBool false])
        end
      else (s, [LBool false])
  | LShutdownTrash =>
      if (lphase s =? 2) && (match sd_todo s with [] => true | _ => false end)
      then (lset_conns (lset_phase s 3) (lclose_all (ltrash s) (lconns s)), map LClose (ltrash s)) else (s, [])
  | LWait => (s, [])
  | LOrphan c => if lvalid s c && (0 <? l_live (lget s c)) then (lupd s c j_orphan, []) else (s, [])
  | LLate c => if lvalid s c && (0 <? l_orph (lget s c)) then (lupd s c j_late, []) else (s, [])
  | LRecycle => (s, [])
  | LDefunct c => if lvalid s c && negb (ldead (lget s c)) then (lupd s c j_defunct, [LClose c]) else (s, [])
  end.

Definition lrun (s : lstate) (ops : list lop) : lstate := fold_left (fun st o => fst (lstep st o)) ops s.

Definition lno_tasks (s : lstate) : bool :=
  match lqueue s, adding s, appending s, closing s with [], [], [], [] => donec s =? 0 | _, _, _, _ => false end.
Definition lquiescent (s : lstate) : bool := lno_tasks s && (lphase s =? 3).
Definition lall_closed (s : lstate) : bool := forallb l_closed (lconns s).

(* ------------------------------------------------------------------------------------------------ sequential programs *)
Inductive lprog := LRet (r : lout) | LDo (o : lop) (k : list lout -> lprog).
Definition lfirst (r : list lout) : lout := match r with x :: _ => x | [] => LNone end.

Fixpoint lshutdown_loop (fuel : nat) : lprog :=
  match fuel with
  | O => LDo LShutdownTrash (fun _ => LRet LNone)
  | S f => LDo LShutdownNext (fun r => match lfirst r with
             | LBool true => lshutdown_loop f
             | _ => LDo LShutdownTrash (fun _ => LRet LNone) end)
  end.
Definition lshutdown_prog (fuel : nat) : lprog :=
  LDo LShutdownFlag (fun r => match lfirst r with
    | LBool true => LDo LShutdownSnap (fun _ => lshutdown_loop fuel)
    | _ => LRet LNone end).

(* _wait_for_conn: each iteration = (spurious) wake-up, shutdown test, pick, capacity test *)
Fixpoint lwait_loop (fuel : nat) (k : lout -> lprog) : lprog :=
  match fuel with
  | O => k LErrNoConn
  | S f => LDo LWait (fun _ => LDo LShutCheck (fun r => match lfirst r with
      | LBool true => k LErrShutdown
      | _ => LDo LPick (fun r2 => match lfirst r2 with
          | LConn c => LDo (LTake c) (fun r3 => match lfirst r3 with LBool true => k (LConn c) | _ => lwait_loop f k end)
          | _ => lwait_loop f k end)
      end))
  end.

Definition lspawn_check (c : nat) : lprog :=
  LDo (LSpawnRead c) (fun r => match lfirst r with
    | LBool true => LDo LMaybeSpawn (fun _ => LRet (LConn c))
    | _ => LRet (LConn c) end).

Definition lborrow_prog (fuel : nat) : lprog :=
  LDo LShutCheck (fun r => match lfirst r with
    | LBool true => LRet LErrShutdown
    | _ => LDo LPick (fun r2 => match lfirst r2 with
        | LConn c => LDo (LTake c) (fun r3 => match lfirst r3 with
            | LBool true => lspawn_check c
            | _ => lwait_loop fuel (fun x => match x with LConn c2 => lspawn_check c2 | y => LRet y end) end)
        | _ => LDo LScheduleCore (fun _ => lwait_loop fuel LRet)
        end)
    end).

Definition lreplace_prog (c : nat) : lprog :=
  LDo (LReplaceRemove c) (fun _ => LDo LReplaceClose (fun _ => LRet LNone)).

(* return_connection; trash_ok = the wall-clock condition time.time() >= self._next_trash_allowed_at (scripted) *)
Definition lreturn_prog (sdfuel : nat) (c : nat) (orphaned down trash_ok : bool) (co mn : Z) : lprog :=
  LDo (LReturnDec c orphaned) (fun r => match lfirst r with
    | LNum inflight => LDo (LReturnRead c) (fun r2 => match lfirst r2 with
        | LRead true sg _ _ => if sg then LRet LNone else LDo (LSignal c) (fun _ => if down then lshutdown_prog sdfuel else lreplace_prog c)
        | LRead false _ true _ => LDo (LReturnTrash c) (fun _ => LRet LNone)
        | LRead false _ false n => if (co <? n) && (inflight <=? mn) && trash_ok then LDo (LTrash c) (fun _ => LRet LNone) else LRet LNone
        | _ => LRet LNone end)
    | _ => LRet LNone end).

Definition lsecond (r : list lout) : lout := match r with _ :: x :: _ => x | _ => LNone end.
(* one executor task: _create_new_connection (ends with the `finally` region) or _retrying_replace *)
Definition ltask_prog : lprog :=
  LDo LTaskCheck (fun r =>
    let fin := match lsecond r with LBool true => LDo LTaskDone (fun _ => LRet LNone) | _ => LRet LNone end in
    match lfirst r, r with
    | LBool true, [_; _; LNum z] => let tid := Z.to_nat z in LDo (LTaskConnect tid) (fun _ => LDo (LTaskAppend tid) (fun _ => fin))
    | _, _ => fin end).

Inductive lmop :=
| LMBorrow (fuel : nat) | LMReturn (c : nat) (down trash_ok : bool) | LMOrphan (c : nat) (down trash_ok : bool) | LMLate (c : nat)
| LMDefunct (c : nat) | LMTask | LMShutdown | LMEnsureCore.

Definition lprog_of (s0 : lstate) (m : lmop) : lprog :=
  match m with
  | LMBorrow f => lborrow_prog f
  | LMReturn c d t => lreturn_prog (length (lconns s0) + 8) c false d t (core s0) (minreqs s0)
  | LMOrphan c d t => LDo (LOrphan c) (fun _ => lreturn_prog (length (lconns s0) + 8) c true d t (core s0) (minreqs s0))
  | LMLate c => LDo (LLate c) (fun _ => LDo LRecycle (fun _ => LRet LNone))
  | LMDefunct c => LDo (LDefunct c) (fun _ => LRet LNone)
  | LMTask => ltask_prog
  | LMShutdown => lshutdown_prog (length (lconns s0) + 8)
  | LMEnsureCore => LDo LShutCheck (fun r => match lfirst r with LBool true => LRet LNone | _ => LDo LScheduleCore (fun _ => LRet LNone) end)
  end.

(* instrumented points of the real code: outermost lock acquisitions (pool._lock, Connection.lock), the factory call, the
   failure signal and the first flag read of return_connection *)
Definition lhooked (o : lop) : bool :=
  match o with
  | LTake _ | LScheduleCore | LMaybeSpawn | LTaskCheck | LTaskConnect _ | LTaskAppend _ | LTaskDone
  | LReturnDec _ _ | LReturnRead _ | LSignal _ | LReplaceRemove _ | LReturnTrash _ | LTrash _ | LShutdownFlag | LLate _ | LRecycle | LWait | LShutdownNext => true
  | _ => false
  end.

(* LShutdownNext is an instrumented point (the close() call) only when a connection is left to close *)
Definition lhooked_s (s : lstate) (o : lop) : bool :=
  match o with
  | LShutdownNext => (lphase s =? 2) && sd_hot s     (* the instrumented point is the end of the previous conn.close() *)
  | _ => lhooked o
  end.

(* a program run on its own, no other thread in between *)
Fixpoint lexec (p : lprog) (s : lstate) : lstate * lout :=
  match p with
  | LRet r => (s, r)
  | LDo o k => let '(s2, r) := lstep s o in lexec (k r) s2
  end.

Definition lsnap_conn (k : lconn) : list Z :=
  [l_inflight k; l_orph k; b2z (l_closed k); b2z (l_defunct k); b2z (l_signaled k)].
Definition lsnap (s : lstate) : list Z :=
  [100; open_count s; scheduled s; b2z (lshut s)] ++ (101 :: map Z.of_nat (active s)) ++ (102 :: map Z.of_nat (ltrash s))
  ++ (103 :: map (fun t : bool => b2z t) (lqueue s)) ++ (104 :: flat_map lsnap_conn (lconns s)).
Definition lres_code (r : lout) : list Z :=
  match r with LConn c => [200; Z.of_nat c] | LErrShutdown => [201] | LErrNoConn => [202] | _ => [205] end.

Fixpoint lrun_prog0 (p : lprog) (s : lstate) (acc : list (list Z)) : lstate * list (list Z) :=
  match p with
  | LRet r => (s, lres_code r :: lsnap s :: acc)
  | LDo o k => let acc1 := if lhooked_s s o then lsnap s :: acc else acc in
               let '(s2, r) := lstep s o in lrun_prog0 (k r) s2 acc1
  end.
Fixpoint lrun_ints (l : list lmop) (s : lstate) (acc : list (list Z)) : lstate * list (list Z) :=
  match l with
  | [] => (s, acc)
  | m :: r => let '(s1, acc1) := lrun_prog0 (lprog_of s m) s acc in lrun_ints r s1 acc1
  end.
Fixpoint lrun_prog (p : lprog) (ints : list (list lmop)) (s : lstate) (acc : list (list Z)) : lstate * list (list Z) :=
  match p with
  | LRet r => (s, lres_code r :: lsnap s :: acc)
  | LDo o k =>
      if lhooked_s s o then
        let '(s1, acc1) := lrun_ints (hd [] ints) s (lsnap s :: acc) in
        let '(s2, r) := lstep s1 o in lrun_prog (k r) (tl ints) s2 acc1
      else let '(s2, r) := lstep s o in lrun_prog (k r) ints s2 acc
  end.
Fixpoint lrun_hist (h : list (lmop * list (list lmop))) (s : lstate) (acc : list (list Z)) : lstate * list (list Z) :=
  match h with
  | [] => (s, acc)
  | (m, ints) :: r => let '(s1, acc1) := lrun_prog (lprog_of s m) ints s acc in lrun_hist r s1 acc1
  end.
Definition ltrace (ncore : nat) (co mc mx mr mn : Z) (h : list (lmop * list (list lmop))) : list (list Z) :=
  rev (snd (lrun_hist h (linit ncore co mc mx mr mn) [])).
