(* CRC functions of cassandra/segment.py (C06).  Executable model, no proofs here.
   compute_crc24 mirrors the Python loop statement by statement (integer `data`, `length` bytes, LSB first);
   zlib.crc32 is external C code: modelled as the bitwise reflected CRC-32 (poly 0xEDB88320, init/xorout 0xFFFFFFFF)
   and tied to zlib by correspondence. *)
From Coq Require Import ZArith List.
Import ListNotations.
Local Open Scope Z_scope.

Definition CRC24_INIT : Z := 0x875060.
Definition CRC24_POLY : Z := 0x1974F0B.
Definition CRC24_LENGTH : Z := 3.
Definition CRC32_LENGTH : Z := 4.

Fixpoint iter {A : Type} (n : nat) (f : A -> A) (x : A) : A :=
  match n with O => x | S k => iter k f (f x) end.

(* crc <<= 1; if crc & 0x1000000 != 0: crc ^= CRC24_POLY *)
Definition crc24_bit (crc : Z) : Z :=
  let c := Z.shiftl crc 1 in
  if Z.land c 0x1000000 =? 0 then c else Z.lxor c CRC24_POLY.

(* crc ^= (data & 0xff) << 16; data >>= 8; for i in range(8): <crc24_bit> *)
Definition crc24_byte (st : Z * Z) : Z * Z :=
  let '(crc, data) := st in
  (iter 8 crc24_bit (Z.lxor crc (Z.shiftl (Z.land data 255) 16)), Z.shiftr data 8).

Definition crc24_from (init data : Z) (length : nat) : Z :=
  fst (iter length crc24_byte (init, data)).

Definition compute_crc24 (data : Z) (length : nat) : Z := crc24_from CRC24_INIT data length.

(* ---- CRC-32 as computed by zlib.crc32(data, value) ---- *)
Definition CRC32_POLY : Z := 0xEDB88320.
Definition MASK32 : Z := 0xFFFFFFFF.

Definition crc32_bit (c : Z) : Z :=
  let s := Z.shiftr c 1 in
  if Z.odd c then Z.lxor s CRC32_POLY else s.

Definition crc32_byte (c b : Z) : Z := iter 8 crc32_bit (Z.lxor c b).

Definition crc32_raw (c : Z) (data : list Z) : Z := fold_left crc32_byte data c.

Definition zlib_crc32 (data : list Z) (value : Z) : Z :=
  Z.lxor (crc32_raw (Z.lxor value MASK32) data) MASK32.

(* CRC32_INITIAL = zlib.crc32(b"\xfa\x2d\x55\xca") *)
Definition CRC32_INITIAL : Z := zlib_crc32 [0xfa; 0x2d; 0x55; 0xca] 0.

Definition compute_crc32 (data : list Z) (value : Z) : Z := zlib_crc32 data value.
