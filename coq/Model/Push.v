(* C11 model: messages pushed from several threads onto one event-loop connection.

   cassandra/io/asyncioreactor.py  AsyncioConnection.push      -> `chunks` (in the calling thread), then
                                   run_coroutine_threadsafe(_push_msg(chunks)) (application thread) or
                                   loop.create_task(_push_msg(chunks)) (loop thread)            = op Push
                                   the loop runs its oldest ready entry (handoff -> task step; task step = _push_msg,
                                   no await between put_nowait calls)                           = op RunReady
                                   handle_write: get() one chunk, sock_sendall it; the socket may accept the chunk in
                                   several partial sends                                        = op SendPart k
   cassandra/io/twistedreactor.py  TwistedConnection.push      -> reactor.callFromThread(transport.write, data)
                                   = mode Whole: the task carries the message as a single chunk.
   Any interleaving of threads and loop steps is a list of ops.  No proofs in this file. *)
From Coq Require Import ZArith List Bool Arith.
Import ListNotations.

Definition msg := list Z.

(* push(): if len(data) > n: [data[i:i+n] for i in range(0, len(data), n)] else [data]
   (None = Python raises: range() with step 0) *)
Fixpoint split_every (fuel n : nat) (m : msg) : option (list msg) :=
  match m with
  | [] => Some []
  | _ :: _ =>
    match fuel with
    | O => None
    | S f => match split_every f n (skipn n m) with
             | Some cs => Some (firstn n m :: cs)
             | None => None
             end
    end
  end.

Definition chunks (n : nat) (m : msg) : option (list msg) :=
  if length m <=? n then Some [m]
  else if n =? 0 then None
  else split_every (length m) n m.

Inductive mode := Chunked (n : nat) | Whole.

Definition chunks_mode (md : mode) (m : msg) : option (list msg) :=
  match md with Chunked n => chunks n m | Whole => Some [m] end.

Definition mode_ok (md : mode) : Prop := match md with Chunked n => (0 < n)%nat | Whole => True end.

Record task := mkTask { t_thread : nat; t_msg : msg; t_chunks : list msg }.

(* The event loop's ready queue (asyncio `_ready`, twisted `threadCallQueue`) is ONE FIFO.
   asyncio, push() from an application thread: run_coroutine_threadsafe = a threadsafe callback (EHandoff) that, when run,
     creates the _push_msg task, whose first step (EStep) is appended to the SAME queue;
   asyncio, push() on the loop thread itself (response callbacks: handshake steps, retries, ...): loop.create_task ->
     EStep directly;   twisted, any thread: reactor.callFromThread(transport.write, data) -> EStep directly (one chunk).
   `direct t` says which mechanism thread t uses (asyncio: t is the loop thread; twisted: every thread). *)
Inductive entry := EHandoff (tk : task) | EStep (tk : task).

Record pcfg := mkCfg {
  p_mode : mode;
  p_direct : nat -> bool;
  p_keep_rest : bool      (* the writer keeps the unsent rest of a chunk (loop.sock_sendall / twisted transport buffer do) *)
}.

Record pstate := mkP {
  todo : nat -> list msg;          (* what each thread will still push, in its program order *)
  ready : list entry;              (* the loop's ready queue *)
  queue : list msg;                (* asyncio _write_queue / twisted transport buffer *)
  cur : list Z;                    (* unsent rest of the chunk the writer is sending (sock_sendall in progress) *)
  wire : list Z;                   (* bytes accepted by the socket *)
  order : list (nat * msg)         (* ghost: messages in the order their chunks entered `queue` *)
}.

(* Push t: thread t calls push() with its next message;  RunReady: the loop runs the oldest ready entry (a _push_msg
   step enqueues ALL chunks of its message: no await between put_nowait calls);  SendPart k: the socket accepts up to
   k bytes of the chunk being written (the writer fetches the next chunk when it has none in progress) *)
Inductive op := Push (t : nat) | RunReady | SendPart (k : nat).

Definition step (c : pcfg) (s : pstate) (o : op) : pstate :=
  match o with
  | Push t =>
    match todo s t with
    | [] => s
    | m :: rest =>
      let todo' := fun u => if Nat.eqb u t then rest else todo s u in
      match chunks_mode (p_mode c) m with
      | None => mkP todo' (ready s) (queue s) (cur s) (wire s) (order s)            (* push() raised in the caller *)
      | Some cs =>
        let tk := mkTask t m cs in
        mkP todo' (ready s ++ [if p_direct c t then EStep tk else EHandoff tk]) (queue s) (cur s) (wire s) (order s)
      end
    end
  | RunReady =>
    match ready s with
    | [] => s
    | EHandoff tk :: rest => mkP (todo s) (rest ++ [EStep tk]) (queue s) (cur s) (wire s) (order s)
    | EStep tk :: rest => mkP (todo s) rest (queue s ++ t_chunks tk) (cur s) (wire s) (order s ++ [(t_thread tk, t_msg tk)])
    end
  | SendPart k =>
    match cur s with
    | [] =>
      match queue s with
      | [] => s
      | ch :: rest => mkP (todo s) (ready s) rest (if p_keep_rest c then skipn k ch else []) (wire s ++ firstn k ch) (order s)
      end
    | _ :: _ => mkP (todo s) (ready s) (queue s) (if p_keep_rest c then skipn k (cur s) else []) (wire s ++ firstn k (cur s)) (order s)
    end
  end.

Definition init (prog : nat -> list msg) : pstate := mkP prog [] [] [] [] [].

Definition run (c : pcfg) (prog : nat -> list msg) (ops : list op) : pstate :=
  fold_left (step c) ops (init prog).

Definition thread_part (t : nat) (l : list (nat * msg)) : list msg :=
  map snd (filter (fun x => Nat.eqb (fst x) t) l).

(* messages of thread t waiting in the ready queue: first those whose task step is scheduled, then those still handed off *)
Fixpoint steps_of (t : nat) (l : list entry) : list msg :=
  match l with
  | [] => []
  | EStep tk :: r => if Nat.eqb (t_thread tk) t then t_msg tk :: steps_of t r else steps_of t r
  | EHandoff _ :: r => steps_of t r
  end.

Fixpoint handoffs_of (t : nat) (l : list entry) : list msg :=
  match l with
  | [] => []
  | EHandoff tk :: r => if Nat.eqb (t_thread tk) t then t_msg tk :: handoffs_of t r else handoffs_of t r
  | EStep _ :: r => handoffs_of t r
  end.

Definition drained (s : pstate) : Prop := ready s = [] /\ queue s = [] /\ cur s = [].

(* ------------------------------------------------------------------ protocol v5 send path (Connection.send_msg)
   On a checksumming connection send_msg turns the CQL frame into segments (SegmentCodec.encode: one self-contained
   segment, or slices of MAX_PAYLOAD_LENGTH bytes each in its own non-self-contained segment), assembles ALL of them in one
   buffer and hands that buffer to push() in ONE call: the unit the reactors keep contiguous is the whole run of segments. *)
Definition encode_v5 (enc_segment : bool -> msg -> msg) (maxp : nat) (frame : msg) : option msg :=
  match chunks maxp frame with
  | Some ps => Some (concat (map (enc_segment (Nat.eqb (length ps) 1)) ps))
  | None => None
  end.

Definition encode_v5_or_nil enc_segment maxp frame : msg :=
  match encode_v5 enc_segment maxp frame with Some b => b | None => [] end.

(* what thread t pushes when it sends the frames `frames t` through send_msg *)
Definition send_prog enc_segment (maxp : nat) (frames : nat -> list msg) : nat -> list msg :=
  fun t => map (encode_v5_or_nil enc_segment maxp) (frames t).

(* the variant that pushes every segment on its own (one push() per segment) *)
Definition send_prog_per_segment (enc_segment : bool -> msg -> msg) (maxp : nat) (frames : nat -> list msg) : nat -> list msg :=
  fun t => flat_map (fun fr => match chunks maxp fr with
                               | Some ps => map (enc_segment (Nat.eqb (length ps) 1)) ps
                               | None => [] end) (frames t).

(* ------------------------------------------------------------------ correspondence helpers *)
(* programs as a list (thread i = i-th list); a message = (byte value, length) *)
Definition mk_msg (d : Z * nat) : msg := repeat (fst d) (snd d).
Definition prog_of (p : list (list (Z * nat))) : nat -> list msg := fun t => map mk_msg (nth t p []).

Fixpoint rle (l : list Z) : list (Z * Z) :=
  match l with
  | [] => []
  | x :: l' => match rle l' with
               | (y, k) :: r => if Z.eqb x y then (y, Z.succ k) :: r else (x, 1%Z) :: (y, k) :: r
               | [] => [(x, 1%Z)]
               end
  end.

Fixpoint rle_eqb (a b : list (Z * Z)) : bool :=
  match a, b with
  | [], [] => true
  | (x, k) :: a', (y, j) :: b' => Z.eqb x y && Z.eqb k j && rle_eqb a' b'
  | _, _ => false
  end.

Fixpoint mem_nat (x : nat) (l : list nat) : bool :=
  match l with [] => false | y :: l' => Nat.eqb x y || mem_nat x l' end.

(* schedule = the order in which the messages entered the write queue (read off the received stream);
   `pattern` = how many bytes the socket accepted at each send attempt, then everything is flushed *)
Definition wire_of_schedule (md : mode) (direct : list nat) (p : list (list (Z * nat))) (sched : list nat)
           (pattern : list nat) (flush : nat) (big : nat) : list Z :=
  wire (run (mkCfg md (fun t => mem_nat t direct) true) (prog_of p)
            (flat_map (fun t => [Push t; RunReady; RunReady]) sched ++ map SendPart pattern ++ repeat (SendPart big) flush)).

(* same pushes, but the loop writes eagerly between them *)
Definition wire_of_schedule_eager (md : mode) (direct : list nat) (p : list (list (Z * nat))) (sched : list nat)
           (pattern : list nat) (flush : nat) (big : nat) : list Z :=
  wire (run (mkCfg md (fun t => mem_nat t direct) true) (prog_of p)
            (flat_map (fun t => [Push t; RunReady; RunReady; SendPart big; SendPart 1]) sched ++ map SendPart pattern ++ repeat (SendPart big) flush)).

Definition check_wire (md : mode) (direct : list nat) (p : list (list (Z * nat))) (sched : list nat)
           (pattern : list nat) (flush : nat) (big : nat) (received : list (Z * Z)) : bool :=
  rle_eqb (rle (wire_of_schedule md direct p sched pattern flush big)) received
  && rle_eqb (rle (wire_of_schedule_eager md direct p sched pattern flush big)) received.

Definition chunk_lengths (n : nat) (len : nat) : option (list nat) :=
  match chunks n (repeat 0%Z len) with Some cs => Some (map (@length Z) cs) | None => None end.
