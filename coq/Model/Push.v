(* C11 model: messages pushed from several threads onto one event-loop connection.

   cassandra/io/asyncioreactor.py  AsyncioConnection.push      -> `chunks` (in the calling thread), then
                                   run_coroutine_threadsafe(_push_msg(chunks))   = op Push  (task appended to the loop's FIFO)
                                   _push_msg (one loop step, no await between put_nowait calls) = op RunTask
                                   handle_write: get() one chunk, sock_sendall it              = op Write
   cassandra/io/twistedreactor.py  TwistedConnection.push      -> reactor.callFromThread(transport.write, data)
                                   = mode Whole: the task carries the message as a single chunk.
   Any interleaving of threads and loop steps is a list of ops.  No proofs in this file. *)
From Coq Require Import ZArith List Bool Arith.
Import ListNotations.

Definition msg := list Z.

(* push(): if len(data) > n: [data[i:i+n] for i in range(0, len(data), n)] else [data]
   (None = Python raises: range() with step 0) *)
Fixpoint split_every (fuel n : nat) (m : msg) : option (list msg) :=
  match m with
  | [] => Some []
  | _ :: _ =>
    match fuel with
    | O => None
    | S f => match split_every f n (skipn n m) with
             | Some cs => Some (firstn n m :: cs)
             | None => None
             end
    end
  end.

Definition chunks (n : nat) (m : msg) : option (list msg) :=
  if length m <=? n then Some [m]
  else if n =? 0 then None
  else split_every (length m) n m.

Inductive mode := Chunked (n : nat) | Whole.

Definition chunks_mode (md : mode) (m : msg) : option (list msg) :=
  match md with Chunked n => chunks n m | Whole => Some [m] end.

Definition mode_ok (md : mode) : Prop := match md with Chunked n => (0 < n)%nat | Whole => True end.

Record task := mkTask { t_thread : nat; t_msg : msg; t_chunks : list msg }.

Record pstate := mkP {
  todo : nat -> list msg;          (* what each thread will still push, in its program order *)
  tasks : list task;               (* scheduled on the loop, not yet run (call_soon_threadsafe / callFromThread FIFO) *)
  queue : list msg;                (* _write_queue *)
  wire : list Z;                   (* bytes handed to the socket *)
  order : list (nat * msg)         (* ghost: every push that was scheduled, in scheduling order *)
}.

Inductive op := Push (t : nat) | RunTask | Write.

Definition step (md : mode) (s : pstate) (o : op) : pstate :=
  match o with
  | Push t =>
    match todo s t with
    | [] => s
    | m :: rest =>
      let todo' := fun u => if Nat.eqb u t then rest else todo s u in
      match chunks_mode md m with
      | None => mkP todo' (tasks s) (queue s) (wire s) (order s)            (* push() raised in the caller *)
      | Some cs => mkP todo' (tasks s ++ [mkTask t m cs]) (queue s) (wire s) (order s ++ [(t, m)])
      end
    end
  | RunTask =>
    match tasks s with
    | [] => s
    | tk :: rest => mkP (todo s) rest (queue s ++ t_chunks tk) (wire s) (order s)
    end
  | Write =>
    match queue s with
    | [] => s
    | c :: rest => mkP (todo s) (tasks s) rest (wire s ++ c) (order s)     (* `if next_msg:` skips b'' -- same bytes *)
    end
  end.

Definition init (prog : nat -> list msg) : pstate := mkP prog [] [] [] [].

Definition run (md : mode) (prog : nat -> list msg) (ops : list op) : pstate :=
  fold_left (step md) ops (init prog).

Definition thread_part (t : nat) (l : list (nat * msg)) : list msg :=
  map snd (filter (fun x => Nat.eqb (fst x) t) l).

(* ------------------------------------------------------------------ correspondence helpers *)
(* programs as a list (thread i = i-th list); a message = (byte value, length) *)
Definition mk_msg (d : Z * nat) : msg := repeat (fst d) (snd d).
Definition prog_of (p : list (list (Z * nat))) : nat -> list msg := fun t => map mk_msg (nth t p []).

Fixpoint rle (l : list Z) : list (Z * Z) :=
  match l with
  | [] => []
  | x :: l' => match rle l' with
               | (y, k) :: r => if Z.eqb x y then (y, Z.succ k) :: r else (x, 1%Z) :: (y, k) :: r
               | [] => [(x, 1%Z)]
               end
  end.

Fixpoint rle_eqb (a b : list (Z * Z)) : bool :=
  match a, b with
  | [], [] => true
  | (x, k) :: a', (y, j) :: b' => Z.eqb x y && Z.eqb k j && rle_eqb a' b'
  | _, _ => false
  end.

(* schedule = the order in which the threads' pushes were scheduled; then the loop drains everything *)
Definition wire_of_schedule (md : mode) (p : list (list (Z * nat))) (sched : list nat) (maxchunks : nat) : list Z :=
  wire (run md (prog_of p) (map Push sched ++ repeat RunTask (length sched) ++ repeat Write maxchunks)).

(* interleaved variant: after every push the loop may already run/write (same wire, by C11_order) *)
Definition wire_of_schedule_eager (md : mode) (p : list (list (Z * nat))) (sched : list nat) (maxchunks : nat) : list Z :=
  wire (run md (prog_of p) (flat_map (fun t => [Push t; RunTask; Write]) sched ++ repeat Write maxchunks)).

Definition check_wire (md : mode) (p : list (list (Z * nat))) (sched : list nat) (maxchunks : nat) (received : list (Z * Z)) : bool :=
  rle_eqb (rle (wire_of_schedule md p sched maxchunks)) received
  && rle_eqb (rle (wire_of_schedule_eager md p sched maxchunks)) received.

Definition chunk_lengths (n : nat) (len : nat) : option (list nat) :=
  match chunks n (repeat 0%Z len) with Some cs => Some (map (@length Z) cs) | None => None end.
