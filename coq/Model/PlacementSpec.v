(* C26 specification: Cassandra's replica placement, transcribed from memory of
     org.apache.cassandra.locator.TokenMetadata.firstTokenIndex / ringIterator,
     SimpleStrategy.calculateNaturalEndpoints and
     NetworkTopologyStrategy.calculateNaturalEndpoints (the seen-racks / skipped-endpoints formulation of 2.x/3.x)
   -- written independently of the driver-shaped model in Ring.v (only RingBase's list/set vocabulary is shared).
   Part of the trusted base; kept short.  No proofs here. *)
From Coq Require Import ZArith List Bool.
From Verif Require Import RingBase.
Import ListNotations.
Local Open Scope Z_scope.

(* firstTokenIndex(ring, start): index of the first token >= start, 0 when start is past the last token *)
Fixpoint first_ge (ring : ring_t) (t : Z) : option nat :=
  match ring with
  | [] => None
  | (tk, _) :: r => if t <=? tk then Some O else option_map S (first_ge r t)
  end.
Definition first_token_index (ring : ring_t) (t : Z) : nat :=
  match first_ge ring t with Some k => k | None => O end.
(* ringIterator(ring, start, includeMin=false): once around the ring, starting there *)
Definition ring_iterator (ring : ring_t) (t : Z) : ring_t := rot (first_token_index ring t) ring.

(* ---------------------------------------------------------------- SimpleStrategy
   while (endpoints.size() < replicas && iter.hasNext()) { ep = getEndpoint(iter.next()); if (!endpoints.contains(ep)) endpoints.add(ep); } *)
Fixpoint simple_walk (rf : Z) (iter : list Z) (endpoints : list Z) : list Z :=
  match iter with
  | [] => endpoints
  | ep :: iter' => if lenZ endpoints <? rf then simple_walk rf iter' (set_add ep endpoints) else endpoints
  end.
Definition simple_spec (rf : Z) (ring : ring_t) (t : Z) : list Z :=
  simple_walk rf (map snd (ring_iterator ring t)) [].

(* ---------------------------------------------------------------- NetworkTopologyStrategy *)
(* topology.getDatacenterEndpoints().get(dc).size(), topology.getDatacenterRacks().get(dc).keySet().size() *)
Definition dc_endpoints (loc : topo_t) (ring : ring_t) (d : Z) : list Z :=
  dedup (filter (fun ep => dc_of loc ep =? d) (map snd ring)).
Definition dc_rack_names (loc : topo_t) (ring : ring_t) (d : Z) : list Z :=
  dedup (map (rack_of loc) (dc_endpoints loc ring d)).

Record dc_state := { dc_replicas : list Z;     (* dcReplicas.get(dc)        : Set            *)
                     seen_racks : list Z;      (* seenRacks.get(dc)         : Set            *)
                     skipped_eps : list Z }.   (* skippedDcEndpoints.get(dc): LinkedHashSet  *)
Record nts_state := { replicas : list Z;       (* LinkedHashSet, insertion order preserved   *)
                      per_dc : Z -> dc_state }.

Section NTS.
  Variable loc : topo_t.
  Variable datacenters : list (Z * Z).      (* the strategy's configured datacenter -> replication factor *)
  Variable ring : ring_t.

  (* dcReplicas.get(dc).size() >= Math.min(allEndpoints.get(dc).size(), getReplicationFactor(dc)) *)
  Definition sufficient_dc (rf : Z) (d : Z) (st : nts_state) : bool :=
    Z.min (lenZ (dc_endpoints loc ring d)) rf <=? lenZ (dc_replicas (per_dc st d)).
  Definition sufficient_all (st : nts_state) : bool :=
    forallb (fun e => match assoc (fst e) datacenters with Some rf => sufficient_dc rf (fst e) st | None => true end) datacenters.

  (* dcReplicas.get(dc).add(ep); replicas.add(ep); *)
  Definition add_replica (st : nts_state) (d ep : Z) : nts_state :=
    let ds := per_dc st d in
    {| replicas := set_add ep (replicas st);
       per_dc := upd (per_dc st) d {| dc_replicas := set_add ep (dc_replicas ds); seen_racks := seen_racks ds; skipped_eps := skipped_eps ds |} |}.
  Definition add_seen_rack (st : nts_state) (d rk : Z) : nts_state :=
    let ds := per_dc st d in
    {| replicas := replicas st;
       per_dc := upd (per_dc st) d {| dc_replicas := dc_replicas ds; seen_racks := set_add rk (seen_racks ds); skipped_eps := skipped_eps ds |} |}.
  Definition add_skipped (st : nts_state) (d ep : Z) : nts_state :=
    let ds := per_dc st d in
    {| replicas := replicas st;
       per_dc := upd (per_dc st) d {| dc_replicas := dc_replicas ds; seen_racks := seen_racks ds; skipped_eps := set_add ep (skipped_eps ds) |} |}.

  (* while (skippedIt.hasNext() && !hasSufficientReplicas(dc, ...)) { next = skippedIt.next(); dcReplicas.get(dc).add(next); replicas.add(next); } *)
  Fixpoint readd_skipped (rf d : Z) (skippedIt : list Z) (st : nts_state) : nts_state :=
    match skippedIt with
    | [] => st
    | nextSkipped :: it => if sufficient_dc rf d st then st else readd_skipped rf d it (add_replica st d nextSkipped)
    end.

  (* body of `while (tokenIter.hasNext() && !hasSufficientReplicas(dcReplicas, allEndpoints))` for endpoint ep *)
  Definition nts_visit (st : nts_state) (ep : Z) : nts_state :=
    if sufficient_all st then st else
    let d := dc_of loc ep in
    match assoc d datacenters with
    | None => st                                              (* !datacenters.containsKey(dc)          -> continue *)
    | Some rf =>
      if sufficient_dc rf d st then st                        (* hasSufficientReplicas(dc, ...)        -> continue *)
      else if lenZ (seen_racks (per_dc st d)) =? lenZ (dc_rack_names loc ring d) then
        add_replica st d ep                                   (* every rack of the dc already seen: take it *)
      else
        let rk := rack_of loc ep in
        if memZ rk (seen_racks (per_dc st d)) then add_skipped st d ep
        else
          let st1 := add_seen_rack (add_replica st d ep) d rk in
          if lenZ (seen_racks (per_dc st1 d)) =? lenZ (dc_rack_names loc ring d)
          then readd_skipped rf d (skipped_eps (per_dc st1 d)) st1
          else st1
    end.

  Definition nts_init : nts_state :=
    {| replicas := []; per_dc := fun _ => {| dc_replicas := []; seen_racks := []; skipped_eps := [] |} |}.

  Definition nts_spec (t : Z) : list Z :=
    replicas (fold_left nts_visit (map snd (ring_iterator ring t)) nts_init).
End NTS.

Inductive placement := SimpleStrategy (rf : Z) | NetworkTopologyStrategy (datacenters : list (Z * Z)).

(* the replicas Cassandra chooses for the token range containing token t *)
Definition natural_endpoints (loc : topo_t) (p : placement) (ring : ring_t) (t : Z) : list Z :=
  match p with
  | SimpleStrategy rf => simple_spec rf ring t
  | NetworkTopologyStrategy dcs => nts_spec loc dcs ring t
  end.

(* Murmur3Partitioner.getToken: new LongToken(normalize(hash)),  normalize(v) = v == Long.MIN_VALUE ? Long.MAX_VALUE : v *)
Definition Long_MIN_VALUE : Z := - 9223372036854775808.
Definition Long_MAX_VALUE : Z := 9223372036854775807.
Definition normalize (v : Z) : Z := if v =? Long_MIN_VALUE then Long_MAX_VALUE else v.
Definition natural_endpoints_for_hash (loc : topo_t) (p : placement) (ring : ring_t) (hash : Z) : list Z :=
  natural_endpoints loc p ring (normalize hash).
