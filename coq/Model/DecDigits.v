(* Fixed-width decimal printing / parsing over character codes (list Z), shared by Civil.v and TimeOfDay.v. *)
From Coq Require Import ZArith List Bool.
Import ListNotations.
Local Open Scope Z_scope.

(* "%0kd" for 0 <= x < 10^k, most significant digit first *)
Fixpoint to_digits (k : nat) (x : Z) : list Z :=
  match k with O => [] | S k' => (48 + (x / 10 ^ Z.of_nat k') mod 10) :: to_digits k' x end.

(* read exactly k decimal digits *)
Fixpoint take_num (k : nat) (acc : Z) (s : list Z) : option (Z * list Z) :=
  match k with
  | O => Some (acc, s)
  | S k' => match s with
            | c :: r => if (48 <=? c) && (c <=? 57) then take_num k' (acc * 10 + (c - 48)) r else None
            | [] => None
            end
  end.

Definition expect (c : Z) (s : list Z) : option (list Z) :=
  match s with x :: r => if x =? c then Some r else None | [] => None end.
