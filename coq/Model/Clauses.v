(* C37 / C35 model: cassandra/cqlengine/statements.py (+ functions.py QueryValue kinds, operators.py)
   Every clause class as three SEPARATE functions, exactly as the Python has three separate methods:
     clause_size   = get_context_size()
     clause_render = __unicode__()      (list of rendered fragments, each with its placeholder ids)
     clause_ctx    = update_context()   (list of dict writes  str(id) -> value, in program order)
   Statements = the four clause lists + context_counter; add_* / update_context_id / get_context / __unicode__.
   BatchQuery.execute renumbering.  Query-set chains (filter/iff/order_by/limit/only/defer/allow_filtering).
   No proofs in this file. Field names and atoms are integers (the harness maps names <-> ints). *)
From Coq Require Import ZArith List Bool.
Import ListNotations.
Local Open Scope Z_scope.

Definition name := Z.

(* ------------------------------------------------------------------ values *)
Inductive val :=
| VNone
| VInt (z : Z)
| VList (l : list Z)
| VSet (l : list Z)                 (* harness passes sets sorted, duplicate free *)
| VMap (m : list (Z * Z))           (* dict in insertion order, keys unique *)
| VInQ (v : val).                   (* InQuoter(value) *)

Fixpoint zlist_eqb (a b : list Z) : bool :=
  match a, b with
  | [], [] => true
  | x :: a', y :: b' => (x =? y) && zlist_eqb a' b'
  | _, _ => false
  end.

Fixpoint zmap_eqb (a b : list (Z * Z)) : bool :=
  match a, b with
  | [], [] => true
  | (k, v) :: a', (k', v') :: b' => (k =? k') && (v =? v') && zmap_eqb a' b'
  | _, _ => false
  end.

Fixpoint val_eqb (a b : val) : bool :=
  match a, b with
  | VNone, VNone => true
  | VInt x, VInt y => x =? y
  | VList x, VList y => zlist_eqb x y
  | VSet x, VSet y => zlist_eqb x y
  | VMap x, VMap y => zmap_eqb x y
  | VInQ x, VInQ y => val_eqb x y
  | _, _ => false
  end.

Fixpoint zmem (x : Z) (l : list Z) : bool :=
  match l with [] => false | y :: l' => (x =? y) || zmem x l' end.

(* python set difference a - b on duplicate-free lists *)
Definition set_diff (a b : list Z) : list Z := filter (fun x => negb (zmem x b)) a.

Fixpoint zinsert (x : Z) (l : list Z) : list Z :=
  match l with
  | [] => [x]
  | y :: l' => if x <=? y then x :: l else y :: zinsert x l'
  end.
Definition zsort (l : list Z) : list Z := fold_right zinsert [] l.   (* sorted(...) *)

Fixpoint map_get (k : Z) (m : list (Z * Z)) : option Z :=
  match m with [] => None | (k', v) :: m' => if k =? k' then Some v else map_get k m' end.

Definition nonempty {A} (l : list A) : bool := match l with [] => false | _ => true end.
(* x or None *)
Definition or_none {A} (l : list A) : option (list A) := match l with [] => None | _ => Some l end.
(* bool(x) for x : optional container *)
Definition truthy {A} (o : option (list A)) : bool := match o with Some (_ :: _) => true | _ => false end.
Definition is_some {A} (o : option A) : bool := match o with Some _ => true | None => false end.
(* `if x:` guards: an empty container counts as absent *)
Definition otruthy {A} (o : option (list A)) : option (list A) := if truthy o then o else None.
Definition b2z (b : bool) : Z := if b then 1 else 0.

(* [i; i+1; ...] of length n *)
Fixpoint zseq (i : Z) (n : nat) : list Z := match n with O => [] | S n' => i :: zseq (i + 1) n' end.

(* ------------------------------------------------------------------ container analysis (_analyze) *)
Inductive setop := SAdd | SRemove.
Inductive listop := LAppend | LPrepend.
Inductive mapop := MUpdate | MRemove.

Definition opt_zlist_eqb (a b : option (list Z)) : bool :=
  match a, b with Some x, Some y => zlist_eqb x y | None, None => true | _, _ => false end.

(* SetUpdateClause._analyze : (_assignments, _additions, _removals) *)
Definition set_analyze (v : option (list Z)) (op : option setop) (prev : option (list Z))
  : option (list Z) * option (list Z) * option (list Z) :=
  match v with
  | None => (None, None, None)
  | Some vl =>
    if opt_zlist_eqb v prev then (None, None, None)
    else match op with
    | Some SAdd => (None, Some vl, None)
    | Some SRemove => (None, None, Some vl)
    | None =>
      match prev with
      | None => (Some vl, None, None)
      | Some pl => (None, or_none (set_diff vl pl), or_none (set_diff pl vl))
      end
    end
  end.

(* the sub-list search of ListUpdateClause._analyze.
   i runs over range(search_space); at i: sub = value[i:i+len(prev)];
   match iff prev[0]==sub[0] and prev[-1]==sub[-1] and prev==sub  (== prev == sub, prev non-empty) *)
(* idx_cmp(0) and idx_cmp(-1) and self.previous == sub : two endpoint checks, then the full comparison *)
Definition oz_eq (a b : option Z) : bool := match a, b with Some x, Some y => x =? y | _, _ => false end.
Definition window_match (pl sub : list Z) : bool :=
  oz_eq (hd_error pl) (hd_error sub) && oz_eq (hd_error (rev pl)) (hd_error (rev sub)) && zlist_eqb pl sub.

Fixpoint list_search (fuel : nat) (i : nat) (vl pl : list Z) : option (option (list Z) * option (list Z)) :=
  match fuel with
  | O => None
  | S fuel' =>
    let j := (i + length pl)%nat in
    let sub := firstn (length pl) (skipn i vl) in
    if window_match pl sub then Some (or_none (firstn i vl), or_none (skipn j vl))
    else list_search fuel' (S i) vl pl
  end.

(* ListUpdateClause._analyze : (_assignments, _prepend, _append) *)
Definition list_analyze (v : option (list Z)) (op : option listop) (prev : option (list Z))
  : option (list Z) * option (list Z) * option (list Z) :=
  match v with
  | None => (None, None, None)
  | Some vl =>
    if opt_zlist_eqb v prev then (None, None, None)
    else match op with
    | Some LAppend => (None, None, Some vl)
    | Some LPrepend => (None, Some vl, None)
    | None =>
      match prev with
      | None => (Some vl, None, None)
      | Some pl =>
        if (length vl <? length pl)%nat then (Some vl, None, None)
        else if (length pl =? 0)%nat then (Some vl, None, None)
        else
          (* search_space = len(value) - max(0, len(previous) - 1) *)
          let space := (length vl - (length pl - 1))%nat in
          match list_search space 0 vl pl with
          | Some (None, None) => (Some vl, None, None)      (* "prepend is append is None" -> assignment *)
          | Some (pre, app) => (None, pre, app)
          | None => (Some vl, None, None)
          end
      end
    end
  end.

(* MapUpdateClause._analyze : (_updates (key list), _removals (key set)) *)
Definition map_analyze (v : list (Z * Z)) (op : option mapop) (prev : option (list (Z * Z)))
  : option (list Z) * option (list Z) :=
  match op with
  | Some MUpdate => (Some (map fst v), None)
  | Some MRemove => (None, Some (zsort (map fst v)))
  | None =>
    match prev with
    | None => (Some (zsort (map fst v)), None)
    | Some pm =>
      (or_none (zsort (map fst (filter (fun kv => negb (match map_get (fst kv) pm with
                                                         | Some pv => snd kv =? pv | None => false end)) v))), None)
    end
  end.

(* MapUpdateClause.is_assignment *)
Definition map_is_assignment (v : list (Z * Z)) (op : option mapop) (prev : option (list (Z * Z))) : bool :=
  let '(upd, rem) := map_analyze v op prev in
  negb (is_some prev) && negb (truthy upd) && negb (truthy rem).

(* MapDeleteClause._analyze : sorted([k for k in previous if k not in value]) with value/previous `or {}` *)
Definition mapdel_removals (v prev : option (list (Z * Z))) : list Z :=
  let vm := match v with Some m => m | None => [] end in
  let pm := match prev with Some m => m | None => [] end in
  zsort (filter (fun k => negb (is_some (map_get k vm))) (map fst pm)).

(* ------------------------------------------------------------------ clauses *)
Inductive wop := OpEQ | OpNE | OpIN | OpGT | OpGTE | OpLT | OpLTE | OpCONTAINS | OpLIKE.
Definition wop_code (o : wop) : Z :=
  match o with OpEQ => 0 | OpNE => 1 | OpIN => 2 | OpGT => 3 | OpGTE => 4 | OpLT => 5 | OpLTE => 6 | OpCONTAINS => 7 | OpLIKE => 8 end.

(* the query_value of a WhereClause *)
Inductive qval :=
| QPlain (v : val)                       (* QueryValue(value) *)
| QTimeFn (which : Z) (local_ms off_ms : Z)  (* MinTimeUUID (0) / MaxTimeUUID (1) of a datetime given as wall-clock ms since 1970-01-01 in
                                            its own zone + the zone's UTC offset (0 for naive datetimes) *)
| QToken (vals : list Z) (ncols : nat).  (* Token(vals...) with set_columns(ncols columns) *)

Inductive clause :=
| CWhere (f : name) (quote : bool) (op : wop) (q : qval)
| CIsNotNull (f : name)
| CAssign (f : name) (v : val)
| CCond (f : name) (v : val)
| CSetUpd (f : name) (v : option (list Z)) (op : option setop) (prev : option (list Z))
| CListUpd (f : name) (v : option (list Z)) (op : option listop) (prev : option (list Z))
| CMapUpd (f : name) (v : list (Z * Z)) (op : option mapop) (prev : option (list (Z * Z)))
| CCounter (f : name) (v : Z) (prev : option Z)
| CDelField (f : name)
| CMapDel (f : name) (v prev : option (list (Z * Z))).

Definition clause_field (c : clause) : name :=
  match c with
  | CWhere f _ _ _ | CIsNotNull f | CAssign f _ | CCond f _ | CSetUpd f _ _ _ | CListUpd f _ _ _
  | CMapUpd f _ _ _ | CCounter f _ _ | CDelField f | CMapDel f _ _ => f
  end.

(* rendered fragments *)
Inductive fkind :=
| KAssign            (* "f" = %(p)s *)
| KPlus              (* "f" = "f" + %(p)s *)
| KMinus             (* "f" = "f" - %(p)s *)
| KPrepend           (* "f" = %(p)s + "f" *)
| KMapPut            (* "f"[%(p)s] = %(q)s *)
| KDelField          (* "f" *)
| KDelKey            (* "f"[%(p)s] *)
| KWhere (quote : bool) (op : Z) (fn : Z)   (* fn: 0 plain, 1 MinTimeUUID, 2 MaxTimeUUID, 3 token(...) *)
| KIsNotNull.

Record frag := { fk : fkind; ff : name; fps : list Z }.
Definition mk (k : fkind) (f : name) (ps : list Z) : frag := {| fk := k; ff := f; fps := ps |}.

(* TimeUUIDQueryFunction.to_database: (val - epoch_in_val's_zone).total_seconds() - utcoffset, in ms = the UTC instant *)
Definition timefn_ms (local_ms off_ms : Z) : Z := local_ms - off_ms.

Definition qval_size (q : qval) : Z :=
  match q with QPlain _ => 1 | QTimeFn _ _ _ => 1 | QToken vals _ => Z.of_nat (length vals) end.

Definition counter_prev (p : option Z) : Z := match p with Some x => x | None => 0 end.   (* previous or 0 *)

(* get_context_size() *)
Definition clause_size (c : clause) : Z :=
  match c with
  | CWhere _ _ _ q => qval_size q
  | CIsNotNull _ => 0
  | CAssign _ _ | CCond _ _ => 1
  | CSetUpd _ v op prev =>
    let '(asg, add, rem) := set_analyze v op prev in
    if negb (is_some prev) && negb (truthy asg) && negb (is_some add) && negb (is_some rem) then 1
    else b2z (truthy asg) + b2z (truthy add) + b2z (truthy rem)
  | CListUpd _ v op prev =>
    let '(asg, pre, app) := list_analyze v op prev in
    b2z (is_some asg) + b2z (truthy app) + b2z (truthy pre)
  | CMapUpd _ v op prev =>
    if map_is_assignment v op prev then 1
    else let '(upd, rem) := map_analyze v op prev in
         Z.of_nat (length (match upd with Some l => l | None => [] end)) * 2 + b2z (truthy rem)
  | CCounter _ _ _ => 1
  | CDelField _ => 0
  | CMapDel _ v prev => Z.of_nat (length (mapdel_removals v prev))
  end.

(* optional fragments rendered with consecutive ids: `if x is not None: qs += [...]; ctx_id += 1` *)
Fixpoint render_opts (f : name) (i : Z) (parts : list (fkind * bool)) : list frag :=
  match parts with
  | [] => []
  | (k, present) :: rest => if present then mk k f [i] :: render_opts f (i + 1) rest else render_opts f i rest
  end.

Fixpoint ctx_opts (i : Z) (parts : list (option val)) : list (Z * val) :=
  match parts with
  | [] => []
  | Some v :: rest => (i, v) :: ctx_opts (i + 1) rest
  | None :: rest => ctx_opts i rest
  end.

Fixpoint render_mapputs (f : name) (i : Z) (n : nat) : list frag :=
  match n with O => [] | S n' => mk KMapPut f [i; i + 1] :: render_mapputs f (i + 2) n' end.

Definition render_qval (f : name) (quote : bool) (op : wop) (i : Z) (q : qval) : frag :=
  match q with
  | QPlain _ => mk (KWhere quote (wop_code op) 0) f [i]
  | QTimeFn w _ _ => mk (KWhere quote (wop_code op) (1 + w)) f [i]
  | QToken vals _ => mk (KWhere quote (wop_code op) 3) f (zseq i (length vals))
  end.

(* __unicode__() with context_id = i *)
Definition clause_render (i : Z) (c : clause) : list frag :=
  match c with
  | CWhere f quote op q => [render_qval f quote op i q]
  | CIsNotNull f => [mk KIsNotNull f []]
  | CAssign f _ => [mk KAssign f [i]]
  | CCond f _ => [mk (KWhere true 0 0) f [i]]      (* "f" = %(i)s : same text as an EQ WhereClause *)
  | CSetUpd f v op prev =>
    let '(asg, add, rem) := set_analyze v op prev in
    (if negb (is_some prev) && negb (is_some asg) && negb (is_some add) && negb (is_some rem)
     then [mk KAssign f [i]] else [])
    ++ render_opts f i [(KAssign, is_some asg); (KPlus, truthy add); (KMinus, truthy rem)]
  | CListUpd f v op prev =>
    let '(asg, pre, app) := list_analyze v op prev in
    render_opts f i [(KAssign, is_some asg); (KPrepend, truthy pre); (KPlus, truthy app)]
  | CMapUpd f v op prev =>
    let '(upd, rem) := map_analyze v op prev in
    if map_is_assignment v op prev then [mk KAssign f [i]]
    else if truthy rem then [mk KMinus f [i]]
    else render_mapputs f i (length (match upd with Some l => l | None => [] end))
  | CCounter f v prev => [mk (if v - counter_prev prev <? 0 then KMinus else KPlus) f [i]]
  | CDelField f => [mk KDelField f []]
  | CMapDel f v prev => map (fun p => mk KDelKey f [p]) (zseq i (length (mapdel_removals v prev)))
  end.

Definition oset (o : option (list Z)) : option val := match o with Some l => Some (VSet l) | None => None end.
Definition olist (o : option (list Z)) : option val := match o with Some l => Some (VList l) | None => None end.

Fixpoint ctx_mapputs (i : Z) (keys : list Z) (m : list (Z * Z)) : list (Z * val) :=
  match keys with
  | [] => []
  | k :: rest => (i, VInt k) :: (i + 1, match map_get k m with Some x => VInt x | None => VNone end)
                 :: ctx_mapputs (i + 2) rest m
  end.

Fixpoint zip_ids (i : Z) (l : list Z) : list (Z * val) :=
  match l with [] => [] | x :: r => (i, VInt x) :: zip_ids (i + 1) r end.

(* update_context(ctx) with context_id = i : the dict writes, in order *)
Definition clause_ctx (i : Z) (c : clause) : list (Z * val) :=
  match c with
  | CWhere _ _ op q =>
    match op with
    | OpIN => [(i, VInQ (match q with QPlain v => v | QTimeFn _ l o => VInt (timefn_ms l o) | QToken vals _ => VList vals end))]
    | _ => match q with
           | QPlain v => [(i, v)]
           | QTimeFn _ l o => [(i, VInt (timefn_ms l o))]
           | QToken vals n => zip_ids i (firstn n vals)
           end
    end
  | CIsNotNull _ => []
  | CAssign _ v | CCond _ v => [(i, v)]
  | CSetUpd _ v op prev =>
    let '(asg, add, rem) := set_analyze v op prev in
    (if negb (is_some prev) && negb (is_some asg) && negb (is_some add) && negb (is_some rem)
     then [(i, VSet [])] else [])
    ++ ctx_opts i [oset asg; oset (otruthy add); oset (otruthy rem)]
  | CListUpd _ v op prev =>
    let '(asg, pre, app) := list_analyze v op prev in
    ctx_opts i [olist asg; olist (otruthy pre); olist (otruthy app)]
  | CMapUpd _ v op prev =>
    let '(upd, rem) := map_analyze v op prev in
    if map_is_assignment v op prev then [(i, VMap [])]
    else match otruthy rem with
         | Some r => [(i, VSet r)]
         | None => ctx_mapputs i (match upd with Some l => l | None => [] end) v
         end
  | CCounter _ v prev => [(i, VInt (Z.abs (v - counter_prev prev)))]
  | CDelField _ => []
  | CMapDel _ v prev => zip_ids i (mapdel_removals v prev)
  end.

(* ------------------------------------------------------------------ statements *)
Inductive skind := Select | Insert | Update | Delete.
Inductive part := PWhere | PAssign | PCond | PField.

Record stmt := {
  sk : skind;
  ctr : Z;                                 (* context_counter *)
  s_where : list (Z * clause);             (* (context_id, clause) *)
  s_assign : list (Z * clause);
  s_cond : list (Z * clause);
  s_field : list (Z * clause)
}.

Definition empty_stmt (k : skind) : stmt :=
  {| sk := k; ctr := 0; s_where := []; s_assign := []; s_cond := []; s_field := [] |}.

Definition get_part (p : part) (s : stmt) : list (Z * clause) :=
  match p with PWhere => s_where s | PAssign => s_assign s | PCond => s_cond s | PField => s_field s end.

Definition set_part (p : part) (l : list (Z * clause)) (c : Z) (s : stmt) : stmt :=
  match p with
  | PWhere => {| sk := sk s; ctr := c; s_where := l; s_assign := s_assign s; s_cond := s_cond s; s_field := s_field s |}
  | PAssign => {| sk := sk s; ctr := c; s_where := s_where s; s_assign := l; s_cond := s_cond s; s_field := s_field s |}
  | PCond => {| sk := sk s; ctr := c; s_where := s_where s; s_assign := s_assign s; s_cond := l; s_field := s_field s |}
  | PField => {| sk := sk s; ctr := c; s_where := s_where s; s_assign := s_assign s; s_cond := s_cond s; s_field := l |}
  end.

(* _add_where_clause / add_conditional_clause / _add_assignment_clause / add_field:
   clause.set_context_id(self.context_counter); self.context_counter += clause.get_context_size(); append *)
Definition add_clause (p : part) (c : clause) (s : stmt) : stmt :=
  set_part p (get_part p s ++ [(ctr s, c)]) (ctr s + clause_size c) s.

(* the loops of update_context_id over one clause list *)
Fixpoint renumber (i : Z) (l : list (Z * clause)) : list (Z * clause) * Z :=
  match l with
  | [] => ([], i)
  | (_, c) :: rest => let '(rest', j) := renumber (i + clause_size c) rest in ((i, c) :: rest', j)
  end.

(* which clause lists each statement class renumbers / puts in the context / renders, in which order *)
Definition renum_parts (k : skind) : list part :=
  match k with
  | Select => [PWhere]
  | Insert => [PWhere; PAssign]
  | Update => [PWhere; PAssign; PCond]
  | Delete => [PWhere; PField; PCond]
  end.
Definition ctx_parts (k : skind) : list part := renum_parts k.     (* get_context() visits the same lists, same order *)
Definition render_parts (k : skind) : list part :=
  match k with
  | Select => [PWhere]
  | Insert => [PAssign]
  | Update => [PAssign; PWhere; PCond]
  | Delete => [PField; PWhere; PCond]
  end.

Definition update_context_id (i : Z) (s : stmt) : stmt :=
  fold_left (fun st p => let '(l, j) := renumber (ctr st) (get_part p st) in set_part p l j st)
            (renum_parts (sk s)) (set_part PWhere (s_where s) i s).

(* InsertStatement.__unicode__ renders a.insert_tuple() = (field, context_id): one placeholder per assignment *)
Definition clause_render_in (k : skind) (i : Z) (c : clause) : list frag :=
  match k with Insert => [mk KAssign (clause_field c) [i]] | _ => clause_render i c end.
Definition part_render (k : skind) (l : list (Z * clause)) : list frag :=
  flat_map (fun ic => clause_render_in k (fst ic) (snd ic)) l.
Definition part_ctx (l : list (Z * clause)) : list (Z * val) := flat_map (fun ic => clause_ctx (fst ic) (snd ic)) l.

(* str(statement), as the list of its clause-bearing parts *)
Definition render (s : stmt) : list (part * list frag) :=
  map (fun p => (p, part_render (sk s) (get_part p s))) (render_parts (sk s)).
(* all dict writes of get_context(), in order *)
Definition ctx_writes (s : stmt) : list (Z * val) :=
  flat_map (fun p => part_ctx (get_part p s)) (ctx_parts (sk s)).

Definition placeholders (r : list (part * list frag)) : list Z := flat_map (fun pf => flat_map fps (snd pf)) r.

(* a python dict built by successive writes: later writes to a key replace the value, the key keeps its position *)
Fixpoint dict_set (k : Z) (v : val) (d : list (Z * val)) : list (Z * val) :=
  match d with
  | [] => [(k, v)]
  | (k', v') :: d' => if k =? k' then (k, v) :: d' else (k', v') :: dict_set k v d'
  end.
Definition dict_of (writes : list (Z * val)) (d0 : list (Z * val)) : list (Z * val) :=
  fold_left (fun d kv => dict_set (fst kv) (snd kv) d) writes d0.
Fixpoint dict_get (k : Z) (d : list (Z * val)) : option val :=
  match d with [] => None | (k', v) :: d' => if k =? k' then Some v else dict_get k d' end.

Definition context (s : stmt) : list (Z * val) := dict_of (ctx_writes s) [].

(* building a statement: any interleaving of add_* calls and update_context_id *)
Inductive sop := Add (p : part) (c : clause) | Renum (i : Z).
Definition sstep (s : stmt) (o : sop) : stmt :=
  match o with Add p c => add_clause p c s | Renum i => update_context_id i s end.
Definition build (k : skind) (ops : list sop) : stmt := fold_left sstep ops (empty_stmt k).

(* ------------------------------------------------------------------ BatchQuery.execute *)
(* for query in queries: query.update_context_id(ctr); ctx = query.get_context(); ctr += len(ctx);
   query_list.append(str(query)); parameters.update(ctx) *)
Fixpoint batch_exec (c : Z) (qs : list stmt) (params : list (Z * val))
  : list (list (part * list frag)) * list (Z * val) :=
  match qs with
  | [] => ([], params)
  | q :: rest =>
    let q' := update_context_id c q in
    let cx := context q' in
    let '(rs, ps) := batch_exec (c + Z.of_nat (length cx)) rest (dict_of cx params) in
    (render q' :: rs, ps)
  end.

(* the renumbered statements themselves (for stating theorems) *)
Fixpoint batch_stmts (c : Z) (qs : list stmt) : list stmt :=
  match qs with
  | [] => []
  | q :: rest => let q' := update_context_id c q in q' :: batch_stmts (c + Z.of_nat (length (context q'))) rest
  end.

(* ------------------------------------------------------------------ query-set chains (AbstractQuerySet / ModelQuerySet) *)
(* the model class: db field names of all columns in definition order, and of the partition keys *)
Record qset := {
  q_where : list clause;
  q_cond : list clause;
  q_order : list (name * bool);      (* (db field, descending) *)
  q_limit : Z;
  q_defer : list name;
  q_only : list name;
  q_allow : bool
}.
Definition empty_qset : qset :=
  {| q_where := []; q_cond := []; q_order := []; q_limit := 10000; q_defer := []; q_only := []; q_allow := false |}.

Inductive qop :=
| QFilter (f : name) (op : wop) (q : qval) (defers : bool)   (* filter(f__op=v): WhereClause appended; EQ on a plain value also defers f *)
| QFilterToken (f : name) (op : wop) (vals : list Z)          (* filter(pk__token__op=Token(...)) : quote_field=False *)
| QFilterRaw (c : clause)                                    (* filter(WhereClause(...)) positional *)
| QIff (f : name) (op : wop) (q : qval)                      (* iff(f__op=v): WhereClause appended to _conditional *)
| QIffRaw (c : clause)                                       (* iff(ConditionalClause(...)) *)
| QOrder (cols : list (name * bool))                         (* order_by(...); [] resets *)
| QLimit (n : Z)
| QOnly (fs : list name)
| QDefer (fs : list name)
| QAllow.

Definition qstep (q : qset) (o : qop) : qset :=
  match o with
  | QFilter f op v defers =>
    {| q_where := q_where q ++ [CWhere f true op v]; q_cond := q_cond q; q_order := q_order q; q_limit := q_limit q;
       q_defer := if defers then q_defer q ++ [f] else q_defer q; q_only := q_only q; q_allow := q_allow q |}
  | QFilterToken f op vals =>
    {| q_where := q_where q ++ [CWhere f false op (QToken vals (length vals))]; q_cond := q_cond q; q_order := q_order q;
       q_limit := q_limit q; q_defer := q_defer q; q_only := q_only q; q_allow := q_allow q |}
  | QFilterRaw c =>
    {| q_where := q_where q ++ [c]; q_cond := q_cond q; q_order := q_order q; q_limit := q_limit q;
       q_defer := q_defer q; q_only := q_only q; q_allow := q_allow q |}
  | QIff f op v =>
    {| q_where := q_where q; q_cond := q_cond q ++ [CWhere f true op v]; q_order := q_order q; q_limit := q_limit q;
       q_defer := q_defer q; q_only := q_only q; q_allow := q_allow q |}
  | QIffRaw c =>
    {| q_where := q_where q; q_cond := q_cond q ++ [c]; q_order := q_order q; q_limit := q_limit q;
       q_defer := q_defer q; q_only := q_only q; q_allow := q_allow q |}
  | QOrder cols =>
    {| q_where := q_where q; q_cond := q_cond q; q_order := match cols with [] => [] | _ => q_order q ++ cols end;
       q_limit := q_limit q; q_defer := q_defer q; q_only := q_only q; q_allow := q_allow q |}
  | QLimit n =>
    {| q_where := q_where q; q_cond := q_cond q; q_order := q_order q; q_limit := n;
       q_defer := q_defer q; q_only := q_only q; q_allow := q_allow q |}
  | QOnly fs =>
    {| q_where := q_where q; q_cond := q_cond q; q_order := q_order q; q_limit := q_limit q;
       q_defer := q_defer q; q_only := fs; q_allow := q_allow q |}
  | QDefer fs =>
    {| q_where := q_where q; q_cond := q_cond q; q_order := q_order q; q_limit := q_limit q;
       q_defer := q_defer q ++ fs; q_only := q_only q; q_allow := q_allow q |}
  | QAllow =>
    {| q_where := q_where q; q_cond := q_cond q; q_order := q_order q; q_limit := q_limit q;
       q_defer := q_defer q; q_only := q_only q; q_allow := true |}
  end.
Definition chain (ops : list qop) : qset := fold_left qstep ops empty_qset.

(* ModelQuerySet._select_fields; None = QueryException('No fields in select query') *)
Definition select_fields (cols pks : list name) (q : qset) : option (list name) :=
  match q_defer q, q_only q with
  | [], [] => Some []
  | _, _ =>
    let f1 := match q_defer q with
              | [] => cols
              | _ => match filter (fun f => negb (zmem f (q_defer q))) cols with [] => pks | l => l end
              end in
    let f2 := match q_only q with [] => f1 | _ => filter (fun f => zmem f (q_only q)) f1 end in
    match f2 with [] => None | _ => Some f2 end
  end.

(* _select_query(): SelectStatement(where=self._where, ...) : clauses added in order *)
Definition select_stmt (q : qset) : stmt := build Select (map (Add PWhere) (q_where q)).
(* delete(): DeleteStatement(where=self._where, conditionals=self._conditional) : where first, then conditionals *)
Definition delete_stmt (q : qset) : stmt := build Delete (map (Add PWhere) (q_where q) ++ map (Add PCond) (q_cond q)).
(* update(): UpdateStatement(where=, conditionals=) then add_update per value (size-0 clauses are skipped) *)
Definition update_stmt (q : qset) (assigns : list clause) : stmt :=
  build Update (map (Add PWhere) (q_where q) ++ map (Add PCond) (q_cond q)
                ++ map (Add PAssign) (filter (fun c => negb (clause_size c =? 0)) assigns)).

(* the non-placeholder tail of a SELECT: (fields, order, limit rendered iff non-zero, allow filtering) *)
Definition select_tail (cols pks : list name) (q : qset) : option (list name * list (name * bool) * Z * bool) :=
  match select_fields cols pks q with
  | None => None
  | Some fs => Some (fs, q_order q, q_limit q, q_allow q)
  end.

(* ------------------------------------------------------------------ boolean equalities for the correspondence *)
Definition fkind_eqb (a b : fkind) : bool :=
  match a, b with
  | KAssign, KAssign | KPlus, KPlus | KMinus, KMinus | KPrepend, KPrepend | KMapPut, KMapPut
  | KDelField, KDelField | KDelKey, KDelKey | KIsNotNull, KIsNotNull => true
  | KWhere q o f, KWhere q' o' f' => Bool.eqb q q' && (o =? o') && (f =? f')
  | _, _ => false
  end.
Definition frag_eqb (a b : frag) : bool := fkind_eqb (fk a) (fk b) && (ff a =? ff b) && zlist_eqb (fps a) (fps b).
Fixpoint list_eqb {A} (e : A -> A -> bool) (a b : list A) : bool :=
  match a, b with
  | [], [] => true
  | x :: a', y :: b' => e x y && list_eqb e a' b'
  | _, _ => false
  end.
Definition part_code (p : part) : Z := match p with PWhere => 0 | PAssign => 1 | PCond => 2 | PField => 3 end.
Definition rendered_eqb (a b : list (part * list frag)) : bool :=
  list_eqb (fun x y => (part_code (fst x) =? part_code (fst y)) && list_eqb frag_eqb (snd x) (snd y)) a b.
Definition dict_eqb (a b : list (Z * val)) : bool :=
  list_eqb (fun x y => (fst x =? fst y) && val_eqb (snd x) (snd y)) a b.

(* one observation of a statement: rendered parts, context dict (in insertion order), counter *)
Definition observe (s : stmt) : list (part * list frag) * list (Z * val) := (render s, context s).
Definition obs_eqb (a b : list (part * list frag) * list (Z * val)) : bool :=
  rendered_eqb (fst a) (fst b) && dict_eqb (snd a) (snd b).

(* observations after every building step *)
Fixpoint trace (s : stmt) (ops : list sop) : list (list (part * list frag) * list (Z * val)) :=
  match ops with
  | [] => []
  | o :: rest => let s' := sstep s o in observe s' :: trace s' rest
  end.

(* ------------------------------------------------------------------ instance-level conditional update (DMLQuery.update with iff) *)
(* delete_conditionals = [c for c in self._conditional if c.field not in updated_columns]  (both are db field names) *)
Definition delete_conds (conds : list clause) (updated : list name) : list clause :=
  filter (fun c => negb (zmem (clause_field c) updated)) conds.

(* UpdateStatement(conditionals=conds); add_update per changed column (size-0 clauses dropped); add_where per key column;
   then _delete_null_columns: DeleteStatement(conditionals=delete_conds); add_field per nulled column; add_where per key column *)
Definition inst_update_stmts (keys conds assigns : list clause) (nulled : list name) : stmt * stmt :=
  let asg := filter (fun c => negb (clause_size c =? 0)) assigns in
  (build Update (map (Add PCond) conds ++ map (Add PAssign) asg ++ map (Add PWhere) keys),
   build Delete (map (Add PCond) (delete_conds conds (map clause_field asg)) ++ map (Add PField) (map CDelField nulled)
                 ++ map (Add PWhere) keys)).
