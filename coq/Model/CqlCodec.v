(* Executable model of the type-directed value codec of cassandra/cqltypes.py:
   <Type>.serialize / deserialize / to_binary / from_binary, per protocol version.  NO PROOFS HERE.

   Source regions <-> model functions
     _CassandraType.to_binary / from_binary (294-313)            to_binary / from_binary (wrap_to / wrap_from)
     scalar types' serialize/deserialize (414-790)               ser_scalar / des_scalar
     _SimpleParameterizedType.serialize_safe/deserialize_safe    enc_coll / dec_coll     (list, set)
     MapType.serialize_safe/deserialize_safe                     enc_map / dec_map
     TupleType.serialize_safe/deserialize_safe                   enc_tuple / dec_fields
     UserType.serialize_safe (deserialize = TupleType's)         enc_udt / dec_fields
     VectorType.serialize/deserialize                            enc_vec / dec_chunks, dec_vec_var
     FrozenType / ReversedType                                   delegate to to_binary/from_binary of the subtype
   None = "the Python code raises".  Python slices never raise: byts[p:p+n] past the end is silently shorter;
   the reader state `rd` keeps that behaviour (None = index already beyond the end of the buffer). *)
From Coq Require Import ZArith List Bool.
From Verif Require Import PyBase MarshalModel Utf8Model CqlType.
Import ListNotations.
Local Open Scope Z_scope.

Definition obind {A B} (o : option A) (f : A -> option B) : option B :=
  match o with Some a => f a | None => None end.
Notation "x <- e ;; k" := (obind e (fun x => k)) (at level 61, e at next level, right associativity).

Definition is_nil {A} (l : list A) : bool := match l with [] => true | _ => false end.

(* ------------------------------------------------------------------ scalars *)
Definition ser_scalar (s : scalar) (v : value) : option (list Z) :=
  match s, v with
  | SAscii, VText cps => if all_ascii cps then Some cps else None
  | SBigint, VInt z => pack_int 8 true z
  | SBlob, VBytes bs => Some bs
  | SBoolean, VBool b => Some [if b then 1 else 0]
  | SDate, VInt d => pack_int 4 false (d + 2147483648)
  | SDecimal, VDec u sc => a <- pack_int 4 true sc ;; Some (a ++ varint_pack u)
  | SDouble, VInt bits => pack_int 8 false bits
  | SFloat, VInt bits => pack_int 4 false bits
  | SInet, VBytes bs => if (length bs =? 4)%nat || (length bs =? 16)%nat then Some bs else None
  | SInt, VInt z => pack_int 4 true z
  | SSmallint, VInt z => pack_int 2 true z
  | STinyint, VInt z => pack_int 1 true z
  | SText, VText cps => utf8_encode cps
  | STime, VInt n => if (0 <=? n) && (n <? DAY_NANOS) then pack_int 8 true n else None     (* util.Time: 0 <= t < one day *)
  | STimestamp, VInt ms => pack_int 8 true ms
  | SUuid, VBytes bs => if (length bs =? 16)%nat then Some bs else None
  | SVarint, VInt z => Some (varint_pack z)
  | SDuration, VDur m d n => vints_pack [m; d; n]
  | _, _ => None
  end.

Definition des_scalar (s : scalar) (bs : list Z) : option value :=
  match s with
  | SAscii => if all_ascii bs then Some (VText bs) else None
  | SBigint => z <- unpack_int 8 true bs ;; Some (VInt z)
  | SBlob => Some (VBytes bs)
  | SBoolean => z <- unpack_int 1 true bs ;; Some (VBool (negb (z =? 0)))
  | SDate => u <- unpack_int 4 false bs ;; Some (VInt (u - 2147483648))
  | SDecimal =>
    sc <- unpack_int 4 true (firstn 4 bs) ;;
    u <- varint_unpack (skipn 4 bs) ;;
    Some (VDec u sc)
  | SDouble => u <- unpack_int 8 false bs ;; Some (VInt u)
  | SFloat => u <- unpack_int 4 false bs ;; Some (VInt u)
  | SInet => if (length bs =? 4)%nat || (length bs =? 16)%nat then Some (VBytes bs) else None
  | SInt => z <- unpack_int 4 true bs ;; Some (VInt z)
  | SSmallint => z <- unpack_int 2 true bs ;; Some (VInt z)
  | STinyint => z <- unpack_int 1 true bs ;; Some (VInt z)
  | SText => cps <- utf8_decode bs ;; Some (VText cps)
  | STime => n <- unpack_int 8 true bs ;; if (0 <=? n) && (n <? DAY_NANOS) then Some (VInt n) else None
  | STimestamp =>
    ms <- unpack_int 8 true bs ;;
    if (TS_MIN <=? ms) && (ms <=? TS_MAX) then Some (VInt ms) else None   (* OverflowError outside datetime's range *)
  | SUuid => if (length bs =? 16)%nat then Some (VBytes bs) else None
  | SVarint => z <- varint_unpack bs ;; Some (VInt z)
  | SDuration =>
    match vints_unpack bs with
    | Some [m; d; n] => Some (VDur m d n)
    | _ => None
    end
  end.

(* ------------------------------------------------------------------ length fields *)
Definition lenw (pv : Z) : nat := if 3 <=? pv then 4%nat else 2%nat.
Definition pack_len (pv z : Z) : option (list Z) := pack_int (lenw pv) (3 <=? pv) z.
Definition unpack_len (pv : Z) (bs : list Z) : option Z := unpack_int (lenw pv) (3 <=? pv) bs.
Definition inner (pv : Z) : Z := Z.max 3 pv.

(* ------------------------------------------------------------------ encoders *)
(* one length-prefixed element; None (null) is written as length -1 *)
Definition enc_elem (pv : Z) (ser : value -> option (list Z)) (v : value) : option (list Z) :=
  match v with
  | VNull => pack_len pv (-1)
  | _ => b <- ser v ;; l <- pack_len pv (len b) ;; Some (l ++ b)
  end.

Fixpoint enc_items (pv : Z) (ser : value -> option (list Z)) (vs : list value) : option (list Z) :=
  match vs with
  | [] => Some []
  | v :: r => a <- enc_elem pv ser v ;; b <- enc_items pv ser r ;; Some (a ++ b)
  end.

Definition enc_coll (pv : Z) (ser : value -> option (list Z)) (vs : list value) : option (list Z) :=
  h <- pack_len pv (len vs) ;; b <- enc_items pv ser vs ;; Some (h ++ b).

Fixpoint enc_pairs (pv : Z) (serk serv : value -> option (list Z)) (kvs : list (value * value)) : option (list Z) :=
  match kvs with
  | [] => Some []
  | (k, x) :: r =>
    a <- enc_elem pv serk k ;; b <- enc_elem pv serv x ;; c <- enc_pairs pv serk serv r ;; Some (a ++ b ++ c)
  end.

Definition enc_map (pv : Z) (serk serv : value -> option (list Z)) (kvs : list (value * value)) : option (list Z) :=
  h <- pack_len pv (len kvs) ;; b <- enc_pairs pv serk serv kvs ;; Some (h ++ b).

(* zip(val, subtypes): stops at the shorter one *)
Fixpoint enc_tuple (ser : cqltype -> value -> option (list Z)) (ts : list cqltype) (vs : list value) : option (list Z) :=
  match ts, vs with
  | t :: ts', v :: vs' => a <- enc_elem 3 (ser t) v ;; b <- enc_tuple ser ts' vs' ;; Some (a ++ b)
  | _, _ => Some []
  end.

(* for i, (name, subtype) in enumerate(zip(fieldnames, subtypes)): item = val[i]  -- IndexError if val is shorter *)
Fixpoint enc_udt (ser : cqltype -> value -> option (list Z)) (ts : list cqltype) (vs : list value) : option (list Z) :=
  match ts, vs with
  | [], _ => Some []
  | t :: ts', v :: vs' => a <- enc_elem 3 (ser t) v ;; b <- enc_udt ser ts' vs' ;; Some (a ++ b)
  | _ :: _, [] => None
  end.

Fixpoint enc_vec (ser : value -> option (list Z)) (fixed : bool) (vs : list value) : option (list Z) :=
  match vs with
  | [] => Some []
  | v :: r =>
    b <- ser v ;;
    p <- (if fixed then Some [] else uvint_pack (len b)) ;;
    c <- enc_vec ser fixed r ;;
    Some (p ++ b ++ c)
  end.

Definition is_some {A} (o : option A) : bool := match o with Some _ => true | None => false end.

(* to_binary: b'' if val is None else serialize(val) *)
Definition wrap_to (ser : value -> option (list Z)) (v : value) : option (list Z) :=
  match v with VNull => Some [] | _ => ser v end.

Fixpoint serialize (pv : Z) (t : cqltype) (v : value) {struct t} : option (list Z) :=
  match t with
  | TScalar s => ser_scalar s v
  | TList t' | TSet t' =>
    match v with VSeq vs => enc_coll pv (serialize (inner pv) t') vs | _ => None end
  | TMap k x =>
    match v with VMap kvs => enc_map pv (serialize (inner pv) k) (serialize (inner pv) x) kvs | _ => None end
  | TTuple ts =>
    match v with
    | VSeq vs =>
      if (length ts <? length vs)%nat then None
      else (fix go (ts : list cqltype) (vs : list value) {struct ts} : option (list Z) :=       (* = enc_tuple *)
              match ts, vs with
              | t1 :: ts', v1 :: vs' => a <- enc_elem 3 (serialize (inner pv) t1) v1 ;; b <- go ts' vs' ;; Some (a ++ b)
              | _, _ => Some []
              end) ts vs
    | _ => None
    end
  | TUdt ts =>
    let go := (fix go (ts : list cqltype) (vs : list value) {struct ts} : option (list Z) :=         (* = enc_udt *)
                 match ts, vs with
                 | [], _ => Some []
                 | t1 :: ts', v1 :: vs' => a <- enc_elem 3 (serialize (inner pv) t1) v1 ;; b <- go ts' vs' ;; Some (a ++ b)
                 | _ :: _, [] => None
                 end) in
    match v with
    | VSeq vs => go ts vs
    | VNull => go ts (map (fun _ => VNull) ts)   (* val[i] -> TypeError -> getattr(None, name, None) *)
    | _ => None
    end
  | TVector t' n =>
    match v with
    | VSeq vs => if n =? len vs then enc_vec (serialize pv t') (is_some (serial_size t')) vs else None
    | _ => None
    end
  | TFrozen t' | TReversed t' => wrap_to (serialize pv t') v
  end.

Definition to_binary (pv : Z) (t : cqltype) (v : value) : option (list Z) := wrap_to (serialize pv t) v.

(* ------------------------------------------------------------------ decoders *)
(* position in the buffer: Some rest = p <= len(byts) with rest = byts[p:];  None = p > len(byts) *)
Definition rd := option (list Z).

(* struct unpack of byts[p:p+k]: raises unless exactly k bytes are there *)
Definition rd_fixed (k : nat) (s : rd) : option (list Z * rd) :=
  match s with
  | Some r => if (k <=? length r)%nat then Some (firstn k r, Some (skipn k r)) else None
  | None => None
  end.

(* item = byts[p:p+n]; p += n   (n >= 0) -- never raises, may run past the end *)
Definition rd_slice (n : Z) (s : rd) : list Z * rd :=
  match s with
  | Some r => if n <=? len r then (firstn (Z.to_nat n) r, Some (skipn (Z.to_nat n) r)) else (r, None)
  | None => ([], None)
  end.

(* from_binary (byts is not None): None for b'' unless empty_binary_ok (support_empty_values is False) *)
Definition wrap_from (eok : bool) (des : list Z -> option value) (bs : list Z) : option value :=
  if is_nil bs && negb eok then Some VNull else des bs.

Definition dec_elem (pv : Z) (fb : list Z -> option value) (s : rd) : option (value * rd) :=
  match rd_fixed (lenw pv) s with
  | None => None
  | Some (lb, s1) =>
    l <- unpack_len pv lb ;;
    if l <? 0 then Some (VNull, s1)
    else let '(item, s2) := rd_slice l s1 in
         v <- fb item ;; Some (v, s2)
  end.

(* for _ in range(n): each iteration reads a length field, so fuel = S (len byts) is never exhausted *)
Fixpoint dec_items (fuel : nat) (pv : Z) (fb : list Z -> option value) (n : Z) (s : rd) : option (list value) :=
  if n <=? 0 then Some []
  else match fuel with
       | O => None
       | S f =>
         match dec_elem pv fb s with
         | None => None
         | Some (v, s') => r <- dec_items f pv fb (n - 1) s' ;; Some (v :: r)
         end
       end.

Definition dec_coll (pv : Z) (fb : list Z -> option value) (bs : list Z) : option value :=
  match rd_fixed (lenw pv) (Some bs) with
  | None => None
  | Some (hb, s1) =>
    n <- unpack_len pv hb ;;
    vs <- dec_items (S (length bs)) pv fb n s1 ;;
    Some (VSeq vs)
  end.

Fixpoint dec_pairs (fuel : nat) (pv : Z) (fk fv : list Z -> option value) (n : Z) (s : rd) : option (list (value * value)) :=
  if n <=? 0 then Some []
  else match fuel with
       | O => None
       | S f =>
         match dec_elem pv fk s with
         | None => None
         | Some (k, s1) =>
           match dec_elem pv fv s1 with
           | None => None
           | Some (x, s2) => r <- dec_pairs f pv fk fv (n - 1) s2 ;; Some ((k, x) :: r)
           end
         end
       end.

Definition dec_map (pv : Z) (fk fv : list Z -> option value) (bs : list Z) : option value :=
  match rd_fixed (lenw pv) (Some bs) with
  | None => None
  | Some (hb, s1) =>
    n <- unpack_len pv hb ;;
    kvs <- dec_pairs (S (length bs)) pv fk fv n s1 ;;
    Some (VMap kvs)
  end.

Definition at_end (s : rd) : bool := match s with Some [] => true | _ => false end.

(* TupleType.deserialize_safe: stop at the end of the buffer, pad with None *)
Fixpoint dec_fields (fb : cqltype -> list Z -> option value) (ts : list cqltype) (s : rd) : option (list value) :=
  match ts with
  | [] => Some []
  | t :: ts' =>
    if at_end s then Some (map (fun _ => VNull) ts)
    else match rd_fixed 4 s with
         | None => None
         | Some (lb, s1) =>
           l <- unpack_int 4 true lb ;;
           if 0 <=? l then
             let '(item, s2) := rd_slice l s1 in
             v <- fb t item ;; r <- dec_fields fb ts' s2 ;; Some (v :: r)
           else r <- dec_fields fb ts' s1 ;; Some (VNull :: r)        (* from_binary(None) = None *)
         end
  end.

Fixpoint dec_chunks (k sz : nat) (des : list Z -> option value) (bs : list Z) : option (list value) :=
  match k with
  | O => Some []
  | S k' => v <- des (firstn sz bs) ;; r <- dec_chunks k' sz des (skipn sz bs) ;; Some (v :: r)
  end.

(* while len(rv) < n: size, read = uvint_unpack(byts[idx:]); idx += read; item = byts[idx:idx+size]; idx += size
   any exception -> ValueError; afterwards idx < len(byts) -> ValueError *)
Fixpoint dec_vec_var (k : nat) (des : list Z -> option value) (s : rd) : option (list value) :=
  match k with
  | O => match s with Some (_ :: _) => None | _ => Some [] end
  | S k' =>
    match s with
    | None => None
    | Some r =>
      match uvint_read r with
      | None => None
      | Some (size, _, r1) =>
        let '(item, s2) := rd_slice size (Some r1) in
        v <- des item ;; rest <- dec_vec_var k' des s2 ;; Some (v :: rest)
      end
    end
  end.

Fixpoint deserialize (pv : Z) (t : cqltype) (bs : list Z) {struct t} : option value :=
  match t with
  | TScalar s => des_scalar s bs
  | TList t' | TSet t' => dec_coll pv (wrap_from (empty_ok t') (deserialize (inner pv) t')) bs
  | TMap k x =>
    dec_map pv (wrap_from (empty_ok k) (deserialize (inner pv) k)) (wrap_from (empty_ok x) (deserialize (inner pv) x)) bs
  | TTuple ts | TUdt ts =>
    vs <- (fix go (ts : list cqltype) (s : rd) {struct ts} : option (list value) :=                  (* = dec_fields *)
             match ts with
             | [] => Some []
             | t1 :: ts' =>
               if at_end s then Some (map (fun _ => VNull) ts)
               else match rd_fixed 4 s with
                    | None => None
                    | Some (lb, s1) =>
                      l <- unpack_int 4 true lb ;;
                      if 0 <=? l then
                        let '(item, s2) := rd_slice l s1 in
                        v <- wrap_from (empty_ok t1) (deserialize (inner pv) t1) item ;; r <- go ts' s2 ;; Some (v :: r)
                      else r <- go ts' s1 ;; Some (VNull :: r)
                    end
             end) ts (Some bs) ;;
    Some (VSeq vs)
  | TVector t' n =>
    match serial_size t' with
    | Some sz =>
      if len bs =? sz * n
      then vs <- dec_chunks (Z.to_nat n) (Z.to_nat sz) (deserialize pv t') bs ;; Some (VSeq vs)
      else None
    | None => vs <- dec_vec_var (Z.to_nat n) (deserialize pv t') (Some bs) ;; Some (VSeq vs)
    end
  | TFrozen t' | TReversed t' => wrap_from (empty_ok t') (deserialize pv t') bs
  end.

Definition from_binary (pv : Z) (t : cqltype) (bs : list Z) : option value :=
  wrap_from (empty_ok t) (deserialize pv t) bs.

(* ------------------------------------------------------------------ reading a decoded map back (util.OrderedMapSerializedKey)
   The decoded map keeps every key's wire bytes; m[key], `key in m` and therefore items()/values()/dict(m) re-serialize the
   key with cass_key_type.serialize(key, v) and look the bytes up.  MapType.deserialize_safe passes v = inner_proto
   (repo fix f4644eb; before it the outer protocol version was passed). *)
Definition key_lookup_bytes (pv : Z) (kt : cqltype) (k : value) : option (list Z) := serialize (inner pv) kt k.
Definition key_lookup_bytes_outer (pv : Z) (kt : cqltype) (k : value) : option (list Z) := serialize pv kt k.

(* util.Date._from_timetuple (SimpleDateType.serialize of a datetime.date / datetime.datetime / 'yyyy-mm-dd'):
   days_from_epoch = calendar.timegm(t) // Date.DAY   (floor, also before 1970) *)
Definition date_days_of_seconds (secs : Z) : Z := secs / 86400.
