(* Harness support (no part of any theorem): type-directed comparison of a model result with the canonicalised
   result of the implementation.  Sets are compared as sets (the driver returns a util.sortedset, the model
   keeps wire order); binary32 NaNs modulo the quiet bit (a Python float cannot hold a binary32 signalling NaN). *)
From Coq Require Import ZArith List Bool.
From Verif Require Import CqlType.
Import ListNotations.
Local Open Scope Z_scope.

Definition canon32 (b : Z) : Z :=
  if (Z.land b 2139095040 =? 2139095040) && negb (Z.land b 8388607 =? 0) then Z.lor b 4194304 else b.

(* set equality by mutual inclusion: util.sortedset drops elements equal to one already present *)
Definition incl_by (eq : value -> value -> bool) (a b : list value) : bool :=
  forallb (fun x => existsb (eq x) b) a.
Definition perm_eqb (eq : value -> value -> bool) (a b : list value) : bool :=
  incl_by eq a b && incl_by (fun x y => eq y x) b a.

Fixpoint list_eqb_by (eq : value -> value -> bool) (a b : list value) : bool :=
  match a, b with
  | [], [] => true
  | x :: a', y :: b' => eq x y && list_eqb_by eq a' b'
  | _, _ => false
  end.

Fixpoint value_sim (t : cqltype) (a b : value) {struct t} : bool :=
  match a, b with
  | VNull, VNull => true
  | VNull, _ | _, VNull => false
  | _, _ =>
    match t with
    | TScalar SFloat => match a, b with VInt x, VInt y => canon32 x =? canon32 y | _, _ => false end
    | TScalar _ => value_eqb a b
    | TList t' | TVector t' _ =>
      match a, b with VSeq xs, VSeq ys => list_eqb_by (value_sim t') xs ys | _, _ => false end
    | TSet t' =>
      match a, b with VSeq xs, VSeq ys => perm_eqb (value_sim t') xs ys | _, _ => false end
    | TMap k v =>
      match a, b with
      | VMap xs, VMap ys =>
        (fix go (xs ys : list (value * value)) : bool :=
           match xs, ys with
           | [], [] => true
           | (k1, x1) :: xs', (k2, x2) :: ys' => value_sim k k1 k2 && value_sim v x1 x2 && go xs' ys'
           | _, _ => false
           end) xs ys
      | _, _ => false
      end
    | TTuple ts | TUdt ts =>
      match a, b with
      | VSeq xs, VSeq ys =>
        (fix go (ts : list cqltype) (xs ys : list value) {struct ts} : bool :=
           match ts, xs, ys with
           | _, [], [] => true
           | t1 :: ts', x :: xs', y :: ys' => value_sim t1 x y && go ts' xs' ys'
           | _, _, _ => false
           end) ts xs ys
      | _, _ => false
      end
    | TFrozen t' | TReversed t' => value_sim t' a b
    end
  end.

Definition ovalue_sim (t : cqltype) (a b : option value) : bool :=
  match a, b with
  | None, None => true
  | Some x, Some y => value_sim t x y
  | _, _ => false
  end.
