(* INDEPENDENT SPECIFICATION (trusted, transcribed from the Java documentation / Cassandra sources from memory):
   integer encodings used by Cassandra's type serializers.  Written without looking at the driver's algorithms.
   NO PROOFS HERE.

   - java.math.BigInteger.toByteArray(): "the two's-complement representation ... big-endian ... the minimum
     number of bytes required to represent this BigInteger, including at least one sign bit, which is
     (ceil((this.bitLength() + 1)/8))";  bitLength() = ceil(log2(this < 0 ? -this : this+1)).
   - org.apache.cassandra.utils.vint.VIntCoding:
       computeUnsignedVIntSize(v) = (639 - numberOfLeadingZeros(v | 1) * 9) >> 6
       encodeVInt: size bytes big-endian of v, first byte |= ~(0xff >> (size-1));  size 1: the byte itself
       writeVInt(n) = writeUnsignedVInt((n << 1) ^ (n >> 63))  on Java longs: 0,-1,1,-2,... -> 0,1,2,3,... *)
From Coq Require Import ZArith List Bool.
Import ListNotations.
Local Open Scope Z_scope.

Definition bitlen (u : Z) : Z := if u <=? 0 then 0 else Z.log2 u + 1.

(* n-byte big-endian two's-complement representation: the byte of weight 256^k is floor(u / 2^(8k)) mod 256
   (Z.shiftr u m is floor(u / 2^m), also for negative u: Z.shiftr_div_pow2; used because it evaluates fast) *)
Fixpoint spec_be (n : nat) (u : Z) : list Z :=
  match n with
  | O => []
  | S k => (Z.shiftr u (8 * Z.of_nat k)) mod 256 :: spec_be k u
  end.

(* signed value of a big-endian two's-complement byte string *)
Fixpoint spec_unsigned (bs : list Z) : Z :=
  match bs with [] => 0 | b :: r => b * 2 ^ (8 * Z.of_nat (length r)) + spec_unsigned r end.
Definition twos_val (bs : list Z) : Z :=
  match bs with
  | [] => 0
  | b :: _ => if 128 <=? b then spec_unsigned bs - 2 ^ (8 * Z.of_nat (length bs)) else spec_unsigned bs
  end.

Definition java_bit_length (z : Z) : Z := if z <? 0 then bitlen (- z - 1) else bitlen z.
Definition spec_varint (z : Z) : list Z := spec_be (Z.to_nat (java_bit_length z / 8 + 1)) z.

Definition is_byte (b : Z) : Prop := 0 <= b < 256.

(* VIntCoding *)
Definition spec_uvint_size (v : Z) : Z := (639 - (64 - bitlen (Z.lor v 1)) * 9) / 64.
Definition spec_uvint (v : Z) : list Z :=
  let size := spec_uvint_size v in
  if size =? 1 then [v]
  else match spec_be (Z.to_nat size) v with
       | b0 :: r => Z.lor b0 (255 - Z.shiftr 255 (size - 1)) :: r
       | [] => []
       end.
Definition spec_zigzag (n : Z) : Z := if 0 <=? n then 2 * n else - 2 * n - 1.
Definition spec_vint (n : Z) : list Z := spec_uvint (spec_zigzag n).

Definition int64 (z : Z) : Prop := - 2 ^ 63 <= z < 2 ^ 63.
