(* FutB -- executable model of cassandra.cluster.ResponseFuture's host selection, retry handling and re-prepare
   path (C16, C17, C19).  Source regions <-> model functions:
     ResponseFuture._query                      query
     ResponseFuture.send_request                send_request      (timeout=None: the `_on_timeout` exit is C15's)
     ResponseFuture._set_result                 set_result        (error branches + rows/void/other result)
     ResponseFuture._handle_retry_decision      handle_decision   (with _retry inlined)
     ResponseFuture._retry_task                 run_task (TRetry)
     ResponseFuture._reprepare                  run_task (TReprepare)
     ResponseFuture._execute_after_prepare      run_task (TAfterPrepare)
     ResponseFuture._on_speculative_execute     spec_fire         (+ _start_timer's speculative half)
     Session._create_response_future l.3105     spec_gate / init  (speculative plan only for idempotent statements)
     ProtocolVersion.uses_keyspace_flag         GENERATED (Gen/FutbProto.v)
   One op = one call into the real code by the harness (lib/vf/futb_harness.py): the executor queue makes every
   `session.submit` a separate step, responses are delivered per attempt, so all orders of responses, executor tasks,
   speculative timer firings and pool-state changes are histories of this machine.
   The retry policy is an ORACLE: an arbitrary function of the consultation number and all arguments.
   NO PROOFS IN THIS FILE. *)
From Coq Require Import ZArith List Bool.
From Verif Require Import PyBase FutbProto.
Import ListNotations.
Local Open Scope Z_scope.

Definition host := Z.

Inductive pstate := PMissing | PShutdown | PNoConn | PBusy | PFail | PSendFail | PHealthy
  | PNoConnSlow.   (* borrow_connection blocks until the request's client timeout has elapsed, then NoConnectionsAvailable *)
Inductive decision := DRetry | DRethrow | DIgnore | DNextHost.
(* failures for which _set_result consults the retry policy *)
Inductive ekind := KReadTimeout | KWriteTimeout | KUnavailable | KOverloaded | KBootstrapping | KTruncate
                 | KServerError | KConnExc | KConnShutdown.

Inductive resp :=
| RRows | RVoid
| RRowsMore                   (* ROWS with a paging state: more pages follow *)
| RPrepared (id : Z)
| RRetryable (k : ekind) (tag : Z)
| RUnprepared (id : Z) (tag : Z)
| ROtherError (tag : Z)      (* ErrorMessage without retry handling: syntax error, invalid request, ... *)
| ROtherExc (tag : Z)        (* an Exception that is neither ErrorMessage nor ConnectionException *)
| RJunk.                     (* not a message, not an exception *)

(* values of ResponseFuture._errors *)
Inductive err := EDown | EShutdown | ENoConn | EBusy | EBorrowFail | ESendFail | EResp (k : ekind) (tag : Z).

Inductive fres := FRows | FNone | FMsg.
Inductive fexc :=
| XResp (k : ekind) (tag : Z)       (* exception_from_response(the retryable error) *)
| XOtherError (tag : Z) | XOtherExc (tag : Z) | XUnprepared (tag : Z)
| XNoHost            (* NoHostAvailable; its .errors IS the future's live _errors dict (no copy): read `errors s` *)
| XIdMismatch | XKsMismatch | XUnexpected | XAssert | XAttr
| XShutdown
| XTimeout.                         (* OperationTimedOut set by _on_timeout *)                        (* ConnectionShutdown: the shut-down session refused the follow-up work *)

Inductive mkind := MOrig (cl : option Z) | MPrepare (qs : Z) (ks : option Z).
(* why a message was sent (ghost: not observable on the implementation, used by the theorems) *)
Inductive cause := CPlan | CRetrySame | CReprepare | CResend.

Inductive task :=
| TRetry (reuse : bool) (h : host)
| TReprepare (h : host) (qs : Z) (ks : option Z)
| TAfterPrepare (h : host) (r : resp).

Inductive event :=
| Sent (h : host) (m : mkind) (c : cause)
| ErrSet (h : host) (e : err)
| Consult (n : nat) (h : host) (k : ekind) (tag : Z) (retry_num : Z) (cl : option Z) (d : decision) (dcl : option Z).
(* Consult: the n-th consultation of the policy, about a failure of kind k (response tag) from host h (ghost: the policy
   is not told the host), with the arguments retry_num and (for on_request_error) consistency; d, dcl = its answer *)

Definition pstmt := (Z * Z * option Z)%type.     (* query_id, query_string, keyspace *)
Definition policy := nat -> ekind -> Z -> Z -> option Z -> decision * option Z.

Record config := {
  pol : policy;
  fut_ps : option pstmt;              (* ResponseFuture.prepared_statement *)
  known : list (Z * pstmt);           (* cluster._prepared_statements *)
  pv : Z;                             (* cluster.protocol_version *)
  tgt : option host;                  (* ResponseFuture._host: execute(..., host=h); must be the `target` given to init *)
  inline_retry : bool                 (* executor-first schedule: a submitted _retry_task runs before the submitting thread
                                         goes on (so before _handle_retry_decision records the answering host's error) *)
}.

Record attempt := { a_host : host; a_prep : bool; a_done : bool; a_page : nat }.   (* a_page: the page fetch it belongs to *)

Record state := {
  plan : list host;            (* not yet consumed part of the query plan *)
  consumed : list host;        (* ghost: hosts taken off the plan, in order *)
  pools : list (host * pstate);
  msg_cl : option Z;           (* message.consistency_level *)
  retries : Z;                 (* _query_retries *)
  nconsult : nat;
  errors : list (host * err);  (* _errors, in dict order *)
  queue : list task;           (* session.submit queue *)
  attempts : list attempt;     (* messages handed to a connection, in order *)
  fin_res : option fres;
  fin_exc : option fexc;
  spec_armed : bool;           (* a live timer for _on_speculative_execute exists *)
  spec_left : Z;               (* ConstantSpeculativeExecutionPlan.remaining *)
  conn_ks : option Z;          (* keyspace of the session's connections *)
  paging : bool;               (* _paging_state is set: the delivered page said there are more pages *)
  page_no : nat;               (* _page_no: which page fetch is current *)
  elapsed : bool;              (* the request's client timeout has elapsed (time passes inside a slow borrow_connection) *)
  borrowed : bool              (* _connection is not None: some borrow_connection of this request succeeded *)
}.

Inductive op :=
| Start
| Resp (i : nat) (r : resp)
| Run (k : nat)
| Spec
| SetPool (h : host) (p : pstate)
| SetKs (k : option Z)
| NextPage (p : list host).   (* start_fetching_next_page; p = the load balancer's plan for this page fetch *)

(* ---------------------------------------------------------------- small helpers *)
Fixpoint lookup {A} (l : list (Z * A)) (h : Z) : option A :=
  match l with [] => None | (k, v) :: l' => if k =? h then Some v else lookup l' h end.

Fixpoint upd {A} (l : list (Z * A)) (h : Z) (v : A) : list (Z * A) :=
  match l with
  | [] => [(h, v)]
  | (k, w) :: l' => if k =? h then (k, v) :: l' else (k, w) :: upd l' h v
  end.

Definition pool_of (s : state) (h : host) : pstate :=
  match lookup (pools s) h with Some p => p | None => PMissing end.

Definition is_some {A} (o : option A) : bool := match o with Some _ => true | None => false end.
Definition completed (s : state) : bool := is_some (fin_res s) || is_some (fin_exc s).

Definition opt_eqb (a b : option Z) : bool :=
  match a, b with Some x, Some y => x =? y | None, None => true | _, _ => false end.

Fixpoint remove_nth {A} (n : nat) (l : list A) : list A :=
  match l, n with
  | [], _ => []
  | _ :: l', O => l'
  | x :: l', S n' => x :: remove_nth n' l'
  end.

Fixpoint mark_done (n : nat) (l : list attempt) : list attempt :=
  match l, n with
  | [], _ => []
  | a :: l', O => {| a_host := a_host a; a_prep := a_prep a; a_done := true; a_page := a_page a |} :: l'
  | a :: l', S n' => a :: mark_done n' l'
  end.

(* ---------------------------------------------------------------- state setters *)
Definition set_err (s : state) (h : host) (e : err) : state :=
  {| plan := plan s; consumed := consumed s; pools := pools s; msg_cl := msg_cl s; retries := retries s;
     nconsult := nconsult s; errors := upd (errors s) h e; queue := queue s; attempts := attempts s;
     fin_res := fin_res s; fin_exc := fin_exc s; spec_armed := spec_armed s; spec_left := spec_left s;
     conn_ks := conn_ks s; paging := paging s; page_no := page_no s; elapsed := elapsed s; borrowed := borrowed s |}.

(* raw setters; the model uses fail_with / finish_with below (first outcome wins) *)
Definition set_exc (s : state) (x : fexc) : state :=
  {| plan := plan s; consumed := consumed s; pools := pools s; msg_cl := msg_cl s; retries := retries s;
     nconsult := nconsult s; errors := errors s; queue := queue s; attempts := attempts s;
     fin_res := fin_res s; fin_exc := Some x; spec_armed := false; spec_left := spec_left s;
     conn_ks := conn_ks s; paging := paging s; page_no := page_no s; elapsed := elapsed s; borrowed := borrowed s |}.

Definition set_res (s : state) (r : fres) : state :=
  {| plan := plan s; consumed := consumed s; pools := pools s; msg_cl := msg_cl s; retries := retries s;
     nconsult := nconsult s; errors := errors s; queue := queue s; attempts := attempts s;
     fin_res := Some r; fin_exc := fin_exc s; spec_armed := false; spec_left := spec_left s;
     conn_ks := conn_ks s; paging := paging s; page_no := page_no s; elapsed := elapsed s; borrowed := borrowed s |}.

(* cluster.py (first-outcome-wins guard in _set_final_result/_set_final_exception): the timer is cancelled in any case, the
   outcome is stored only if none has been delivered yet *)
Definition cancel_timer (s : state) : state :=
  {| plan := plan s; consumed := consumed s; pools := pools s; msg_cl := msg_cl s; retries := retries s;
     nconsult := nconsult s; errors := errors s; queue := queue s; attempts := attempts s;
     fin_res := fin_res s; fin_exc := fin_exc s; spec_armed := false; spec_left := spec_left s;
     conn_ks := conn_ks s; paging := paging s; page_no := page_no s; elapsed := elapsed s; borrowed := borrowed s |}.

Definition fail_with (s : state) (x : fexc) : state := if completed s then cancel_timer s else set_exc s x.
Definition finish_with (s : state) (r : fres) : state := if completed s then cancel_timer s else set_res s r.

(* The session itself is the pseudo-host -1 of the environment: `SetPool (-1) PShutdown` = Session.shutdown().  ResponseFuture._submit:
   a shut-down session refuses follow-up work (retry, re-prepare, execute-after-prepare): the request fails with ConnectionShutdown *)
Definition session_shut (s : state) : bool :=
  match lookup (pools s) (-1) with Some PShutdown => true | _ => false end.

Definition push_task (s : state) (t : task) : state :=
  {| plan := plan s; consumed := consumed s; pools := pools s; msg_cl := msg_cl s; retries := retries s;
     nconsult := nconsult s; errors := errors s; queue := queue s ++ [t]; attempts := attempts s;
     fin_res := fin_res s; fin_exc := fin_exc s; spec_armed := spec_armed s; spec_left := spec_left s;
     conn_ks := conn_ks s; paging := paging s; page_no := page_no s; elapsed := elapsed s; borrowed := borrowed s |}.

Definition submit (s : state) (t : task) : state :=
  if session_shut s then fail_with s XShutdown else push_task s t.

Definition add_attempt (s : state) (h : host) (prep : bool) : state :=
  {| plan := plan s; consumed := consumed s; pools := pools s; msg_cl := msg_cl s; retries := retries s;
     nconsult := nconsult s; errors := errors s; queue := queue s;
     attempts := attempts s ++ [{| a_host := h; a_prep := prep; a_done := false; a_page := page_no s |}];
     fin_res := fin_res s; fin_exc := fin_exc s; spec_armed := spec_armed s; spec_left := spec_left s;
     conn_ks := conn_ks s; paging := paging s; page_no := page_no s; elapsed := elapsed s; borrowed := borrowed s |}.

Definition take_host (s : state) (h : host) (rest : list host) : state :=
  {| plan := rest; consumed := consumed s ++ [h]; pools := pools s; msg_cl := msg_cl s; retries := retries s;
     nconsult := nconsult s; errors := errors s; queue := queue s; attempts := attempts s;
     fin_res := fin_res s; fin_exc := fin_exc s; spec_armed := spec_armed s; spec_left := spec_left s;
     conn_ks := conn_ks s; paging := paging s; page_no := page_no s; elapsed := elapsed s; borrowed := borrowed s |}.

Definition set_paging (s : state) (b : bool) : state :=
  {| plan := plan s; consumed := consumed s; pools := pools s; msg_cl := msg_cl s; retries := retries s;
     nconsult := nconsult s; errors := errors s; queue := queue s; attempts := attempts s;
     fin_res := fin_res s; fin_exc := fin_exc s; spec_armed := spec_armed s; spec_left := spec_left s;
     conn_ks := conn_ks s; paging := b; page_no := page_no s; elapsed := elapsed s; borrowed := borrowed s |}.

(* ROWS: the page and its paging state are delivered together, and only if this answer is the first outcome of the page fetch *)
Definition finish_rows (s : state) (more : bool) : state :=
  if completed s then cancel_timer s else set_paging (set_res s FRows) more.

Definition is_prepare (m : mkind) : bool := match m with MPrepare _ _ => true | _ => false end.

(* ---------------------------------------------------------------- _query *)
(* returns (state, events, request sent?) *)
(* what borrow_connection does to the request besides its result: a slow borrow lets the client timeout elapse, a
   successful one sets _connection *)
Definition touch (s : state) (p : pstate) : state :=
  {| plan := plan s; consumed := consumed s; pools := pools s; msg_cl := msg_cl s; retries := retries s;
     nconsult := nconsult s; errors := errors s; queue := queue s; attempts := attempts s;
     fin_res := fin_res s; fin_exc := fin_exc s; spec_armed := spec_armed s; spec_left := spec_left s;
     conn_ks := conn_ks s; paging := paging s; page_no := page_no s;
     elapsed := elapsed s || match p with PNoConnSlow => true | _ => false end;
     borrowed := borrowed s || match p with PBusy | PSendFail | PHealthy => true | _ => false end |}.

(* _on_timeout (PYTHON-853): while no connection was ever borrowed it only re-schedules itself; else OperationTimedOut *)
Definition on_timeout (s : state) : state := if borrowed s then fail_with s XTimeout else s.

Definition query (s0 : state) (h : host) (m : mkind) (c : cause) : state * list event * bool :=
  let s := touch s0 (pool_of s0 h) in
  let fail e := (set_err s h e, [ErrSet h e], false) in
  match pool_of s0 h with
  | PNoConnSlow => fail ENoConn
  | PMissing => fail EDown
  | PShutdown => fail EShutdown
  | PNoConn => fail ENoConn
  | PBusy => fail EBusy
  | PFail => fail EBorrowFail
  | PSendFail => fail ESendFail
  | PHealthy => (add_attempt s h (is_prepare m), [Sent h m c], true)
  end.

(* ---------------------------------------------------------------- send_request *)
Fixpoint walk (s : state) (p : list host) (error_no_hosts : bool) : state * list event :=
  match p with
  | [] => ((if error_no_hosts then fail_with s XNoHost else s), [])
  | h :: rest =>
      let '(s1, ev, ok) := query (take_host s h rest) h (MOrig (msg_cl s)) CPlan in
      if ok then (s1, ev)
      else if elapsed s1 then (on_timeout s1, ev)      (* client timeout elapsed while walking: _on_timeout(); return True *)
      else let '(s2, ev2) := walk s1 rest error_no_hosts in (s2, ev ++ ev2)
  end.

Definition send_request (s : state) (error_no_hosts : bool) : state * list event :=
  walk s (plan s) error_no_hosts.

(* ---------------------------------------------------------------- _handle_retry_decision (+ _retry) *)
Definition bump_counters (s : state) (dcl : option Z) : state :=
  (* self._query_retries += 1 ; _retry: stop if _final_exception, else set the level and submit the task *)
  let keep := is_some (fin_exc s) in
  {| plan := plan s; consumed := consumed s; pools := pools s;
     msg_cl := if keep then msg_cl s else match dcl with Some c => Some c | None => msg_cl s end;
     retries := retries s + 1; nconsult := nconsult s; errors := errors s;
     queue := queue s; attempts := attempts s;
     fin_res := fin_res s; fin_exc := fin_exc s; spec_armed := spec_armed s; spec_left := spec_left s;
     conn_ks := conn_ks s; paging := paging s; page_no := page_no s; elapsed := elapsed s; borrowed := borrowed s |}.

Definition bump_retry (s : state) (dcl : option Z) (t : task) : state :=
  let s1 := bump_counters s dcl in
  if is_some (fin_exc s) then s1 else submit s1 t.

Definition handle_decision (s : state) (h : host) (k : ekind) (tag : Z) (d : decision) (dcl : option Z)
  : state * list event :=
  let s1 := match d with
            | DRetry => bump_retry s dcl (TRetry true h)
            | DNextHost => bump_retry s dcl (TRetry false h)
            | DRethrow => fail_with s (XResp k tag)
            | DIgnore => finish_with s FNone
            end in
  (set_err s1 h (EResp k tag), [ErrSet h (EResp k tag)]).

Definition request_error_kind (k : ekind) : bool :=
  match k with KReadTimeout | KWriteTimeout | KUnavailable => false | _ => true end.

Definition tick_consult (s : state) : state :=
  {| plan := plan s; consumed := consumed s; pools := pools s; msg_cl := msg_cl s; retries := retries s;
     nconsult := S (nconsult s); errors := errors s; queue := queue s; attempts := attempts s;
     fin_res := fin_res s; fin_exc := fin_exc s; spec_armed := spec_armed s; spec_left := spec_left s;
     conn_ks := conn_ks s; paging := paging s; page_no := page_no s; elapsed := elapsed s; borrowed := borrowed s |}.

(* ---------------------------------------------------------------- _set_result (h = host of the attempt) *)
Definition uses_ks (c : config) : bool := uses_keyspace_flag (pv c).

(* keyspace check + submit(_reprepare) for the statement found *)
Definition unprep_go (c : config) (s : state) (h : host) (ps : pstmt) : state * list event :=
  let '(_, qs, ks) := ps in
  if negb (uses_ks c) && is_some ks && negb (opt_eqb (conn_ks s) ks)
  then (fail_with s XKsMismatch, [])
  else (submit s (TReprepare h qs (if uses_ks c then ks else None)), []).

Definition unprepared (c : config) (s : state) (h : host) (id tag : Z) : state * list event :=
  match fut_ps c with
  | Some (pid, pqs, pks) =>
      if negb (pid =? id) then (fail_with s XAssert, [])         (* assert query_id == response.info *)
      else match lookup (known c) id with
           | Some ps => unprep_go c s h ps
           | None => unprep_go c s h (pid, pqs, pks)
           end
  | None =>
      match lookup (known c) id with
      | Some ps => unprep_go c s h ps
      | None => (fail_with s XAttr, [])      (* log.error(... query_id.encode('hex')) raises on bytes *)
      end
  end.

Definition set_result (c : config) (s : state) (h : host) (r : resp) : state * list event :=
  match r with
  | RRows => (finish_rows s false, [])
  | RRowsMore => (finish_rows s true, [])
  | RVoid => (finish_with s FNone, [])
  | RPrepared _ => (finish_with s FMsg, [])
  | RRetryable k tag =>
      let clarg := if request_error_kind k then msg_cl s else None in
      let '(d, dcl) := pol c (nconsult s) k tag (retries s) clarg in
      let '(s1, ev) := handle_decision (tick_consult s) h k tag d dcl in
      (s1, Consult (nconsult s) h k tag (retries s) clarg d dcl :: ev)
  | RUnprepared id tag => unprepared c s h id tag
  | ROtherError tag => (fail_with s (XOtherError tag), [])
  | ROtherExc tag => (fail_with s (XOtherExc tag), [])
  | RJunk => (fail_with s XUnexpected, [])
  end.

(* ---------------------------------------------------------------- executor tasks *)
Definition query_or_next (s : state) (h : host) (m : mkind) (c : cause) : state * list event :=
  let '(s1, ev, ok) := query s h m c in
  if ok then (s1, ev) else let '(s2, ev2) := send_request s1 true in (s2, ev ++ ev2).

Definition is_conn_kind (k : ekind) : bool := match k with KConnExc | KConnShutdown => true | _ => false end.

Definition after_prepare (c : config) (s : state) (h : host) (r : resp) : state * list event :=
  if is_some (fin_exc s) then (s, [])
  else match r with
  | RPrepared id =>
      match fut_ps c with
      | Some (pid, _, _) =>
          if negb (pid =? id) then (fail_with s XIdMismatch, [])          (* repaired source: returns here *)
          else query_or_next s h (MOrig (msg_cl s)) CResend
      | None => query_or_next s h (MOrig (msg_cl s)) CResend
      end
  | RRows | RRowsMore | RVoid => (fail_with s XUnexpected, [])
  | RRetryable k tag =>
      if is_conn_kind k
      then let s1 := set_err s h (EResp k tag) in
           let '(s2, ev) := send_request s1 true in (s2, ErrSet h (EResp k tag) :: ev)
      else (fail_with s (XResp k tag), [])
  | RUnprepared _ tag => (fail_with s (XUnprepared tag), [])
  | ROtherError tag => (fail_with s (XOtherError tag), [])
  | ROtherExc _ | RJunk => (fail_with s XUnexpected, [])
  end.

Definition run_task (c : config) (s : state) (t : task) : state * list event :=
  match t with
  | TRetry reuse h =>
      if is_some (fin_exc s) then (s, [])
      else if reuse then query_or_next s h (MOrig (msg_cl s)) CRetrySame
      else send_request s true
  | TReprepare h qs ks => query_or_next s h (MPrepare qs ks) CReprepare
  | TAfterPrepare h r => after_prepare c s h r
  end.

Definition set_queue (s : state) (q : list task) : state :=
  {| plan := plan s; consumed := consumed s; pools := pools s; msg_cl := msg_cl s; retries := retries s;
     nconsult := nconsult s; errors := errors s; queue := q; attempts := attempts s;
     fin_res := fin_res s; fin_exc := fin_exc s; spec_armed := spec_armed s; spec_left := spec_left s;
     conn_ks := conn_ks s; paging := paging s; page_no := page_no s; elapsed := elapsed s; borrowed := borrowed s |}.

Definition set_attempts (s : state) (a : list attempt) : state :=
  {| plan := plan s; consumed := consumed s; pools := pools s; msg_cl := msg_cl s; retries := retries s;
     nconsult := nconsult s; errors := errors s; queue := queue s; attempts := a;
     fin_res := fin_res s; fin_exc := fin_exc s; spec_armed := spec_armed s; spec_left := spec_left s;
     conn_ks := conn_ks s; paging := paging s; page_no := page_no s; elapsed := elapsed s; borrowed := borrowed s |}.

(* ---------------------------------------------------------------- speculative timer *)
Definition set_spec (s : state) (armed : bool) (left : Z) : state :=
  {| plan := plan s; consumed := consumed s; pools := pools s; msg_cl := msg_cl s; retries := retries s;
     nconsult := nconsult s; errors := errors s; queue := queue s; attempts := attempts s;
     fin_res := fin_res s; fin_exc := fin_exc s; spec_armed := armed; spec_left := left;
     conn_ks := conn_ks s; paging := paging s; page_no := page_no s; elapsed := elapsed s; borrowed := borrowed s |}.

(* _start_timer with timeout=None: arm a speculative timer iff the plan still yields a delay *)
(* next_execution() is consumed first; the speculative timer is created only if the time remaining exceeds its delay *)
Definition start_timer (s : state) : state :=
  if spec_armed s then s
  else if 0 <? spec_left s then set_spec s (negb (elapsed s)) (spec_left s - 1) else s.

Definition spec_fire (s : state) : state * list event :=
  if negb (spec_armed s) then (s, [])
  else let s0 := set_spec s false (spec_left s) in
       if completed s0 then (s0, [])
       else match attempts s0 with
            | [] => (set_spec s0 true (spec_left s0), [])        (* re-armed: nothing sent yet *)
            | _ => if elapsed s0 then (on_timeout s0, [])          (* _time_remaining <= 0: _on_timeout(); return *)
                   else let '(s1, ev) := send_request s0 false in (start_timer s1, ev)
            end.

Definition set_env (s : state) (p : list (host * pstate)) (k : option Z) : state :=
  {| plan := plan s; consumed := consumed s; pools := p; msg_cl := msg_cl s; retries := retries s;
     nconsult := nconsult s; errors := errors s; queue := queue s; attempts := attempts s;
     fin_res := fin_res s; fin_exc := fin_exc s; spec_armed := spec_armed s; spec_left := spec_left s;
     conn_ks := k; paging := paging s; page_no := page_no s; elapsed := elapsed s; borrowed := borrowed s |}.

Definition make_plan (lb_plan : list host) (target : option host) : list host :=
  match target with Some h => [h] | None => lb_plan end.

(* DSE graph analytics request (Session._on_analytics_master_result): the plan is re-made through DefaultLoadBalancingPolicy
   with the analytics master as target: the master first, then the policy's plan without it *)
Definition replan_master (m : host) (lb_plan : list host) : list host :=
  m :: filter (fun h => negb (h =? m)) lb_plan.

(* start_fetching_next_page (after the QueryExhausted test): a fresh plan (_make_query_plan: the explicit host again, or the
   load balancer's plan for this fetch), outcome cleared, the old timer dropped and a new one started, then send_request.
   _errors, _query_retries, attempted_hosts are NOT reset by the source. *)
Definition page_start (c : config) (s : state) (p : list host) : state :=
  start_timer
  {| plan := make_plan p (tgt c); consumed := consumed s; pools := pools s; msg_cl := msg_cl s; retries := retries s;
     nconsult := nconsult s; errors := errors s; queue := queue s; attempts := attempts s;
     fin_res := None; fin_exc := None; spec_armed := false; spec_left := spec_left s;
     conn_ks := conn_ks s; paging := paging s; page_no := S (page_no s); elapsed := false; borrowed := borrowed s |}      (* _start_time = time.time(): each page fetch has its own timeout *).

(* _set_result for a retryable failure under the executor-first schedule: _handle_retry_decision's last statement
   `self._errors[host] = ...` runs AFTER the retry task it submitted.  (Early exit of _retry, a refused submit and the
   decisions RETHROW / IGNORE are as in the other schedule.) *)
Definition retry_inline (c : config) (s0 : state) (h : host) (k : ekind) (tag : Z) : state * list event :=
  let clarg := if request_error_kind k then msg_cl s0 else None in
  let '(d, dcl) := pol c (nconsult s0) k tag (retries s0) clarg in
  let go (reuse : bool) :=
    if is_some (fin_exc s0) || session_shut s0 then set_result c s0 h (RRetryable k tag)
    else let '(s2, ev2) := run_task c (bump_counters (tick_consult s0) dcl) (TRetry reuse h) in
         (set_err s2 h (EResp k tag),
          Consult (nconsult s0) h k tag (retries s0) clarg d dcl :: ev2 ++ [ErrSet h (EResp k tag)]) in
  match d with
  | DRetry => go true
  | DNextHost => go false
  | _ => set_result c s0 h (RRetryable k tag)
  end.

Definition resp_current (c : config) (s0 : state) (h : host) (r : resp) : state * list event :=
  match r with
  | RRetryable k tag => if inline_retry c then retry_inline c s0 h k tag else set_result c s0 h r
  | _ => set_result c s0 h r
  end.

(* ---------------------------------------------------------------- one step *)
Definition step (c : config) (s : state) (o : op) : state * list event :=
  match o with
  | Start => send_request s true
  | Resp i r =>
      match nth_error (attempts s) i with
      | None => (s, [])
      | Some a =>
          if a_done a then (s, [])
          else let s0 := set_attempts s (mark_done i (attempts s)) in
               if a_prep a then (submit s0 (TAfterPrepare (a_host a) r), [])
               else if Nat.eqb (a_page a) (page_no s) then resp_current c s0 (a_host a) r
               else (s0, [])        (* _set_result_of_page: the answer of an execution of an earlier page fetch is dropped *)
      end
  | Run k =>
      match nth_error (queue s) k with
      | None => (s, [])
      | Some t => run_task c (set_queue s (remove_nth k (queue s))) t
      end
  | Spec => spec_fire s
  | SetPool h p => (set_env s (upd (pools s) h p) (conn_ks s), [])
  | SetKs k => (set_env s (pools s) k, [])
  | NextPage p => if paging s then send_request (page_start c s p) true else (s, [])     (* else: raises QueryExhausted *)
  end.

(* run a history; the trace pairs every op's events with the state after it *)
Fixpoint run (c : config) (s : state) (ops : list op) : list (list event * state) :=
  match ops with
  | [] => []
  | o :: rest => let '(s1, ev) := step c s o in (ev, s1) :: run c s1 rest
  end.

Fixpoint exec (c : config) (s : state) (ops : list op) : state * list event :=
  match ops with
  | [] => (s, [])
  | o :: rest => let '(s1, ev) := step c s o in let '(s2, ev2) := exec c s1 rest in (s2, ev ++ ev2)
  end.

(* ---------------------------------------------------------------- initial state *)
(* Session._create_response_future: spec_exec_plan = policy.new_plan(...) if query.is_idempotent and policy else None;
   ResponseFuture.__init__: _make_query_plan (explicit host -> single-host plan), _start_timer *)
Definition spec_gate (idempotent has_policy : bool) (max_attempts : Z) : Z :=
  if idempotent && has_policy then max_attempts else 0.


Definition init (lb_plan : list host) (target : option host) (pl : list (host * pstate)) (cl : option Z)
           (idempotent has_policy : bool) (max_attempts : Z) (ks : option Z) : state :=
  start_timer
  {| plan := make_plan lb_plan target; consumed := []; pools := pl; msg_cl := cl; retries := 0; nconsult := 0%nat;
     errors := []; queue := []; attempts := []; fin_res := None; fin_exc := None;
     spec_armed := false; spec_left := spec_gate idempotent has_policy max_attempts; conn_ks := ks;
     paging := false; page_no := 0%nat; elapsed := false; borrowed := false |}.

(* ---------------------------------------------------------------- observation encoding (correspondence only) *)
Definition enc_opt (o : option Z) : list Z := match o with None => [0] | Some z => [1; z] end.
Definition enc_kind (k : ekind) : Z :=
  match k with KReadTimeout => 0 | KWriteTimeout => 1 | KUnavailable => 2 | KOverloaded => 3 | KBootstrapping => 4
             | KTruncate => 5 | KServerError => 6 | KConnExc => 7 | KConnShutdown => 8 end.
Definition enc_err (e : err) : list Z :=
  match e with EDown => [0] | EShutdown => [1] | ENoConn => [2] | EBusy => [3] | EBorrowFail => [4] | ESendFail => [5]
             | EResp k tag => [6; enc_kind k; tag] end.
Definition enc_mkind (m : mkind) : list Z :=
  match m with MOrig cl => 0 :: enc_opt cl | MPrepare qs ks => 1 :: qs :: enc_opt ks end.
Definition enc_event (e : event) : list Z :=
  match e with
  | Sent h m _ => 1 :: h :: enc_mkind m
  | ErrSet h e => 2 :: h :: enc_err e
  | Consult _ _ k tag rn cl _ _ => 3 :: enc_kind k :: tag :: rn :: enc_opt cl
  end.
Definition enc_resp (r : resp) : list Z :=
  match r with
  | RRows => [0] | RRowsMore => [8] | RVoid => [1] | RPrepared id => [2; id] | RRetryable k tag => [3; enc_kind k; tag]
  | RUnprepared id tag => [4; id; tag] | ROtherError tag => [5; tag] | ROtherExc tag => [6; tag] | RJunk => [7]
  end.
Definition enc_task (t : task) : list Z :=
  match t with
  | TRetry reuse h => [0; if reuse then 1 else 0; h]
  | TReprepare h qs ks => 1 :: h :: qs :: enc_opt ks
  | TAfterPrepare h r => 2 :: h :: enc_resp r
  end.
Definition enc_errors (l : list (host * err)) : list Z :=
  Z.of_nat (length l) :: flat_map (fun p => fst p :: enc_err (snd p)) l.
Definition enc_fexc (live : list (host * err)) (x : fexc) : list Z :=
  match x with
  | XResp k tag => [1; enc_kind k; tag] | XOtherError tag => [2; tag] | XOtherExc tag => [3; tag]
  | XUnprepared tag => [4; tag] | XNoHost => 5 :: enc_errors live
  | XIdMismatch => [6] | XKsMismatch => [7] | XUnexpected => [8] | XAssert => [9] | XAttr => [10] | XShutdown => [11] | XTimeout => [12]
  end.
Definition enc_fres (r : fres) : Z := match r with FRows => 0 | FNone => 1 | FMsg => 2 end.

Definition enc_obs (o : list event * state) : list Z :=
  let '(ev, s) := o in
  Z.of_nat (length ev) :: flat_map enc_event ev
  ++ enc_errors (errors s)
  ++ [retries s] ++ enc_opt (msg_cl s)
  ++ Z.of_nat (length (queue s)) :: flat_map enc_task (queue s)
  ++ enc_opt (option_map enc_fres (fin_res s))
  ++ match fin_exc s with None => [0] | Some x => 1 :: enc_fexc (errors s) x end
  ++ [if spec_armed s then 1 else 0; if paging s then 1 else 0].

Definition trace (c : config) (s : state) (ops : list op) : list Z := flat_map enc_obs (run c s ops).

(* scripted policy used by the correspondence: decisions by consultation number *)
Definition scripted (l : list (decision * option Z)) : policy :=
  fun n _ _ _ _ => nth n l (DRethrow, None).
