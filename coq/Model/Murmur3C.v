(* Hand model of cassandra/cmurmur3.c MurmurHash3_x64_128 (seed 0) with C semantics written out:
   every value is an int64_t (signed, two's complement); arithmetic wraps (gcc/clang behaviour for the
   operations used; `(uint64_t) x` reinterprets modulo 2^64; `>>` on uint64_t is logical).
   Tied to the compiled extension by the three-way correspondence in checks/C07.py. *)
From Coq Require Import ZArith List.
From Verif Require Import ByteWords.
Import ListNotations.
Local Open Scope Z_scope.

Definition u64 (x : Z) : Z := x mod 2 ^ 64.                 (* (uint64_t) x *)
Definition i64 (x : Z) : Z := sext64 (x mod 2 ^ 64).        (* (int64_t) of any integer value *)

Definition c_mul (a b : Z) : Z := i64 (a * b).
Definition c_add (a b : Z) : Z := i64 (a + b).
Definition c_xor (a b : Z) : Z := i64 (Z.lxor (u64 a) (u64 b)).
Definition c_shl (a k : Z) : Z := i64 (a * 2 ^ k).
(* rotl64: (x << r) | ((int64_t) (((uint64_t) x) >> (64 - r))) *)
Definition c_rotl (x r : Z) : Z := i64 (Z.lor (u64 (c_shl x r)) (Z.shiftr (u64 x) (64 - r))).

Definition cC1 : Z := i64 9782798678568883157.   (* BIG_CONSTANT(0x87c37b91114253d5) as int64_t *)
Definition cC2 : Z := 5545529020109919103.

Definition c_round (h : Z * Z) (k1 k2 : Z) : Z * Z :=
  let '(h1, h2) := h in
  let k1 := c_mul k1 cC1 in let k1 := c_rotl k1 31 in let k1 := c_mul k1 cC2 in let h1 := c_xor h1 k1 in
  let h1 := c_rotl h1 27 in let h1 := c_add h1 h2 in let h1 := c_add (c_mul h1 5) 1390208809 in
  let k2 := c_mul k2 cC2 in let k2 := c_rotl k2 33 in let k2 := c_mul k2 cC1 in let h2 := c_xor h2 k2 in
  let h2 := c_rotl h2 31 in let h2 := c_add h2 h1 in let h2 := c_add (c_mul h2 5) 944331445 in
  (h1, h2).

(* blocks are read as int64_t (little-endian host) *)
Fixpoint c_rounds (ws : list Z) (h : Z * Z) : Z * Z :=
  match ws with
  | k1 :: k2 :: r => c_rounds r (c_round h (sext64 k1) (sext64 k2))
  | _ => h
  end.

(* switch fall-through: k ^= ((int64_t) tail[i]) << (8*i), highest index first; tail is int8_t* *)
Fixpoint c_tail_word (idx : list nat) (bs : list Z) (k : Z) : Z :=
  match idx with
  | [] => k
  | i :: r => c_tail_word r bs (c_xor k (c_shl (sext8 (nth i bs 0)) (8 * Z.of_nat i)))
  end.

Fixpoint c_down (n : nat) : list nat := match n with O => [] | S k => k :: c_down k end.

Definition c_fmix (k : Z) : Z :=
  let k := c_xor k (Z.shiftr (u64 k) 33) in
  let k := c_mul k (i64 18397679294719823053) in
  let k := c_xor k (Z.shiftr (u64 k) 33) in
  let k := c_mul k (i64 14181476777654086739) in
  c_xor k (Z.shiftr (u64 k) 33).

Definition murmur3_c (key : list Z) : Z :=
  let len := length key in
  let nb := (len / 16)%nat in
  let '(h1, h2) := c_rounds (words (2 * nb) key) (0, 0) in
  let t := skipn (16 * nb) key in
  let tl := length t in
  let h2 := if (8 <? tl)%nat
            then c_xor h2 (c_mul (c_rotl (c_mul (c_tail_word (c_down (tl - 8)) (skipn 8 t) 0) cC2) 33) cC1) else h2 in
  let h1 := if (0 <? tl)%nat
            then c_xor h1 (c_mul (c_rotl (c_mul (c_tail_word (c_down (Nat.min 8 tl)) t 0) cC1) 31) cC2) else h1 in
  let h1 := c_xor h1 (Z.of_nat len) in
  let h2 := c_xor h2 (Z.of_nat len) in
  let h1 := c_add h1 h2 in
  let h2 := c_add h2 h1 in
  let h1 := c_fmix h1 in
  let h2 := c_fmix h2 in
  c_add h1 h2.
