(* C34 model of util.Date: days since 1970-01-01 <-> (year, month, day) in the proleptic Gregorian calendar
   (what datetime / calendar.timegm compute), and the 'yyyy-mm-dd' form.  Integer algorithms after H. Hinnant.
   No proofs here. *)
From Coq Require Import ZArith List Bool.
From Verif Require Import DecDigits.
Import ListNotations.
Local Open Scope Z_scope.

Definition is_leap (y : Z) : bool := ((y mod 4 =? 0) && negb (y mod 100 =? 0)) || (y mod 400 =? 0).
Definition days_in_month (y m : Z) : Z :=
  if m =? 2 then (if is_leap y then 29 else 28)
  else if (m =? 4) || (m =? 6) || (m =? 9) || (m =? 11) then 30 else 31.
Definition valid_date (y m d : Z) : bool := (1 <=? m) && (m <=? 12) && (1 <=? d) && (d <=? days_in_month y m).

(* day of the 400-year era (era starts on March 1st of a year divisible by 400) from (year of era, month, day) *)
Definition doe_of (yoe m d : Z) : Z :=
  yoe * 365 + yoe / 4 - yoe / 100 + (153 * ((m + 9) mod 12) + 2) / 5 + d - 1.

Definition days_from_civil (y m d : Z) : Z :=
  let y' := if m <=? 2 then y - 1 else y in
  (y' / 400) * 146097 + doe_of (y' mod 400) m d - 719468.

(* (year of era, month, day) from the day of era *)
Definition ymd_of_doe (doe : Z) : Z * Z * Z :=
  let yoe := (doe - doe / 1460 + doe / 36524 - doe / 146096) / 365 in
  let doy := doe - (365 * yoe + yoe / 4 - yoe / 100) in
  let mp := (5 * doy + 2) / 153 in
  let d := doy - (153 * mp + 2) / 5 + 1 in
  let m := if mp <? 10 then mp + 3 else mp - 9 in
  (yoe, m, d).

Definition civil_from_days (n : Z) : Z * Z * Z :=
  let z := n + 719468 in
  let '(yoe, m, d) := ymd_of_doe (z mod 146097) in
  (yoe + (z / 146097) * 400 + (if m <=? 2 then 1 else 0), m, d).

(* Date.__str__ for years 1..9999: "%04d-%02d-%02d" *)
Definition print_date (y m d : Z) : list Z :=
  to_digits 4 y ++ [45] ++ to_digits 2 m ++ [45] ++ to_digits 2 d.

(* Date('yyyy-mm-dd'): the canonical 10-character form; strptime rejects month/day out of range and year 0 *)
Definition parse_date (s : list Z) : option (Z * Z * Z) :=
  match take_num 4 0 s with
  | Some (y, r) =>
    match expect 45 r with
    | Some r =>
      match take_num 2 0 r with
      | Some (m, r) =>
        match expect 45 r with
        | Some r =>
          match take_num 2 0 r with
          | Some (d, []) => if (1 <=? y) && valid_date y m d then Some (y, m, d) else None
          | _ => None
          end
        | None => None
        end
      | None => None
      end
    | None => None
    end
  | None => None
  end.

(* what the class does end to end *)
Definition date_str (n : Z) : list Z := let '(y, m, d) := civil_from_days n in print_date y m d.
Definition date_of_str (s : list Z) : option Z :=
  match parse_date s with Some (y, m, d) => Some (days_from_civil y m d) | None => None end.

(* Date(datetime.date / datetime.datetime): _from_timetuple: days_from_epoch = calendar.timegm(t) // 86400, where timegm is the
   number of seconds from the epoch of the (naive) date and time of day.  Floor division: instants before 1970 with a non-zero
   time of day still belong to their own calendar day. *)
Definition timegm (y m d hh mm ss : Z) : Z := days_from_civil y m d * 86400 + hh * 3600 + mm * 60 + ss.
Definition date_from_datetime (y m d hh mm ss : Z) : Z := timegm y m d hh mm ss / 86400.
Definition valid_tod (hh mm ss : Z) : bool := (0 <=? hh) && (hh <=? 23) && (0 <=? mm) && (mm <=? 59) && (0 <=? ss) && (ss <=? 59).

Definition MIN_DAY : Z := -719162.   (* 0001-01-01 *)
Definition MAX_DAY : Z := 2932896.   (* 9999-12-31 *)

(* exhaustive checks over one 400-year era, used by the proofs (finite domains, evaluated by vm_compute) *)
Fixpoint allb (f : Z -> bool) (p : positive) (base : Z) : bool :=
  match p with
  | xH => f base
  | xO q => allb f q base && allb f q (base + Zpos q)
  | xI q => f base && allb f q (base + 1) && allb f q (base + 1 + Zpos q)
  end.

Definition era_check1 (doe : Z) : bool :=
  let '(yoe, m, d) := ymd_of_doe doe in
  (0 <=? yoe) && (yoe <? 400) && valid_date (yoe + (if m <=? 2 then 1 else 0)) m d && (doe_of yoe m d =? doe)
  && ((doe <? 306) || (1 <=? yoe + (if m <=? 2 then 1 else 0)))
  && ((146036 <? doe) || (yoe + (if m <=? 2 then 1 else 0) <=? 399)).

Definition era_check2 (yoe m d : Z) : bool :=
  negb (valid_date (yoe + (if m <=? 2 then 1 else 0)) m d) ||
  ((0 <=? doe_of yoe m d) && (doe_of yoe m d <? 146097) &&
   (let '(yoe', m', d') := ymd_of_doe (doe_of yoe m d) in (yoe' =? yoe) && (m' =? m) && (d' =? d))).
