(* C28 -- type descriptors: Cassandra marshal-class notation <-> driver classes <-> CQL notation.
   Executable model of cassandra/cqltypes.py:
     casstype_scanner + parse_casstype_args (stack machine) + lookup_casstype_simple + apply_parameters of every
     registered class, cass_parameterized_type / cql_parameterized_type, cqltype_to_python, python_to_cqltype,
     _strip_frozen_from_python, strip_frozen, cql_types_from_string;
   and, written separately, the oracle: Cassandra's AbstractType.toString (spec_cass_print) and CQL names (spec_cql_name).
   Strings are lists of characters (ascii code = code point < 256).  Natural numbers that occur in descriptors
   (vector dimensions, all-digit tokens) are represented by their canonical decimal numeral.
   No proofs in this file. *)
From Coq Require Import List Bool Ascii String NArith.
Import ListNotations.
Local Open Scope N_scope.

Definition str := list ascii.
Definition lit (s : string) : str := list_ascii_of_string s.
Definition show (s : str) : string := string_of_list_ascii s.

Fixpoint str_eqb (a b : str) : bool :=
  match a, b with
  | [], [] => true
  | x :: a', y :: b' => Ascii.eqb x y && str_eqb a' b'
  | _, _ => false
  end.

Fixpoint join (sep : str) (l : list str) : str :=
  match l with
  | [] => []
  | [x] => x
  | x :: l' => x ++ sep ++ join sep l'
  end.

Fixpoint is_prefix (p s : str) : bool :=
  match p, s with
  | [], _ => true
  | x :: p', y :: s' => Ascii.eqb x y && is_prefix p' s'
  | _, [] => false
  end.

(* ------------------------------------------------------------------ character classes *)
Definition code (c : ascii) : N := N_of_ascii c.
Definition between (lo hi : N) (c : ascii) : bool := (lo <=? code c) && (code c <=? hi).
Definition is_digit (c : ascii) : bool := between 48 57 c.
Definition is_alnum_ (c : ascii) : bool := is_digit c || between 65 90 c || between 97 122 c || (code c =? 95).
(* Python's \s on a str pattern, for code points < 256 *)
Definition is_space (c : ascii) : bool := between 9 13 c || between 28 32 c || (code c =? 133) || (code c =? 160).
Definition is_hexdigit (c : ascii) : bool := is_digit c || between 97 102 c || between 65 70 c.

Inductive cclass := KWord | KPunct | KSkip | KBad.

(* casstype_scanner:  [()] -> token,  [a-zA-Z0-9_.:=>]+ -> token,  [\s,] -> dropped; anything else: "weird characters" *)
Definition cass_class (c : ascii) : cclass :=
  if (code c =? 40) || (code c =? 41) then KPunct
  else if is_alnum_ c || (code c =? 46) || (code c =? 58) || (code c =? 61) || (code c =? 62) then KWord
  else if is_space c || (code c =? 44) then KSkip
  else KBad.

(* the unquoted part of the scanner of cqltype_to_python:  [a-zA-Z0-9_]+ ,  '<' ,  '>' ,  ',' and ' '  (quoted names: cql_lex) *)
Definition cql_class (c : ascii) : cclass :=
  if (code c =? 60) || (code c =? 62) || (code c =? 44) then KPunct
  else if is_alnum_ c then KWord
  else if code c =? 32 then KSkip
  else KBad.

Definition flush (acc : str) (r : list str) : list str := match acc with [] => r | _ => acc :: r end.

(* maximal-munch scanner; None = the scan stopped before the end of the input *)
Fixpoint lexg (cl : ascii -> cclass) (s : str) (acc : str) : option (list str) :=
  match s with
  | [] => Some (flush acc [])
  | c :: s' =>
      match cl c with
      | KWord => lexg cl s' (acc ++ [c])
      | KPunct => match lexg cl s' [] with Some r => Some (flush acc ([c] :: r)) | None => None end
      | KSkip => match lexg cl s' [] with Some r => Some (flush acc r) | None => None end
      | KBad => None
      end
  end.

(* ------------------------------------------------------------------ type trees (the quantified objects) *)
Inductive simple :=
| SAscii | SBigint | SBlob | SBoolean | SCounter | SDate | SDecimal | SDouble | SDuration | SFloat
| SInet | SInt | SSmallint | SText | STime | STimestamp | STimeuuid | STinyint | SUuid | SVarint.

Definition all_simple : list simple :=
  [SAscii; SBigint; SBlob; SBoolean; SCounter; SDate; SDecimal; SDouble; SDuration; SFloat;
   SInet; SInt; SSmallint; SText; STime; STimestamp; STimeuuid; STinyint; SUuid; SVarint].

Inductive ty :=
| TSimple (s : simple)
| TList (t : ty)
| TSet (t : ty)
| TMap (k v : ty)
| TTuple (ts : list ty)
| TUdt (ks name : str) (fnames : list str) (ftypes : list ty)
| TVector (t : ty) (dim : str)          (* dim: canonical decimal numeral *)
| TFrozen (t : ty)
| TReversed (t : ty).

(* Cassandra: CQL3Type.Native names and the marshal class of each native type *)
Definition cql_simple (s : simple) : str := lit
  match s with
  | SAscii => "ascii" | SBigint => "bigint" | SBlob => "blob" | SBoolean => "boolean" | SCounter => "counter"
  | SDate => "date" | SDecimal => "decimal" | SDouble => "double" | SDuration => "duration" | SFloat => "float"
  | SInet => "inet" | SInt => "int" | SSmallint => "smallint" | SText => "text" | STime => "time"
  | STimestamp => "timestamp" | STimeuuid => "timeuuid" | STinyint => "tinyint" | SUuid => "uuid" | SVarint => "varint"
  end.

Definition marshal_simple (s : simple) : str := lit
  match s with
  | SAscii => "AsciiType" | SBigint => "LongType" | SBlob => "BytesType" | SBoolean => "BooleanType"
  | SCounter => "CounterColumnType" | SDate => "SimpleDateType" | SDecimal => "DecimalType" | SDouble => "DoubleType"
  | SDuration => "DurationType" | SFloat => "FloatType" | SInet => "InetAddressType" | SInt => "Int32Type"
  | SSmallint => "ShortType" | SText => "UTF8Type" | STime => "TimeType" | STimestamp => "TimestampType"
  | STimeuuid => "TimeUUIDType" | STinyint => "ByteType" | SUuid => "UUIDType" | SVarint => "IntegerType"
  end.

Definition prefix : str := lit "org.apache.cassandra.db.marshal.".
Definition full (n : string) : str := prefix ++ lit n.

(* hex encoding of names (ByteBufferUtil.bytesToHex: lower case) *)
Definition hexchar (n : N) : ascii := ascii_of_N (if n <? 10 then 48 + n else 87 + n).
Definition hex_of (s : str) : str := flat_map (fun c => [hexchar (code c / 16); hexchar (code c mod 16)]) s.

Definition comma : str := lit ",".
Definition comma_sp : str := lit ", ".

Fixpoint udt_fields (fn : list str) (ps : list str) : str :=
  match fn, ps with
  | f :: fn', p :: ps' => comma ++ hex_of f ++ lit ":" ++ p ++ udt_fields fn' ps'
  | _, _ => []
  end.

(* ---- oracle 1: AbstractType.toString().  Collections/UDT/tuple: Class(p1,p2,...); UserType(ks,hexname,hexfield:type,...);
        VectorType(type , dim); FrozenType(x); ReversedType(x). *)
Fixpoint spec_cass_print (t : ty) : str :=
  match t with
  | TSimple s => prefix ++ marshal_simple s
  | TList a => full "ListType" ++ lit "(" ++ spec_cass_print a ++ lit ")"
  | TSet a => full "SetType" ++ lit "(" ++ spec_cass_print a ++ lit ")"
  | TMap k v => full "MapType" ++ lit "(" ++ spec_cass_print k ++ comma ++ spec_cass_print v ++ lit ")"
  | TTuple ts => full "TupleType" ++ lit "(" ++ join comma (map spec_cass_print ts) ++ lit ")"
  | TUdt ks name fn ft =>
      full "UserType" ++ lit "(" ++ ks ++ comma ++ hex_of name
        ++ udt_fields fn (map spec_cass_print ft)
        ++ lit ")"
  | TVector a d => full "VectorType" ++ lit "(" ++ spec_cass_print a ++ lit " , " ++ d ++ lit ")"
  | TFrozen a => full "FrozenType" ++ lit "(" ++ spec_cass_print a ++ lit ")"
  | TReversed a => full "ReversedType" ++ lit "(" ++ spec_cass_print a ++ lit ")"
  end.

(* ---- oracle 2: CQL names.  [vec] is the name used for vectors ("vector" in Cassandra); [sep] is "," or ", ";
        [fz] = print the frozen markers.  Tuples and UDTs carry the frozen marker themselves (taken from the driver's
        convention, see docs/C28.md); a reversed type is written as its base type. *)
Fixpoint cql_name_gen (vec : str) (sep : str) (fz : bool) (t : ty) : str :=
  let wrap (x : str) := if fz then lit "frozen<" ++ x ++ lit ">" else x in
  match t with
  | TSimple s => cql_simple s
  | TList a => lit "list<" ++ cql_name_gen vec sep fz a ++ lit ">"
  | TSet a => lit "set<" ++ cql_name_gen vec sep fz a ++ lit ">"
  | TMap k v => lit "map<" ++ cql_name_gen vec sep fz k ++ sep ++ cql_name_gen vec sep fz v ++ lit ">"
  | TTuple ts => wrap (lit "tuple<" ++ join sep (map (cql_name_gen vec sep fz) ts) ++ lit ">")
  | TUdt _ name _ _ => wrap name
  | TVector a d => vec ++ lit "<" ++ cql_name_gen vec sep fz a ++ sep ++ d ++ lit ">"
  | TFrozen a => wrap (cql_name_gen vec sep fz a)
  | TReversed a => cql_name_gen vec sep fz a
  end.

Definition spec_cql_name : ty -> str := cql_name_gen (lit "vector") comma_sp true.
Definition vector_class_name : str := full "VectorType".

(* what determines the value codec: the tree without the wrappers that serialise as their subtype *)
Fixpoint codec (t : ty) : ty :=
  match t with
  | TSimple s => TSimple s
  | TList a => TList (codec a)
  | TSet a => TSet (codec a)
  | TMap k v => TMap (codec k) (codec v)
  | TTuple ts => TTuple (map codec ts)
  | TUdt ks n fn ft => TUdt ks n fn (map codec ft)
  | TVector a d => TVector (codec a) d
  | TFrozen a => codec a
  | TReversed a => codec a
  end.

Fixpoint erase_frozen (t : ty) : ty :=
  match t with
  | TSimple s => TSimple s
  | TList a => TList (erase_frozen a)
  | TSet a => TSet (erase_frozen a)
  | TMap k v => TMap (erase_frozen k) (erase_frozen v)
  | TTuple ts => TTuple (map erase_frozen ts)
  | TUdt ks n fn ft => TUdt ks n fn (map erase_frozen ft)
  | TVector a d => TVector (erase_frozen a) d
  | TFrozen a => erase_frozen a
  | TReversed a => TReversed (erase_frozen a)
  end.

(* ------------------------------------------------------------------ the driver's class objects *)
Inductive cls :=
| CInt (canon : str)                                             (* int(tok) *)
| CReg (cassname : str)                                          (* a class of the registry, no parameters applied *)
| CApp (cassname : str) (subs : list cls) (names : list (option str))   (* _CassandraType.apply_parameters result *)
| CUnrec (name : str) (subs : list cls) (names : list (option str))     (* mkUnrecognizedType(name), maybe parameterised *)
| CUdt (ks name : str) (fieldnames : list str) (subs : list cls)        (* UserType.make_udt_class *)
| CVec (cassname : str) (sub size : cls).                        (* VectorType.apply_parameters *)

Inductive kind :=
| KDefault (typename : str) (arity : option nat)     (* num_subtypes: Some n | 'UNKNOWN' *)
| KUdt
| KVector.

Definition reg (n t : string) (a : option nat) : str * kind := (lit n, KDefault (lit t) a).

Definition registry : list (str * kind) :=
  [reg "AsciiType" "ascii" (Some 0%nat); reg "BooleanType" "boolean" (Some 0%nat); reg "ByteType" "tinyint" (Some 0%nat);
     reg "BytesType" "blob" (Some 0%nat); reg "CounterColumnType" "counter" (Some 0%nat); reg "DateRangeType" "daterange" (Some 0%nat);
     reg "DateType" "timestamp" (Some 0%nat); reg "DecimalType" "decimal" (Some 0%nat); reg "DoubleType" "double" (Some 0%nat);
     reg "DurationType" "duration" (Some 0%nat); reg "FloatType" "float" (Some 0%nat); reg "InetAddressType" "inet" (Some 0%nat);
     reg "Int32Type" "int" (Some 0%nat); reg "IntegerType" "varint" (Some 0%nat); reg "LineStringType" "LineStringType" (Some 0%nat);
     reg "LongType" "bigint" (Some 0%nat); reg "PointType" "PointType" (Some 0%nat); reg "PolygonType" "PolygonType" (Some 0%nat);
     reg "ShortType" "smallint" (Some 0%nat); reg "SimpleDateType" "date" (Some 0%nat); reg "TimeType" "time" (Some 0%nat);
     reg "TimeUUIDType" "timeuuid" (Some 0%nat); reg "TimestampType" "timestamp" (Some 0%nat); reg "UTF8Type" "text" (Some 0%nat);
     reg "UUIDType" "uuid" (Some 0%nat); reg "VarcharType" "varchar" (Some 0%nat);
     reg "ListType" "list" (Some 1%nat); reg "SetType" "set" (Some 1%nat); reg "MapType" "map" (Some 2%nat);
     reg "FrozenType" "frozen" (Some 1%nat);
     reg "ReversedType" "org.apache.cassandra.db.marshal.ReversedType" (Some 1%nat);
     reg "TupleType" "tuple" None;
     reg "CompositeType" "org.apache.cassandra.db.marshal.CompositeType" None;
     reg "DynamicCompositeType" "org.apache.cassandra.db.marshal.DynamicCompositeType" None;
     reg "ColumnToCollectionType" "org.apache.cassandra.db.marshal.ColumnToCollectionType" None]
  ++ [(lit "UserType", KUdt); (lit "VectorType", KVector)].

Fixpoint assoc {A} (k : str) (l : list (str * A)) : option A :=
  match l with
  | [] => None
  | (k', v) :: l' => if str_eqb k k' then Some v else assoc k l'
  end.

Definition typename_of (n : str) : str :=
  match assoc n registry with
  | Some (KDefault t _) => t
  | Some KUdt => full "UserType"
  | Some KVector => full "VectorType"
  | None => []
  end.

Inductive pres (A : Type) := POk (a : A) | PValueError | PEscapes.
Arguments POk {A} a.
Arguments PValueError {A}.
Arguments PEscapes {A}.
(* PValueError: lookup_casstype raises ValueError (ValueError/AssertionError/IndexError inside are re-raised as ValueError)
   PEscapes: another exception (AttributeError, TypeError) escapes lookup_casstype *)

Definition has_dot (s : str) : bool := existsb (fun c => code c =? 46) s.

Definition cassname_of (c : cls) : option str :=
  match c with
  | CInt _ => None
  | CReg n => Some n
  | CApp n _ _ => Some n
  | CUnrec n _ _ => Some n
  | CUdt _ _ _ _ => Some (lit "UserType")
  | CVec n _ _ => Some n
  end.

Fixpoint opt_all {A} (l : list (option A)) : option (list A) :=
  match l with
  | [] => Some []
  | Some x :: l' => match opt_all l' with Some r => Some (x :: r) | None => None end
  | None :: _ => None
  end.

Definition subs_of (c : cls) : list cls :=
  match c with
  | CApp _ s _ => s
  | CUnrec _ s _ => s
  | CUdt _ _ _ s => s
  | _ => []          (* registry classes, and VectorType (its subtype is not in .subtypes) *)
  end.

(* cass_parameterized_type(full): None = raises (an int among the subtypes has no such method) *)
Fixpoint drv_cass (fl : bool) (c : cls) : option str :=
  let pre (n : str) := if fl && negb (has_dot n) then prefix ++ n else n in
  let go (n : str) (subs : list cls) :=
    match subs with
    | [] => Some (pre n)
    | _ => match opt_all (map (drv_cass fl) subs) with
           | Some l => Some (pre n ++ lit "(" ++ join comma_sp l ++ lit ")")
           | None => None
           end
    end in
  match c with
  | CInt _ => None
  | CReg n => Some (pre n)
  | CApp n subs _ => go n subs
  | CUnrec n subs _ => go n subs
  | CUdt _ _ _ subs => go (lit "UserType") subs
  | CVec n _ _ => Some (pre n)
  end.

(* str(x) of a vector's size parameter: a number, or the repr of a class, "<class 'cassandra.cqltypes.NAME'>" with the
   class's __name__ (registered name, unrecognised name, UDT name, or the short parameterised name) *)
Definition pyname (c : cls) : option str :=
  match c with
  | CInt _ => None
  | CReg n => Some n
  | CUdt _ name _ _ => Some name
  | CVec n _ _ => Some n
  | _ => drv_cass false c
  end.
Definition size_str (size : cls) : str :=
  match size with
  | CInt d => d
  | _ => lit "<class 'cassandra.cqltypes." ++ match pyname size with Some n => n | None => lit "?" end ++ lit "'>"
  end.

Definition quote1 (s : str) : str := lit "'" ++ s ++ lit "'".

(* cql_parameterized_type(); the overrides of TupleType, UserType, CompositeType, DynamicCompositeType, ReversedType, VectorType *)
Fixpoint drv_cql (c : cls) : option str :=
  let dflt (tn : str) (subs : list cls) :=
    match subs with
    | [] => Some tn
    | _ => match opt_all (map drv_cql subs) with
           | Some l => Some (tn ++ lit "<" ++ join comma_sp l ++ lit ">")
           | None => None
           end
    end in
  let by_name (n : str) (subs : list cls) (names : option (list (option str))) :=
    if str_eqb n (lit "TupleType") then
      match opt_all (map drv_cql subs) with
      | Some l => Some (lit "frozen<tuple<" ++ join comma_sp l ++ lit ">>")
      | None => None
      end
    else if str_eqb n (lit "UserType") then Some (lit "frozen<" ++ full "UserType" ++ lit ">")
    else if str_eqb n (lit "CompositeType") then
      match drv_cass true (CApp n subs []) with Some s => Some (quote1 s) | None => None end
    else if str_eqb n (lit "DynamicCompositeType") then
      match names with
      | None => None       (* unparameterised class has no .fieldnames *)
      | Some nm =>
          match opt_all (map (drv_cass true) (firstn (List.length nm) subs)) with
          | Some l => Some (quote1 (typename_of n ++ lit "(" ++
                        join comma_sp (map (fun '(a, s) => match a with Some a' => a' | None => lit "None" end ++ lit "=>" ++ s)
                                           (combine nm l)) ++ lit ")"))
          | None => None
          end
      end
    else if str_eqb n (lit "ReversedType") then
      match subs with
      | [] => Some (typename_of n)
      | [s] => drv_cql s
      | _ => None
      end
    else if str_eqb n (lit "VectorType") then None      (* cls.subtype is None *)
    else dflt (typename_of n) subs in
  match c with
  | CInt _ => None
  | CReg n => by_name n [] None
  | CApp n subs names => by_name n subs (Some names)
  | CUnrec n subs _ => dflt (quote1 n) subs
  | CUdt _ name _ _ => Some (lit "frozen<" ++ name ++ lit ">")
  | CVec _ sub size =>
      match drv_cql sub with
      | Some s => Some (vector_class_name ++ lit "<" ++ s ++ comma_sp ++ size_str size ++ lit ">")
      | None => None
      end
  end.

(* ------------------------------------------------------------------ tokens -> classes *)
(* int(tok) for tok in [a-zA-Z0-9_.:=>]+ : digits with single underscores between digit groups; result = canonical numeral *)
Fixpoint digits_groups (s : str) (prev_digit : bool) (acc : str) : option str :=
  match s with
  | [] => if prev_digit then Some acc else None
  | c :: s' =>
      if is_digit c then digits_groups s' true (acc ++ [c])
      else if (code c =? 95) && prev_digit then digits_groups s' false acc
      else None
  end.

Fixpoint strip_zeros (s : str) : str :=
  match s with
  | c :: (_ :: _) as s' => if code c =? 48 then strip_zeros s' else s
  | _ => s
  end.

Definition int_parse (tok : str) : option str :=
  match digits_groups tok false [] with
  | Some d => Some (strip_zeros d)
  | None => None
  end.

(* re.split(':|=>', tok): (text before the first separator if any, text after the last one) *)
Fixpoint split_tok (s : str) (first : option str) (cur : str) : option str * str :=
  match s with
  | [] => (first, cur)
  | c :: s' =>
      let fst' := match first with Some _ => first | None => Some cur end in
      if code c =? 58 then split_tok s' fst' []
      else if code c =? 61 then
        match s' with
        | d :: s'' => if code d =? 62 then split_tok s'' fst' [] else split_tok s' first (cur ++ [c])
        | [] => (first, cur ++ [c])
        end
      else split_tok s' first (cur ++ [c])
  end.

Definition trim_prefix (s : str) : str := if is_prefix prefix s then skipn (List.length prefix) s else s.

Definition lookup_simple (tok : str) : cls :=
  match assoc (trim_prefix tok) registry with
  | Some _ => CReg (trim_prefix tok)
  | None => CUnrec tok [] []
  end.

Definition unhex_digit (c : ascii) : option N :=
  if is_digit c then Some (code c - 48)
  else if between 97 102 c then Some (code c - 87)
  else if between 65 70 c then Some (code c - 55)
  else None.

(* binascii.unhexlify(str).decode('ascii'): None = ValueError (odd length, non-hex digit, byte >= 0x80) *)
Fixpoint name_from_hex (s : str) : option str :=
  match s with
  | [] => Some []
  | a :: b :: s' =>
      match unhex_digit a, unhex_digit b, name_from_hex s' with
      | Some x, Some y, Some r => if x <? 8 then Some (ascii_of_N (16 * x + y) :: r) else None
      | _, _, _ => None
      end
  | _ => None
  end.

Definition is_int (c : cls) : bool := match c with CInt _ => true | _ => false end.

(* _CassandraType.apply_parameters *)
Definition default_apply (n : str) (arity : option nat) (mk : list cls -> list (option str) -> cls)
                         (subs : list cls) (names : list (option str)) : pres cls :=
  let ok_arity := match arity with Some k => Nat.eqb (List.length subs) k | None => true end in
  if negb ok_arity then PValueError
  else match opt_all (map (drv_cass false) subs) with      (* the new class name is computed from the subtypes *)
       | Some _ => POk (mk subs names)
       | None => PEscapes
       end.

Fixpoint field_names (names : list (option str)) : pres (list str) :=
  match names with
  | [] => POk []
  | None :: _ => PEscapes                     (* unhexlify(None): TypeError *)
  | Some h :: r =>
      match name_from_hex h with
      | None => PValueError
      | Some f => match field_names r with POk l => POk (f :: l) | e => e end
      end
  end.

(* UserType.apply_parameters (all-digit tokens arrive as ints and are written back as text) *)
Definition udt_apply (subs : list cls) (names : list (option str)) : pres cls :=
  match subs with
  | [] => PValueError
  | k :: rest =>
      match (match k with CInt d => Some d | _ => drv_cass false k end) with
      | None => PEscapes
      | Some ks =>
          match rest with
          | [] => PValueError
          | u :: ftypes =>
              match (match u with CInt d => Some d | _ => cassname_of u end) with
              | None => PEscapes
              | Some h =>
                  match name_from_hex h with
                  | None => PValueError
                  | Some name =>
                      match field_names (skipn 2 names) with
                      | POk fns => POk (CUdt ks name fns ftypes)
                      | PValueError => PValueError
                      | PEscapes => PEscapes
                      end
                  end
              end
          end
      end
  end.

(* VectorType.apply_parameters *)
Definition vec_name (base : str) (size : cls) : str := base ++ lit "(" ++ size_str size ++ lit ")".

Definition vector_apply (base : str) (subs : list cls) : pres cls :=
  match subs with
  | [a; b] => if is_int a then PEscapes else POk (CVec (vec_name base b) a b)
  | _ => PValueError
  end.

Definition apply_params (c : cls) (subs : list cls) (names : list (option str)) : pres cls :=
  match c with
  | CInt _ => PEscapes
  | CUnrec n _ _ => default_apply n None (CUnrec n) subs names
  | CUdt _ _ _ _ => udt_apply subs names
  | CVec n _ _ => vector_apply n subs
  | CReg n | CApp n _ _ =>
      match assoc n registry with
      | Some (KDefault _ ar) => default_apply n ar (CApp n) subs names
      | Some KUdt => udt_apply subs names
      | Some KVector => vector_apply n subs
      | None => PEscapes
      end
  end.

(* frames: (types, names), both stored in reverse *)
Definition frame := (list cls * list (option str))%type.

Definition push_tok (tok : str) (fr : frame) : frame :=
  let '(nm, last) := split_tok tok None [] in
  let c := match int_parse last with Some d => CInt d | None => lookup_simple last end in
  (c :: fst fr, nm :: snd fr).

(* parse_casstype_args, the loop over tokens *)
Fixpoint run (toks : list str) (stack : list frame) : pres cls :=
  match toks with
  | [] =>
      match last stack ([], []) with
      | (types, _) => match rev types with c :: _ => POk c | [] => PValueError end
      end
  | tok :: toks' =>
      if str_eqb tok (lit "(") then run toks' (([], []) :: stack)
      else if str_eqb tok (lit ")") then
        match stack with
        | (types, names) :: (ptypes, pnames) :: stack' =>
            match ptypes with
            | [] => PValueError                        (* prev_types[-1]: IndexError *)
            | p :: ptypes' =>
                match apply_params p (rev types) (rev names) with
                | POk c => run toks' ((c :: ptypes', pnames) :: stack')
                | PValueError => PValueError
                | PEscapes => PEscapes
                end
            end
        | _ => PValueError                             (* args[-1] on an empty stack: IndexError *)
        end
      else
        match stack with
        | fr :: stack' => run toks' (push_tok tok fr :: stack')
        | [] => PValueError
        end
  end.

(* lookup_casstype on a string *)
Definition cass_parse (s : str) : pres cls :=
  match lexg cass_class s [] with
  | None => PValueError                                (* "weird characters ... at end" *)
  | Some toks => run toks [([], [])]
  end.

(* ------------------------------------------------------------------ class -> codec tree *)
Definition simple_of_marshal (n : str) : option simple :=
  find (fun s => str_eqb (marshal_simple s) n) all_simple.

Fixpoint cls_codec (c : cls) : option ty :=
  match c with
  | CReg n => match simple_of_marshal n with Some s => Some (TSimple s) | None => None end
  | CApp n subs _ =>
      if str_eqb n (lit "ListType") then match map cls_codec subs with [Some a] => Some (TList a) | _ => None end
      else if str_eqb n (lit "SetType") then match map cls_codec subs with [Some a] => Some (TSet a) | _ => None end
      else if str_eqb n (lit "MapType") then match map cls_codec subs with [Some k; Some v] => Some (TMap k v) | _ => None end
      else if str_eqb n (lit "TupleType") then match opt_all (map cls_codec subs) with Some l => Some (TTuple l) | None => None end
      else if str_eqb n (lit "FrozenType") || str_eqb n (lit "ReversedType") then
        match map cls_codec subs with [Some a] => Some a | _ => None end
      else None
  | CUdt ks name fns subs => match opt_all (map cls_codec subs) with Some l => Some (TUdt ks name fns l) | None => None end
  | CVec _ sub (CInt d) => match cls_codec sub with Some a => Some (TVector a d) | None => None end
  | _ => None
  end.

(* ------------------------------------------------------------------ value codec of the wrapper classes
   FrozenType / ReversedType .serialize_safe / .deserialize_safe hand the value to their subtype's to_binary / from_binary
   together with a protocol version.  [route des c pv] follows the top-level wrappers of a class and returns the class
   whose codec does the work and the protocol version it is called with ([des] = deserialisation). *)
Definition is_wrapper (n : str) : bool := str_eqb n (lit "FrozenType") || str_eqb n (lit "ReversedType").
Definition wrapper_ser_pv (n : str) (pv : N) : N := pv.     (* subtype.to_binary(val, protocol_version) *)
Definition wrapper_des_pv (n : str) (pv : N) : N := pv.     (* subtype.from_binary(byts, protocol_version) *)

Fixpoint route (des : bool) (c : cls) (pv : N) : cls * N :=
  match c with
  | CApp n [s] _ =>
      if is_wrapper n then route des s (if des then wrapper_des_pv n pv else wrapper_ser_pv n pv) else (c, pv)
  | _ => (c, pv)
  end.

(* serial_size() of a wrapper is the subtype's (VectorType uses it to choose the element encoding) *)
Definition wrapper_size_delegates (n : str) : bool := true.
Fixpoint size_route (c : cls) : cls :=
  match c with
  | CApp n [s] _ => if is_wrapper n && wrapper_size_delegates n then size_route s else c
  | _ => c
  end.

Fixpoint unwrap (t : ty) : ty :=
  match t with
  | TFrozen a => unwrap a
  | TReversed a => unwrap a
  | _ => t
  end.

(* ------------------------------------------------------------------ CQL strings <-> python lists *)
Inductive pyt := PStr (s : str) | PList (l : list pyt).

(* cqltype_to_python: scanner + ast.literal_eval of "'a', ['b', 'c']".  Modelled on the image of the scanner for
   unquoted names: words, '<' (= ", ["), '>' (= "]"), ','.  None = outside that grammar / SyntaxError. *)
Inductive pstate := AfterElem | AfterComma | AtStart.

Fixpoint py_run (toks : list str) (st : pstate) (stack : list (list pyt)) : option (list pyt) :=
  match toks with
  | [] => match st, stack with AfterElem, [top] => Some (rev top) | _, _ => None end
  | tok :: toks' =>
      if str_eqb tok (lit "<") then
        match st with AfterElem => py_run toks' AtStart ([] :: stack) | _ => None end
      else if str_eqb tok (lit ">") then
        match st, stack with
        | AfterComma, _ => None
        | _, inner :: outer :: stack' => py_run toks' AfterElem ((PList (rev inner) :: outer) :: stack')
        | _, _ => None
        end
      else if str_eqb tok (lit ",") then
        match st with AfterElem => py_run toks' AfterComma stack | _ => None end
      else
        match st, stack with
        | AfterElem, _ => None
        | _, top :: stack' => py_run toks' AfterElem ((PStr tok :: top) :: stack')
        | _, [] => None
        end
  end.

(* the scanner of cqltype_to_python including its last rule  ".*?"  (non-greedy: a double quote, then everything up to the NEXT
   double quote; '.' does not match a newline).  A quoted token stays one word, quotes included.  None = the scan stops early or
   the token would not survive ast.literal_eval unchanged (', backslash, CR, NUL inside the quotes): not modelled. *)
Definition qsafe (c : ascii) : bool :=
  negb (code c =? 34) && negb (code c =? 39) && negb (code c =? 92) && negb (code c =? 10) && negb (code c =? 13) && negb (code c =? 0).
Definition dq : ascii := ascii_of_N 34.

Fixpoint cql_lex (s : str) (acc : str) (inq : option str) : option (list str) :=
  match s with
  | [] => match inq with Some _ => None | None => Some (flush acc []) end
  | c :: s' =>
      match inq with
      | Some q =>
          if code c =? 34 then match cql_lex s' [] None with Some r => Some ((dq :: q ++ [dq]) :: r) | None => None end
          else if qsafe c then cql_lex s' [] (Some (q ++ [c]))
          else None
      | None =>
          if code c =? 34 then match cql_lex s' [] (Some []) with Some r => Some (flush acc r) | None => None end
          else match cql_class c with
               | KWord => cql_lex s' (acc ++ [c]) None
               | KPunct => match cql_lex s' [] None with Some r => Some (flush acc ([c] :: r)) | None => None end
               | KSkip => match cql_lex s' [] None with Some r => Some (flush acc r) | None => None end
               | KBad => None
               end
      end
  end.

Definition cqltype_to_python (s : str) : option (list pyt) :=
  match cql_lex s [] None with
  | None => None
  | Some toks => py_run toks AtStart [[]]
  end.

(* python_to_cqltype on repr(list): elements joined by ", ", a list element is introduced by '<' instead *)
Fixpoint py_print_elem (first : bool) (p : pyt) : str :=
  match p with
  | PStr s => (if first then [] else comma_sp) ++ s
  | PList i => lit "<" ++ match i with [] => [] | x :: r => py_print_elem true x ++ flat_map (py_print_elem false) r end ++ lit ">"
  end.

(* (a list in first position does not occur in the image of cqltype_to_python; the real scanner would stop there) *)
Definition py_print_elems (l : list pyt) : str :=
  match l with [] => [] | x :: r => py_print_elem true x ++ flat_map (py_print_elem false) r end.

Definition python_to_cqltype (l : list pyt) : str := py_print_elems l.

Fixpoint pyt_size (p : pyt) : nat :=
  match p with
  | PStr _ => 1
  | PList l => S (fold_right (fun x n => pyt_size x + n)%nat 0%nat l)
  end.
Definition pyts_size (l : list pyt) : nat := fold_right (fun x n => pyt_size x + n)%nat 0%nat l.

Definition frozen_kw : str := lit "frozen".

(* the `while 'frozen' in types` loop: the first 'frozen' is replaced by the contents of the list that follows it *)
Fixpoint splice (fuel : nat) (l : list pyt) : option (list pyt) :=
  match fuel with
  | O => None
  | S f =>
      match l with
      | [] => Some []
      | PStr s :: rest =>
          if str_eqb s frozen_kw then
            match rest with
            | PList inner :: rest' => splice f (inner ++ rest')
            | _ => None                                  (* TypeError / IndexError *)
            end
          else match splice f rest with Some r => Some (PStr s :: r) | None => None end
      | x :: rest => match splice f rest with Some r => Some (x :: r) | None => None end
      end
  end.

Fixpoint strip_py (fuel : nat) (l : list pyt) : option (list pyt) :=
  match fuel with
  | O => None
  | S f =>
      match splice (S (pyts_size l)) l with
      | None => None
      | Some l' =>
          opt_all (map (fun x => match x with
                                 | PList i => match strip_py f i with Some i' => Some (PList i') | None => None end
                                 | PStr s => Some (PStr s)
                                 end) l')
      end
  end.

Definition strip_frozen_from_python (l : list pyt) : option (list pyt) := strip_py (S (pyts_size l)) l.

Definition strip_frozen (s : str) : option str :=
  match cqltype_to_python s with
  | Some l => match strip_frozen_from_python l with Some l' => Some (python_to_cqltype l') | None => None end
  | None => None
  end.

(* cql_types_from_string: the words of the string except 'frozen'.  ('frozen' is the first alternative of the scanner, so it is
   also cut out of the front of longer words; modelled for words that do not start with it) *)
Definition cql_types_from_string (s : str) : option (list str) :=
  match lexg (fun c => if is_alnum_ c then KWord else if is_space c || (code c =? 44) || (code c =? 60) || (code c =? 62) then KSkip else KBad) s [] with
  | Some toks => if existsb (fun t => is_prefix frozen_kw t && negb (str_eqb t frozen_kw)) toks then None
                 else Some (filter (fun t => negb (str_eqb t frozen_kw)) toks)
  | None => None
  end.

(* the python list a type's CQL name denotes *)
Fixpoint to_py (fz : bool) (t : ty) : list pyt :=
  let wrap (x : list pyt) := if fz then [PStr frozen_kw; PList x] else x in
  match t with
  | TSimple s => [PStr (cql_simple s)]
  | TList a => [PStr (lit "list"); PList (to_py fz a)]
  | TSet a => [PStr (lit "set"); PList (to_py fz a)]
  | TMap k v => [PStr (lit "map"); PList (to_py fz k ++ to_py fz v)]
  | TTuple ts => wrap [PStr (lit "tuple"); PList (flat_map (to_py fz) ts)]
  | TUdt _ name _ _ => wrap [PStr name]
  | TVector a d => [PStr (lit "vector"); PList (to_py fz a ++ [PStr d])]
  | TFrozen a => wrap (to_py fz a)
  | TReversed a => to_py fz a
  end.

(* ------------------------------------------------------------------ well-formedness of the quantified trees *)
Definition is_collection (t : ty) : bool :=
  match t with TList _ | TSet _ | TMap _ _ => true | _ => false end.

Definition wf_keyspace (ks : str) : bool :=
  negb (str_eqb ks []) && forallb is_alnum_ ks &&
  match int_parse ks with Some d => str_eqb d ks | None => true end.

(* names as hex: ASCII (the driver decodes 'ascii'); first character not a control character below 0x10 *)
Definition wf_name (n : str) : bool :=
  match n with
  | [] => false
  | c :: _ => (16 <=? code c) && forallb (fun c => code c <? 128) n
  end.

Definition wf_dim (d : str) : bool :=
  negb (str_eqb d []) && forallb is_digit d && str_eqb (strip_zeros d) d.

Fixpoint wf (t : ty) : bool :=
  match t with
  | TSimple _ => true
  | TList a | TSet a | TReversed a => wf a
  | TMap k v => wf k && wf v
  | TTuple ts => forallb wf ts
  | TUdt ks name fn ft =>
      wf_keyspace ks && wf_name name && forallb (forallb (fun c => code c <? 128)) fn
      && Nat.eqb (List.length fn) (List.length ft) && forallb wf ft
  | TVector a d => wf a && wf_dim d
  | TFrozen a => is_collection a && wf a
  end.

Fixpoint vector_free (t : ty) : bool :=
  match t with
  | TSimple _ => true
  | TList a | TSet a | TReversed a | TFrozen a => vector_free a
  | TMap k v => vector_free k && vector_free v
  | TTuple ts => forallb vector_free ts
  | TUdt _ _ _ ft => forallb vector_free ft
  | TVector _ _ => false
  end.

(* names usable as unquoted words in a CQL type string *)
Definition reserved_words : list str :=
  [lit "frozen"; lit "list"; lit "set"; lit "map"; lit "tuple"; lit "vector"] ++ map cql_simple all_simple.

(* UDT names as they are written in a CQL type string: a plain word, or a double-quoted identifier (any content without
   double quote, single quote, backslash, newline: spaces, commas, angle brackets allowed) *)
Definition plain_name (n : str) : bool :=
  negb (str_eqb n []) && forallb is_alnum_ n && negb (str_eqb n frozen_kw).
Fixpoint qbody (r : str) : bool :=
  match r with
  | [] => false
  | [e] => code e =? 34
  | c :: r' => qsafe c && qbody r'
  end.
Definition quoted_name (n : str) : bool :=
  match n with c :: r => (code c =? 34) && qbody r | [] => false end.
Definition wf_cql_name (n : str) : bool := plain_name n || quoted_name n.

Fixpoint wf_cql (t : ty) : bool :=
  match t with
  | TSimple _ => true
  | TList a | TSet a | TReversed a | TFrozen a => wf_cql a
  | TMap k v => wf_cql k && wf_cql v
  | TTuple ts => forallb wf_cql ts
  | TUdt _ name _ ft => wf_cql_name name
  | TVector a d => wf_cql a && wf_dim d
  end.

(* ------------------------------------------------------------------ boolean equality on classes (correspondence) *)
Definition opt_str_eqb (a b : option str) : bool :=
  match a, b with Some x, Some y => str_eqb x y | None, None => true | _, _ => false end.

Definition list_eqb {A} (f : A -> A -> bool) : list A -> list A -> bool :=
  fix go (a b : list A) : bool :=
    match a, b with
    | [], [] => true
    | x :: a', y :: b' => f x y && go a' b'
    | _, _ => false
    end.

Fixpoint cls_eqb (a b : cls) : bool :=
  match a, b with
  | CInt x, CInt y => str_eqb x y
  | CReg x, CReg y => str_eqb x y
  | CApp x s n, CApp y s' n' => str_eqb x y && list_eqb cls_eqb s s' && list_eqb opt_str_eqb n n'
  | CUnrec x s n, CUnrec y s' n' => str_eqb x y && list_eqb cls_eqb s s' && list_eqb opt_str_eqb n n'
  | CUdt k x f s, CUdt k' y f' s' => str_eqb k k' && str_eqb x y && list_eqb str_eqb f f' && list_eqb cls_eqb s s'
  | CVec n s z, CVec n' s' z' => str_eqb n n' && cls_eqb s s' && cls_eqb z z'
  | _, _ => false
  end.

Definition pres_eqb (a b : pres cls) : bool :=
  match a, b with
  | POk x, POk y => cls_eqb x y
  | PValueError, PValueError => true
  | PEscapes, PEscapes => true
  | _, _ => false
  end.

Fixpoint pyt_eqb (a b : pyt) : bool :=
  match a, b with
  | PStr x, PStr y => str_eqb x y
  | PList x, PList y => list_eqb pyt_eqb x y
  | _, _ => false
  end.

Definition opt_pyts_eqb (a b : option (list pyt)) : bool :=
  match a, b with Some x, Some y => list_eqb pyt_eqb x y | None, None => true | _, _ => false end.

Fixpoint ty_eqb (a b : ty) : bool :=
  match a, b with
  | TSimple x, TSimple y => str_eqb (cql_simple x) (cql_simple y)
  | TList x, TList y | TSet x, TSet y | TFrozen x, TFrozen y | TReversed x, TReversed y => ty_eqb x y
  | TMap k v, TMap k' v' => ty_eqb k k' && ty_eqb v v'
  | TTuple l, TTuple l' => list_eqb ty_eqb l l'
  | TUdt k n f t, TUdt k' n' f' t' => str_eqb k k' && str_eqb n n' && list_eqb str_eqb f f' && list_eqb ty_eqb t t'
  | TVector x d, TVector y d' => ty_eqb x y && str_eqb d d'
  | _, _ => false
  end.

(* the executable twin of the statement, evaluated on the model (used by the correspondence harness) *)
Definition c28_check_cass (t : ty) : bool :=
  match cass_parse (spec_cass_print t) with
  | POk c =>
      opt_str_eqb (drv_cql c) (Some (cql_name_gen vector_class_name comma_sp true t))
      && match cls_codec c with Some t' => ty_eqb t' (codec t) | None => false end
  | _ => false
  end.
