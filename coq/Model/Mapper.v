(* C35 model, part 1: from the clause model (Clauses.v: rendered fragments + context values) to the CQL AST of CqlSem.v.
   This is what the harness parser does with the real text and parameters.  Part 2 (below): value managers and DMLQuery. *)
From Coq Require Import ZArith List Bool.
From Verif Require Import Clauses CqlSem.
Import ListNotations.
Local Open Scope Z_scope.

Definition getv (cx : list (Z * val)) (p : Z) : val := match dict_get p cx with Some v => v | None => VNone end.

Definition frag_assign (cx : list (Z * val)) (fr : frag) : list assign :=
  match fk fr, fps fr with
  | KAssign, [p] => [ASet (ff fr) (getv cx p)]
  | KPlus, [p] => [APlus (ff fr) (getv cx p)]
  | KMinus, [p] => [AMinus (ff fr) (getv cx p)]
  | KPrepend, [p] => [APrepend (ff fr) (getv cx p)]
  | KMapPut, [p; q] => [APut (ff fr) (getv cx p) (getv cx q)]
  | _, _ => []
  end.
Definition frag_del (cx : list (Z * val)) (fr : frag) : list delitem :=
  match fk fr, fps fr with
  | KDelField, [] => [DCol (ff fr)]
  | KDelKey, [p] => [DKey (ff fr) (getv cx p)]
  | _, _ => []
  end.

(* the SET items / DELETE items one clause contributes *)
Definition clause_assigns (c : clause) : list assign := flat_map (frag_assign (clause_ctx 0 c)) (clause_render 0 c).
Definition clause_dels (c : clause) : list delitem := flat_map (frag_del (clause_ctx 0 c)) (clause_render 0 c).

Definition apply_assigns (l : list assign) (old : val) : val := fold_left (fun v a => apply_assign a v) l old.
Definition apply_dels (l : list delitem) (old : val) : val := fold_left (fun v d => apply_del d v) l old.

Definition olistv (o : option (list Z)) : val := match o with Some l => VList l | None => VNone end.
Definition osetv (o : option (list Z)) : val := match o with Some l => VSet l | None => VNone end.
Definition omapv (o : option (list (Z * Z))) : val := match o with Some m => VMap m | None => VNone end.

(* ------------------------------------------------------------------ part 2: value managers and DMLQuery (columns.py, query.py, models.py) *)
Inductive ckind := KScalar | KSetC | KListC | KMapC | KCounterC.

(* one column of a model instance with its value manager state *)
Record colst := {
  c_name : name;            (* db_field_name *)
  c_kind : ckind;
  c_part : bool;            (* partition key *)
  c_clust : bool;           (* clustering key *)
  c_static : bool;
  c_val : val;              (* BaseValueManager.value *)
  c_prev : val;             (* previous_value *)
  c_expl : bool             (* explicit *)
}.
Definition c_pkey (c : colst) : bool := c_part c || c_clust c.
Definition is_container (k : ckind) : bool := match k with KSetC | KListC | KMapC => true | _ => false end.

(* Column._val_is_null : `val is None`; BaseCollectionColumn: `not val` *)
Definition val_is_null (k : ckind) (v : val) : bool :=
  match v with
  | VNone => true
  | VList [] | VSet [] | VMap [] => is_container k
  | _ => false
  end.

(* BaseValueManager.deleted / changed (container default is the empty container) *)
Definition vm_deleted (c : colst) : bool :=
  val_is_null (c_kind c) (c_val c) && (c_expl c || negb (val_is_null (c_kind c) (c_prev c))).
Definition vm_changed (c : colst) : bool :=
  if c_expl c then negb (val_eqb (c_val c) (c_prev c))
  else if is_container (c_kind c) then negb (val_is_null (c_kind c) (c_val c)) && negb (val_eqb (c_val c) (c_prev c))
  else false.

Definition oz (v : val) : option (list Z) := match v with VList l | VSet l => Some l | _ => None end.
Definition om (v : val) : option (list (Z * Z)) := match v with VMap m => Some m | _ => None end.

(* UpdateStatement.add_update: the clause for one column (value is not None here) *)
Definition update_clause (c : colst) : clause :=
  match c_kind c with
  | KSetC => CSetUpd (c_name c) (oz (c_val c)) None (oz (c_prev c))
  | KListC => CListUpd (c_name c) (oz (c_val c)) None (oz (c_prev c))
  | KMapC => CMapUpd (c_name c) (match c_val c with VMap m => m | _ => [] end) None (om (c_prev c))
  | KCounterC => CCounter (c_name c) (as_int (c_val c)) (match c_prev c with VInt z => Some z | _ => None end)
  | KScalar => CAssign (c_name c) (c_val c)
  end.

Definition key_kvs (cols : list colst) (partition_only : bool) : list (name * val) :=
  map (fun c => (c_name c, c_val c))
      (filter (fun c => if partition_only then c_part c else c_pkey c) cols).

(* DMLQuery._delete_null_columns *)
Definition delete_null_columns (cols : list colst) : list cql :=
  let items := flat_map (fun c =>
                 if vm_deleted c then [DCol (c_name c)]
                 else match c_kind c with
                      | KMapC => let cl := CMapDel (c_name c) (om (c_val c)) (om (c_prev c)) in
                                 if 0 <? clause_size cl then clause_dels cl else []
                      | _ => []
                      end) cols in
  let deleted_any := existsb (fun c => vm_deleted c || match c_kind c with
                                                       | KMapC => 0 <? clause_size (CMapDel (c_name c) (om (c_val c)) (om (c_prev c)))
                                                       | _ => false end) cols in
  (* static_only starts True; &= col.static for deleted fields; |= col.static for map key deletions *)
  let static_only := fold_left (fun acc c =>
                       if vm_deleted c then acc && c_static c
                       else match c_kind c with
                            | KMapC => if 0 <? clause_size (CMapDel (c_name c) (om (c_val c)) (om (c_prev c))) then acc && c_static c else acc
                            | _ => acc
                            end) cols true in
  if deleted_any then [CDelete items (key_kvs cols static_only)] else [].

(* DMLQuery.update (clustering key not null) *)
Definition dml_update (cols : list colst) : list cql :=
  let upd := filter (fun c => negb (c_pkey c) && negb (val_eqb (c_val c) VNone) &&
                              (vm_changed c || match c_kind c with KCounterC => true | _ => false end)) cols in
  let static_changed_only := forallb c_static upd in
  let sets := flat_map (fun c => let cl := update_clause c in if clause_size cl =? 0 then [] else clause_assigns cl) upd in
  (match sets with [] => [] | _ => [CUpdate sets (key_kvs cols static_changed_only)] end)
  ++ delete_null_columns cols.

(* DMLQuery.save for an instance that cannot be updated: INSERT of the non-null columns, then _delete_null_columns *)
Definition dml_insert (cols : list colst) : list cql :=
  let ins := filter (fun c => negb (val_is_null (c_kind c) (c_val c))) cols in
  (match ins with [] => [] | _ => [CInsert (map (fun c => (c_name c, c_val c)) ins)] end)
  ++ delete_null_columns cols.

(* Model._can_update / DMLQuery.save *)
Definition can_update (persisted : bool) (cols : list colst) : bool :=
  persisted && forallb (fun c => negb (c_pkey c) || negb (vm_changed c)) cols.
Definition dml_save (persisted has_counter : bool) (cols : list colst) : list cql :=
  if has_counter || can_update persisted cols then dml_update cols else dml_insert cols.

(* DMLQuery.delete *)
Definition dml_delete (cols : list colst) : list cql := [CDelete [] (key_kvs cols false)].

(* Model._set_persisted: changed or deleted managers take previous_value := deepcopy(value), explicit := False.  Values here are immutable terms,
   so the snapshot is by value; nested (frozen) collections are atoms of the outer collection (the harness encodes them injectively). *)
Definition set_persisted (cols : list colst) : list colst :=
  map (fun c => if vm_changed c || vm_deleted c      (* written, or deleted by the statement just issued *)
                then {| c_name := c_name c; c_kind := c_kind c; c_part := c_part c; c_clust := c_clust c; c_static := c_static c;
                        c_val := c_val c; c_prev := c_val c; c_expl := false |}
                else c) cols.

(* ------------------------------------------------------------------ boolean equality of statement lists *)
Definition assign_eqb (a b : assign) : bool :=
  match a, b with
  | ASet f v, ASet f' v' | APlus f v, APlus f' v' | AMinus f v, AMinus f' v' | APrepend f v, APrepend f' v' => (f =? f') && val_eqb v v'
  | APut f k v, APut f' k' v' => (f =? f') && val_eqb k k' && val_eqb v v'
  | _, _ => false
  end.
Definition delitem_eqb (a b : delitem) : bool :=
  match a, b with
  | DCol f, DCol f' => f =? f'
  | DKey f k, DKey f' k' => (f =? f') && val_eqb k k'
  | _, _ => false
  end.
Definition kvs_eqb (a b : list (name * val)) : bool := list_eqb (fun x y => (fst x =? fst y) && val_eqb (snd x) (snd y)) a b.
Definition cql_eqb (a b : cql) : bool :=
  match a, b with
  | CInsert c, CInsert c' => kvs_eqb c c'
  | CUpdate s k, CUpdate s' k' => list_eqb assign_eqb s s' && kvs_eqb k k'
  | CDelete i k, CDelete i' k' => list_eqb delitem_eqb i i' && kvs_eqb k k'
  | _, _ => false
  end.
Definition cqls_eqb (a b : list cql) : bool := list_eqb cql_eqb a b.

Definition colst_eqb (a b : colst) : bool :=
  (c_name a =? c_name b) && val_eqb (c_val a) (c_val b) && val_eqb (c_prev a) (c_prev b) && Bool.eqb (c_expl a) (c_expl b).

(* the INSERT path of save() marks unchanged non-null columns that have a default (containers, counters) as explicit *)
Definition insert_mark (cols : list colst) : list colst :=
  map (fun c => if negb (val_is_null (c_kind c) (c_val c)) && (is_container (c_kind c) || match c_kind c with KCounterC => true | _ => false end)
                   && negb (vm_changed c)
                then {| c_name := c_name c; c_kind := c_kind c; c_part := c_part c; c_clust := c_clust c; c_static := c_static c;
                        c_val := c_val c; c_prev := c_prev c; c_expl := true |}
                else c) cols.
Definition save_post (persisted has_counter : bool) (cols : list colst) : list colst :=
  if has_counter || can_update persisted cols then set_persisted cols else set_persisted (insert_mark cols).

(* ------------------------------------------------------------------ BatchQuery (query.py): a queue of statements *)
(* add_query appends; execute() sends the whole queue as one batch and then forgets it (self.queries = []);
   __exit__ of the context manager is execute().  State: (queue, batches sent so far). *)
Inductive bqop := BAdd (s : list cql) | BExecute.
Definition bq_step (st : list cql * list (list cql)) (o : bqop) : list cql * list (list cql) :=
  match o with
  | BAdd s => (fst st ++ s, snd st)
  | BExecute => ([], match fst st with [] => snd st | q => snd st ++ [q] end)     (* an empty batch is a no-op *)
  end.
Definition bq_run (ops : list bqop) : list cql * list (list cql) := fold_left bq_step ops ([], []).
Definition bq_added (ops : list bqop) : list cql := flat_map (fun o => match o with BAdd s => s | BExecute => [] end) ops.
