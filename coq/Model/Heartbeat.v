(* Model/Heartbeat.v -- the wait phase of ConnectionHeartbeat.run: one shared deadline for all HeartbeatFutures of a round.
   No proofs here.  Time is in ticks since the wait phase began (run()'s second `start_time = time.time()`).
   arrivals: for each future, in the order run() waits for them, Some a = its reply is processed at instant a, None = never.
     timeout = self._timeout
     for f in futures:
         f.wait(timeout)                                   -- Event.wait: returns at once if the reply is already in
         timeout = self._timeout - (time.time() - start_time)
   A round keeps NO state for the next one (`futures`, `failed_connections` are created afresh at the top of every round). *)
From Coq Require Import ZArith List Bool.
Import ListNotations.
Local Open Scope Z_scope.

(* one f.wait(budget) at instant `now`: (succeeded?, instant afterwards) *)
Definition wait_one (now budget : Z) (a : option Z) : bool * Z :=
  match a with
  | Some t =>
    if t <=? now then (true, now)
    else if (0 <? budget) && (t <=? now + budget) then (true, t)
    else (false, now + Z.max budget 0)
  | None => (false, now + Z.max budget 0)
  end.

Fixpoint wait_loop (T now budget : Z) (arrivals : list (option Z)) : list bool :=
  match arrivals with
  | [] => []
  | a :: rest =>
    let '(ok, now') := wait_one now budget a in
    ok :: wait_loop T now' (T - now') rest
  end.

(* the wait phase of one round: which futures completed (the others are failed: defunct + owner notified) *)
Definition wait_phase (T : Z) (arrivals : list (option Z)) : list bool := wait_loop T 0 T arrivals.

(* what the statement demands: answered within the timeout <-> not failed *)
Definition in_time (T : Z) (a : option Z) : bool :=
  match a with Some t => t <=? T | None => false end.

(* several rounds: each is judged on its own arrivals only *)
Definition rounds (T : Z) (rs : list (list (option Z))) : list (list bool) := map (wait_phase T) rs.

Fixpoint bools_eqb (a b : list bool) : bool :=
  match a, b with
  | [], [] => true
  | x :: a', y :: b' => Bool.eqb x y && bools_eqb a' b'
  | _, _ => false
  end.

(* ---- the send phase of a round: run() walks the connections each holder listed AT THE START of the round ---- *)
Inductive cstat := CDead | CIdle | CBusy.          (* defunct/closed | no frame since the last round | received traffic *)
Inductive decision := DNotifyOwner | DHeartbeat | DResetIdle.

Definition decide (c : cstat) : decision :=
  match c with CDead => DNotifyOwner | CIdle => DHeartbeat | CBusy => DResetIdle end.

(* one decision per listed connection, in order: reporting a dead connection to its owner (which drops it from the owner's
   list) does not change which connections are visited in this round *)
Definition send_phase (listed : list cstat) : list decision := map decide listed.

Definition decision_code (d : decision) : Z := match d with DNotifyOwner => 0 | DHeartbeat => 1 | DResetIdle => 2 end.
Fixpoint zs_eqb (a b : list Z) : bool :=
  match a, b with
  | [], [] => true
  | x :: a', y :: b' => (x =? y) && zs_eqb a' b'
  | _, _ => false
  end.
