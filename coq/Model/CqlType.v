(* CQL types and values as the value codec of cassandra/cqltypes.py sees them.  NO PROOFS HERE.

   Values are canonical forms of the Python objects (the harness converts, type-directed):
     VInt   : tinyint..bigint/counter, varint, date (days from epoch = util.Date.days_from_epoch),
              time (util.Time.nanosecond_time), timestamp (exact milliseconds since epoch of the datetime),
              float/double (the IEEE bit pattern, unsigned)
     VBytes : blob, uuid/timeuuid (16 bytes), inet (4 or 16 bytes: inet_pton is libc's, not modelled)
     VText  : text/varchar/ascii as code points
     VDec   : Decimal as (unscaled, scale) = (+-int(digits), -exponent)
     VDur   : util.Duration(months, days, nanoseconds)
     VSeq   : list, set (in iteration/wire order), tuple, UDT (field order), vector
     VMap   : map as the ordered list of (key, value) pairs
     VNull  : None *)
From Coq Require Import ZArith List Bool.
Import ListNotations.
Local Open Scope Z_scope.

Inductive scalar : Type :=
| SAscii | SBigint | SBlob | SBoolean | SDate | SDecimal | SDouble | SFloat | SInet | SInt
| SSmallint | STinyint | SText | STime | STimestamp | SUuid | SVarint | SDuration.

Inductive cqltype : Type :=
| TScalar (s : scalar)
| TList (t : cqltype)
| TSet (t : cqltype)
| TMap (k v : cqltype)
| TTuple (ts : list cqltype)
| TUdt (ts : list cqltype)          (* field names do not take part in the encoding *)
| TVector (t : cqltype) (n : Z)
| TFrozen (t : cqltype)
| TReversed (t : cqltype).

Inductive value : Type :=
| VNull
| VInt (z : Z)
| VBool (b : bool)
| VBytes (bs : list Z)
| VText (cps : list Z)
| VDec (unscaled scale : Z)
| VDur (months days nanos : Z)
| VSeq (vs : list value)
| VMap (kvs : list (value * value)).

(* _CassandraType.empty_binary_ok: only BytesType, AsciiType, UTF8Type set it *)
Definition empty_ok (t : cqltype) : bool :=
  match t with
  | TScalar SAscii | TScalar SBlob | TScalar SText => true
  | _ => false
  end.

(* <Type>.serial_size(): the driver's table of fixed-width types (used by VectorType) *)
Definition scalar_size (s : scalar) : option Z :=
  match s with
  | SUuid => Some 16 | SBoolean => Some 1 | SFloat => Some 4 | SDouble => Some 8
  | SBigint => Some 8 | SInt => Some 4 | STimestamp => Some 8
  | _ => None
  end.

Fixpoint serial_size (t : cqltype) : option Z :=
  match t with
  | TScalar s => scalar_size s
  | TVector t' n => match serial_size t' with Some k => Some (n * k) | None => None end
  | TFrozen t' | TReversed t' => serial_size t'      (* encoded exactly as the wrapped type (repo fix for C28-4) *)
  | _ => None
  end.

Definition DAY_NANOS : Z := 86400000000000.
(* datetime.datetime range: 0001-01-01T00:00:00.000 .. 9999-12-31T23:59:59.999 in ms since 1970 *)
Definition TS_MIN : Z := -62135596800000.
Definition TS_MAX : Z := 253402300799999.

Definition is_null (v : value) : bool := match v with VNull => true | _ => false end.

(* ---- decidable equality on values (used by the correspondence harness) ---- *)
Fixpoint zlist_eqb (a b : list Z) : bool :=
  match a, b with
  | [], [] => true
  | x :: a', y :: b' => (x =? y) && zlist_eqb a' b'
  | _, _ => false
  end.

Fixpoint value_eqb (a b : value) {struct a} : bool :=
  match a, b with
  | VNull, VNull => true
  | VInt x, VInt y => x =? y
  | VBool x, VBool y => Bool.eqb x y
  | VBytes x, VBytes y => zlist_eqb x y
  | VText x, VText y => zlist_eqb x y
  | VDec u s, VDec u' s' => (u =? u') && (s =? s')
  | VDur m d n, VDur m' d' n' => (m =? m') && (d =? d') && (n =? n')
  | VSeq xs, VSeq ys =>
    (fix go (xs ys : list value) : bool :=
       match xs, ys with
       | [], [] => true
       | x :: xs', y :: ys' => value_eqb x y && go xs' ys'
       | _, _ => false
       end) xs ys
  | VMap xs, VMap ys =>
    (fix go (xs ys : list (value * value)) : bool :=
       match xs, ys with
       | [], [] => true
       | (k, x) :: xs', (k', y) :: ys' => value_eqb k k' && value_eqb x y && go xs' ys'
       | _, _ => false
       end) xs ys
  | _, _ => false
  end.

Definition obytes_eqb (a b : option (list Z)) : bool :=
  match a, b with
  | None, None => true
  | Some x, Some y => zlist_eqb x y
  | _, _ => false
  end.

Definition ovalue_eqb (a b : option value) : bool :=
  match a, b with
  | None, None => true
  | Some x, Some y => value_eqb x y
  | _, _ => false
  end.
