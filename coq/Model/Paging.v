(* C18 model: cassandra/cluster.py ResultSet over a scripted paging server.
   The server script is well formed by construction: a page either is the last one (no paging state) or carries
   a paging state and a continuation.  Rows and paging states are opaque integers.
   One op = one public ResultSet call (single caller thread; ResultSet is not shared between threads).
   NO proofs in this file. *)
From Coq Require Import ZArith List Bool.
Import ListNotations.
Local Open Scope Z_scope.

Inductive server : Type :=
| Last (rows : list Z)
| More (rows : list Z) (st : Z) (rest : server)
| Fail (rest : server)      (* this request ends in an error delivered to the application (e.g. a read timeout the
                               retry policy rethrows); the same request sent again is answered by `rest` *)
| Spec (rest : server).     (* the speculative-execution timer of this page fetch fires the moment it is armed (inside
                               start_fetching_next_page, before the regular request is sent): one more request for the
                               same page; the first answer wins, the other is dropped (_set_final_result) *)

Fixpoint all_rows (srv : server) : list Z :=
  match srv with Last rs => rs | More rs _ rest => rs ++ all_rows rest | Fail rest | Spec rest => all_rows rest end.
Fixpoint states (srv : server) : list Z :=
  match srv with Last _ => [] | More _ st rest => st :: states rest | Fail rest | Spec rest => states rest end.
Fixpoint npages (srv : server) : nat :=
  match srv with Last _ => 1%nat | More _ _ rest => S (npages rest) | Fail rest | Spec rest => npages rest end.
Fixpoint pages (srv : server) : list (list Z) :=
  match srv with Last rs => [rs] | More rs _ rest => rs :: pages rest | Fail rest | Spec rest => pages rest end.
Fixpoint nfails (srv : server) : nat :=
  match srv with Last _ => O | More _ _ rest | Spec rest => nfails rest | Fail rest => S (nfails rest) end.
Fixpoint nspecs (srv : server) : nat :=
  match srv with Last _ => O | More _ _ rest | Fail rest => nspecs rest | Spec rest => S (nspecs rest) end.
(* the requests a client that simply repeats a failed request must send: `cur` is the paging state it holds *)
Fixpoint expected_reqs (cur : option Z) (srv : server) : list (option Z) :=
  match srv with
  | Last _ => [cur]
  | More _ st rest => cur :: expected_reqs (Some st) rest
  | Fail rest | Spec rest => cur :: expected_reqs cur rest
  end.

(* ResponseFuture part: `more` = Some (st, srv): _paging_state = st and the server will answer the next request
   with the pages of srv; None: _paging_state is None. *)
Record rset : Type := mkRS {
  cur : list Z;                 (* _current_rows *)
  it : option (list Z);         (* _page_iter: None, or the items the iterator has not produced yet *)
  lmode : bool;                 (* _list_mode *)
  more : option (Z * server)
}.

Inductive val : Type :=
| VRow (z : Z) | VNone | VRows (l : list Z) | VBool (b : bool) | VState (o : option Z) | VSelf
| VStop | VTypeError | VRuntimeError | VIndexError | VFuel
| VError.                   (* the exception of a failed page request (ReadTimeout ...) *)

(* Req st: a message was sent carrying paging_state = st *)
Inductive out : Type := Req (st : option Z) | Ret (v : val).

(* ResponseFuture.result() for the first page: the initial request carries no paging state *)
(* execute(): if the first request fails the application calls execute() again *)
Fixpoint init (srv : server) : rset * list out :=
  match srv with
  | Last rs => (mkRS rs None false None, [Req None])
  | More rs st rest => (mkRS rs None false (Some (st, rest)), [Req None])
  | Fail rest | Spec rest => let '(s, o) := init rest in (s, Req None :: o)
  end.

Definition has_more (s : rset) : bool := match more s with Some _ => true | None => false end.
Definition paging_state (s : rset) : option Z := match more s with Some (st, _) => Some st | None => None end.

(* fetch_next_page: start_fetching_next_page (message.paging_state := _paging_state; send) + result() *)
(* start_fetching_next_page: message.paging_state := _paging_state; arm the timer [a speculative execution that fires
   right there sends the message as it is]; send the regular request -- then result() *)
Fixpoint fetch_srv (c : list Z) (i : option (list Z)) (lm : bool) (st : Z) (srv : server) : rset * list out * val :=
  match srv with
  | Last rs => (mkRS rs i lm None, [Req (Some st)], VNone)
  | More rs st' rest => (mkRS rs i lm (Some (st', rest)), [Req (Some st)], VNone)
  | Fail rest => (mkRS c i lm (Some (st, rest)), [Req (Some st)], VError)   (* result() raises; _paging_state is kept *)
  | Spec rest => let '(s', o, v) := fetch_srv c i lm st rest in (s', Req (Some st) :: o, v)
  end.

Definition fetch (s : rset) : rset * list out * val :=
  match more s with
  | Some (st, srv) => fetch_srv (cur s) (it s) (lmode s) st srv
  | None => (mkRS [] (it s) (lmode s) None, [], VNone)
  end.

(* next() once _page_iter is exhausted and has_more_pages: fetch_next_page(); _page_iter = iter(_current_rows);
   return self.next() -- the recursion is structural on the server script. *)
Fixpoint pull (lm : bool) (c : list Z) (st : Z) (srv : server) : rset * list out * val :=
  match srv with
  | Last [] => (mkRS [] (Some []) lm None, [Req (Some st)], VStop)
  | Last (r :: rs) => (mkRS (r :: rs) (Some rs) lm None, [Req (Some st)], VRow r)
  | More [] st' rest => let '(s', o, v) := pull lm [] st' rest in (s', Req (Some st) :: o, v)
  | More (r :: rs) st' rest => (mkRS (r :: rs) (Some rs) lm (Some (st', rest)), [Req (Some st)], VRow r)
  | Fail rest => (mkRS c (Some []) lm (Some (st, rest)), [Req (Some st)], VError)   (* fetch_next_page raised *)
  | Spec rest => let '(s', o, v) := pull lm c st rest in (s', Req (Some st) :: o, v)
  end.

Definition next (s : rset) : rset * list out * val :=
  match it s with
  | None => (s, [], VTypeError)                       (* next(None) *)
  | Some (r :: l) => (mkRS (cur s) (Some l) (lmode s) (more s), [], VRow r)
  | Some [] =>
      match more s with
      | None => (mkRS (if lmode s then cur s else []) (Some []) (lmode s) None, [], VStop)
      | Some (st, srv) => pull (lmode s) (cur s) st srv
      end
  end.

(* __iter__ *)
Definition iter_ (s : rset) : rset * val :=
  if lmode s then (s, VRows (cur s))                  (* iter(self._current_rows): a separate iterator *)
  else (mkRS (cur s) (Some (cur s)) (lmode s) (more s), VSelf).

(* repeated next() until StopIteration, as list()/for do; fuel is an upper bound on the number of calls *)
Fixpoint drain (fuel : nat) (s : rset) (acc : list Z) (o : list out) : rset * list out * val :=
  match fuel with
  | O => (s, o, VFuel)
  | S f =>
      let '(s', o', v) := next s in
      match v with
      | VRow r => drain f s' (acc ++ [r]) (o ++ o')
      | VStop => (s', o ++ o', VRows acc)
      | e => (s', o ++ o', e)                      (* the exception leaves list() / the for loop *)
      end
  end.

(* an application that keeps calling next() on the same iterator after a failed page fetch *)
Fixpoint drain_retry (fuel : nat) (s : rset) (acc : list Z) (o : list out) : rset * list out * val :=
  match fuel with
  | O => (s, o, VFuel)
  | S f =>
      let '(s', o', v) := next s in
      match v with
      | VRow r => drain_retry f s' (acc ++ [r]) (o ++ o')
      | VError => drain_retry f s' acc (o ++ o')
      | VStop => (s', o ++ o', VRows acc)
      | e => (s', o ++ o', e)
      end
  end.

Definition pending_fails (s : rset) : nat := match more s with Some (_, srv) => nfails srv | None => O end.

Definition pending_rows (s : rset) : list Z :=
  match it s with Some l => l | None => [] end ++ match more s with Some (_, srv) => all_rows srv | None => [] end.

(* list(self) *)
Definition list_self (s : rset) : rset * list out * val :=
  if lmode s then (s, [], VRows (cur s))
  else let '(s1, _) := iter_ s in drain (S (length (pending_rows s1))) s1 [] [].

(* _enter_list_mode *)
Definition enter_list_mode (s : rset) : rset * list out * option val :=
  if lmode s then (s, [], None)
  else match it s with
       | Some _ => (s, [], Some VRuntimeError)
       | None =>
           let '(s1, o, r) := list_self s in
           match r with
           | VRows rows => (mkRS rows None true (more s1), o, None)
           | e => (s1, o, Some e)                  (* _fetch_all raised: _page_iter stays set, not in list mode *)
           end
       end.

Definition py_getitem (l : list Z) (i : Z) : val :=
  let n := Z.of_nat (length l) in
  let j := if i <? 0 then i + n else i in
  if (j <? 0) || (n <=? j) then VIndexError
  else match nth_error l (Z.to_nat j) with Some v => VRow v | None => VIndexError end.

Fixpoint zlist_eqb (a b : list Z) : bool :=
  match a, b with
  | [], [] => true
  | x :: a', y :: b' => (x =? y) && zlist_eqb a' b'
  | _, _ => false
  end.

Inductive op : Type :=
| OIter | ONext | OFetch | OOne | OCurrent | OHasMore | OPagingState | OBool
| OGetItem (i : Z) | OEq (other : list Z) | OList.

Definition step (s : rset) (o : op) : rset * list out :=
  match o with
  | OIter => let '(s', v) := iter_ s in (s', [Ret v])
  | ONext => let '(s', outs, v) := next s in (s', outs ++ [Ret v])
  | OFetch => let '(s', outs, v) := fetch s in (s', outs ++ [Ret v])
  | OOne => (s, [Ret (match cur s with r :: _ => VRow r | [] => VNone end)])
  | OCurrent => (s, [Ret (VRows (cur s))])
  | OHasMore => (s, [Ret (VBool (has_more s))])
  | OPagingState => (s, [Ret (VState (paging_state s))])
  | OBool => (s, [Ret (VBool (match cur s with [] => false | _ => true end))])
  | OGetItem i =>
      let '(s', outs, e) := enter_list_mode s in
      match e with
      | Some err => (s', outs ++ [Ret err])
      | None => (s', outs ++ [Ret (py_getitem (cur s') i)])
      end
  | OEq other =>
      let '(s', outs, e) := enter_list_mode s in
      match e with
      | Some err => (s', outs ++ [Ret err])
      | None => (s', outs ++ [Ret (VBool (zlist_eqb (cur s') other))])
      end
  | OList =>
      let '(s', outs, r) := list_self s in
      (s', outs ++ [Ret r])
  end.

(* observable state after a step: (_current_rows, _page_iter remaining, _list_mode, _paging_state) *)
Definition obs (s : rset) : list Z * option (list Z) * bool * option Z := (cur s, it s, lmode s, paging_state s).

Fixpoint run (s : rset) (ops : list op) : list (list out * (list Z * option (list Z) * bool * option Z)) :=
  match ops with
  | [] => []
  | o :: rest => let '(s', outs) := step s o in (outs, obs s') :: run s' rest
  end.

Fixpoint run_state (s : rset) (ops : list op) : rset * list out :=
  match ops with
  | [] => (s, [])
  | o :: rest => let '(s', outs) := step s o in let '(s'', outs') := run_state s' rest in (s'', outs ++ outs')
  end.

Fixpoint reqs (o : list out) : list (option Z) :=
  match o with [] => [] | Req st :: r => st :: reqs r | Ret _ :: r => reqs r end.

(* ---------- continuous paging (DSE): the first response opens a ContinuousPagingSession; the server pushes the
   remaining pages without being asked; _current_rows / _page_iter are ONE generator over the rows of all pages.
   Not list mode (materialising turns the state into an ordinary list-mode rset). ---------- *)
Record cstate : Type := mkCS {
  gen : list Z;                 (* what the session generator has not produced yet (all pushed pages) *)
  cit : bool;                   (* _page_iter is set (it is the same generator object as _current_rows) *)
  cmore : option (Z * server)   (* _paging_state of the FIRST page (later pages never go through the future) *)
}.
Inductive anystate : Type := Paged (s : rset) | Cont (c : cstate).

Definition init_cont (srv : server) : anystate * list out :=
  let '(s0, o0) := init srv in (Cont (mkCS (all_rows srv) false (more s0)), o0).

(* generator exhausted: `if not has_more_pages: _current_rows = []` (a list again); otherwise next(self._page_iter)
   on the exhausted generator -- no page is fetched because a continuous session exists *)
Definition cont_exhausted (c : cstate) : anystate :=
  match cmore c with
  | None => Paged (mkRS [] (Some []) false None)
  | Some _ => Cont (mkCS [] true (cmore c))
  end.

Definition cont_op (o : op) : bool :=      (* calls that make sense on a continuous result and are modelled *)
  match o with OFetch | OCurrent | OBool => false | _ => true end.

Definition cstep (c : cstate) (o : op) : anystate * list out :=
  match o with
  | OIter => (Cont (mkCS (gen c) true (cmore c)), [Ret VSelf])
  | ONext =>
      if cit c then
        match gen c with
        | r :: l => (Cont (mkCS l true (cmore c)), [Ret (VRow r)])
        | [] => (cont_exhausted c, [Ret VStop])
        end
      else (Cont c, [Ret VTypeError])
  | OList => (cont_exhausted c, [Ret (VRows (gen c))])
  | OOne =>                                  (* generator is not subscriptable: next(iter(...)) consumes a row *)
      match gen c with
      | r :: l => (Cont (mkCS l (cit c) (cmore c)), [Ret (VRow r)])
      | [] => (Cont c, [Ret VStop])
      end
  | OHasMore => (Cont c, [Ret (VBool (match cmore c with Some _ => true | None => false end))])
  | OPagingState => (Cont c, [Ret (VState (match cmore c with Some (st, _) => Some st | None => None end))])
  | OGetItem i =>
      if cit c then (Cont c, [Ret VRuntimeError])
      else (Paged (mkRS (gen c) None true (cmore c)), [Ret (py_getitem (gen c) i)])
  | OEq other =>
      if cit c then (Cont c, [Ret VRuntimeError])
      else (Paged (mkRS (gen c) None true (cmore c)), [Ret (VBool (zlist_eqb (gen c) other))])
  | OFetch | OCurrent | OBool => (Cont c, [Ret VFuel])     (* not modelled (cont_op = false), never generated *)
  end.

Definition astep (a : anystate) (o : op) : anystate * list out :=
  match a with
  | Paged s => let '(s', outs) := step s o in (Paged s', outs)
  | Cont c => cstep c o
  end.

Fixpoint arun_state (a : anystate) (ops : list op) : anystate * list out :=
  match ops with
  | [] => (a, [])
  | o :: rest => let '(a', outs) := astep a o in let '(a'', outs') := arun_state a' rest in (a'', outs ++ outs')
  end.

(* list(result) right after execute() with continuous paging *)
Definition iterate_cont (srv : server) : list out * list out :=
  let '(a0, o0) := init_cont srv in (o0, snd (astep a0 OList)).

(* observation: (_current_rows if it is a list, remaining _page_iter if over a list, _list_mode, _paging_state,
   _current_rows is the session generator) *)
Definition aobs (a : anystate) : (list Z * option (list Z) * bool * option Z) * bool :=
  match a with
  | Paged s => (obs s, false)
  | Cont c => (([], if cit c then Some [] else None, false, match cmore c with Some (st, _) => Some st | None => None end), true)
  end.

Fixpoint arun (a : anystate) (ops : list op) : list (list out * ((list Z * option (list Z) * bool * option Z) * bool)) :=
  match ops with
  | [] => []
  | o :: rest => let '(a', outs) := astep a o in (outs, aobs a') :: arun a' rest
  end.

(* ---------- callback-driven paging (the documented asynchronous pattern) ----------
   future = session.execute_async(...); future.add_callbacks(handle_page, handle_error)
   handle_page(rows): consume rows; if future.has_more_pages: future.start_fetching_next_page() else: done
   handle_error(exc): give up.
   ResponseFuture.add_callback ALWAYS appends the callback to _callbacks and additionally runs it at once when the
   result is already there (`early`: the first page arrived before add_callbacks was reached); _set_final_result of
   every later page runs what is registered. *)
Definition add_callback_registers (result_already_there : bool) : bool := true.

(* the handler has just asked for the page after the one carrying state st; reg: is it (still) in _callbacks? *)
Fixpoint async_from (reg : bool) (st : Z) (srv : server) : list out * list Z * bool :=
  match srv with
  | Last rs => ([Req (Some st)], if reg then rs else [], reg)
  | More rs st' rest =>
      if reg then let '(o, r, f) := async_from reg st' rest in (Req (Some st) :: o, rs ++ r, f)
      else ([Req (Some st)], [], false)            (* the page arrives, nobody is told *)
  | Fail rest => ([Req (Some st)], [], false)      (* errback *)
  | Spec rest => let '(o, r, f) := async_from reg st rest in (Req (Some st) :: o, r, f)
  end.

(* (requests, rows handed to the handler, handler finished) *)
Definition async_pages (early : bool) (srv : server) : list out * list Z * bool :=
  let '(s0, o0) := init srv in
  let reg := add_callback_registers early in        (* the first page is handled either way: at once or by the callback run *)
  match more s0 with
  | None => (o0, cur s0, true)
  | Some (st, rest) => let '(o, r, f) := async_from reg st rest in (o0 ++ o, cur s0 ++ r, f)
  end.

(* the user-level readings of the statement *)
(* iteration: list(result_set) right after execute() *)
Definition iterate (srv : server) : list out * val :=
  let '(s0, o0) := init srv in let '(_, o, r) := list_self s0 in (o0 ++ o, r).

(* iteration by an application that goes on calling next() after a failed page fetch *)
Definition iterate_retry (srv : server) : list out * val :=
  let '(s0, o0) := init srv in
  let '(s1, _) := iter_ s0 in
  let '(_, o, r) := drain_retry (S (length (pending_rows s1) + pending_fails s1)) s1 [] [] in (o0 ++ o, r).

(* materialisation through the index/equality operators *)
Definition materialise (srv : server) : list out * val :=
  let '(s0, o0) := init srv in
  let '(s1, o, e) := enter_list_mode s0 in
  (o0 ++ o, match e with None => VRows (cur s1) | Some v => v end).

(* manual paging: rows = current_rows; while has_more_pages: fetch_next_page(); rows += current_rows *)
(* a failed fetch_next_page() is simply called again *)
Fixpoint manual_loop (fuel : nat) (s : rset) (o : list out) : list out * option (list Z) :=
  if has_more s then
    match fuel with
    | O => (o, None)
    | S f => let '(s', o', v) := fetch s in
             let '(o'', r) := manual_loop f s' (o ++ o') in
             (o'', match r with
                   | Some rows => Some (match v with VError => rows | _ => cur s ++ rows end)
                   | None => None
                   end)
    end
  else (o, Some (cur s)).

Definition manual (srv : server) : list out * option (list Z) :=
  let '(s0, o0) := init srv in manual_loop (npages srv + nfails srv) s0 o0.

(* ---------- comparison helpers for the correspondence (decidable equality on outputs) ---------- *)
Definition oz_eqb (a b : option Z) : bool :=
  match a, b with Some x, Some y => x =? y | None, None => true | _, _ => false end.
Definition ol_eqb (a b : option (list Z)) : bool :=
  match a, b with Some x, Some y => zlist_eqb x y | None, None => true | _, _ => false end.
Definition val_eqb (a b : val) : bool :=
  match a, b with
  | VRow x, VRow y => x =? y
  | VNone, VNone | VSelf, VSelf | VStop, VStop | VTypeError, VTypeError | VRuntimeError, VRuntimeError
  | VIndexError, VIndexError | VFuel, VFuel | VError, VError => true
  | VRows x, VRows y => zlist_eqb x y
  | VBool x, VBool y => Bool.eqb x y
  | VState x, VState y => oz_eqb x y
  | _, _ => false
  end.
Definition out_eqb (a b : out) : bool :=
  match a, b with Req x, Req y => oz_eqb x y | Ret x, Ret y => val_eqb x y | _, _ => false end.
Fixpoint outs_eqb (a b : list out) : bool :=
  match a, b with [] , [] => true | x :: a', y :: b' => out_eqb x y && outs_eqb a' b' | _, _ => false end.
Definition obs_eqb (a b : list Z * option (list Z) * bool * option Z) : bool :=
  let '(c1, i1, l1, p1) := a in let '(c2, i2, l2, p2) := b in
  zlist_eqb c1 c2 && ol_eqb i1 i2 && Bool.eqb l1 l2 && oz_eqb p1 p2.
Fixpoint trace_eqb (a b : list (list out * (list Z * option (list Z) * bool * option Z))) : bool :=
  match a, b with
  | [], [] => true
  | (o1, s1) :: a', (o2, s2) :: b' => outs_eqb o1 o2 && obs_eqb s1 s2 && trace_eqb a' b'
  | _, _ => false
  end.

(* one correspondence case: the implementation's recorded initial requests/observation + per-op trace *)
Definition check_case (srv : server) (ops : list op)
  (init_obs : list out * (list Z * option (list Z) * bool * option Z))
  (tr : list (list out * (list Z * option (list Z) * bool * option Z))) : bool :=
  let '(s0, o0) := init srv in
  outs_eqb o0 (fst init_obs) && obs_eqb (obs s0) (snd init_obs) && trace_eqb (run s0 ops) tr.

Fixpoint atrace_eqb (a b : list (list out * ((list Z * option (list Z) * bool * option Z) * bool))) : bool :=
  match a, b with
  | [], [] => true
  | (o1, (s1, g1)) :: a', (o2, (s2, g2)) :: b' => outs_eqb o1 o2 && obs_eqb s1 s2 && Bool.eqb g1 g2 && atrace_eqb a' b'
  | _, _ => false
  end.

Definition check_case_cont (srv : server) (ops : list op)
  (init_obs : list out * ((list Z * option (list Z) * bool * option Z) * bool))
  (tr : list (list out * ((list Z * option (list Z) * bool * option Z) * bool))) : bool :=
  let '(a0, o0) := init_cont srv in
  outs_eqb o0 (fst init_obs) && obs_eqb (fst (aobs a0)) (fst (snd init_obs)) && Bool.eqb (snd (aobs a0)) (snd (snd init_obs))
  && atrace_eqb (arun a0 ops) tr.

Definition check_async (early : bool) (srv : server) (rq : list out) (rows : list Z) (fin : bool) : bool :=
  let '(o, r, f) := async_pages early srv in outs_eqb o rq && zlist_eqb r rows && Bool.eqb f fin.
