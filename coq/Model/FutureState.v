(* State of the ResponseFuture model (C14, C15): data types, the state record and one setter per field.
   No proofs here.  The machine itself is in FutureOnce.v. *)
From Coq Require Import ZArith List Bool.
Import ListNotations.
Local Open Scope Z_scope.

(* state of session._pools[host] as _query sees it *)
Inductive pstate := POk | PNoConn (* borrow_connection raises NoConnectionsAvailable *)
                  | PSendFail (* send_msg raises ConnectionBusy / another exception *)
                  | PShutdown | PMissing.
(* what the retry policy answered (the consistency level it may add is not modelled) *)
Inductive decision := DRetry | DRetryNext | DRethrow | DIgnore.
(* what is delivered to the callback recorded by send_msg, i.e. to _set_result *)
Inductive rkind :=
| RRows (more : bool)   (* ResultMessage kind ROWS, with / without a paging state *)
| RVoid                 (* ResultMessage kind VOID *)
| RRetry (d : decision) (* read/write timeout, unavailable, overloaded, bootstrapping, truncate, server error,
                           ConnectionException, ConnectionShutdown: the retry policy is consulted and answers d *)
| ROther                (* any other ErrorMessage / Exception: becomes the final exception *)
| RUnprepared           (* PreparedQueryNotFound for a statement the driver knows: _reprepare is handed to the executor *)
| RSchema               (* ResultMessage kind SCHEMA_CHANGE: refresh_schema_and_set_result is handed to the executor *)
| RSetKs                (* ResultMessage kind SET_KEYSPACE (answer to USE): Session._set_keyspace_for_all_pools is started *)
| RJunk.                (* a message that is neither a result nor an error *)
(* what a PREPARE sent by _reprepare is answered with (handled by _execute_after_prepare) *)
Inductive pkind := PPrepared | PMismatch (* PREPARED with another query id *) | PError (* ErrorMessage *)
                 | PConnErr (* ConnectionException *) | PJunk (* anything else *).
(* work handed to session.submit *)
Inductive task :=
| TRetry (reuse : bool) (h : Z)            (* _retry_task(reuse_connection, host) *)
| TReprepare (h : Z)                       (* _reprepare(prepare_message, host, ...) *)
| TAfterPrepare (h : Z) (a : nat) (pk : pkind).   (* _execute_after_prepare(host, connection, pool, answer of attempt a) *)
Inductive tkind := TSpec | TTimeout (n : nat).   (* _on_speculative_execute | _on_timeout(_attempts = n) *)
Record timer := mkTimer { tk : tkind; due : Z; cancelled : bool; fired : bool }.
Record attempt := mkAtt { ahost : Z; aopen : bool; astale : bool; aprep : bool }.
(* aopen: the callback is still registered in connection._requests; astale: sent for an earlier page fetch (its page number
   differs from self._page_no), so _set_result_of_page drops its answer;
   aprep: a PREPARE sent by _reprepare (its answer goes to _execute_after_prepare, whatever the page) *)
Record pair := mkPair { cbs : list Z; ebs : list Z }.  (* values the callback / the errback was invoked with *)

(* outcome values: results 1 = None (VOID / IGNORE), 10 + a = the rows answered to attempt a;
   errors 1 = OperationTimedOut, 2 = OperationTimedOut("Connection defunct by heartbeat"), 3 = NoHostAvailable,
   4 = ConnectionException("Failed to set keyspace on all hosts"), 5 = ConnectionShutdown("Session is shut down ..."), 6 = DriverException("ID mismatch while trying to reprepare"), 10 + a = the error answered to attempt a *)

Record state := mkState {
  plan : list Z;   (* remaining query plan (the iterator self.query_plan) *)
  attempts : list attempt;   (* every message sent, in send order; index = request id handed out by the fake pool *)
  cur_host : option Z;   (* self._current_host *)
  cur_conn : option Z;   (* self._connection (one connection per host: identified by the host) *)
  cur_req : option nat;   (* self._req_id (set by _query) *)
  retries : Z;   (* self._query_retries *)
  timers : list timer;   (* every timer ever created by create_timer, in creation order *)
  cur_timer : option nat;   (* self._timer (index into timers) *)
  specs : list Z;   (* delays the speculative execution plan will still return (ms); exhausted = -1 *)
  fres : option Z;   (* self._final_result (None = _NOT_SET) *)
  fexc : option Z;   (* self._final_exception *)
  event : bool;   (* self._event.is_set() *)
  pairs : list pair;   (* registered (callback, errback) pairs with the values they were invoked with in this page fetch *)
  paging : bool;   (* self._paging_state is truthy *)
  start : Z;   (* self._start_time (ms) *)
  pstart : Z;   (* ghost: time at which the current page fetch started *)
  timeout : option Z;   (* self.timeout (ms) *)
  now : Z;   (* virtual clock (ms) *)
  queue : list task;   (* tasks handed to session.submit and not yet run *)
  pools : list (Z * pstate);   (* environment: state of session._pools per host *)
  started : bool;   (* ghost: the initial send_request() happened *)
  tfired : bool;   (* ghost: _on_timeout ran past its reschedule branch in this page fetch *)
  results : list (Z * Z);   (* ghost: what result() returned (0,v) / raised (1,e), in call order *)
  chains : list (list Z * bool);   (* keyspace propagations started by SET_KEYSPACE answers (Session._set_keyspace_for_all_pools): (pools that have not reported yet, an error was reported) *)
  swallowed : Z;   (* exceptions that escaped a callback into the reactor / executor (always 0 in the model; the harness counts them) *)
  shut : bool;   (* environment: session.is_shutdown (Session.submit then runs nothing and returns None) *)
  refreshes : nat;   (* queued refresh_schema_and_set_result tasks (after SCHEMA_CHANGE answers) *)
}.
Definition set_plan (x : list Z) (s : state) : state :=
  mkState x (attempts s) (cur_host s) (cur_conn s) (cur_req s) (retries s) (timers s) (cur_timer s) (specs s) (fres s) (fexc s) (event s) (pairs s) (paging s) (start s) (pstart s) (timeout s) (now s) (queue s) (pools s) (started s) (tfired s) (results s) (chains s) (swallowed s) (shut s) (refreshes s).
Definition set_attempts (x : list attempt) (s : state) : state :=
  mkState (plan s) x (cur_host s) (cur_conn s) (cur_req s) (retries s) (timers s) (cur_timer s) (specs s) (fres s) (fexc s) (event s) (pairs s) (paging s) (start s) (pstart s) (timeout s) (now s) (queue s) (pools s) (started s) (tfired s) (results s) (chains s) (swallowed s) (shut s) (refreshes s).
Definition set_cur_host (x : option Z) (s : state) : state :=
  mkState (plan s) (attempts s) x (cur_conn s) (cur_req s) (retries s) (timers s) (cur_timer s) (specs s) (fres s) (fexc s) (event s) (pairs s) (paging s) (start s) (pstart s) (timeout s) (now s) (queue s) (pools s) (started s) (tfired s) (results s) (chains s) (swallowed s) (shut s) (refreshes s).
Definition set_cur_conn (x : option Z) (s : state) : state :=
  mkState (plan s) (attempts s) (cur_host s) x (cur_req s) (retries s) (timers s) (cur_timer s) (specs s) (fres s) (fexc s) (event s) (pairs s) (paging s) (start s) (pstart s) (timeout s) (now s) (queue s) (pools s) (started s) (tfired s) (results s) (chains s) (swallowed s) (shut s) (refreshes s).
Definition set_cur_req (x : option nat) (s : state) : state :=
  mkState (plan s) (attempts s) (cur_host s) (cur_conn s) x (retries s) (timers s) (cur_timer s) (specs s) (fres s) (fexc s) (event s) (pairs s) (paging s) (start s) (pstart s) (timeout s) (now s) (queue s) (pools s) (started s) (tfired s) (results s) (chains s) (swallowed s) (shut s) (refreshes s).
Definition set_retries (x : Z) (s : state) : state :=
  mkState (plan s) (attempts s) (cur_host s) (cur_conn s) (cur_req s) x (timers s) (cur_timer s) (specs s) (fres s) (fexc s) (event s) (pairs s) (paging s) (start s) (pstart s) (timeout s) (now s) (queue s) (pools s) (started s) (tfired s) (results s) (chains s) (swallowed s) (shut s) (refreshes s).
Definition set_timers (x : list timer) (s : state) : state :=
  mkState (plan s) (attempts s) (cur_host s) (cur_conn s) (cur_req s) (retries s) x (cur_timer s) (specs s) (fres s) (fexc s) (event s) (pairs s) (paging s) (start s) (pstart s) (timeout s) (now s) (queue s) (pools s) (started s) (tfired s) (results s) (chains s) (swallowed s) (shut s) (refreshes s).
Definition set_cur_timer (x : option nat) (s : state) : state :=
  mkState (plan s) (attempts s) (cur_host s) (cur_conn s) (cur_req s) (retries s) (timers s) x (specs s) (fres s) (fexc s) (event s) (pairs s) (paging s) (start s) (pstart s) (timeout s) (now s) (queue s) (pools s) (started s) (tfired s) (results s) (chains s) (swallowed s) (shut s) (refreshes s).
Definition set_specs (x : list Z) (s : state) : state :=
  mkState (plan s) (attempts s) (cur_host s) (cur_conn s) (cur_req s) (retries s) (timers s) (cur_timer s) x (fres s) (fexc s) (event s) (pairs s) (paging s) (start s) (pstart s) (timeout s) (now s) (queue s) (pools s) (started s) (tfired s) (results s) (chains s) (swallowed s) (shut s) (refreshes s).
Definition set_fres (x : option Z) (s : state) : state :=
  mkState (plan s) (attempts s) (cur_host s) (cur_conn s) (cur_req s) (retries s) (timers s) (cur_timer s) (specs s) x (fexc s) (event s) (pairs s) (paging s) (start s) (pstart s) (timeout s) (now s) (queue s) (pools s) (started s) (tfired s) (results s) (chains s) (swallowed s) (shut s) (refreshes s).
Definition set_fexc (x : option Z) (s : state) : state :=
  mkState (plan s) (attempts s) (cur_host s) (cur_conn s) (cur_req s) (retries s) (timers s) (cur_timer s) (specs s) (fres s) x (event s) (pairs s) (paging s) (start s) (pstart s) (timeout s) (now s) (queue s) (pools s) (started s) (tfired s) (results s) (chains s) (swallowed s) (shut s) (refreshes s).
Definition set_event (x : bool) (s : state) : state :=
  mkState (plan s) (attempts s) (cur_host s) (cur_conn s) (cur_req s) (retries s) (timers s) (cur_timer s) (specs s) (fres s) (fexc s) x (pairs s) (paging s) (start s) (pstart s) (timeout s) (now s) (queue s) (pools s) (started s) (tfired s) (results s) (chains s) (swallowed s) (shut s) (refreshes s).
Definition set_pairs (x : list pair) (s : state) : state :=
  mkState (plan s) (attempts s) (cur_host s) (cur_conn s) (cur_req s) (retries s) (timers s) (cur_timer s) (specs s) (fres s) (fexc s) (event s) x (paging s) (start s) (pstart s) (timeout s) (now s) (queue s) (pools s) (started s) (tfired s) (results s) (chains s) (swallowed s) (shut s) (refreshes s).
Definition set_paging (x : bool) (s : state) : state :=
  mkState (plan s) (attempts s) (cur_host s) (cur_conn s) (cur_req s) (retries s) (timers s) (cur_timer s) (specs s) (fres s) (fexc s) (event s) (pairs s) x (start s) (pstart s) (timeout s) (now s) (queue s) (pools s) (started s) (tfired s) (results s) (chains s) (swallowed s) (shut s) (refreshes s).
Definition set_start (x : Z) (s : state) : state :=
  mkState (plan s) (attempts s) (cur_host s) (cur_conn s) (cur_req s) (retries s) (timers s) (cur_timer s) (specs s) (fres s) (fexc s) (event s) (pairs s) (paging s) x (pstart s) (timeout s) (now s) (queue s) (pools s) (started s) (tfired s) (results s) (chains s) (swallowed s) (shut s) (refreshes s).
Definition set_pstart (x : Z) (s : state) : state :=
  mkState (plan s) (attempts s) (cur_host s) (cur_conn s) (cur_req s) (retries s) (timers s) (cur_timer s) (specs s) (fres s) (fexc s) (event s) (pairs s) (paging s) (start s) x (timeout s) (now s) (queue s) (pools s) (started s) (tfired s) (results s) (chains s) (swallowed s) (shut s) (refreshes s).
Definition set_timeout (x : option Z) (s : state) : state :=
  mkState (plan s) (attempts s) (cur_host s) (cur_conn s) (cur_req s) (retries s) (timers s) (cur_timer s) (specs s) (fres s) (fexc s) (event s) (pairs s) (paging s) (start s) (pstart s) x (now s) (queue s) (pools s) (started s) (tfired s) (results s) (chains s) (swallowed s) (shut s) (refreshes s).
Definition set_now (x : Z) (s : state) : state :=
  mkState (plan s) (attempts s) (cur_host s) (cur_conn s) (cur_req s) (retries s) (timers s) (cur_timer s) (specs s) (fres s) (fexc s) (event s) (pairs s) (paging s) (start s) (pstart s) (timeout s) x (queue s) (pools s) (started s) (tfired s) (results s) (chains s) (swallowed s) (shut s) (refreshes s).
Definition set_queue (x : list task) (s : state) : state :=
  mkState (plan s) (attempts s) (cur_host s) (cur_conn s) (cur_req s) (retries s) (timers s) (cur_timer s) (specs s) (fres s) (fexc s) (event s) (pairs s) (paging s) (start s) (pstart s) (timeout s) (now s) x (pools s) (started s) (tfired s) (results s) (chains s) (swallowed s) (shut s) (refreshes s).
Definition set_pools (x : list (Z * pstate)) (s : state) : state :=
  mkState (plan s) (attempts s) (cur_host s) (cur_conn s) (cur_req s) (retries s) (timers s) (cur_timer s) (specs s) (fres s) (fexc s) (event s) (pairs s) (paging s) (start s) (pstart s) (timeout s) (now s) (queue s) x (started s) (tfired s) (results s) (chains s) (swallowed s) (shut s) (refreshes s).
Definition set_started (x : bool) (s : state) : state :=
  mkState (plan s) (attempts s) (cur_host s) (cur_conn s) (cur_req s) (retries s) (timers s) (cur_timer s) (specs s) (fres s) (fexc s) (event s) (pairs s) (paging s) (start s) (pstart s) (timeout s) (now s) (queue s) (pools s) x (tfired s) (results s) (chains s) (swallowed s) (shut s) (refreshes s).
Definition set_tfired (x : bool) (s : state) : state :=
  mkState (plan s) (attempts s) (cur_host s) (cur_conn s) (cur_req s) (retries s) (timers s) (cur_timer s) (specs s) (fres s) (fexc s) (event s) (pairs s) (paging s) (start s) (pstart s) (timeout s) (now s) (queue s) (pools s) (started s) x (results s) (chains s) (swallowed s) (shut s) (refreshes s).
Definition set_results (x : list (Z * Z)) (s : state) : state :=
  mkState (plan s) (attempts s) (cur_host s) (cur_conn s) (cur_req s) (retries s) (timers s) (cur_timer s) (specs s) (fres s) (fexc s) (event s) (pairs s) (paging s) (start s) (pstart s) (timeout s) (now s) (queue s) (pools s) (started s) (tfired s) x (chains s) (swallowed s) (shut s) (refreshes s).
Definition set_chains (x : list (list Z * bool)) (s : state) : state :=
  mkState (plan s) (attempts s) (cur_host s) (cur_conn s) (cur_req s) (retries s) (timers s) (cur_timer s) (specs s) (fres s) (fexc s) (event s) (pairs s) (paging s) (start s) (pstart s) (timeout s) (now s) (queue s) (pools s) (started s) (tfired s) (results s) x (swallowed s) (shut s) (refreshes s).
Definition set_swallowed (x : Z) (s : state) : state :=
  mkState (plan s) (attempts s) (cur_host s) (cur_conn s) (cur_req s) (retries s) (timers s) (cur_timer s) (specs s) (fres s) (fexc s) (event s) (pairs s) (paging s) (start s) (pstart s) (timeout s) (now s) (queue s) (pools s) (started s) (tfired s) (results s) (chains s) x (shut s) (refreshes s).
Definition set_shut (x : bool) (s : state) : state :=
  mkState (plan s) (attempts s) (cur_host s) (cur_conn s) (cur_req s) (retries s) (timers s) (cur_timer s) (specs s) (fres s) (fexc s) (event s) (pairs s) (paging s) (start s) (pstart s) (timeout s) (now s) (queue s) (pools s) (started s) (tfired s) (results s) (chains s) (swallowed s) x (refreshes s).
Definition set_refreshes (x : nat) (s : state) : state :=
  mkState (plan s) (attempts s) (cur_host s) (cur_conn s) (cur_req s) (retries s) (timers s) (cur_timer s) (specs s) (fres s) (fexc s) (event s) (pairs s) (paging s) (start s) (pstart s) (timeout s) (now s) (queue s) (pools s) (started s) (tfired s) (results s) (chains s) (swallowed s) (shut s) x.
