(* INDEPENDENT specification: Cassandra's MurmurHash.hash3_x64_128(key, 0, len, seed 0)[0] as used by
   Murmur3Partitioner, with Java `long` arithmetic written out as arithmetic modulo 2^64 on words in [0, 2^64)
   (transcribed from org.apache.cassandra.utils.MurmurHash; trusted oracle).  Note the Cassandra variant
   sign-extends the tail bytes: `((long) key.get(offset + i)) << (8*i)`. *)
From Coq Require Import ZArith List.
From Verif Require Import ByteWords.
Import ListNotations.
Local Open Scope Z_scope.

Definition M64 : Z := 2 ^ 64.
Definition C1 : Z := 9782798678568883157.   (* 0x87c37b91114253d5L *)
Definition C2 : Z := 5545529020109919103.   (* 0x4cf5ad432745937fL *)

Definition mul64 (a b : Z) : Z := (a * b) mod M64.
Definition add64 (a b : Z) : Z := (a + b) mod M64.
(* (x << r) | (x >>> (64 - r)) *)
Definition rotl64s (x r : Z) : Z := (Z.lor (Z.shiftl x r) (Z.shiftr x (64 - r))) mod M64.

Definition mix_k1 (k : Z) : Z := mul64 (rotl64s (mul64 k C1) 31) C2.
Definition mix_k2 (k : Z) : Z := mul64 (rotl64s (mul64 k C2) 33) C1.

Definition round (h : Z * Z) (k1 k2 : Z) : Z * Z :=
  let '(h1, h2) := h in
  let h1 := Z.lxor h1 (mix_k1 k1) in
  let h1 := rotl64s h1 27 in
  let h1 := add64 h1 h2 in
  let h1 := add64 (mul64 h1 5) 1390208809 in    (* 0x52dce729 *)
  let h2 := Z.lxor h2 (mix_k2 k2) in
  let h2 := rotl64s h2 31 in
  let h2 := add64 h2 h1 in
  let h2 := add64 (mul64 h2 5) 944331445 in     (* 0x38495ab5 *)
  (h1, h2).

(* body: consecutive pairs of little-endian longs *)
Fixpoint rounds (ws : list Z) (h : Z * Z) : Z * Z :=
  match ws with
  | k1 :: k2 :: r => rounds r (round h k1 k2)
  | _ => h
  end.

(* tail word: switch fall-through from the highest index down: k ^= ((long) byte_i) << (8*i) *)
Fixpoint tail_word (idx : list nat) (bs : list Z) (k : Z) : Z :=
  match idx with
  | [] => k
  | i :: r => tail_word r bs (Z.lxor k ((Z.shiftl (sext8 (nth i bs 0)) (8 * Z.of_nat i)) mod M64))
  end.

(* indices n-1, n-2, ..., 0 *)
Fixpoint down (n : nat) : list nat := match n with O => [] | S k => k :: down k end.

Definition fmix64 (k : Z) : Z :=
  let k := Z.lxor k (Z.shiftr k 33) in
  let k := mul64 k 18397679294719823053 in      (* 0xff51afd7ed558ccdL *)
  let k := Z.lxor k (Z.shiftr k 33) in
  let k := mul64 k 14181476777654086739 in      (* 0xc4ceb9fe1a85ec53L *)
  Z.lxor k (Z.shiftr k 33).

Definition murmur3_h1 (key : list Z) : Z :=
  let len := length key in
  let nb := (len / 16)%nat in
  let h := rounds (words (2 * nb) key) (0, 0) in
  let t := skipn (16 * nb) key in
  let tl := length t in
  let '(h1, h2) := h in
  let h2 := if (8 <? tl)%nat then Z.lxor h2 (mix_k2 (tail_word (down (tl - 8)) (skipn 8 t) 0)) else h2 in
  let h1 := if (0 <? tl)%nat then Z.lxor h1 (mix_k1 (tail_word (down (Nat.min 8 tl)) t 0)) else h1 in
  let h1 := Z.lxor h1 (Z.of_nat len mod M64) in
  let h2 := Z.lxor h2 (Z.of_nat len mod M64) in
  let h1 := add64 h1 h2 in
  let h2 := add64 h2 h1 in
  let h1 := fmix64 h1 in
  let h2 := fmix64 h2 in
  add64 h1 h2.

(* as a Java long *)
Definition murmur3_long (key : list Z) : Z := sext64 (murmur3_h1 key).

(* Murmur3Partitioner.getToken: normalize(hash) maps Long.MIN_VALUE to Long.MAX_VALUE *)
Definition MIN_LONG : Z := - 2 ^ 63.
Definition MAX_LONG : Z := 2 ^ 63 - 1.
Definition murmur3_token (key : list Z) : Z :=
  let h := murmur3_long key in if h =? MIN_LONG then MAX_LONG else h.

(* RandomPartitioner: BigInteger(md5(key)).abs() -- the digest read as a signed big-endian two's-complement integer *)
Fixpoint be_u (bs : list Z) (acc : Z) : Z :=
  match bs with [] => acc | b :: r => be_u r (acc * 256 + b) end.
Definition be_signed (bs : list Z) : Z :=
  let u := be_u bs 0 in
  match bs with
  | [] => 0
  | b :: _ => if b <? 128 then u else u - 2 ^ (8 * Z.of_nat (length bs))
  end.

Section Random.
  Variable md5 : list Z -> list Z.
  Definition random_token (key : list Z) : Z := Z.abs (be_signed (md5 key)).
End Random.
