(* C21 model: the built-in load-balancing policies of cassandra/policies.py as state machines over membership events.
   Hosts are integers; a host's datacenter is an integer, 0 = "no datacenter known" (None / '' : falsy in Python).
   One event = one call the cluster makes on the policy (populate / on_up / on_down / on_add / on_remove), except
   SetLocation = ControlConnection._update_location_info = on_down; host.set_location_info; on_up, and
   MakePlan = one make_query_plan call consumed to the end (it advances _position).
   Hash-dependent iteration orders (frozenset / tuple(set(..))) are INPUTS (`ord`): any list is accepted and
   every iteration order is reachable by some `ord` (set_order).  No proofs in this file. *)
From Coq Require Import ZArith List Bool.
Import ListNotations.
Local Open Scope Z_scope.

(* ------------------------------------------------------------------ small list/set helpers *)
Definition mem (x : Z) (l : list Z) : bool := existsb (Z.eqb x) l.
Definition remove_host (h : Z) (l : list Z) : list Z := filter (fun x => negb (x =? h)) l.
Fixpoint dedupe (l : list Z) : list Z :=
  match l with [] => [] | x :: r => x :: remove_host x (dedupe r) end.
Definition add_host (h : Z) (l : list Z) : list Z := if mem h l then l else l ++ [h].

(* iteration order of a Python set with elements xs: some duplicate-free enumeration of xs.  `ord` is the oracle:
   elements are listed in the order they occur in ord (then the rest), so every permutation is reachable. *)
Definition set_order (ord xs : list Z) : list Z := dedupe (filter (fun h => mem h xs) ord ++ xs).

(* islice(cycle(l), k, k + len l) *)
Definition rotate {A} (k : nat) (l : list A) : list A := skipn k l ++ firstn k l.

(* l[:u] for a Python int u (negative u counts from the end) *)
Definition take_used {A} (u : Z) (l : list A) : list A :=
  let n := Z.of_nat (length l) in
  let j := if u <? 0 then u + n else u in
  firstn (Z.to_nat (Z.max 0 (Z.min n j))) l.

(* ------------------------------------------------------------------ host attributes: association lists, first hit wins *)
Definition amap := list (Z * Z).
Fixpoint aget (m : amap) (h : Z) : Z :=
  match m with [] => 0 | (k, v) :: r => if k =? h then v else aget r h end.
Definition aset (m : amap) (h v : Z) : amap := (h, v) :: m.

Inductive dist := LOCAL | REMOTE | IGNORED.
Definition dist_code (d : dist) : Z := match d with LOCAL => 0 | REMOTE => 1 | IGNORED => -1 end.
Definition dist_eqb (a b : dist) : bool := dist_code a =? dist_code b.

Inductive event :=
| Populate (hs : list Z) (ord : list Z) (r : Z)   (* hosts; set-order oracle; the value randint returns *)
| Up (h : Z) | Down (h : Z) | Add (h : Z) | Remove (h : Z)
| SetLocation (h dc rack : Z)
| MakePlan.

Definition is_populate (e : event) : bool := match e with Populate _ _ _ => true | _ => false end.

(* abstract membership (DESIGN 4.0): populated / added / up minus down / removed *)
Definition mstep (L : Z -> bool) (e : event) : Z -> bool :=
  match e with
  | Populate hs _ _ => fun h => mem h hs
  | Up x | Add x | SetLocation x _ _ => fun h => (h =? x) || L h
  | Down x | Remove x => fun h => negb (h =? x) && L h
  | MakePlan => L
  end.
Definition members (evs : list event) : Z -> bool := fold_left mstep evs (fun _ => false).

(* host locations after a history (only SetLocation changes them) *)
Record env := { e_dc : amap; e_rack : amap }.
Definition estep (e : env) (ev : event) : env :=
  match ev with
  | SetLocation h d r => {| e_dc := aset (e_dc e) h d; e_rack := aset (e_rack e) h r |}
  | _ => e
  end.

(* ------------------------------------------------------------------ RoundRobinPolicy / WhiteListRoundRobinPolicy *)
(* wl = None: RoundRobinPolicy; wl = Some allowed: WhiteListRoundRobinPolicy, allowed h = "host.address in
   self._allowed_hosts_resolved" (see BWL below: names as the user wrote them, their getaddrinfo resolution, host addresses) *)
Record rr_state := { rr_live : list Z; rr_pos : Z }.
Definition rr_init : rr_state := {| rr_live := []; rr_pos := 0 |}.
Definition allowedb (wl : option (Z -> bool)) (h : Z) : bool :=
  match wl with None => true | Some a => a h end.

Definition rr_on_up (wl : option (Z -> bool)) (s : rr_state) (h : Z) : rr_state :=
  if allowedb wl h then {| rr_live := add_host h (rr_live s); rr_pos := rr_pos s |} else s.
Definition rr_on_down (s : rr_state) (h : Z) : rr_state :=
  {| rr_live := remove_host h (rr_live s); rr_pos := rr_pos s |}.

Definition rr_step (wl : option (Z -> bool)) (s : rr_state) (e : event) : rr_state :=
  match e with
  | Populate hs _ r =>
      {| rr_live := dedupe (filter (allowedb wl) hs);
         rr_pos := match wl with
                   | None => if 1 <? Z.of_nat (length hs) then r else rr_pos s
                   | Some _ => if Z.of_nat (length hs) <=? 1 then 0 else r
                   end |}
  | Up h | Add h => rr_on_up wl s h
  | Down h | Remove h => rr_on_down s h
  | SetLocation h _ _ => rr_on_up wl (rr_on_down s h) h
  | MakePlan => {| rr_live := rr_live s; rr_pos := rr_pos s + 1 |}
  end.

(* make_query_plan; ord = iteration order of the frozenset *)
Definition rr_plan (s : rr_state) (ord : list Z) : list Z :=
  let hosts := set_order ord (rr_live s) in
  let n := Z.of_nat (length hosts) in
  if n =? 0 then [] else rotate (Z.to_nat (rr_pos s mod n)) hosts.

Definition rr_distance (wl : option (Z -> bool)) (h : Z) : dist := if allowedb wl h then LOCAL else IGNORED.

(* ------------------------------------------------------------------ DCAwareRoundRobinPolicy *)
(* _dc_live_hosts: a dict in insertion order *)
Definition buckets := list (Z * list Z).
Fixpoint bget (b : buckets) (d : Z) : list Z :=
  match b with [] => [] | (k, l) :: r => if k =? d then l else bget r d end.
Fixpoint bhas (b : buckets) (d : Z) : bool :=
  match b with [] => false | (k, _) :: r => (k =? d) || bhas r d end.
Fixpoint breplace (b : buckets) (d : Z) (l : list Z) : buckets :=
  match b with [] => [] | (k, l0) :: r => if k =? d then (k, l) :: r else (k, l0) :: breplace r d l end.
Definition bset (b : buckets) (d : Z) (l : list Z) : buckets :=
  if bhas b d then breplace b d l else b ++ [(d, l)].
Definition bdel (b : buckets) (d : Z) : buckets := filter (fun kl => negb (fst kl =? d)) b.

Record dca_state := {
  d_local : Z;            (* local_dc; 0 = not given / not yet inferred *)
  d_used : Z;             (* used_hosts_per_remote_dc *)
  d_live : buckets;       (* _dc_live_hosts *)
  d_pos : Z;              (* _position *)
  d_endpoints : list Z;   (* _endpoints: contact points remembered while local_dc is unset *)
  d_contact : list Z;     (* cluster.endpoints_resolved *)
  d_env : env }.

Definition dca_init (local used : Z) (contact : list Z) (e : env) : dca_state :=
  {| d_local := local; d_used := used; d_live := []; d_pos := 0; d_endpoints := []; d_contact := contact; d_env := e |}.

Definition host_dc (s : dca_state) (h : Z) : Z := aget (e_dc (d_env s)) h.
(* _dc(host) = host.datacenter or self.local_dc *)
Definition key_of (local : Z) (dc : Z) : Z := if dc =? 0 then local else dc.
Definition dca_dc (s : dca_state) (h : Z) : Z := key_of (d_local s) (host_dc s h).

Definition with_live (s : dca_state) (b : buckets) : dca_state :=
  {| d_local := d_local s; d_used := d_used s; d_live := b; d_pos := d_pos s; d_endpoints := d_endpoints s;
     d_contact := d_contact s; d_env := d_env s |}.

(* on_up, first part: late inference of local_dc from a contact point (repaired code: the hosts filed under the
   unset key move to the inferred DC) *)
Definition dca_infer (s : dca_state) (h : Z) : dca_state :=
  let dc := host_dc s h in
  if (d_local s =? 0) && negb (dc =? 0) && mem h (d_endpoints s) then
    let unknown := bget (d_live s) (d_local s) in
    let b1 := bdel (d_live s) (d_local s) in
    let b2 := match unknown with [] => b1 | _ => bset b1 dc (bget b1 dc ++ unknown) end in
    {| d_local := dc; d_used := d_used s; d_live := b2; d_pos := d_pos s; d_endpoints := [];
       d_contact := d_contact s; d_env := d_env s |}
  else s.

Definition dca_on_up (s : dca_state) (h : Z) : dca_state :=
  let s1 := dca_infer s h in
  let dc := dca_dc s1 h in
  let cur := bget (d_live s1) dc in
  if mem h cur then s1 else with_live s1 (bset (d_live s1) dc (cur ++ [h])).

Definition dca_on_down (s : dca_state) (h : Z) : dca_state :=
  let dc := dca_dc s h in
  let cur := bget (d_live s) dc in
  if mem h cur then
    match remove_host h cur with
    | [] => with_live s (bdel (d_live s) dc)
    | hosts => with_live s (bset (d_live s) dc hosts)
    end
  else s.

(* itertools.groupby: runs of consecutive hosts with equal key *)
Fixpoint groupby (key : Z -> Z) (l : list Z) : list (Z * list Z) :=
  match l with
  | [] => []
  | x :: r => match groupby key r with
              | (k, g) :: gs => if key x =? k then (k, x :: g) :: gs else (key x, [x]) :: (k, g) :: gs
              | [] => [(key x, [x])]
              end
  end.

(* populate (repaired code): every group is merged into the DC's entry; tuple(set(..)) order = oracle *)
Definition dca_merge (ord : list Z) (b : buckets) (kg : Z * list Z) : buckets :=
  bset b (fst kg) (set_order ord (bget b (fst kg) ++ snd kg)).

Definition dca_set_loc (s : dca_state) (h d r : Z) : dca_state :=
  {| d_local := d_local s; d_used := d_used s; d_live := d_live s; d_pos := d_pos s; d_endpoints := d_endpoints s;
     d_contact := d_contact s; d_env := estep (d_env s) (SetLocation h d r) |}.

Definition dca_step (s : dca_state) (e : event) : dca_state :=
  match e with
  | Populate hs ord r =>
      {| d_local := d_local s; d_used := d_used s;
         d_live := fold_left (dca_merge ord) (groupby (dca_dc s) hs) (d_live s);
         d_pos := match hs with [] => 0 | _ => r end;
         d_endpoints := if d_local s =? 0 then d_contact s else d_endpoints s;
         d_contact := d_contact s; d_env := d_env s |}
  | Up h | Add h => dca_on_up s h
  | Down h | Remove h => dca_on_down s h
  | SetLocation h d r => dca_on_up (dca_set_loc (dca_on_down s h) h d r) h
  | MakePlan =>
      {| d_local := d_local s; d_used := d_used s; d_live := d_live s; d_pos := d_pos s + 1; d_endpoints := d_endpoints s;
         d_contact := d_contact s; d_env := d_env s |}
  end.

Definition dca_local_part (s : dca_state) : list Z :=
  let local_live := bget (d_live s) (d_local s) in
  match local_live with
  | [] => []
  | _ => rotate (Z.to_nat (d_pos s mod Z.of_nat (length local_live))) local_live
  end.

Definition dca_remote_part (s : dca_state) : list Z :=
  flat_map (fun kl => if fst kl =? d_local s then [] else take_used (d_used s) (snd kl)) (d_live s).

Definition dca_plan (s : dca_state) : list Z := dca_local_part s ++ dca_remote_part s.

Definition dca_distance (s : dca_state) (h : Z) : dist :=
  let dc := dca_dc s h in
  if dc =? d_local s then LOCAL
  else if d_used s =? 0 then IGNORED
  else match bget (d_live s) dc with
       | [] => IGNORED
       | dc_hosts => if mem h (take_used (d_used s) dc_hosts) then REMOTE else IGNORED
       end.

(* make_query_plan is a generator: membership events of other threads may run while it is being drained.  Its atomic pieces:
   (1) the local bucket is read when the first host is asked for (state s0); (2) the remote DC names are taken from a COPY of
   the dict -- dict.copy() is one atomic step -- after the local hosts were consumed (state s1); (3) the remote buckets are
   read when their turn comes (modelled: all in one later state s2). *)
Definition dca_plan3 (s0 s1 s2 : dca_state) : list Z :=
  dca_local_part s0 ++
  flat_map (fun dc => if dc =? d_local s1 then [] else take_used (d_used s2) (bget (d_live s2) dc)) (map fst (d_live s1)).

(* without the copy the comprehension walks the live dict from state s1 to state s1': Python raises RuntimeError
   ("dictionary changed size during iteration") when a whole DC entry was added or deleted meanwhile: None *)
Definition dca_plan3_nocopy (s0 s1 s1' s2 : dca_state) : option (list Z) :=
  if (length (d_live s1) =? length (d_live s1'))%nat then Some (dca_plan3 s0 s1 s2) else None.

(* ------------------------------------------------------------------ the three base policies behind one interface *)
Inductive base :=
| BRR
| BWL (names : list Z) (resolve : Z -> list Z) (addr : Z -> Z)
    (* the white list as written, socket.getaddrinfo on one entry (any number of addresses), host.address: several hosts may
       share an address (same IP / different ports, SNI proxy endpoints) *)
| BDCA (local used : Z) (contact : list Z).

Inductive bstate := SRR (s : rr_state) | SDCA (s : dca_state).

Definition wl_resolved (names : list Z) (resolve : Z -> list Z) : list Z := flat_map resolve names.
Definition b_wl (b : base) : option (Z -> bool) :=
  match b with BWL names resolve addr => Some (fun h => mem (addr h) (wl_resolved names resolve)) | _ => None end.

Definition b_init (b : base) (e : env) : bstate :=
  match b with
  | BRR | BWL _ _ _ => SRR rr_init
  | BDCA local used contact => SDCA (dca_init local used contact e)
  end.

Definition b_step (b : base) (s : bstate) (ev : event) : bstate :=
  match s with
  | SRR r => SRR (rr_step (b_wl b) r ev)
  | SDCA d => SDCA (dca_step d ev)
  end.

Definition b_run (b : base) (e : env) (evs : list event) : bstate := fold_left (b_step b) evs (b_init b e).

(* ord: iteration order of the frozenset (ignored by the DC-aware policy, whose tuples and dict are ordered) *)
Definition b_plan (s : bstate) (ord : list Z) : list Z :=
  match s with SRR r => rr_plan r ord | SDCA d => dca_plan d end.

Definition b_distance (b : base) (s : bstate) (h : Z) : dist :=
  match s with SRR _ => rr_distance (b_wl b) h | SDCA d => dca_distance d h end.

(* ------------------------------------------------------------------ wrappers: pure functions of the child's plan / distance *)
(* HostFilterPolicy: the predicate sees the host (its id, datacenter, rack at the time of the call) *)
Definition hf_plan (pred : Z -> bool) (child_plan : list Z) : list Z := filter pred child_plan.
Definition hf_distance (pred : Z -> bool) (child_distance : Z -> dist) (h : Z) : dist :=
  if pred h then child_distance h else IGNORED.

(* DefaultLoadBalancingPolicy: target = Some t when the query names a host that metadata knows and that is_up *)
Definition df_plan (target : option Z) (child_plan : list Z) : list Z :=
  match target with
  | Some t => t :: remove_host t child_plan
  | None => child_plan
  end.

(* TokenAwarePolicy.make_query_plan (repaired code), see Model/TokenAware.v for the inputs.  First loop: replicas that
   are up and LOCAL for the child, in iteration order (remembered in `yielded`); second loop: the child's plan minus them. *)
Definition ta_prefix (up : Z -> bool) (cd : Z -> dist) (order : list Z) : list Z :=
  filter (fun r => up r && dist_eqb (cd r) LOCAL) order.
Definition ta_rest (yielded child : list Z) : list Z := filter (fun h => negb (mem h yielded)) child.
Definition ta_plan (routed : bool) (up : Z -> bool) (cd : Z -> dist) (order child : list Z) : list Z :=
  if routed then ta_prefix up cd order ++ ta_rest (ta_prefix up cd order) child else child.

(* ------------------------------------------------------------------ without _hosts_lock: on_up split in two steps *)
(* what on_up would be if the bucket were read before the lock is taken (the atomicity audit of checks/C21.py excludes it):
   step 1 reads the bucket, any other event may run, step 2 writes the stale tuple + the host back *)
Definition dca_up_read (s : dca_state) (h : Z) : list Z := bget (d_live s) (dca_dc s h).
Definition dca_up_write (s : dca_state) (h : Z) (cur : list Z) : dca_state :=
  if mem h cur then s else with_live s (bset (d_live s) (dca_dc s h) (cur ++ [h])).

(* ------------------------------------------------------------------ traces for the correspondence check *)
(* a history is delivered event by event; queries are steps too (MakePlan).  An observation per step. *)
Inductive wrap := WBase | WFilter (pred : env -> Z -> bool) | WDefault (target : option Z)
                | WToken (routed : bool) (up : Z -> bool) (order : list Z).
Inductive item :=
| Ev (e : event)
| Q (w : wrap) (ord : list Z).      (* ask for a plan through wrapper w, then MakePlan *)

Definition cur_env (e0 : env) (s : bstate) : env := match s with SDCA d => d_env d | SRR _ => e0 end.

Definition obs_state (s : bstate) : list (Z * list Z) * Z * Z :=
  match s with
  | SRR r => ([(0, rr_live r)], 0, rr_pos r)
  | SDCA d => (d_live d, d_local d, d_pos d)
  end.

Fixpoint trace (b : base) (e : env) (s : bstate) (its : list item) : list (list Z) :=
  match its with
  | [] => []
  | Ev ev :: r => trace b (estep e ev) (b_step b s ev) r
  | Q w ord :: r =>
      let p := b_plan s ord in
      let out := match w with
                 | WBase => p
                 | WFilter pred => hf_plan (pred e) p
                 | WDefault t => df_plan t p
                 | WToken routed up order => ta_plan routed up (b_distance b s) order p
                 end in
      out :: trace b e (b_step b s MakePlan) r
  end.

Fixpoint states (b : base) (s : bstate) (its : list item) : list (list (Z * list Z) * Z * Z) :=
  match its with
  | [] => []
  | Ev ev :: r => let s' := b_step b s ev in obs_state s' :: states b s' r
  | Q _ _ :: r => states b (b_step b s MakePlan) r
  end.

Fixpoint dists (b : base) (s : bstate) (hosts : list Z) (its : list item) : list (list Z) :=
  match its with
  | [] => []
  | Ev ev :: r => let s' := b_step b s ev in map (fun h => dist_code (b_distance b s' h)) hosts :: dists b s' hosts r
  | Q _ _ :: r => dists b (b_step b s MakePlan) hosts r
  end.

Fixpoint list_eqb (a b : list Z) : bool :=
  match a, b with
  | [], [] => true
  | x :: a', y :: b' => (x =? y) && list_eqb a' b'
  | _, _ => false
  end.
Fixpoint lists_eqb (a b : list (list Z)) : bool :=
  match a, b with
  | [], [] => true
  | x :: a', y :: b' => list_eqb x y && lists_eqb a' b'
  | _, _ => false
  end.
Fixpoint buckets_eqb (a b : list (Z * list Z)) : bool :=
  match a, b with
  | [], [] => true
  | (k, x) :: a', (k', y) :: b' => (k =? k') && list_eqb x y && buckets_eqb a' b'
  | _, _ => false
  end.
(* RoundRobin's frozenset is compared as a set: sorted ids on the Python side, membership both ways here *)
Definition set_eqb (a b : list Z) : bool := forallb (fun x => mem x b) a && forallb (fun x => mem x a) b.
Definition obs_eqb (rr : bool) (a b : list (Z * list Z) * Z * Z) : bool :=
  let '(la, ca, pa) := a in let '(lb, cb, pb) := b in
  (ca =? cb) && (pa =? pb) &&
  (if rr then match la, lb with [(_, x)], [(_, y)] => set_eqb x y && (length x =? length y)%nat | _, _ => false end
   else buckets_eqb la lb).
Fixpoint obss_eqb (rr : bool) (a b : list (list (Z * list Z) * Z * Z)) : bool :=
  match a, b with
  | [], [] => true
  | x :: a', y :: b' => obs_eqb rr x y && obss_eqb rr a' b'
  | _, _ => false
  end.

(* a plan drained while event `ev` is delivered right after the DC names were copied *)
Definition check_plan3 (b : base) (e : env) (evs : list event) (ev : event) (plan : list Z) : bool :=
  match b_run b e evs with
  | SDCA s1 => list_eqb (dca_plan3 s1 s1 (dca_step s1 ev)) plan
  | SRR _ => false
  end.

Definition is_rr (b : base) : bool := match b with BDCA _ _ _ => false | _ => true end.

(* the whole comparison for one history *)
Definition check_history (b : base) (e : env) (hosts : list Z) (its : list item)
           (plans : list (list Z)) (sts : list (list (Z * list Z) * Z * Z)) (ds : list (list Z)) : bool :=
  let s0 := b_init b e in
  lists_eqb (trace b e s0 its) plans && obss_eqb (is_rr b) (states b s0 its) sts && lists_eqb (dists b s0 hosts its) ds.
