(* Hand-written reference: what Cassandra's coordinator means by consistency levels.
   blockFor as in org.apache.cassandra.db.ConsistencyLevel.blockFor (transcribed; trusted oracle). *)
From Coq Require Import ZArith List Bool.
From Verif Require Import RetryConsts.
Local Open Scope Z_scope.

(* rf = replication factor of the keyspace (of the local DC for LOCAL_x levels), dcs = number of DCs for EACH_QUORUM *)
Definition block_for (cl rf dcs : Z) : Z :=
  if cl =? CL_ANY then 1
  else if cl =? CL_ONE then 1
  else if cl =? CL_LOCAL_ONE then 1
  else if cl =? CL_TWO then 2
  else if cl =? CL_THREE then 3
  else if cl =? CL_QUORUM then rf / 2 + 1
  else if cl =? CL_LOCAL_QUORUM then rf / 2 + 1
  else if cl =? CL_EACH_QUORUM then dcs * (rf / 2 + 1)
  else if cl =? CL_ALL then rf
  else if cl =? CL_SERIAL then rf / 2 + 1
  else if cl =? CL_LOCAL_SERIAL then rf / 2 + 1
  else 0.

Definition is_serial (cl : Z) : bool := (cl =? CL_SERIAL) || (cl =? CL_LOCAL_SERIAL).

(* absolute replica count a fixed-count level needs (the only levels the downgrading policy picks) *)
Definition needs (cl : Z) : option Z :=
  if cl =? CL_ONE then Some 1 else if cl =? CL_TWO then Some 2 else if cl =? CL_THREE then Some 3 else None.

Definition valid_cl (cl : Z) : bool := (0 <=? cl) && (cl <=? 10).
Definition valid_decision (d : Z) : bool := (d =? RETRY) || (d =? RETHROW) || (d =? IGNORE) || (d =? RETRY_NEXT_HOST).
