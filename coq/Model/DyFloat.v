(* Binary floating point, bit-exact, in plain Z arithmetic: a finite float is the dyadic m * 2^e (pair (m, e));
   every operation is the exact rational result followed by ONE explicit rounding step (round-half-even to
   `prec` significant bits, quantum exponent never below `emin`: gradual underflow).  No PrimFloat axioms.
   Used for Python's float expressions in cqlengine (C36); tied to the real arithmetic by correspondence. *)
From Coq Require Import ZArith List Bool.
Import ListNotations.
Local Open Scope Z_scope.

Definition dy : Type := (Z * Z)%type.

(* exact fraction n/d (d > 0) of a dyadic *)
Definition dy_frac (x : dy) : Z * Z :=
  let '(m, e) := x in if 0 <=? e then (m * 2 ^ e, 1) else (m, 2 ^ (- e)).

(* a / (d * 2^e) as a fraction with positive denominator *)
Definition scale_frac (a d e : Z) : Z * Z :=
  if 0 <=? e then (a, d * 2 ^ e) else (a * 2 ^ (- e), d).

(* nearest (ties to even) dyadic with `prec` significant bits and exponent >= emin to the rational n/d, d > 0 *)
Definition rnd (prec emin : Z) (n d : Z) : dy :=
  if n =? 0 then (0, 0) else
  let a := Z.abs n in
  let e1 := Z.log2 a - Z.log2 d - prec + 1 in
  let '(n1, d1) := scale_frac a d e1 in
  let e2 := if n1 / d1 <? 2 ^ (prec - 1) then e1 - 1 else e1 in
  let e := Z.max e2 emin in
  let '(nn, dd) := scale_frac a d e in
  let q := nn / dd in
  let r := nn mod dd in
  let q' := if 2 * r <? dd then q
            else if dd <? 2 * r then q + 1
            else if Z.even q then q else q + 1 in
  (Z.sgn n * q', e).

Definition rnd53 := rnd 53 (-1074).   (* binary64 *)
Definition rnd24 := rnd 24 (-149).    (* binary32 *)

Definition dy_round53 (x : dy) : dy := let '(n, d) := dy_frac x in rnd53 n d.

Definition fmul (x y : dy) : dy := dy_round53 (fst x * fst y, snd x + snd y).

Definition dy_align (x y : dy) : Z * Z * Z :=
  let e := Z.min (snd x) (snd y) in (fst x * 2 ^ (snd x - e), fst y * 2 ^ (snd y - e), e).

Definition fadd (x y : dy) : dy := let '(a, b, e) := dy_align x y in dy_round53 (a + b, e).
Definition fsub (x y : dy) : dy := let '(a, b, e) := dy_align x y in dy_round53 (a - b, e).

(* float / float *)
Definition fdiv (x y : dy) : dy :=
  let '(n1, d1) := dy_frac x in let '(n2, d2) := dy_frac y in
  rnd53 (n1 * d2 * Z.sgn n2) (d1 * Z.abs n2).

(* int(x): truncation toward zero *)
Definition ftrunc (x : dy) : Z := let '(n, d) := dy_frac x in Z.quot n d.

(* float(int) and int / int (Python's true division of ints is correctly rounded) *)
Definition f_of_int (z : Z) : dy := rnd53 z 1.
Definition int_truediv (n d : Z) : dy := rnd53 n d.

Definition dy_eqb (x y : dy) : bool := let '(a, b, _) := dy_align x y in a =? b.

(* struct.pack('>f', x): binary64 -> binary32, OverflowError when the rounded magnitude reaches 2^128 *)
Definition round32 (x : dy) : option dy :=
  let '(n, d) := dy_frac x in
  let r := rnd24 n d in
  let '(n', d') := dy_frac r in
  if 2 ^ 128 * d' <=? Z.abs n' then None else Some r.
