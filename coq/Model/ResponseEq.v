(* C04 harness support: boolean equality on decoded messages / exceptions and the per-case check evaluated by
   checks/C04.py (vm_compute).  No proofs here; these comparisons are part of the trusted harness. *)
From Coq Require Import ZArith List Bool String Ascii.
From Verif Require Import Response ResponseSpec.
Import ListNotations.
Local Open Scope Z_scope.

Definition pair_eqb {A B} (ea : A -> A -> bool) (eb : B -> B -> bool) (p q : A * B) : bool :=
  ea (fst p) (fst q) && eb (snd p) (snd q).

Definition colspec_eqb (a b : colspec) : bool :=
  list_eqb (c_ks a) (c_ks b) && list_eqb (c_tbl a) (c_tbl b) && list_eqb (c_name a) (c_name b) && cqlt_eqb (c_type a) (c_type b).

Definition sch_extra_eqb (a b : sch_extra) : bool :=
  match a, b with
  | SxNone, SxNone => true
  | SxName k n, SxName k' n' => list_eqb k k' && list_eqb n n'
  | SxFunction n a, SxFunction n' a' => list_eqb n n' && lst_eqb list_eqb a a'
  | SxAggregate n a, SxAggregate n' a' => list_eqb n n' && lst_eqb list_eqb a a'
  | _, _ => false
  end.
Definition schema_ev_eqb (a b : schema_ev) : bool :=
  list_eqb (se_target a) (se_target b) && list_eqb (se_change a) (se_change b)
  && list_eqb (se_keyspace a) (se_keyspace b) && sch_extra_eqb (se_extra a) (se_extra b).

Definition rmsg_eqb (a b : rmsg) : bool :=
  (r_kind a =? r_kind b) && opt_eqb list_eqb (r_paging a) (r_paging b) && opt_eqb Z.eqb (r_cp_seq a) (r_cp_seq b)
  && opt_eqb Z.eqb (r_cp_last a) (r_cp_last b) && opt_eqb list_eqb (r_meta_id a) (r_meta_id b)
  && opt_eqb (lst_eqb colspec_eqb) (r_colmeta a) (r_colmeta b)
  && opt_eqb (lst_eqb list_eqb) (r_colnames a) (r_colnames b) && opt_eqb (lst_eqb cqlt_eqb) (r_coltypes a) (r_coltypes b)
  && opt_eqb (lst_eqb (lst_eqb (opt_eqb list_eqb))) (r_rows a) (r_rows b)
  && opt_eqb list_eqb (r_keyspace a) (r_keyspace b) && opt_eqb list_eqb (r_query_id a) (r_query_id b)
  && opt_eqb (lst_eqb colspec_eqb) (r_bind a) (r_bind b) && opt_eqb (lst_eqb Z.eqb) (r_pk a) (r_pk b)
  && opt_eqb schema_ev_eqb (r_schema a) (r_schema b).

Definition errclass_idx (c : errclass) : Z :=
  match c with
  | CErrorMessage => 0 | CServerError => 1 | CProtocolException => 2 | CBadCredentials => 3 | CUnavailable => 4
  | COverloaded => 5 | CIsBootstrapping => 6 | CTruncateError => 7 | CWriteTimeout => 8 | CReadTimeout => 9
  | CReadFailure => 10 | CFunctionFailure => 11 | CWriteFailure => 12 | CCDCWrite => 13 | CSyntax => 14
  | CUnauthorized => 15 | CInvalidRequest => 16 | CConfiguration => 17 | CAlreadyExists => 18
  | CPreparedQueryNotFound => 19 | CClientWriteError => 20
  end.
Definition errclass_eqb (a b : errclass) : bool := errclass_idx a =? errclass_idx b.

Definition reasons_eqb := opt_eqb (lst_eqb (pair_eqb list_eqb Z.eqb)).

Definition einfo_eqb (a b : einfo) : bool :=
  match a, b with
  | EiNone, EiNone => true
  | EiUnavailable c r l, EiUnavailable c' r' l' => (c =? c') && (r =? r') && (l =? l')
  | EiWriteTimeout c r q w ct, EiWriteTimeout c' r' q' w' ct' => (c =? c') && (r =? r') && (q =? q') && (w =? w') && opt_eqb Z.eqb ct ct'
  | EiReadTimeout c r q d, EiReadTimeout c' r' q' d' => (c =? c') && (r =? r') && (q =? q') && Bool.eqb d d'
  | EiReadFailure c r q f m d, EiReadFailure c' r' q' f' m' d' =>
    (c =? c') && (r =? r') && (q =? q') && (f =? f') && reasons_eqb m m' && Bool.eqb d d'
  | EiFunctionFailure k f a, EiFunctionFailure k' f' a' => list_eqb k k' && list_eqb f f' && lst_eqb list_eqb a a'
  | EiWriteFailure c r q f m w, EiWriteFailure c' r' q' f' m' w' =>
    (c =? c') && (r =? r') && (q =? q') && (f =? f') && reasons_eqb m m' && (w =? w')
  | EiCasWriteUnknown c r q, EiCasWriteUnknown c' r' q' => (c =? c') && (r =? r') && (q =? q')
  | EiUnprepared i, EiUnprepared i' => list_eqb i i'
  | EiAlreadyExists k t, EiAlreadyExists k' t' => list_eqb k k' && list_eqb t t'
  | _, _ => false
  end.

Definition evargs_eqb (a b : evargs) : bool :=
  match a, b with
  | EaNode c ad p, EaNode c' ad' p' => list_eqb c c' && list_eqb ad ad' && (p =? p')
  | EaSchema e, EaSchema e' => schema_ev_eqb e e'
  | _, _ => false
  end.

Definition mbody_eqb (a b : mbody) : bool :=
  match a, b with
  | BError c k m i, BError c' k' m' i' => errclass_eqb c c' && (k =? k') && list_eqb m m' && einfo_eqb i i'
  | BReady, BReady => true
  | BAuthenticate x, BAuthenticate y => list_eqb x y
  | BSupported v o, BSupported v' o' => lst_eqb list_eqb v v' && lst_eqb (pair_eqb list_eqb (lst_eqb list_eqb)) o o'
  | BResult r, BResult r' => rmsg_eqb r r'
  | BEvent t g, BEvent t' g' => list_eqb t t' && evargs_eqb g g'
  | BAuthChallenge x, BAuthChallenge y => list_eqb x y
  | BAuthSuccess x, BAuthSuccess y => list_eqb x y
  | _, _ => false
  end.

Definition msg_eqb (a b : msg) : bool :=
  (m_stream a =? m_stream b) && opt_eqb list_eqb (m_trace a) (m_trace b)
  && opt_eqb (lst_eqb list_eqb) (m_warnings a) (m_warnings b)
  && opt_eqb (lst_eqb (pair_eqb list_eqb (opt_eqb list_eqb))) (m_payload a) (m_payload b)
  && mbody_eqb (m_body a) (m_body b).

Definition exn_eqb (a b : exn) : bool :=
  match a, b with
  | XUnavailable c r l, XUnavailable c' r' l' => (c =? c') && (r =? r') && (l =? l')
  | XWriteTimeout c r q w, XWriteTimeout c' r' q' w' => (c =? c') && (r =? r') && (q =? q') && (w =? w')
  | XReadTimeout c r q d, XReadTimeout c' r' q' d' => (c =? c') && (r =? r') && (q =? q') && Bool.eqb d d'
  | XReadFailure c r q f m d, XReadFailure c' r' q' f' m' d' =>
    (c =? c') && (r =? r') && (q =? q') && (f =? f') && reasons_eqb m m' && Bool.eqb d d'
  | XFunctionFailure k f a, XFunctionFailure k' f' a' => list_eqb k k' && list_eqb f f' && lst_eqb list_eqb a a'
  | XWriteFailure c r q f m w, XWriteFailure c' r' q' f' m' w' =>
    (c =? c') && (r =? r') && (q =? q') && (f =? f') && reasons_eqb m m' && (w =? w')
  | XAlreadyExists k t, XAlreadyExists k' t' => list_eqb k k' && list_eqb t t'
  | XInvalidRequest m, XInvalidRequest m' => list_eqb m m'
  | XUnauthorized m, XUnauthorized m' => list_eqb m m'
  | XMessage c k m i, XMessage c' k' m' i' => errclass_eqb c c' && (k =? k') && list_eqb m m' && einfo_eqb i i'
  | _, _ => false
  end.

(* One well-formed case.  0 = everything agrees; 1 = generated response is not wf_spec (generator bug);
   2 = Python twin of the spec encoder differs from spec_flags/spec_opcode/spec_body; 3 = Python twin of `exact` /
   `driver_gap` / `documented_exception` differs; 4 = MODEL decode_message differs from the IMPLEMENTATION's result;
   5 = MODEL to_exception differs from the IMPLEMENTATION's. *)
Definition chk (pv : Z) (rm : option (list colspec)) (stream : Z) (r : response) (gap : bool)
           (flags opcode : Z) (body : list Z) (expected : msg) (docx : option exn)
           (impl : option msg) (implx : option exn) : Z :=
  if negb (wf_spec pv rm r) then 1
  else if negb ((spec_flags r =? flags) && (spec_opcode r =? opcode) && list_eqb (spec_body pv r) body) then 2
  else if negb (msg_eqb (exact pv rm stream r) expected && Bool.eqb (driver_gap r) gap
                && opt_eqb exn_eqb (match rs_body r with RError e m => Some (documented_exception e m) | _ => None end) docx) then 3
  else if negb (opt_eqb msg_eqb (decode_message pv rm stream flags opcode body) impl) then 4
  else if negb (opt_eqb exn_eqb (match impl with Some m => to_exception (m_body m) | None => None end) implx) then 5
  else 0.

(* One arbitrary (malformed) body: the model must accept/reject and decode exactly like the implementation. *)
Definition chk_raw (pv : Z) (rm : option (list colspec)) (stream flags opcode : Z) (body : list Z) (impl : option msg) : Z :=
  if opt_eqb msg_eqb (decode_message pv rm stream flags opcode body) impl then 0 else 4.

(* A history of frames decoded by one process, starting with no class cached for the UDT names it mentions: the
   stateful model (UDT class cache threaded through) must give the implementation's result for every frame. *)
Definition chk_hist (fs : list frame) (impl : list (option msg)) : Z :=
  if lst_eqb (opt_eqb msg_eqb) (decode_history true [] fs) impl then 0 else 6.
