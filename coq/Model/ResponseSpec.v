(* C04 specification side: what a server may send (native protocol v1..v5 response bodies, transcribed from the
   protocol specification, NOT from the driver), how it is laid out in bytes (spec_body), which responses are
   well-formed (wf_spec, executable), and which message contents the client must end up with (exact).
   DSE versions (65, 66) reuse the v4/v5 layouts; which of the v5 additions they have is taken from the driver's
   ProtocolVersion table (not independently verifiable offline).  No proofs here. *)
From Coq Require Import ZArith List Bool String Ascii.
From Verif Require Import Response.
Import ListNotations.
Local Open Scope Z_scope.

(* ---------------------------------------------------------------- notation of section 3 of the spec *)
Definition enc_short (n : Z) : list Z := [(n / 256) mod 256; n mod 256].
Definition enc_int (n : Z) : list Z :=
  let u := n mod 4294967296 in [u / 16777216; (u / 65536) mod 256; (u / 256) mod 256; u mod 256].
Definition enc_string (s : str) : list Z := enc_short (len s) ++ s.                (* [string] *)
Definition enc_short_bytes (b : bytes) : list Z := enc_short (len b) ++ b.        (* [short bytes] *)
Definition enc_bytes (o : option bytes) : list Z :=                               (* [bytes], null = -1 *)
  match o with None => enc_int (-1) | Some b => enc_int (len b) ++ b end.
Definition enc_list {A} (e : A -> list Z) (l : list A) : list Z := List.concat (map e l).
Definition enc_string_list (l : list str) : list Z := enc_short (len l) ++ enc_list enc_string l.
Definition enc_inetaddr (a : bytes) : list Z := len a :: a.                       (* [inetaddr] *)
Definition enc_inet (a : bytes) (port : Z) : list Z := enc_inetaddr a ++ enc_int port.   (* [inet] *)
Definition enc_string_multimap (m : list (str * list str)) : list Z :=
  enc_short (len m) ++ enc_list (fun kv => enc_string (fst kv) ++ enc_string_list (snd kv)) m.
Definition enc_bytes_map (m : list (str * option bytes)) : list Z :=
  enc_short (len m) ++ enc_list (fun kv => enc_string (fst kv) ++ enc_bytes (snd kv)) m.

Definition is_some {A} (o : option A) : bool := match o with Some _ => true | None => false end.
Definition b2z (b : bool) (v : Z) : Z := if b then v else 0.

Definition wf_string (s : str) : bool := (len s <? 65536) && utf8_valid s.
Definition wf_short (n : Z) : bool := (0 <=? n) && (n <? 65536).
Definition wf_int (n : Z) : bool := (-2147483648 <=? n) && (n <? 2147483648).
Definition wf_sbytes (b : bytes) : bool := len b <? 65536.
Definition wf_lbytes (b : bytes) : bool := len b <? 2147483648.
Definition wf_obytes (o : option bytes) : bool := match o with Some b => wf_lbytes b | None => true end.
Definition wf_string_list (l : list str) : bool := (len l <? 65536) && forallb wf_string l.
Definition wf_addr (a : bytes) : bool := (len a =? 4) || (len a =? 16).

Fixpoint mem (k : list Z) (l : list (list Z)) : bool :=
  match l with [] => false | x :: r => list_eqb k x || mem k r end.
Fixpoint nodup (l : list (list Z)) : bool :=
  match l with [] => true | x :: r => negb (mem x r) && nodup r end.

(* version-dependent layout features (v5 spec; the DSE column is the driver's ProtocolVersion table) *)
Definition spec_metadata_id (pv : Z) : bool := (5 <=? pv) && negb (pv =? 65).   (* result_metadata_id / Metadata_changed *)
Definition spec_reason_map (pv : Z) : bool := 5 <=? pv.                         (* <reasonmap> in Read/Write_failure *)

(* ---------------------------------------------------------------- [option]: column types (section 4.2.5.2) *)
(* which simple type ids exist in which version: 0x0A text only v1/v2; date,time,smallint,tinyint from v4;
   duration from v5 *)
Definition spec_prim (pv c : Z) : bool :=
  ((1 <=? c) && (c <=? 9)) || ((c =? 10) && (pv <=? 2)) || ((11 <=? c) && (c <=? 16))
  || ((17 <=? c) && (c <=? 20) && (4 <=? pv)) || ((c =? 21) && (5 <=? pv)).

Fixpoint enc_type (t : cqlt) : list Z :=
  match t with
  | TCustom s => enc_short 0 ++ enc_string s
  | TPrim c => enc_short c
  | TList e => enc_short 32 ++ enc_type e
  | TSet e => enc_short 34 ++ enc_type e
  | TMap k v => enc_short 33 ++ enc_type k ++ enc_type v
  | TUdt ks nm fs =>
    enc_short 48 ++ enc_string ks ++ enc_string nm ++ enc_short (len fs)
    ++ List.concat (map (fun p => enc_string (fst p) ++ enc_type (snd p)) fs)
  | TTuple ts => enc_short 49 ++ enc_short (len ts) ++ List.concat (map enc_type ts)
  end.

Fixpoint wf_type (pv : Z) (t : cqlt) : bool :=
  match t with
  | TCustom s => wf_string s && custom_ok s     (* a plain class name; parameterised class names are C28's *)
  | TPrim c => spec_prim pv c
  | TList e | TSet e => wf_type pv e
  | TMap k v => wf_type pv k && wf_type pv v
  | TUdt ks nm fs =>
    wf_string ks && wf_string nm && (0 <? len fs) && (len fs <? 65536)
    && forallb (fun p => wf_string (fst p) && wf_type pv (snd p)) fs
  | TTuple ts => (len ts <? 65536) && forallb (wf_type pv) ts
  end.

(* ---------------------------------------------------------------- RESULT (section 4.2.5) *)
Inductive cols_spec :=
| ColsGlobal (ks tbl : str) (cols : list (str * cqlt))      (* Global_tables_spec flag set *)
| ColsEach (cols : list colspec).

Definition enc_cols (cs : cols_spec) : list Z :=
  match cs with
  | ColsGlobal ks tb cols => enc_string ks ++ enc_string tb ++ enc_list (fun c => enc_string (fst c) ++ enc_type (snd c)) cols
  | ColsEach cols =>
    enc_list (fun c => enc_string (c_ks c) ++ enc_string (c_tbl c) ++ enc_string (c_name c) ++ enc_type (c_type c)) cols
  end.
Definition cols_count (cs : cols_spec) : Z := match cs with ColsGlobal _ _ c => len c | ColsEach c => len c end.
Definition cols_global (cs : cols_spec) : bool := match cs with ColsGlobal _ _ _ => true | ColsEach _ => false end.
Definition cols_list (cs : cols_spec) : list colspec :=
  match cs with ColsGlobal ks tb cols => map (fun c => mkcol ks tb (fst c) (snd c)) cols | ColsEach c => c end.
Definition wf_cols (pv : Z) (cs : cols_spec) : bool :=
  wf_int (cols_count cs) &&
  match cs with
  | ColsGlobal ks tb cols => wf_string ks && wf_string tb && forallb (fun c => wf_string (fst c) && wf_type pv (snd c)) cols
  | ColsEach cols => forallb (fun c => wf_string (c_ks c) && wf_string (c_tbl c) && wf_string (c_name c) && wf_type pv (c_type c)) cols
  end.

Inductive meta_cols :=
| McNone (columns_count : Z)         (* No_metadata flag: only the count is sent *)
| McSome (cs : cols_spec).

(* <metadata> of Rows and <result_metadata> of Prepared:
   <flags><columns_count>[<paging_state>][<new_metadata_id>][<global_table_spec>?<col_spec_1>...<col_spec_n>] *)
Record rmeta := mkrmeta { rm_paging : option bytes; rm_new_id : option bytes; rm_cols : meta_cols }.

Definition enc_rmeta (m : rmeta) : list Z :=
  let glob := match rm_cols m with McSome cs => cols_global cs | McNone _ => false end in
  let nometa := match rm_cols m with McNone _ => true | McSome _ => false end in
  let count := match rm_cols m with McNone n => n | McSome cs => cols_count cs end in
  enc_int (b2z glob 1 + b2z (is_some (rm_paging m)) 2 + b2z nometa 4 + b2z (is_some (rm_new_id m)) 8)
  ++ enc_int count
  ++ match rm_paging m with Some p => enc_bytes (Some p) | None => [] end
  ++ match rm_cols m with
     | McNone _ => []
     | McSome cs => match rm_new_id m with Some i => enc_short_bytes i | None => [] end ++ enc_cols cs
     end.

Definition wf_rmeta (pv : Z) (m : rmeta) : bool :=
  wf_obytes (rm_paging m)
  && match rm_new_id m with Some i => wf_sbytes i && spec_metadata_id pv | None => true end
  && match rm_cols m with
     | McNone n => wf_int n && negb (is_some (rm_new_id m))      (* Metadata_changed requires No_metadata unset *)
     | McSome cs => wf_cols pv cs
     end.

Inductive sch_target :=
| TgKeyspace
| TgTable (name : str)
| TgType (name : str)
| TgFunction (name : str) (args : list str)
| TgAggregate (name : str) (args : list str).
Record schema_change := mksc { sc_change : str; sc_keyspace : str; sc_target : sch_target }.

Definition target_name (t : sch_target) : str :=
  match t with
  | TgKeyspace => zs "KEYSPACE" | TgTable _ => zs "TABLE" | TgType _ => zs "TYPE"
  | TgFunction _ _ => zs "FUNCTION" | TgAggregate _ _ => zs "AGGREGATE"
  end.

(* v3+: <change_type><target><options>; v1/v2: <change><keyspace><table>, table empty for a keyspace change *)
Definition enc_schema_change (pv : Z) (sc : schema_change) : list Z :=
  if 3 <=? pv then
    enc_string (sc_change sc) ++ enc_string (target_name (sc_target sc)) ++ enc_string (sc_keyspace sc)
    ++ match sc_target sc with
       | TgKeyspace => []
       | TgTable n | TgType n => enc_string n
       | TgFunction n a | TgAggregate n a => enc_string n ++ enc_string_list a
       end
  else
    enc_string (sc_change sc) ++ enc_string (sc_keyspace sc)
    ++ enc_string (match sc_target sc with TgTable n => n | _ => [] end).

Definition wf_schema_change (pv : Z) (sc : schema_change) : bool :=
  wf_string (sc_change sc) && wf_string (sc_keyspace sc)
  && match sc_target sc with
     | TgKeyspace => true
     | TgTable n => wf_string n && ((3 <=? pv) || negb (list_eqb n []))
     | TgType n => wf_string n && (3 <=? pv)
     | TgFunction n a | TgAggregate n a => wf_string n && wf_string_list a && (3 <=? pv)
     end.

Inductive result :=
| ResVoid
| ResRows (m : rmeta) (rows : list (list (option bytes)))
| ResSetKeyspace (ks : str)
| ResPrepared (id : bytes) (result_metadata_id : option bytes) (pk : option (list Z)) (bind : cols_spec) (res : option rmeta)
| ResSchemaChange (sc : schema_change).

Definition enc_result (pv : Z) (r : result) : list Z :=
  match r with
  | ResVoid => enc_int 1
  | ResRows m rows => enc_int 2 ++ enc_rmeta m ++ enc_int (len rows) ++ enc_list (enc_list enc_bytes) rows
  | ResSetKeyspace ks => enc_int 3 ++ enc_string ks
  | ResPrepared id mid pk bind res =>
    (* v1: <id><metadata>; v2+: <id><metadata><result_metadata>; v4+: pk indexes in <metadata>;
       v5: <id><result_metadata_id><metadata><result_metadata> *)
    enc_int 4 ++ enc_short_bytes id
    ++ match mid with Some i => enc_short_bytes i | None => [] end
    ++ enc_int (b2z (cols_global bind) 1) ++ enc_int (cols_count bind)
    ++ match pk with Some l => enc_int (len l) ++ enc_list enc_short l | None => [] end
    ++ enc_cols bind
    ++ match res with Some m => enc_rmeta m | None => [] end
  | ResSchemaChange sc => enc_int 5 ++ enc_schema_change pv sc
  end.

Definition meta_count (m : rmeta) (result_metadata : option (list colspec)) : option Z :=
  match rm_cols m with
  | McSome cs => Some (cols_count cs)
  | McNone n => match result_metadata with Some c => if len c =? n then Some n else None | None => None end
  end.

Definition wf_result (pv : Z) (result_metadata : option (list colspec)) (r : result) : bool :=
  match r with
  | ResVoid => true
  | ResRows m rows =>
    wf_rmeta pv m && wf_int (len rows)
    (* a row set has at least one column (there is no CQL statement selecting none); with No_metadata the
       client must know the columns from the prepared statement, and the counts must agree *)
    && match meta_count m result_metadata with
       | Some n => (0 <? n) && forallb (fun row => (len row =? n) && forallb wf_obytes row) rows
       | None => false
       end
  | ResSetKeyspace ks => wf_string ks
  | ResPrepared id mid pk bind res =>
    wf_sbytes id
    && Bool.eqb (is_some mid) (spec_metadata_id pv) && match mid with Some i => wf_sbytes i | None => true end
    && Bool.eqb (is_some pk) (4 <=? pv) && match pk with Some l => wf_int (len l) && forallb wf_short l | None => true end
    && wf_cols pv bind
    && Bool.eqb (is_some res) (2 <=? pv) && match res with Some m => wf_rmeta pv m | None => true end
  | ResSchemaChange sc => wf_schema_change pv sc
  end.

(* ---------------------------------------------------------------- ERROR (section 9) *)
Inductive failures := FCount (n : Z) | FMap (reasons : list (bytes * Z)).

Inductive err :=
| ErrSimple (code : Z)               (* codes whose body ends after the message *)
| ErrUnavailable (cl required alive : Z)
| ErrWriteTimeout (cl received blockfor wt : Z) (contentions : option Z)
| ErrReadTimeout (cl received blockfor data_present : Z)
| ErrReadFailure (cl received blockfor : Z) (f : failures) (data_present : Z)
| ErrFunctionFailure (ks fn : str) (args : list str)
| ErrWriteFailure (cl received blockfor : Z) (f : failures) (wt : Z)
| ErrCasWriteUnknown (cl received blockfor : Z)
| ErrAlreadyExists (ks tbl : str)
| ErrUnprepared (id : bytes).

(* Server, Protocol, Auth, Overloaded, Is_bootstrapping, Truncate, CDC_WRITE_FAILURE, Syntax, Unauthorized, Invalid, Config *)
Definition simple_codes : list Z := [0; 10; 256; 4097; 4098; 4099; 5632; 8192; 8448; 8704; 8960].

Definition err_code (e : err) : Z :=
  match e with
  | ErrSimple c => c
  | ErrUnavailable _ _ _ => 4096 | ErrWriteTimeout _ _ _ _ _ => 4352 | ErrReadTimeout _ _ _ _ => 4608
  | ErrReadFailure _ _ _ _ _ => 4864 | ErrFunctionFailure _ _ _ => 5120 | ErrWriteFailure _ _ _ _ _ => 5376
  | ErrCasWriteUnknown _ _ _ => 5888 | ErrAlreadyExists _ _ => 9216 | ErrUnprepared _ => 9472
  end.

(* <writeType> strings, in the order of the driver's documented WriteType constants 0..7 *)
Definition wt_name (wt : Z) : str :=
  zs (nth (Z.to_nat wt) ["SIMPLE"; "BATCH"; "UNLOGGED_BATCH"; "COUNTER"; "BATCH_LOG"; "CAS"; "VIEW"; "CDC"]%string ""%string).
Definition WT_CAS := 5.

(* v5 (not DSE): CAS_WRITE_UNKNOWN and the <contentions> field of a CAS Write_timeout *)
Definition spec_cas_fields (pv : Z) : bool := (5 <=? pv) && (pv <? 65).

Definition enc_failures (f : failures) : list Z :=
  match f with
  | FCount n => enc_int n
  | FMap m => enc_int (len m) ++ enc_list (fun kv => enc_inetaddr (fst kv) ++ enc_short (snd kv)) m   (* <reasonmap> *)
  end.

Definition enc_err (e : err) : list Z :=
  match e with
  | ErrSimple _ => []
  | ErrUnavailable cl rq al => enc_short cl ++ enc_int rq ++ enc_int al
  | ErrWriteTimeout cl rc bf wt ct =>
    enc_short cl ++ enc_int rc ++ enc_int bf ++ enc_string (wt_name wt) ++ match ct with Some c => enc_short c | None => [] end
  | ErrReadTimeout cl rc bf d => enc_short cl ++ enc_int rc ++ enc_int bf ++ [d]
  | ErrReadFailure cl rc bf f d => enc_short cl ++ enc_int rc ++ enc_int bf ++ enc_failures f ++ [d]
  | ErrFunctionFailure ks fn args => enc_string ks ++ enc_string fn ++ enc_string_list args
  | ErrWriteFailure cl rc bf f wt => enc_short cl ++ enc_int rc ++ enc_int bf ++ enc_failures f ++ enc_string (wt_name wt)
  | ErrCasWriteUnknown cl rc bf => enc_short cl ++ enc_int rc ++ enc_int bf
  | ErrAlreadyExists ks tb => enc_string ks ++ enc_string tb
  | ErrUnprepared id => enc_short_bytes id
  end.

Definition wf_failures (pv : Z) (f : failures) : bool :=
  match f with
  | FCount n => wf_int n && negb (spec_reason_map pv)
  | FMap m => spec_reason_map pv && wf_int (len m) && nodup (map fst m)
              && forallb (fun kv => wf_addr (fst kv) && wf_short (snd kv)) m
  end.
Definition wf_wt (wt : Z) : bool := (0 <=? wt) && (wt <? 8).
(* [consistency]: ANY .. LOCAL_ONE = 0x0000 .. 0x000A *)
Definition wf_cl (cl : Z) : bool := (0 <=? cl) && (cl <=? 10).
Definition wf_byte (d : Z) : bool := (0 <=? d) && (d <? 256).

Definition wf_err (pv : Z) (e : err) : bool :=
  match e with
  | ErrSimple c => existsb (Z.eqb c) simple_codes
  | ErrUnavailable cl rq al => wf_cl cl && wf_int rq && wf_int al
  | ErrWriteTimeout cl rc bf wt ct =>
    wf_cl cl && wf_int rc && wf_int bf && wf_wt wt
    && Bool.eqb (is_some ct) (spec_cas_fields pv && (wt =? WT_CAS)) && match ct with Some c => wf_short c | None => true end
  | ErrReadTimeout cl rc bf d => wf_cl cl && wf_int rc && wf_int bf && wf_byte d
  | ErrReadFailure cl rc bf f d => wf_cl cl && wf_int rc && wf_int bf && wf_failures pv f && wf_byte d
  | ErrFunctionFailure ks fn args => wf_string ks && wf_string fn && wf_string_list args
  | ErrWriteFailure cl rc bf f wt => wf_cl cl && wf_int rc && wf_int bf && wf_failures pv f && wf_wt wt
  | ErrCasWriteUnknown cl rc bf => wf_cl cl && wf_int rc && wf_int bf && spec_cas_fields pv
  | ErrAlreadyExists ks tb => wf_string ks && wf_string tb
  | ErrUnprepared id => wf_sbytes id
  end.

(* ---------------------------------------------------------------- EVENT (section 4.2.6) *)
Inductive event :=
| EvTopologyChange (change : str) (addr : bytes) (port : Z)     (* NEW_NODE / REMOVED_NODE (MOVED_NODE) *)
| EvStatusChange (change : str) (addr : bytes) (port : Z)       (* UP / DOWN *)
| EvSchemaChange (sc : schema_change).

Definition event_name (e : event) : str :=
  match e with
  | EvTopologyChange _ _ _ => zs "TOPOLOGY_CHANGE" | EvStatusChange _ _ _ => zs "STATUS_CHANGE"
  | EvSchemaChange _ => zs "SCHEMA_CHANGE"
  end.
Definition enc_event (pv : Z) (e : event) : list Z :=
  enc_string (event_name e)
  ++ match e with
     | EvTopologyChange c a p | EvStatusChange c a p => enc_string c ++ enc_inet a p
     | EvSchemaChange sc => enc_schema_change pv sc
     end.
Definition wf_event (pv : Z) (e : event) : bool :=
  match e with
  | EvTopologyChange c a p | EvStatusChange c a p => wf_string c && wf_addr a && wf_int p
  | EvSchemaChange sc => wf_schema_change pv sc
  end.

(* ---------------------------------------------------------------- whole responses *)
Inductive rbody :=
| RError (e : err) (message : str)
| RReady
| RAuthenticate (authenticator : str)
| RSupported (options : list (str * list str))
| RResult (r : result)
| REvent (e : event)
| RAuthChallenge (token : option bytes)
| RAuthSuccess (token : option bytes).

Record response := mkresp {
  rs_trace : option bytes;                          (* tracing id [uuid], flag 0x02 *)
  rs_warnings : option (list str);                  (* [string list], flag 0x08 *)
  rs_payload : option (list (str * option bytes));  (* [bytes map], flag 0x04 *)
  rs_body : rbody }.

Definition spec_opcode (r : response) : Z :=
  match rs_body r with
  | RError _ _ => 0 | RReady => 2 | RAuthenticate _ => 3 | RSupported _ => 6 | RResult _ => 8 | REvent _ => 12
  | RAuthChallenge _ => 14 | RAuthSuccess _ => 16
  end.

Definition spec_flags (r : response) : Z :=
  b2z (is_some (rs_trace r)) 2 + b2z (is_some (rs_payload r)) 4 + b2z (is_some (rs_warnings r)) 8.

Definition enc_rbody (pv : Z) (b : rbody) : list Z :=
  match b with
  | RError e m => enc_int (err_code e) ++ enc_string m ++ enc_err e
  | RReady => []
  | RAuthenticate a => enc_string a
  | RSupported o => enc_string_multimap o
  | RResult r => enc_result pv r
  | REvent e => enc_event pv e
  | RAuthChallenge t => enc_bytes t
  | RAuthSuccess t => enc_bytes t
  end.

(* tracing id first, then the warnings, then the custom payload, then the message *)
Definition spec_body (pv : Z) (r : response) : list Z :=
  match rs_trace r with Some t => t | None => [] end
  ++ match rs_warnings r with Some w => enc_string_list w | None => [] end
  ++ match rs_payload r with Some p => enc_bytes_map p | None => [] end
  ++ enc_rbody pv (rs_body r).

Definition wf_rbody (pv : Z) (rm : option (list colspec)) (b : rbody) : bool :=
  match b with
  | RError e m => wf_string m && wf_err pv e
  | RReady => true
  | RAuthenticate a => wf_string a
  | RSupported o =>
    (len o <? 65536) && nodup (map fst o) && mem (zs "CQL_VERSION") (map fst o)
    && forallb (fun kv => wf_string (fst kv) && wf_string_list (snd kv)) o
  | RResult r => wf_result pv rm r
  | REvent e => wf_event pv e
  | RAuthChallenge t => wf_obytes t
  | RAuthSuccess t => wf_obytes t
  end.

Definition wf_spec (pv : Z) (rm : option (list colspec)) (r : response) : bool :=
  (1 <=? pv)
  && match rs_trace r with Some t => len t =? 16 | None => true end
  && match rs_warnings r with Some w => wf_string_list w | None => true end
  && match rs_payload r with
     | Some p => (len p <? 65536) && nodup (map fst p) && forallb (fun kv => wf_string (fst kv) && wf_obytes (snd kv)) p
     | None => true
     end
  && wf_rbody pv rm (rs_body r).

(* ---------------------------------------------------------------- the message the client must end up with *)
Definition exact_rmeta (m : rmeta) : rmeta_out :=
  mkmo (rm_paging m) None None (rm_new_id m)
       (match rm_cols m with McNone _ => None | McSome cs => Some (cols_list cs) end).

Definition exact_schema (sc : schema_change) : schema_ev :=
  mksch (target_name (sc_target sc)) (sc_change sc) (sc_keyspace sc)
        (match sc_target sc with
         | TgKeyspace => SxNone
         | TgTable n => SxName (zs "table") n
         | TgType n => SxName (zs "type") n
         | TgFunction n a => SxFunction n a
         | TgAggregate n a => SxAggregate n a
         end).

Definition exact_result (rm : option (list colspec)) (r : result) : rmsg :=
  match r with
  | ResVoid => r_empty 1
  | ResRows m rows =>
    let mo := exact_rmeta m in
    let cols := match mo_cols mo with Some c => c | None => match rm with Some c => c | None => [] end end in
    mkr 2 (mo_paging mo) None None (mo_meta_id mo) (mo_cols mo) (Some (map c_name cols)) (Some (map c_type cols))
        (Some rows) None None None None None
  | ResSetKeyspace ks => mkr 3 None None None None None None None None (Some ks) None None None None
  | ResPrepared id mid pk bind res =>
    let mo := match res with Some m => exact_rmeta m | None => mkmo None None None None None end in
    mkr 4 (mo_paging mo) None None (match mo_meta_id mo with Some x => Some x | None => mid end) (mo_cols mo)
        None None None None (Some id) (Some (cols_list bind)) pk None
  | ResSchemaChange sc => mkr 5 None None None None None None None None None None None None (Some (exact_schema sc))
  end.

(* documented ErrorMessage subclass of each code (cassandra.protocol); codes without one use ErrorMessage *)
Definition spec_class (code : Z) : errclass :=
  match code with
  | 0 => CServerError | 10 => CProtocolException | 256 => CBadCredentials | 4096 => CUnavailable | 4097 => COverloaded
  | 4098 => CIsBootstrapping | 4099 => CTruncateError | 4352 => CWriteTimeout | 4608 => CReadTimeout
  | 4864 => CReadFailure | 5120 => CFunctionFailure | 5376 => CWriteFailure | 5632 => CCDCWrite | 8192 => CSyntax
  | 8448 => CUnauthorized | 8704 => CInvalidRequest | 8960 => CConfiguration | 9216 => CAlreadyExists
  | 9472 => CPreparedQueryNotFound | _ => CErrorMessage
  end.

Definition exact_failures (f : failures) : Z * option (list (bytes * Z)) :=
  match f with FCount n => (n, None) | FMap m => (len m, Some m) end.

Definition exact_einfo (e : err) : einfo :=
  match e with
  | ErrSimple _ => EiNone
  | ErrUnavailable cl rq al => EiUnavailable cl rq al
  | ErrWriteTimeout cl rc bf wt ct => EiWriteTimeout cl rc bf wt ct
  | ErrReadTimeout cl rc bf d => EiReadTimeout cl rc bf (negb (d =? 0))
  | ErrReadFailure cl rc bf f d => EiReadFailure cl rc bf (fst (exact_failures f)) (snd (exact_failures f)) (negb (d =? 0))
  | ErrFunctionFailure ks fn a => EiFunctionFailure ks fn a
  | ErrWriteFailure cl rc bf f wt => EiWriteFailure cl rc bf (fst (exact_failures f)) (snd (exact_failures f)) wt
  | ErrCasWriteUnknown cl rc bf => EiCasWriteUnknown cl rc bf
  | ErrAlreadyExists ks tb => EiAlreadyExists ks tb
  | ErrUnprepared id => EiUnprepared id
  end.

Fixpoint assoc_get {V} (k : list Z) (l : list (list Z * V)) : option V :=
  match l with [] => None | (k', v) :: r => if list_eqb k k' then Some v else assoc_get k r end.
Definition assoc_del {V} (k : list Z) (l : list (list Z * V)) : list (list Z * V) :=
  filter (fun kv => negb (list_eqb k (fst kv))) l.

Definition null_as_empty (o : option bytes) : bytes := match o with Some b => b | None => [] end.

Definition exact_body (pv : Z) (rm : option (list colspec)) (b : rbody) : mbody :=
  match b with
  | RError e m => BError (spec_class (err_code e)) (err_code e) m (exact_einfo e)
  | RReady => BReady
  | RAuthenticate a => BAuthenticate a
  | RSupported o =>
    BSupported (match assoc_get (zs "CQL_VERSION") o with Some v => v | None => [] end) (assoc_del (zs "CQL_VERSION") o)
  | RResult r => BResult (exact_result rm r)
  | REvent e =>
    BEvent (event_name e)
           (match e with
            | EvTopologyChange c a p | EvStatusChange c a p => EaNode c a p
            | EvSchemaChange sc => EaSchema (exact_schema sc)
            end)
  (* normalisation: a null token is delivered as an empty one *)
  | RAuthChallenge t => BAuthChallenge (null_as_empty t)
  | RAuthSuccess t => BAuthSuccess (null_as_empty t)
  end.

Definition exact (pv : Z) (rm : option (list colspec)) (stream : Z) (r : response) : msg :=
  mkmsg stream (rs_trace r) (rs_warnings r) (rs_payload r) (exact_body pv rm (rs_body r)).

(* documented exception of each server error (cassandra/__init__.py; ErrorMessage subclasses otherwise) *)
Definition documented_exception (e : err) (message : str) : exn :=
  match e with
  | ErrUnavailable cl rq al => XUnavailable cl rq al
  | ErrWriteTimeout cl rc bf wt _ => XWriteTimeout cl rc bf wt
  | ErrReadTimeout cl rc bf d => XReadTimeout cl rc bf (negb (d =? 0))
  | ErrReadFailure cl rc bf f d => XReadFailure cl rc bf (fst (exact_failures f)) (snd (exact_failures f)) (negb (d =? 0))
  | ErrFunctionFailure ks fn a => XFunctionFailure ks fn a
  | ErrWriteFailure cl rc bf f wt => XWriteFailure cl rc bf (fst (exact_failures f)) (snd (exact_failures f)) wt
  | ErrAlreadyExists ks tb => XAlreadyExists ks tb
  | ErrSimple 8704 => XInvalidRequest message
  | ErrSimple 8448 => XUnauthorized message
  | _ => XMessage (spec_class (err_code e)) (err_code e) message (exact_einfo e)
  end.

(* ---------------------------------------------------------------- where this driver falls short of the spec *)
(* (1) AUTH_SUCCESS token that is not UTF-8 text; (2) CAS_WRITE_UNKNOWN (0x1700);
   (3) the <contentions> field of a v5 CAS Write_timeout *)
Definition driver_gap (r : response) : bool :=
  match rs_body r with
  | RAuthSuccess (Some t) => negb (utf8_valid t)
  | RError (ErrCasWriteUnknown _ _ _) _ => true
  | RError (ErrWriteTimeout _ _ _ _ (Some _)) _ => true
  | _ => false
  end.

Definition wf_response (pv : Z) (rm : option (list colspec)) (r : response) : bool :=
  wf_spec pv rm r && negb (driver_gap r).
