(* Hand model of cassandra.murmur3.body_and_tail (struct.unpack_from is outside the translated subset):
   body = the first 2*(len//16) little-endian SIGNED int64 ('<qq...'), tail = the last len%16 bytes as SIGNED
   chars ('b'*tail at offset -tail), total length.  Tied to the code by correspondence in checks/C08.py. *)
From Coq Require Import ZArith List.
From Verif Require Import ByteWords.
Import ListNotations.
Local Open Scope Z_scope.

Definition body_and_tail (data : list Z) : list Z * list Z * Z :=
  let nb := (length data / 16)%nat in
  (map sext64 (words (2 * nb) data), map sext8 (skipn (16 * nb) data), Z.of_nat (length data)).
