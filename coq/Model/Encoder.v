(* C29 -- cassandra/encoder.py Encoder (non-prepared statement parameters) and an independent CQL term parser.
   Part 1: Python values as the encoder sees them (supported types, `sub` = instance of a strict subclass).
   Part 2: the encoder: dispatch + literal producers, mirrored from the source.
   Part 3: CQL terms, the term parser (exactly one literal term; transcribed from Cassandra's Lexer.g / Parser.g `term`/`value`),
           and the type-directed denotation of a term as the value Cassandra reads for a column of the targeted type.
   Python's own printing is an INPUT of the model: repr(float), str(Decimal) (Section variables with assumed laws, see
   Proofs/C29_proofs.v), str(UUID), strftime / str(Time) / ipaddress.compressed (carried as text in the value).
   No proofs in this file. *)
From Coq Require Import String Ascii.
From Coq Require Import ZArith List Bool.
From Verif Require Import CqlKeywords CqlLex EncoderTable.
Import ListNotations.
Local Open Scope Z_scope.

(* ---------- hex ---------- *)
Definition hexd (n : Z) : Z := if n <? 10 then 48 + n else 87 + n.
Definition hex_byte (b : Z) : str := [hexd (b / 16); hexd (b mod 16)].
Definition hexlify (bs : list Z) : str := flat_map hex_byte bs.
Definition unhex (c : Z) : option Z :=
  if is_digit c then Some (c - 48)
  else if (97 <=? c) && (c <=? 102) then Some (c - 87)
  else if (65 <=? c) && (c <=? 70) then Some (c - 55)
  else None.
Definition is_hex (c : Z) : bool := match unhex c with Some _ => true | None => false end.
Fixpoint unhex_pairs (s : str) : option (list Z) :=
  match s with
  | [] => Some []
  | a :: b :: s' =>
      match unhex a, unhex b, unhex_pairs s' with
      | Some x, Some y, Some r => Some (16 * x + y :: r)
      | _, _, _ => None
      end
  | [_] => None
  end.

(* UUID token: 8-4-4-4-12 hex digits; returns the input after the token *)
Fixpoint all_hex_n (n : nat) (s : str) : option str :=
  match n with
  | O => Some s
  | S n' => match s with c :: s' => if is_hex c then all_hex_n n' s' else None | [] => None end
  end.
Definition dash (o : option str) : option str :=
  match o with Some (c :: s) => if c =? 45 then Some s else None | _ => None end.
Definition obind (o : option str) (f : str -> option str) : option str := match o with Some x => f x | None => None end.
Definition uuid_split (s : str) : option str :=
  obind (dash (all_hex_n 8 s)) (fun s1 => obind (dash (all_hex_n 4 s1)) (fun s2 => obind (dash (all_hex_n 4 s2))
    (fun s3 => obind (dash (all_hex_n 4 s3)) (fun s4 => all_hex_n 12 s4)))).
Definition uuid_shape (s : str) : bool := match uuid_split s with Some [] => true | _ => false end.

(* ---------- Part 1: values ---------- *)
Inductive fval (F : Type) := FNan | FInf (neg : bool) | FFin (f : F).
Arguments FNan {F}. Arguments FInf {F} neg. Arguments FFin {F} f.

Inductive qkind := QDate | QTime | QInet.          (* datetime.date | datetime.time, util.Time | ipaddress.IPv4/6Address *)
Inductive seqk := SList | STuple | SValueSeq.       (* list | tuple (both -> [..]) | ValueSequence (-> (..)) *)

Section Enc.
Variable F : Type.                       (* finite binary64 values *)
Variable repr_float : F -> str.          (* Python repr(float) on finite floats *)
Variable read_float : str -> option F.   (* the double Cassandra reads from a FLOAT/INTEGER token (Double.parseDouble) *)
Variable str_decimal : bool -> Z -> Z -> str.   (* Python str(Decimal((sign, digits of coeff, exp))) on finite decimals *)
Variable dec_to_float : bool -> Z -> Z -> fval F.   (* Python float(Decimal(...)): the nearest double *)

Inductive pv :=
| VNone
| VBool (b : bool)
| VInt (sub : bool) (z : Z)
| VFloat (sub : bool) (f : fval F)
| VDecimal (sub : bool) (neg : bool) (coeff : Z) (exp : Z)
| VStr (sub : bool) (s : str)
| VBytes (sub : bool) (bs : list Z)                 (* bytes, bytearray, memoryview *)
| VUuid (sub : bool) (text : str)                   (* text = str(uuid) *)
| VQuoted (sub : bool) (k : qkind) (text : str)     (* text = strftime('%Y-%m-%d') | str(time) | addr.compressed *)
| VTimestamp (sub : bool) (ms : Z)                  (* datetime.datetime; ms = int(timegm*1e3 + microsecond/1e3) *)
| VDateExt (days : Z)                               (* cassandra.util.Date *)
| VSeq (sub : bool) (k : seqk) (l : pvs)
| VSet (sub : bool) (l : pvs)                       (* set, frozenset, sortedset; elements in iteration order *)
| VMap (sub : bool) (l : pvm)                       (* dict, OrderedDict, OrderedMap; items in iteration order *)
with pvs := PNil | PCons (v : pv) (l : pvs)
with pvm := MNil | MCons (k v : pv) (l : pvm).

(* ---------- Part 2: the encoder ---------- *)
Definition hex_blob (bs : list Z) : str := 48 :: 120 :: hexlify bs.          (* (b'0x' + hexlify(val)).decode *)
Definition quoted_raw (text : str) : str := SQ :: text ++ [SQ].              (* "'%s'" % text -- no escaping *)

(* Encoder.cql_encode_float *)
Definition encode_float (f : fval F) : str :=
  match f with
  | FInf false => codes "Infinity"
  | FInf true => codes "-Infinity"
  | FNan => codes "NaN"
  | FFin x => repr_float x
  end.

(* str(val) of a float: what cql_encode_object produces when the exact-type dispatch misses *)
Definition py_str_float (f : fval F) : str :=
  match f with
  | FInf false => codes "inf"
  | FInf true => codes "-inf"
  | FNan => codes "nan"
  | FFin x => repr_float x
  end.

Definition sep : str := [44; 32].        (* ', ' *)
Definition kvsep : str := [58; 32].      (* ': ' *)

(* `exact` = dispatch on the exact type(val): an instance of a strict subclass (sub = true) misses the table and is
   emitted by cql_encode_object = str(val).  `exact = false` = the nearest class of type(val).__mro__ found in the table.
   via_float = cql_encode_decimal goes through float(val) (then only the double nearest to the decimal is printed; the
   model cannot express that rounding, so the theorems are stated for via_float = false). *)
Section Dispatch.
Variable exact : bool.
Variable via_float : bool.

Fixpoint encode (v : pv) : str :=
  match v with
  | VNone => codes "NULL"
  | VBool b => if b then codes "True" else codes "False"            (* bool -> int -> cql_encode_object: str(val) *)
  | VInt _ z => str_int z
  | VFloat sub f => if exact && sub then py_str_float f else encode_float f
  | VDecimal sub neg c e => if (exact && sub) || negb via_float then str_decimal neg c e else encode_float (dec_to_float neg c e)
  | VStr sub s => if exact && sub then s else cql_quote s
  | VBytes sub bs => if exact && sub then codes "b'...'" else hex_blob bs
  | VUuid _ text => text
  | VQuoted sub _ text => if exact && sub then text else quoted_raw text
  | VTimestamp sub ms => if exact && sub then codes "1970-01-01 00:00:00" else str_int ms
  | VDateExt d => str_int (d + 2147483648)
  | VSeq sub k l =>
      if exact && sub then codes "<python repr>" else
      match k with
      | SValueSeq => 40 :: encode_elems l ++ [41]
      | _ => 91 :: encode_elems l ++ [93]
      end
  | VSet sub l => if exact && sub then codes "<python repr>" else 123 :: encode_elems l ++ [125]
  | VMap sub l => if exact && sub then codes "<python repr>" else 123 :: encode_entries l ++ [125]
  end
with encode_elems (l : pvs) : str :=
  match l with
  | PNil => []
  | PCons v l' => match l' with PNil => encode v | PCons _ _ => encode v ++ sep ++ encode_elems l' end
  end
with encode_entries (l : pvm) : str :=
  match l with
  | MNil => []
  | MCons k v l' =>
      match l' with
      | MNil => encode k ++ kvsep ++ encode v
      | MCons _ _ _ => encode k ++ kvsep ++ encode v ++ sep ++ encode_entries l'
      end
  end.
End Dispatch.

(* query.bind_params: `query % tuple(encoded)` / `query % dict(...)` for a query made of literal text and %s / %(name)s holes
   (named holes are resolved to positions by the caller) *)
Inductive piece := Lit (s : str) | Hole (i : nat).
Definition bind_params (exact via_float : bool) (q : list piece) (params : list pv) : option str :=
  fold_right (fun p acc =>
                match acc, p with
                | Some a, Lit s => Some (s ++ a)
                | Some a, Hole i => match nth_error params i with Some v => Some (encode exact via_float v ++ a) | None => None end
                | None, _ => None
                end) (Some []) q.

(* ---------- Part 3: terms ---------- *)
Inductive term :=
| TNull | TBool (b : bool) | TInt (z : Z) | TFloat (tok : str) | TNan | TInf (neg : bool)
| TStr (s : str) | THex (bs : list Z) | TUuid (text : str)
| TList (l : terms) | TBraces (l : terms) | TMap (l : tmap) | TTuple (l : terms)
with terms := TNil | TCons (t : term) (l : terms)
with tmap := TMNil | TMCons (k v : term) (l : tmap).

Definition is_nil {A} (l : list A) : bool := match l with [] => true | _ => false end.

(* INTEGER / FLOAT token:  '-'? DIGIT+ ('.' DIGIT* )? ([eE] [+-]? DIGIT+)?   -> (is FLOAT, token text, rest) *)
Definition lex_number (s : str) : option (bool * str * str) :=
  let '(sign, s1) := match s with c :: s' => if c =? 45 then ([45], s') else ([], s) | [] => ([], s) end in
  let '(ip, s2) := span is_digit s1 in
  match ip with
  | [] => None
  | _ =>
    let '(fp, s3) := match s2 with
                     | c :: s' => if c =? 46 then let '(d, r) := span is_digit s' in (46 :: d, r) else ([], s2)
                     | [] => ([], s2)
                     end in
    let '(ep, s4) := match s3 with
                     | e :: s' =>
                         if (e =? 101) || (e =? 69) then
                           let '(sg, s'') := match s' with
                                             | x :: t => if (x =? 43) || (x =? 45) then ([x], t) else ([], s')
                                             | [] => ([], s')
                                             end in
                           let '(d, r) := span is_digit s'' in
                           match d with [] => ([], s3) | _ => (e :: sg ++ d, r) end
                         else ([], s3)
                     | [] => ([], s3)
                     end in
    Some (negb (is_nil fp && is_nil ep), sign ++ ip ++ fp ++ ep, s4)
  end.

Definition is_delim (c : Z) : bool :=
  (c =? 44) || (c =? 93) || (c =? 125) || (c =? 41) || (c =? 58) || (c =? 32) || (c =? 59) || (c =? 10).

(* after a scalar token the input must not continue the token: next char is a delimiter or the end *)
Definition ends_ok (r : str) : bool := match r with [] => true | c :: _ => is_delim c end.

(* a scalar term at the head of s.  ANTLR takes the longest token: a UUID-shaped prefix wins over the INTEGER / FLOAT /
   IDENT it starts with; 0x.. (HEXNUMBER) wins over the INTEGER 0. *)
Definition parse_scalar (s : str) : option (term * str) :=
  match s with
  | [] => None
  | c :: s' =>
      if c =? SQ then match lex_quoted_body SQ s' with Some (v, r) => Some (TStr v, r) | None => None end
      else match uuid_split s with
      | Some r => Some (TUuid (firstn 36 s), r)
      | None =>
        if is_letter c then
          let '(w, r) := lex_word s in
          if str_eqb w (codes "null") then Some (TNull, r)
          else if str_eqb w (codes "true") then Some (TBool true, r)
          else if str_eqb w (codes "false") then Some (TBool false, r)
          else if str_eqb w (codes "nan") then Some (TNan, r)
          else if str_eqb w (codes "infinity") then Some (TInf false, r)
          else None
        else if (c =? 45) && (match s' with x :: _ => is_letter x | [] => false end) then
          let '(w, r) := lex_word s' in
          if str_eqb w (codes "nan") then Some (TNan, r)
          else if str_eqb w (codes "infinity") then Some (TInf true, r)
          else None
        else
          match lex_number s with
          | Some (fl, tok, r) =>
              if ends_ok r then
                if fl then Some (TFloat tok, r)
                else match lex_integer s with Some (z, r') => Some (TInt z, r') | None => None end
              else if (c =? 48) && (match s' with x :: _ => (x =? 120) || (x =? 88) | [] => false end) then
                let '(h, r') := span is_hex (tl s') in
                match unhex_pairs h with Some bs => Some (THex bs, r') | None => None end
              else None
          | None => None
          end
      end
  end.

Definition expect (c : Z) (s : str) : option str :=
  match skip_spaces s with x :: r => if x =? c then Some r else None | [] => None end.

Fixpoint parse_term (fuel : nat) (s : str) {struct fuel} : option (term * str) :=
  match fuel with
  | O => None
  | S f =>
    match s with
    | [] => None
    | c :: s' =>
      if c =? 91 then            (* [ list ] *)
        match expect 93 s' with
        | Some r => Some (TList TNil, r)
        | None => match parse_elems f (skip_spaces s') with
                  | Some (ts, r) => match expect 93 r with Some r' => Some (TList ts, r') | None => None end
                  | None => None
                  end
        end
      else if c =? 40 then       (* ( tuple / value list ) *)
        match expect 41 s' with
        | Some r => Some (TTuple TNil, r)
        | None => match parse_elems f (skip_spaces s') with
                  | Some (ts, r) => match expect 41 r with Some r' => Some (TTuple ts, r') | None => None end
                  | None => None
                  end
        end
      else if c =? 123 then      (* { set } or { map } *)
        match expect 125 s' with
        | Some r => Some (TBraces TNil, r)
        | None =>
          match (match parse_entries f (skip_spaces s') with
                 | Some (m, r) => match expect 125 r with Some r' => Some (TMap m, r') | None => None end
                 | None => None
                 end) with
          | Some x => Some x
          | None => match parse_elems f (skip_spaces s') with
                    | Some (ts, r) => match expect 125 r with Some r' => Some (TBraces ts, r') | None => None end
                    | None => None
                    end
          end
        end
      else match parse_scalar s with
           | Some (t, r) => if ends_ok r then Some (t, r) else None
           | None => None
           end
    end
  end
with parse_elems (fuel : nat) (s : str) {struct fuel} : option (terms * str) :=
  match fuel with
  | O => None
  | S f =>
    match parse_term f s with
    | Some (t, r) =>
        match expect 44 r with
        | Some r' => match parse_elems f (skip_spaces r') with
                     | Some (ts, r'') => Some (TCons t ts, r'')
                     | None => None
                     end
        | None => Some (TCons t TNil, r)
        end
    | None => None
    end
  end
with parse_entries (fuel : nat) (s : str) {struct fuel} : option (tmap * str) :=
  match fuel with
  | O => None
  | S f =>
    match parse_term f s with
    | Some (k, r) =>
        match expect 58 r with
        | Some r1 =>
            match parse_term f (skip_spaces r1) with
            | Some (v, r2) =>
                match expect 44 r2 with
                | Some r3 => match parse_entries f (skip_spaces r3) with
                             | Some (m, r4) => Some (TMCons k v m, r4)
                             | None => None
                             end
                | None => Some (TMCons k v TMNil, r2)
                end
            | None => None
            end
        | None => None
        end
    | None => None
    end
  end.

(* exactly one literal term at the head of s *)
Definition parse_one (s : str) : option (term * str) := parse_term (S (length s)) s.

(* ---------- denotation: what Cassandra reads, for a column of the type the encoder targets ---------- *)
Inductive kind :=
| KNull | KBool | KInt | KDouble | KDecimal | KText | KBlob | KUuid | KQuoted (q : qkind)
| KList (l : kinds) | KSet (l : kinds) | KMap (l : kmap) | KTuple (l : kinds)
with kinds := KNil | KCons (k : kind) (l : kinds)
with kmap := KMNil | KMCons (k v : kind) (l : kmap).

Inductive cval :=
| CNull | CBool (b : bool) | CInt (z : Z) | CDouble (f : fval F) | CDecimal (unscaled scale : Z)
| CText (s : str) | CBlob (bs : list Z) | CUuid (text : str) | CQuoted (q : qkind) (text : str)
| CList (l : list cval) | CSet (l : list cval) | CMap (l : list (cval * cval)) | CTuple (l : list cval).

(* java.math.BigDecimal(String) on an INTEGER/FLOAT token: (unscaledValue, scale) *)
Definition read_decimal (tok : str) : option (Z * Z) :=
  let '(neg, s1) := match tok with c :: s' => if c =? 45 then (true, s') else (false, tok) | [] => (false, tok) end in
  let '(ip, s2) := span is_digit s1 in
  let '(fp, s3) := match s2 with
                   | c :: s' => if c =? 46 then span is_digit s' else ([], s2)
                   | [] => ([], s2)
                   end in
  let ex := match s3 with
            | [] => Some 0
            | e :: s' => if (e =? 101) || (e =? 69) then
                           match s' with
                           | x :: t => if x =? 43 then (match lex_integer t with Some (z, []) => Some z | _ => None end)
                                       else (match lex_integer s' with Some (z, []) => Some z | _ => None end)
                           | [] => None
                           end
                         else None
            end in
  match ip, ex with
  | [], _ => None
  | _, None => None
  | _, Some e => let u := digits_value (ip ++ fp) in Some (if neg then - u else u, Z.of_nat (length fp) - e)
  end.

Fixpoint denote (k : kind) (t : term) {struct t} : option cval :=
  match k, t with
  | KNull, TNull => Some CNull
  | KBool, TBool b => Some (CBool b)
  | KInt, TInt z => Some (CInt z)
  | KDouble, TFloat tok => match read_float tok with Some f => Some (CDouble (FFin f)) | None => None end
  | KDouble, TNan => Some (CDouble FNan)
  | KDouble, TInf n => Some (CDouble (FInf n))
  | KDecimal, TFloat tok => match read_decimal tok with Some (u, s) => Some (CDecimal u s) | None => None end
  | KDecimal, TInt z => Some (CDecimal z 0)
  | KText, TStr s => Some (CText s)
  | KQuoted q, TStr s => Some (CQuoted q s)
  | KBlob, THex bs => Some (CBlob bs)
  | KUuid, TUuid x => Some (CUuid x)
  | KList ks, TList ts => match denote_list ks ts with Some l => Some (CList l) | None => None end
  | KTuple ks, TTuple ts => match denote_list ks ts with Some l => Some (CTuple l) | None => None end
  | KSet ks, TBraces ts => match denote_list ks ts with Some l => Some (CSet l) | None => None end
  | KMap km, TMap tm => match denote_map km tm with Some l => Some (CMap l) | None => None end
  | KMap KMNil, TBraces TNil => Some (CMap [])
  | _, _ => None
  end
with denote_list (ks : kinds) (ts : terms) {struct ts} : option (list cval) :=
  match ks, ts with
  | KNil, TNil => Some []
  | KCons k ks', TCons t ts' =>
      match denote k t, denote_list ks' ts' with Some c, Some l => Some (c :: l) | _, _ => None end
  | _, _ => None
  end
with denote_map (km : kmap) (tm : tmap) {struct tm} : option (list (cval * cval)) :=
  match km, tm with
  | KMNil, TMNil => Some []
  | KMCons kk kv km', TMCons tk tv tm' =>
      match denote kk tk, denote kv tv, denote_map km' tm' with
      | Some a, Some b, Some l => Some ((a, b) :: l)
      | _, _, _ => None
      end
  | _, _ => None
  end.

(* the CQL type the encoder targets for a Python value *)
Fixpoint kind_of (v : pv) : kind :=
  match v with
  | VNone => KNull
  | VBool _ => KBool
  | VInt _ _ => KInt
  | VFloat _ _ => KDouble
  | VDecimal _ _ _ _ => KDecimal
  | VStr _ _ => KText
  | VBytes _ _ => KBlob
  | VUuid _ _ => KUuid
  | VQuoted _ q _ => KQuoted q
  | VTimestamp _ _ => KInt
  | VDateExt _ => KInt
  | VSeq _ SValueSeq l => KTuple (kinds_of l)
  | VSeq _ _ l => KList (kinds_of l)
  | VSet _ l => KSet (kinds_of l)
  | VMap _ l => KMap (kmap_of l)
  end
with kinds_of (l : pvs) : kinds :=
  match l with PNil => KNil | PCons v l' => KCons (kind_of v) (kinds_of l') end
with kmap_of (l : pvm) : kmap :=
  match l with MNil => KMNil | MCons k v l' => KMCons (kind_of k) (kind_of v) (kmap_of l') end.

(* the value the prepared-statement path sends (cqltypes serialisers), as the canonical value *)
Fixpoint prepared (v : pv) : cval :=
  match v with
  | VNone => CNull
  | VBool b => CBool b
  | VInt _ z => CInt z
  | VFloat _ f => CDouble f
  | VDecimal _ neg c e => CDecimal (if neg then - c else c) (- e)       (* DecimalType.serialize: as_tuple -> unscaled, scale *)
  | VStr _ s => CText s
  | VBytes _ bs => CBlob bs
  | VUuid _ text => CUuid text
  | VQuoted _ q text => CQuoted q text
  | VTimestamp _ ms => CInt ms                                           (* DateType.serialize: int64 ms *)
  | VDateExt d => CInt (d + 2147483648)                                  (* SimpleDateType.serialize: uint32 days + 2^31 *)
  | VSeq _ SValueSeq l => CTuple (prepared_list l)
  | VSeq _ _ l => CList (prepared_list l)
  | VSet _ l => CSet (prepared_list l)
  | VMap _ l => CMap (prepared_map l)
  end
with prepared_list (l : pvs) : list cval :=
  match l with PNil => [] | PCons v l' => prepared v :: prepared_list l' end
with prepared_map (l : pvm) : list (cval * cval) :=
  match l with MNil => [] | MCons k v l' => (prepared k, prepared v) :: prepared_map l' end.

(* the term a value is expected to be read as *)
Fixpoint term_of (v : pv) : term :=
  match v with
  | VNone => TNull
  | VBool b => TBool b
  | VInt _ z => TInt z
  | VFloat _ FNan => TNan
  | VFloat _ (FInf n) => TInf n
  | VFloat _ (FFin f) => TFloat (repr_float f)
  | VDecimal _ neg c e => if e =? 0 then TInt (if neg then - c else c) else TFloat (str_decimal neg c e)
  | VStr _ s => TStr s
  | VBytes _ bs => THex bs
  | VUuid _ text => TUuid text
  | VQuoted _ _ text => TStr text
  | VTimestamp _ ms => TInt ms
  | VDateExt d => TInt (d + 2147483648)
  | VSeq _ SValueSeq l => TTuple (terms_of l)
  | VSeq _ _ l => TList (terms_of l)
  | VSet _ l => TBraces (terms_of l)
  | VMap _ MNil => TBraces TNil
  | VMap _ l => TMap (tmap_of l)
  end
with terms_of (l : pvs) : terms :=
  match l with PNil => TNil | PCons v l' => TCons (term_of v) (terms_of l') end
with tmap_of (l : pvm) : tmap :=
  match l with MNil => TMNil | MCons k v l' => TMCons (term_of k) (term_of v) (tmap_of l') end.

(* the values the theorems quantify over: Python-side invariants of the supported types *)
Definition no_quote (text : str) : bool := forallb (fun c => negb (c =? SQ)) text.
Definition is_byte (b : Z) : bool := (0 <=? b) && (b <? 256).
Fixpoint supported (v : pv) : bool :=
  match v with
  | VDecimal _ _ c _ => 0 <=? c                      (* as_tuple(): sign + non-negative coefficient *)
  | VBytes _ bs => forallb is_byte bs
  | VUuid _ text => uuid_shape text                  (* str(UUID) *)
  | VQuoted _ _ text => no_quote text                (* strftime / str(time) / compressed never contain a quote *)
  | VSeq _ _ l => supporteds l
  | VSet _ l => supporteds l
  | VMap _ l => supportedm l
  | _ => true
  end
with supporteds (l : pvs) : bool :=
  match l with PNil => true | PCons v l' => supported v && supporteds l' end
with supportedm (l : pvm) : bool :=
  match l with MNil => true | MCons k v l' => supported k && supported v && supportedm l' end.

(* fuel the parser needs for a value *)
Fixpoint need (v : pv) : nat :=
  match v with
  | VSeq _ _ l => S (needs l)
  | VSet _ l => S (needs l)
  | VMap _ l => S (needm l)
  | _ => 1%nat
  end
with needs (l : pvs) : nat :=
  match l with PNil => O | PCons v l' => S (Nat.max (need v) (needs l')) end
with needm (l : pvm) : nat :=
  match l with MNil => O | MCons k v l' => S (Nat.max (need k) (Nat.max (need v) (needm l'))) end.

(* no instance of a strict subclass anywhere in the value *)
Fixpoint no_sub (v : pv) : bool :=
  match v with
  | VInt s _ | VFloat s _ | VDecimal s _ _ _ | VStr s _ | VBytes s _ | VUuid s _ | VQuoted s _ _ | VTimestamp s _ => negb s
  | VSeq s _ l | VSet s l => negb s && no_subs l
  | VMap s l => negb s && no_subm l
  | _ => true
  end
with no_subs (l : pvs) : bool := match l with PNil => true | PCons v l' => no_sub v && no_subs l' end
with no_subm (l : pvm) : bool := match l with MNil => true | MCons k v l' => no_sub k && no_sub v && no_subm l' end.


(* boolean equalities, used by the correspondence harness only *)
Variable feqb : F -> F -> bool.
Fixpoint zlist_eqb (a b : list Z) : bool :=
  match a, b with [], [] => true | x :: a', y :: b' => (x =? y) && zlist_eqb a' b' | _, _ => false end.
Fixpoint term_eqb (a b : term) {struct a} : bool :=
  match a, b with
  | TNull, TNull => true
  | TBool x, TBool y => Bool.eqb x y
  | TInt x, TInt y => x =? y
  | TFloat x, TFloat y => zlist_eqb x y
  | TNan, TNan => true
  | TInf x, TInf y => Bool.eqb x y
  | TStr x, TStr y => zlist_eqb x y
  | THex x, THex y => zlist_eqb x y
  | TUuid x, TUuid y => zlist_eqb x y
  | TList x, TList y => terms_eqb x y
  | TBraces x, TBraces y => terms_eqb x y
  | TTuple x, TTuple y => terms_eqb x y
  | TMap x, TMap y => tmap_eqb x y
  | _, _ => false
  end
with terms_eqb (a b : terms) {struct a} : bool :=
  match a, b with
  | TNil, TNil => true
  | TCons x a', TCons y b' => term_eqb x y && terms_eqb a' b'
  | _, _ => false
  end
with tmap_eqb (a b : tmap) {struct a} : bool :=
  match a, b with
  | TMNil, TMNil => true
  | TMCons k v a', TMCons k' v' b' => term_eqb k k' && term_eqb v v' && tmap_eqb a' b'
  | _, _ => false
  end.
Definition fval_eqb (a b : fval F) : bool :=
  match a, b with
  | FNan, FNan => true
  | FInf x, FInf y => Bool.eqb x y
  | FFin x, FFin y => feqb x y
  | _, _ => false
  end.
Definition qkind_eqb (a b : qkind) : bool :=
  match a, b with QDate, QDate => true | QTime, QTime => true | QInet, QInet => true | _, _ => false end.
Fixpoint cval_eqb (a b : cval) {struct a} : bool :=
  let fix l_eqb (x y : list cval) {struct x} : bool :=
    match x, y with [], [] => true | c :: x', d :: y' => cval_eqb c d && l_eqb x' y' | _, _ => false end in
  let fix m_eqb (x y : list (cval * cval)) {struct x} : bool :=
    match x, y with
    | [], [] => true
    | (c1, c2) :: x', (d1, d2) :: y' => cval_eqb c1 d1 && cval_eqb c2 d2 && m_eqb x' y'
    | _, _ => false
    end in
  match a, b with
  | CNull, CNull => true
  | CBool x, CBool y => Bool.eqb x y
  | CInt x, CInt y => x =? y
  | CDouble x, CDouble y => fval_eqb x y
  | CDecimal u s, CDecimal u' s' => (u =? u') && (s =? s')
  | CText x, CText y => zlist_eqb x y
  | CBlob x, CBlob y => zlist_eqb x y
  | CUuid x, CUuid y => zlist_eqb x y
  | CQuoted q x, CQuoted q' y => qkind_eqb q q' && zlist_eqb x y
  | CList x, CList y => l_eqb x y
  | CSet x, CSet y => l_eqb x y
  | CTuple x, CTuple y => l_eqb x y
  | CMap x, CMap y => m_eqb x y
  | _, _ => false
  end.
Definition opt_term_eqb (a : option (term * str)) (b : option (term * str)) : bool :=
  match a, b with
  | Some (t, r), Some (t', r') => term_eqb t t' && zlist_eqb r r'
  | None, None => true
  | _, _ => false
  end.

(* the encoder of the working tree: dispatch mode and Decimal route are REGENERATED from cassandra/encoder.py *)
Definition encode_cur := encode encoder_dispatch_exact encoder_decimal_via_float.
Definition bind_params_cur := bind_params encoder_dispatch_exact encoder_decimal_via_float.

End Enc.

Arguments VNone {F}. Arguments VBool {F} b. Arguments VInt {F} sub z. Arguments VFloat {F} sub f.
Arguments VDecimal {F} sub neg coeff exp. Arguments VStr {F} sub s. Arguments VBytes {F} sub bs.
Arguments VUuid {F} sub text. Arguments VQuoted {F} sub k text. Arguments VTimestamp {F} sub ms.
Arguments VDateExt {F} days. Arguments VSeq {F} sub k l. Arguments VSet {F} sub l. Arguments VMap {F} sub l.
Arguments PNil {F}. Arguments PCons {F} v l. Arguments MNil {F}. Arguments MCons {F} k v l.
Arguments CNull {F}. Arguments CBool {F} b. Arguments CInt {F} z. Arguments CDouble {F} f. Arguments CDecimal {F} unscaled scale.
Arguments CText {F} s. Arguments CBlob {F} bs. Arguments CUuid {F} text. Arguments CQuoted {F} q text.
Arguments CList {F} l. Arguments CSet {F} l. Arguments CMap {F} l. Arguments CTuple {F} l.
