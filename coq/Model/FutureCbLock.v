(* Fine-grained model of the _callback_lock protocol of ResponseFuture (C14): what two or more threads can do to ONE
   registered callback when _set_final_result and add_callback interleave at the granularity of their lock regions.
   One op = one atomic region of the source (the regions are checked by the lock audit in checks/C14.py):

     Claim      body of `with self._callback_lock` in _set_final_result, by any completing thread:
                [first-wins guard] ; self._final_result = response ; snapshot of self._callbacks
     RunSnap    the same thread, after the lock: runs the callbacks of its snapshot
     AddLocked  body of `with self._callback_lock` in add_callback: append ; run_now = (_final_result is set)
     AddFinish  add_callback after the lock: if run_now: fn(self._final_result)

   locked = true : run_now is decided inside the lock region (the source);
   locked = false: the test `_final_result is not _NOT_SET` is made after the lock was released.
   No proofs in this file. *)
From Coq Require Import List Bool Arith.
Import ListNotations.

Inductive apc := AIdle | ADecided (run_now : bool) | AUndecided | ADone.
Inductive lop := Claim | RunSnap | AddLocked | AddFinish.

Record lstate := mkL {
  lfinal : bool;        (* _final_result is set *)
  lreg : bool;          (* the callback is in self._callbacks *)
  lpend : nat;          (* snapshots that contain the callback and have not been run yet *)
  lpc : apc;            (* where the thread inside add_callback is *)
  lruns : nat           (* how often the callback has been invoked *)
}.

Definition linit : lstate := mkL false false 0 AIdle 0.

Definition lstep (locked : bool) (s : lstate) (o : lop) : lstate :=
  match o with
  | Claim => if lfinal s then s
             else mkL true (lreg s) (if lreg s then S (lpend s) else lpend s) (lpc s) (lruns s)
  | RunSnap => match lpend s with
               | O => s
               | S n => mkL (lfinal s) (lreg s) n (lpc s) (S (lruns s))
               end
  | AddLocked => match lpc s with
                 | AIdle => mkL (lfinal s) true (lpend s) (if locked then ADecided (lfinal s) else AUndecided) (lruns s)
                 | _ => s
                 end
  | AddFinish => match lpc s with
                 | ADecided true => mkL (lfinal s) (lreg s) (lpend s) ADone (S (lruns s))
                 | ADecided false => mkL (lfinal s) (lreg s) (lpend s) ADone (lruns s)
                 | AUndecided => mkL (lfinal s) (lreg s) (lpend s) ADone (if lfinal s then S (lruns s) else lruns s)
                 | _ => s
                 end
  end.

Definition lrun (locked : bool) (h : list lop) : lstate := fold_left (lstep locked) h linit.

(* invocations already made or already committed to *)
Definition ltotal (s : lstate) : nat :=
  lruns s + lpend s + match lpc s with ADecided true => 1 | _ => 0 end.
