(* C39 model: AES256ColumnEncryptionPolicy.encrypt/decrypt (cassandra/column_encryption/_policies.py),
   the encryption branch of BoundStatement.bind (cassandra/query.py) and ResultMessage.recv_results_rows
   decode_val/decode_row (cassandra/protocol.py, pure-Python path).
   PKCS7 is concrete.  AES-256-CBC (the `cryptography` library) is a pair of Section variables enc/dec.
   The per-type value codec (C01) is a pair of Section variables ser/deser.  No proofs here. *)
From Coq Require Import ZArith List Bool.
Import ListNotations.
Local Open Scope Z_scope.

(* ---- PKCS7 with 128-bit blocks: padding.PKCS7(128).padder() / .unpadder() ---- *)
Definition pad_len (x : list Z) : nat := (16 - length x mod 16)%nat.

Definition pad (x : list Z) : list Z := x ++ repeat (Z.of_nat (pad_len x)) (pad_len x).

Definition unpad (p : list Z) : option (list Z) :=
  let len := length p in
  if (len =? 0)%nat || negb (len mod 16 =? 0)%nat then None
  else
    let n := last p 0 in
    if (1 <=? n) && (n <=? 16) then
      let k := Z.to_nat n in
      if forallb (Z.eqb n) (skipn (len - k) p) then Some (firstn (len - k) p) else None
    else None.

(* one column as the driver sees it: ce_key = Some key iff the policy contains the column;
   pol_type = the type registered with the policy; meta_type = the type in the statement/result metadata *)
Record column (T : Type) : Type := mkcol { ce_key : option (list Z); pol_type : T; meta_type : T }.
Arguments mkcol {T}. Arguments ce_key {T}. Arguments pol_type {T}. Arguments meta_type {T}.

Definition eff_type {T} (c : column T) : T := match ce_key c with Some _ => pol_type c | None => meta_type c end.

Fixpoint all_some {A} (l : list (option A)) : option (list A) :=
  match l with
  | [] => Some []
  | None :: _ => None
  | Some a :: r => match all_some r with Some r' => Some (a :: r') | None => None end
  end.

Fixpoint zip_with {A B C} (f : A -> B -> C) (a : list A) (b : list B) : list C :=
  match a, b with
  | x :: a', y :: b' => f x y :: zip_with f a' b'
  | _, _ => []
  end.

Section Encryption.
  Variable V T : Type.
  Variable ser : T -> V -> option (list Z).        (* col_type.serialize; None = raised *)
  Variable deser : T -> list Z -> option V.        (* col_type.from_binary on non-null bytes; None = Python None *)
  Variable enc dec : list Z -> list Z -> list Z -> list Z.   (* AES-256-CBC: key -> iv -> data -> data *)

  (* policy.encrypt: self.iv + encryptor.update(pad(obj_bytes)) *)
  Definition encrypt (key iv x : list Z) : list Z := iv ++ enc key iv (pad x).

  (* policy.decrypt: iv = bytes[:16]; unpad(decrypt(bytes[16:])) ; None = ValueError from the unpadder *)
  Definition decrypt (key c : list Z) : option (list Z) := unpad (dec key (firstn 16 c) (skipn 16 c)).

  (* BoundStatement.bind, one value: outer None = bind raised; inner None = null on the wire *)
  Definition bind_cell (iv : list Z) (c : column T) (v : option V) : option (option (list Z)) :=
    match v with
    | None => Some None
    | Some x =>
        match ser (eff_type c) x with
        | None => None
        | Some b => Some (Some (match ce_key c with Some k => encrypt k iv b | None => b end))
        end
    end.

  Definition bind_row (iv : list Z) (cols : list (column T)) (vals : list (option V)) : option (list (option (list Z))) :=
    all_some (zip_with (fun v c => bind_cell iv c v) vals cols).

  Definition bind_rows iv cols (rows : list (list (option V))) := all_some (map (bind_row iv cols) rows).

  (* recv_results_rows.decode_val (after the fix: a null cell is not decrypted).
     outer None = raised (the whole result becomes a DriverException); inner None = Python None *)
  Definition decode_val (c : column T) (cell : option (list Z)) : option (option V) :=
    match ce_key c, cell with
    | Some k, Some b => match decrypt k b with
                        | Some raw => Some (deser (pol_type c) raw)
                        | None => None
                        end
    | Some _, None => Some None
    | None, Some b => Some (deser (meta_type c) b)
    | None, None => Some None
    end.

  (* the code as it was before the fix: decrypt(col_desc, None) -> None[:16] -> TypeError *)
  Definition decode_val_unguarded (c : column T) (cell : option (list Z)) : option (option V) :=
    match ce_key c, cell with
    | Some _, None => None
    | _, _ => decode_val c cell
    end.

  Definition decode_row_with (dv : column T -> option (list Z) -> option (option V))
             (cols : list (column T)) (row : list (option (list Z))) : option (list (option V)) :=
    all_some (zip_with (fun cell c => dv c cell) row cols).

  Definition decode_rows_with dv cols (rows : list (list (option (list Z)))) : option (list (list (option V))) :=
    all_some (map (decode_row_with dv cols) rows).

  Definition decode_rows := decode_rows_with decode_val.
  Definition decode_rows_unguarded := decode_rows_with decode_val_unguarded.

  (* recv_results_rows: `column_metadata = self.column_metadata or result_metadata` -- the metadata carried by the ROWS
     frame itself (always on v3/v4 without skip_meta; on v5 when the server says Metadata_changed) wins over the
     metadata cached with the prepared statement; column names, types, ColDescs and the cell count all come from it *)
  Definition recv_rows (frame : option (list (column T))) (cached : list (column T))
             (rows : list (list (option (list Z)))) : option (list (list (option V))) :=
    decode_rows (match frame with Some c => c | None => cached end) rows.
End Encryption.

(* ---- which columns are encrypted is DERIVED, per column, from the policy and the column's OWN (keyspace, table, name):
   BoundStatement.bind builds ColDesc(col_spec.keyspace_name, col_spec.table_name, col_spec.name) for every bind marker
   (markers of a prepared BATCH / a PREPARED response without global table spec belong to different tables);
   recv_results_rows builds ColDesc(md[0], md[1], md[2]) for every result column and asks the policy for every cell.
   The policy (AES256ColumnEncryptionPolicy.coldata, a dict) is mutable: add_column may come at any time. ---- *)
Definition coldesc : Type := (Z * Z * Z)%type.

Definition desc_eqb (a b : coldesc) : bool :=
  let '(a1, a2, a3) := a in let '(b1, b2, b3) := b in (a1 =? b1) && (a2 =? b2) && (a3 =? b3).

Section Policy.
  Variable V T : Type.
  Variable ser : T -> V -> option (list Z).
  Variable deser : T -> list Z -> option V.
  Variable enc dec : list Z -> list Z -> list Z -> list Z.

  Definition policy : Type := list (coldesc * (list Z * T)).

  Fixpoint pol_find (p : policy) (d : coldesc) : option (list Z * T) :=
    match p with
    | [] => None
    | (d', kt) :: r => if desc_eqb d' d then Some kt else pol_find r d
    end.

  (* coldata[coldesc] = ColData(key, type): the newest registration wins *)
  Definition add_column (p : policy) (d : coldesc) (k : list Z) (t : T) : policy := (d, (k, t)) :: p.

  (* one bind marker / one result column: its own ColDesc and its type in the statement / result metadata *)
  Record marker : Type := mkmarker { m_desc : coldesc; m_type : T }.

  (* contains_column / column_type / the key used by _get_cipher, for THIS marker *)
  Definition resolve (p : policy) (m : marker) : column T :=
    match pol_find p (m_desc m) with
    | Some (k, t) => mkcol (Some k) t (m_type m)
    | None => mkcol None (m_type m) (m_type m)
    end.

  (* histories on one policy object: register a column; decode a result; write rows through a prepared statement and
     read them back (the server echoes).  The policy is the only state: neither path may remember an earlier answer. *)
  Inductive pop : Type :=
  | PAdd (d : coldesc) (k : list Z) (t : T)
  | PDecode (ms : list marker) (wire : list (list (option (list Z))))
  | PRound (ms : list marker) (iv : list Z) (rows : list (list (option V))).

  Inductive pout : Type :=
  | OutAdded
  | OutDecoded (r : option (list (list (option V))))
  | OutRound (sent : option (list (list (option (list Z))))) (back : option (list (list (option V)))).

  Definition pstep (p : policy) (o : pop) : policy * pout :=
    match o with
    | PAdd d k t => (add_column p d k t, OutAdded)
    | PDecode ms wire => (p, OutDecoded (decode_rows V T deser dec (map (resolve p) ms) wire))
    | PRound ms iv rows =>
        let cols := map (resolve p) ms in
        let w := bind_rows V T ser enc iv cols rows in
        (p, OutRound w (match w with Some wire => decode_rows V T deser dec cols wire | None => None end))
    end.

  Fixpoint prun (p : policy) (ops : list pop) : policy * list pout :=
    match ops with
    | [] => (p, [])
    | o :: r => let '(p1, x) := pstep p o in let '(p2, xs) := prun p1 r in (p2, x :: xs)
    end.

  (* ---- which policy OBJECT each path consults.  Every Cluster owns one policy object; Session.__init__ builds a
     per-session ProtocolHandler subclass holding a reference to cluster.column_encryption_policy (result decoding), and
     Session.prepare hands the same reference to PreparedStatement.from_message, whose three returns (no bind markers /
     partition-key indexes from the server / indexes derived from schema metadata or unknown: protocol v3, key not fully
     bound) all pass it on (binding).  A reference: a later add_column on the cluster's policy is seen by both. ---- *)
  Definition world : Type := list policy.                     (* cluster id -> its policy object's registrations *)

  Definition cluster_policy (w : world) (c : nat) : policy := nth c w [].

  Inductive prep_shape : Type := NoMarkers | ServerPkIndexes | NoPkIndexes.

  Definition stmt_policy (w : world) (c : nat) (sh : prep_shape) : policy :=
    match sh with
    | NoMarkers => cluster_policy w c
    | ServerPkIndexes => cluster_policy w c
    | NoPkIndexes => cluster_policy w c
    end.

  (* sessions : session id -> cluster id, in creation order *)
  Definition handler_policy (w : world) (sessions : list nat) (s : nat) : policy := cluster_policy w (nth s sessions 0%nat).

  (* NOT the code: one process-wide handler class that every Session.__init__ overwrites (kept for C39_shared_handler_refuted) *)
  Definition handler_policy_shared (w : world) (sessions : list nat) (s : nat) : policy := cluster_policy w (last sessions 0%nat).

  Fixpoint upd_nth {A} (i : nat) (f : A -> A) (l : list A) : list A :=
    match l, i with
    | [], _ => []
    | x :: r, O => f x :: r
    | x :: r, S i' => x :: upd_nth i' f r
    end.

  Inductive wop : Type :=
  | WNewCluster                                   (* Cluster(column_encryption_policy=<fresh policy>) *)
  | WAdd (c : nat) (d : coldesc) (k : list Z) (t : T)     (* policy of cluster c: add_column, also for a column already registered *)
  | WConnect (c : nat)                            (* Session.__init__ for cluster c *)
  | WRound (s : nat) (sh : prep_shape) (ms : list marker) (iv : list Z) (rows : list (list (option V))).

  Definition wstate : Type := (world * list nat)%type.

  Definition wstep_with (hp : world -> list nat -> nat -> policy) (st : wstate) (o : wop) : wstate * pout :=
    let '(w, sessions) := st in
    match o with
    | WNewCluster => ((w ++ [[]], sessions), OutAdded)
    | WAdd c d k t => ((upd_nth c (fun p => add_column p d k t) w, sessions), OutAdded)
    | WConnect c => ((w, sessions ++ [c]), OutAdded)
    | WRound s sh ms iv rows =>
        let c := nth s sessions 0%nat in
        let sent := bind_rows V T ser enc iv (map (resolve (stmt_policy w c sh)) ms) rows in
        (st, OutRound sent (match sent with
                            | Some wire => decode_rows V T deser dec (map (resolve (hp w sessions s)) ms) wire
                            | None => None
                            end))
    end.

  Definition wstep := wstep_with handler_policy.

  Fixpoint wrun (st : wstate) (ops : list wop) : wstate * list pout :=
    match ops with
    | [] => (st, [])
    | o :: r => let '(s1, x) := wstep st o in let '(s2, xs) := wrun s1 r in (s2, x :: xs)
    end.
End Policy.

Arguments mkmarker {T}. Arguments m_desc {T}. Arguments m_type {T}.

(* ---- running cases: values are their own serialization (the codec is abstract), AES replaced by the identity;
   the harness normalises real ciphertext with an independent AES-CBC decryption (the trusted library). ---- *)
Definition id_cipher (k iv x : list Z) : list Z := x.
Definition c39_ser (t : unit) (v : list Z) : option (list Z) := Some v.
Definition c39_deser (t : unit) (b : list Z) : option (list Z) := Some b.

Definition c39_col (k : option (list Z)) : column unit := mkcol k tt tt.

Definition c39_run (iv : list Z) (keys : list (option (list Z))) (rows : list (list (option (list Z))))
  : option (list (list (option (list Z)))) * option (list (list (option (list Z)))) :=
  let cols := map c39_col keys in
  let w := bind_rows (list Z) unit c39_ser id_cipher iv cols rows in
  (w, match w with Some wire => decode_rows (list Z) unit c39_deser id_cipher cols wire | None => None end).

Definition c39_decode (keys : list (option (list Z))) (wire : list (list (option (list Z)))) :=
  decode_rows (list Z) unit c39_deser id_cipher (map c39_col keys) wire.

(* the harness passes the policy registrations and every column's own ColDesc; which columns are encrypted is computed here *)
Definition c39_policy (regs : list (coldesc * list Z)) : policy unit := map (fun r => (fst r, (snd r, tt))) regs.

Definition c39_keys (regs : list (coldesc * list Z)) (descs : list coldesc) : list (option (list Z)) :=
  map (fun d => ce_key (resolve unit (c39_policy regs) (mkmarker d tt))) descs.

Definition c39_recv (frame : option (list (option (list Z)))) (cached : list (option (list Z))) (wire : list (list (option (list Z)))) :=
  recv_rows (list Z) unit c39_deser id_cipher
            (match frame with Some k => Some (map c39_col k) | None => None end) (map c39_col cached) wire.

Fixpoint c39_zeqb (a b : list Z) : bool :=
  match a, b with
  | [], [] => true
  | x :: a', y :: b' => (x =? y) && c39_zeqb a' b'
  | _, _ => false
  end.

Definition c39_cell_eqb (a b : option (list Z)) : bool :=
  match a, b with None, None => true | Some x, Some y => c39_zeqb x y | _, _ => false end.

Fixpoint c39_list_eqb {A} (f : A -> A -> bool) (a b : list A) : bool :=
  match a, b with
  | [], [] => true
  | x :: a', y :: b' => f x y && c39_list_eqb f a' b'
  | _, _ => false
  end.

Definition c39_rows_eqb (a b : option (list (list (option (list Z))))) : bool :=
  match a, b with
  | None, None => true
  | Some x, Some y => c39_list_eqb (c39_list_eqb c39_cell_eqb) x y
  | _, _ => false
  end.

Definition c39_eqb (a b : option (list (list (option (list Z)))) * option (list (list (option (list Z))))) : bool :=
  c39_rows_eqb (fst a) (fst b) && c39_rows_eqb (snd a) (snd b).
