(* C06 correspondence only: the harness's toy run-length compressor pair (lib/vf/framing_impl.py toy_compress/toy_decompress)
   in Gallina, and the case checkers evaluated by coqc.  No theorem depends on this file. *)
From Coq Require Import ZArith List Bool.
From Verif Require Import Crc Stream Segment.
Import ListNotations.
Local Open Scope Z_scope.

Fixpoint toy_compress_aux (l : list Z) (cnt b : Z) : list Z :=
  match l with
  | [] => [cnt; b]
  | x :: l' => if (x =? b) && (cnt <? 255) then toy_compress_aux l' (cnt + 1) b else cnt :: b :: toy_compress_aux l' 1 x
  end.
Definition toy_compress (l : list Z) : list Z := match l with [] => [] | x :: l' => toy_compress_aux l' 1 x end.

Fixpoint toy_decompress_pairs (l : list Z) : list Z :=
  match l with c :: b :: l' => repeat b (Z.to_nat c) ++ toy_decompress_pairs l' | _ => [] end.
Definition toy_decompress (l : list Z) (ulen : Z) : list Z := toy_decompress_pairs l.

Definition toy_encode (compression : bool) (msg : list Z) : list Z := encode compression toy_compress msg.

Definition c06_case (compression : bool) (chunks : list (list Z)) (impl_events : list ievent)
           (impl_obs : list (Z * Z * Z)) (impl_io impl_fb : list Z) : bool :=
  let '(st, evs) := run_cfeed compression toy_decompress (cinit) chunks in
  list_eqb ievent_eqb evs impl_events &&
  list_eqb obs_eqb (run_cobs compression toy_decompress (cinit) 0 chunks) impl_obs &&
  zlist_eqb (c_io st) impl_io && zlist_eqb (c_fb st) impl_fb.

Definition c06_switch_case (v5 negotiated auth : bool) (impl_after_reply impl_after_success : Z * Z * Z) : bool :=
  let s1 := on_reply v5 (if auth then RAuthenticate else RReady) (hs_init negotiated) in
  let s2 := if auth then on_reply v5 RAuthSuccess s1 else s1 in
  obs_eqb (hs_obs s1) impl_after_reply && obs_eqb (hs_obs s2) impl_after_success.
