(* C32 model: cassandra/concurrent.py  _ConcurrentExecutor and its List / Gen / Future variants.
   One op = one `with self._condition` region (Condition() wraps an RLock, so the nested synchronous chain
   _execute -> callback -> _put_result -> _execute_next -> _execute ... runs inside the region that started it):
     MainStep   : the caller's thread: execute()'s initial loop, then each stretch of _results() between two waits
                  (for the Gen variant: each resumption of the generator), then -- async variant -- the final block of
                  execute_concurrent_async
     Complete i : a driver thread delivers the outcome of in-flight statement i (or runs the _put_result that was
                  handed to session.submit): first (for List/Gen: only) region of _put_result
     Finish2 i  : async variant only: the second region of ConcurrentExecutorFutureResults._put_result
   Completions arrive in any order, from any thread, between any two regions.
   Results are identified by the statement index and the success flag.  NO proofs in this file. *)
From Coq Require Import List Bool Arith.
Import ListNotations.

Inductive beh : Type := BRaise | BSyncOk | BSyncErr | BLaterOk | BLaterErr.
Inductive variant : Type := VList | VGen | VFuture.

Record cfg : Type := mkCfg {
  behs : list beh;        (* behaviour of statement 0, 1, ... *)
  conc : nat;             (* concurrency argument (> 0, checked by execute_concurrent) *)
  ff : bool;              (* raise_on_first_error *)
  var : variant;
  maxrec : nat            (* _ConcurrentExecutor.max_error_recursion *)
}.

Definition res := (nat * bool)%type.       (* (idx, success) *)

Inductive outcome : Type := Return (l : list res) | RaiseExc (idx : nat).
Inductive fstate : Type := FPending | FResult (l : list res) | FExc (idx : nat).
Inductive mainpc : Type := MInit | MRun | MWait | MYield | MRet (o : outcome) | MFin (o : outcome).

Record state : Type := mkSt {
  rest : list beh;         (* what _enum_statements has not produced yet *)
  started : nat;           (* _exec_count == index of the next statement *)
  current : nat;           (* _current *)
  results : list res;      (* _results_queue (append order / heap content) *)
  exc : option nat;        (* List/Future: _exception (index of the failed statement) *)
  inflight : list nat;     (* slots held: statements whose future is pending, and deferred (submitted) _put_result calls *)
  fut : fstate;            (* async variant: the concurrent.futures.Future *)
  fut_err : nat;           (* InvalidStateError count: attempts to complete an already completed future *)
  pend2 : list nat;        (* async variant: threads between the two regions of _put_result *)
  notified : bool;         (* a notify() reached the waiting caller *)
  pc : mainpc;
  yielded : list res       (* Gen: what the generator has yielded so far *)
}.

Definition init (c : cfg) : state :=
  mkSt (behs c) 0 0 [] None [] FPending 0 [] false MInit [].

Definition set_core (s : state) (r : list beh) (st cu : nat) (rs : list res) (e : option nat) (fl : list nat) : state :=
  mkSt r st cu rs e fl (fut s) (fut_err s) (pend2 s) (notified s) (pc s) (yielded s).

Definition notify (s : state) : state :=
  match pc s with
  | MWait => mkSt (rest s) (started s) (current s) (results s) (exc s) (inflight s) (fut s) (fut_err s) (pend2 s) true (pc s) (yielded s)
  | _ => s
  end.

Definition set_pc (s : state) (p : mainpc) (nt : bool) : state :=
  mkSt (rest s) (started s) (current s) (results s) (exc s) (inflight s) (fut s) (fut_err s) (pend2 s) nt p (yielded s).

(* sorted(self._results_queue): tuples (idx, ExecutionResult(success, ...)); False < True *)
Definition res_leb (a b : res) : bool :=
  (fst a <? fst b) || ((fst a =? fst b) && (negb (snd a) || snd b)).
Fixpoint insert_res (x : res) (l : list res) : list res :=
  match l with
  | [] => [x]
  | y :: l' => if res_leb x y then x :: l else y :: insert_res x l'
  end.
Fixpoint sort_res (l : list res) : list res :=
  match l with [] => [] | x :: l' => insert_res x (sort_res l') end.

(* completing the future (repaired code: only if it is still pending) *)
Definition fut_set (s : state) (v : fstate) : state :=
  match fut s with
  | FPending => mkSt (rest s) (started s) (current s) (results s) (exc s) (inflight s) v (fut_err s) (pend2 s) (notified s) (pc s) (yielded s)
  | _ => s
  end.

(* second region of ConcurrentExecutorFutureResults._put_result *)
Definition region2 (c : cfg) (s : state) : state :=
  if current s =? started s then
    match exc s, ff c with
    | Some e, true => fut_set s (FExc e)
    | _, _ => fut_set s (FResult (sort_res (results s)))
    end
  else s.

(* _put_result (first region; for nested synchronous calls of the async variant also the second one).
   `next` is _execute_next on the rest of the statements. *)
Definition put_result (c : cfg) (next : nat -> state -> state * bool) (depth : nat) (s : state) (idx : nat) (ok : bool) : state :=
  match var c with
  | VGen =>
      let s1 := set_core s (rest s) (started s) (current s) (results s ++ [(idx, ok)]) (exc s) (inflight s) in
      let '(s2, _) := next depth s1 in notify s2
  | _ =>
      let s1 := set_core s (rest s) (started s) (S (current s)) (results s ++ [(idx, ok)]) (exc s) (inflight s) in
      if negb ok && ff c then
        notify (set_core s1 (rest s1) (started s1) (current s1) (results s1)
                         (match exc s1 with Some e => Some e | None => Some idx end) (inflight s1))
      else
        let '(s2, r) := next depth s1 in
        if negb r && (current s2 =? started s2) then notify s2 else s2
  end.

Definition put_result_nested (c : cfg) (next : nat -> state -> state * bool) (depth : nat) (s : state) (idx : nat) (ok : bool) : state :=
  let s1 := put_result c next depth s idx ok in
  match var c with VFuture => region2 c s1 | _ => s1 end.

(* _execute_next + _execute, by recursion on what the statement iterator still holds *)
Fixpoint exec_next (c : cfg) (r : list beh) (depth : nat) (s : state) : state * bool :=
  match r with
  | [] => (s, false)                                   (* StopIteration *)
  | b :: r' =>
      let idx := started s in
      let s1 := set_core s r' (S idx) (current s) (results s) (exc s) (inflight s) in
      let d := S depth in                              (* _exec_depth += 1 *)
      let s2 :=
        match b with
        | BLaterOk | BLaterErr => set_core s1 (rest s1) (started s1) (current s1) (results s1) (exc s1) (inflight s1 ++ [idx])
        | BSyncOk => put_result_nested c (exec_next c r') d s1 idx true
        | BSyncErr => put_result_nested c (exec_next c r') d s1 idx false
        | BRaise =>
            if d <? maxrec c then put_result_nested c (exec_next c r') d s1 idx false
            else set_core s1 (rest s1) (started s1) (current s1) (results s1) (exc s1) (inflight s1 ++ [idx])   (* session.submit *)
        end in
      (s2, true)
  end.

Definition exec_next_top (c : cfg) (depth : nat) (s : state) : state * bool := exec_next c (rest s) depth s.

(* execute(): for n in range(concurrency): if not self._execute_next(): break *)
Fixpoint start_loop (c : cfg) (k : nat) (s : state) : state :=
  match k with
  | O => s
  | S k' => let '(s', r) := exec_next_top c 0 s in if r then start_loop c k' s' else s'
  end.

Fixpoint remove_first (i : nat) (l : list nat) : list nat :=
  match l with [] => [] | x :: l' => if x =? i then l' else x :: remove_first i l' end.
Fixpoint mem (i : nat) (l : list nat) : bool :=
  match l with [] => false | x :: l' => (x =? i) || mem i l' end.

Definition later_ok (c : cfg) (i : nat) : bool :=
  match nth_error (behs c) i with Some BLaterOk => true | _ => false end.

(* the heap minimum of the Gen variant *)
Fixpoint min_res (l : list res) : option res :=
  match l with
  | [] => None
  | x :: l' => match min_res l' with Some y => Some (if res_leb x y then x else y) | None => Some x end
  end.
Definition res_eqb (a b : res) : bool := (fst a =? fst b) && Bool.eqb (snd a) (snd b).
Fixpoint remove_res (x : res) (l : list res) : list res :=
  match l with [] => [] | y :: l' => if res_eqb x y then l' else y :: remove_res x l' end.

Definition finish_list (c : cfg) (s : state) : state :=
  match exc s, ff c with
  | Some e, true => set_pc s (MRet (RaiseExc e)) false
  | _, _ => set_pc s (MRet (Return (sort_res (results s)))) false
  end.

(* _results() of the List/Future variants from the loop test on *)
Definition results_list (c : cfg) (s : state) : state :=
  if current s <? started s then set_pc s MWait false else finish_list c s.

(* the generator body of the Gen variant from the outer loop test on *)
Definition results_gen (c : cfg) (s : state) : state :=
  if current s <? started s then
    match min_res (results s) with
    | Some (i, ok) =>
        if i =? current s then
          let s1 := set_core s (rest s) (started s) (current s) (remove_res (i, ok) (results s)) (exc s) (inflight s) in
          if ff c && negb ok then set_pc s1 (MRet (RaiseExc i)) false
          else mkSt (rest s1) (started s1) (current s1) (results s1) (exc s1) (inflight s1) (fut s1) (fut_err s1) (pend2 s1)
                    false MYield (yielded s1 ++ [(i, ok)])
        else set_pc s MWait false
    | None => set_pc s MWait false
    end
  else set_pc s (MRet (Return (yielded s))) false.

Definition bump_current (s : state) : state :=
  set_core s (rest s) (started s) (S (current s)) (results s) (exc s) (inflight s).

Definition main_step (c : cfg) (s : state) : state :=
  match pc s with
  | MInit =>
      (* execute(): the initial loop is one region; _results() (or the generator body) takes the lock again *)
      set_pc (start_loop c (conc c) s) MRun false
  | MRun => match var c with VGen => results_gen c s | _ => results_list c s end
  | MYield => results_gen c (bump_current s)
  | MWait =>
      if notified s then
        match var c with
        | VGen => results_gen c s
        | _ => match exc s, ff c with
               | Some e, true => set_pc s (MRet (RaiseExc e)) false
               | _, _ => results_list c s
               end
        end
      else s                                     (* still blocked *)
  | MRet o =>
      match var c with
      | VFuture =>                               (* execute_concurrent_async after executor.execute() *)
          let s1 := match o with
                    | RaiseExc e => fut_set s (FExc e)
                    | Return l => fut_set s (FResult l)
                    end in
          set_pc s1 (MFin o) false
      | _ => s
      end
  | MFin _ => s
  end.

Inductive op : Type := MainStep | Complete (i : nat) | Finish2 (i : nat).

Definition step (c : cfg) (s : state) (o : op) : state :=
  match o with
  | MainStep => main_step c s
  | Complete i =>
      if mem i (inflight s) then
        let s0 := set_core s (rest s) (started s) (current s) (results s) (exc s) (remove_first i (inflight s)) in
        let s1 := put_result c (exec_next_top c) 0 s0 i (later_ok c i) in
        match var c with
        | VFuture => mkSt (rest s1) (started s1) (current s1) (results s1) (exc s1) (inflight s1) (fut s1) (fut_err s1)
                          (pend2 s1 ++ [i]) (notified s1) (pc s1) (yielded s1)
        | _ => s1
        end
      else s
  | Finish2 i =>
      if mem i (pend2 s) then
        let s1 := region2 c s in
        mkSt (rest s1) (started s1) (current s1) (results s1) (exc s1) (inflight s1) (fut s1) (fut_err s1)
             (remove_first i (pend2 s1)) (notified s1) (pc s1) (yielded s1)
      else s
  end.

Definition run (c : cfg) (ops : list op) : state := fold_left (step c) ops (init c).

(* outcome of statement i as the caller must see it *)
Definition ok_of (b : beh) : bool := match b with BSyncOk | BLaterOk => true | _ => false end.
Definition expected (c : cfg) : list res := combine (seq 0 (length (behs c))) (map ok_of (behs c)).

(* ---------- comparison helpers for the correspondence ---------- *)
Fixpoint res_list_eqb (a b : list res) : bool :=
  match a, b with [], [] => true | x :: a', y :: b' => res_eqb x y && res_list_eqb a' b' | _, _ => false end.
Fixpoint nat_list_eqb (a b : list nat) : bool :=
  match a, b with [], [] => true | x :: a', y :: b' => (x =? y) && nat_list_eqb a' b' | _, _ => false end.
Definition outcome_eqb (a b : outcome) : bool :=
  match a, b with Return x, Return y => res_list_eqb x y | RaiseExc x, RaiseExc y => x =? y | _, _ => false end.
Definition fstate_eqb (a b : fstate) : bool :=
  match a, b with FPending, FPending => true | FResult x, FResult y => res_list_eqb x y | FExc x, FExc y => x =? y | _, _ => false end.
Definition pc_eqb (a b : mainpc) : bool :=
  match a, b with
  | MInit, MInit | MRun, MRun | MWait, MWait | MYield, MYield => true
  | MRet x, MRet y | MFin x, MFin y => outcome_eqb x y
  | _, _ => false
  end.
Definition onat_eqb (a b : option nat) : bool :=
  match a, b with Some x, Some y => x =? y | None, None => true | _, _ => false end.

(* observation: (started, current, sorted results, exception, sorted in-flight statements (pending futures only),
   future, InvalidStateError count, pc, yielded) *)
Definition is_later (c : cfg) (i : nat) : bool :=
  match nth_error (behs c) i with Some BLaterOk | Some BLaterErr => true | _ => false end.
Fixpoint insert_nat (x : nat) (l : list nat) : list nat :=
  match l with [] => [x] | y :: l' => if x <=? y then x :: l else y :: insert_nat x l' end.
Definition sort_nat (l : list nat) : list nat := fold_right insert_nat [] l.

Record obs : Type := mkObs {
  o_started : nat; o_current : nat; o_results : list res; o_exc : option nat; o_inflight : list nat;
  o_fut : fstate; o_fut_err : nat; o_pc : mainpc; o_yielded : list res
}.
Definition observe (c : cfg) (s : state) : obs :=
  mkObs (started s) (current s) (sort_res (results s)) (exc s) (sort_nat (filter (is_later c) (inflight s)))
        (fut s) (fut_err s) (pc s) (yielded s).
Definition obs_eqb (a b : obs) : bool :=
  (o_started a =? o_started b) && (o_current a =? o_current b) && res_list_eqb (o_results a) (o_results b)
  && onat_eqb (o_exc a) (o_exc b) && nat_list_eqb (o_inflight a) (o_inflight b) && fstate_eqb (o_fut a) (o_fut b)
  && (o_fut_err a =? o_fut_err b) && pc_eqb (o_pc a) (o_pc b) && res_list_eqb (o_yielded a) (o_yielded b).

Fixpoint trace (c : cfg) (s : state) (ops : list op) : list obs :=
  match ops with [] => [] | o :: r => let s' := step c s o in observe c s' :: trace c s' r end.
Fixpoint obs_list_eqb (a b : list obs) : bool :=
  match a, b with [], [] => true | x :: a', y :: b' => obs_eqb x y && obs_list_eqb a' b' | _, _ => false end.
Definition check_case (c : cfg) (ops : list op) (tr : list obs) : bool := obs_list_eqb (trace c (init c) ops) tr.
