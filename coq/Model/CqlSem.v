(* C35: Cassandra row semantics for the statement AST cqlengine can emit (my transcription of CQL semantics; trusted, DESIGN 2.5).
   One table: partition key column, optional clustering column, static columns, regular columns, counters.
   Cells: scalar / set (sorted, duplicate free) / list / map (sorted by key).  An empty collection IS null (Cassandra stores no
   empty collections).  Batches are applied sequentially.  No proofs in this file. *)
From Coq Require Import ZArith List Bool.
From Verif Require Import Clauses.
Import ListNotations.
Local Open Scope Z_scope.

(* ------------------------------------------------------------------ statement AST *)
Inductive assign :=
| ASet (f : name) (v : val)            (* "f" = v *)
| APlus (f : name) (v : val)           (* "f" = "f" + v   set union / list append / counter increment *)
| AMinus (f : name) (v : val)          (* "f" = "f" - v   set difference / map key removal / counter decrement *)
| APrepend (f : name) (v : val)        (* "f" = v + "f" *)
| APut (f : name) (k v : val).         (* "f"[k] = v *)

Inductive delitem := DCol (f : name) | DKey (f : name) (k : val).

Inductive cql :=
| CInsert (cols : list (name * val))
| CUpdate (sets : list assign) (key : list (name * val))
| CDelete (items : list delitem) (key : list (name * val)).

(* ------------------------------------------------------------------ collections *)
Fixpoint zinsert_u (x : Z) (l : list Z) : list Z :=        (* insert into a sorted duplicate-free list *)
  match l with
  | [] => [x]
  | y :: l' => if x <? y then x :: l else if x =? y then l else y :: zinsert_u x l'
  end.
Definition set_union (a b : list Z) : list Z := fold_right zinsert_u a b.

Fixpoint map_put (k v : Z) (m : list (Z * Z)) : list (Z * Z) :=   (* sorted by key *)
  match m with
  | [] => [(k, v)]
  | (k', v') :: m' => if k <? k' then (k, v) :: m else if k =? k' then (k, v) :: m' else (k', v') :: map_put k v m'
  end.
Definition map_remove (ks : list Z) (m : list (Z * Z)) : list (Z * Z) := filter (fun kv => negb (zmem (fst kv) ks)) m.

(* canonical cell: empty collection = null.  Set and map literals arrive sorted (the harness parser sorts them; the mapper
   model emits them sorted) and union / put keep them sorted. *)
Definition norm (v : val) : val :=
  match v with
  | VList [] | VSet [] | VMap [] => VNone
  | VInQ _ => VNone
  | _ => v
  end.

Definition as_list (v : val) : list Z := match v with VList l => l | _ => [] end.
Definition as_set (v : val) : list Z := match v with VSet l => l | _ => [] end.
Definition as_map (v : val) : list (Z * Z) := match v with VMap m => m | _ => [] end.
Definition as_int (v : val) : Z := match v with VInt z => z | _ => 0 end.

(* new cell value from the old one *)
Definition apply_assign (a : assign) (old : val) : val :=
  match a with
  | ASet _ v => norm v
  | APlus _ (VSet s) => norm (VSet (set_union (as_set old) s))
  | APlus _ (VList l) => norm (VList (as_list old ++ l))
  | APlus _ (VInt d) => VInt (as_int old + d)
  | APlus _ _ => old
  | AMinus _ (VSet s) =>
    match old with
    | VMap m => norm (VMap (map_remove s m))
    | _ => norm (VSet (set_diff (as_set old) s))
    end
  | AMinus _ (VInt d) => VInt (as_int old - d)
  | AMinus _ _ => old
  | APrepend _ (VList l) => norm (VList (l ++ as_list old))
  | APrepend _ _ => old
  | APut _ (VInt k) (VInt v) => norm (VMap (map_put k v (as_map old)))
  | APut _ _ _ => old
  end.
Definition apply_del (it : delitem) (old : val) : val :=
  match it with
  | DCol _ => VNone
  | DKey _ (VInt k) => norm (VMap (map_remove [k] (as_map old)))
  | DKey _ _ => old
  end.
Definition del_field (it : delitem) : name := match it with DCol f | DKey f _ => f end.
Definition assign_field (a : assign) : name :=
  match a with ASet f _ | APlus f _ | AMinus f _ | APrepend f _ | APut f _ _ => f end.

(* ------------------------------------------------------------------ table state *)
Record schema := { pk_col : name; ck_col : option name; static_cols : list name }.

(* one cell: (partition key, Some clustering key | None for static cells, column) -> value; absent = null *)
Definition cellkey := (Z * option Z * name)%type.
Definition db := list (cellkey * val).

Definition oz_eqb (a b : option Z) : bool :=
  match a, b with Some x, Some y => x =? y | None, None => true | _, _ => false end.
Definition ck_eqb (a b : cellkey) : bool :=
  let '(p, c, f) := a in let '(p', c', f') := b in (p =? p') && oz_eqb c c' && (f =? f').

Fixpoint db_get (k : cellkey) (d : db) : val :=
  match d with [] => VNone | (k', v) :: d' => if ck_eqb k k' then v else db_get k d' end.
Definition db_set (k : cellkey) (v : val) (d : db) : db :=
  let d' := filter (fun kv => negb (ck_eqb k (fst kv))) d in
  match v with VNone => d' | _ => (k, v) :: d' end.

Fixpoint kv_get (f : name) (l : list (name * val)) : option val :=
  match l with [] => None | (f', v) :: l' => if f =? f' then Some v else kv_get f l' end.

Definition key_of (sc : schema) (kvs : list (name * val)) : option (Z * option Z) :=
  match kv_get (pk_col sc) kvs with
  | Some (VInt p) =>
    Some (p, match ck_col sc with
             | Some c => match kv_get c kvs with Some (VInt x) => Some x | _ => None end
             | None => None
             end)
  | _ => None
  end.

Definition is_key_col (sc : schema) (f : name) : bool :=
  (f =? pk_col sc) || match ck_col sc with Some c => f =? c | None => false end.

(* the cell a column of the addressed row lives in; None = a regular column addressed without a clustering key *)
Definition cell_of (sc : schema) (p : Z) (c : option Z) (f : name) : option cellkey :=
  if zmem f (static_cols sc) then Some (p, None, f)
  else match ck_col sc, c with
       | Some _, None => None
       | Some _, Some x => Some (p, Some x, f)
       | None, _ => Some (p, Some 0, f)       (* table without clustering column: one row per partition *)
       end.

Definition upd_cell (sc : schema) (p : Z) (c : option Z) (f : name) (g : val -> val) (d : db) : db :=
  match cell_of sc p c f with
  | Some k => db_set k (g (db_get k d)) d
  | None => d
  end.

Definition exec (sc : schema) (d : db) (s : cql) : db :=
  match s with
  | CInsert cols =>
    match key_of sc cols with
    | Some (p, c) =>
      fold_left (fun d' fv => if is_key_col sc (fst fv) then d' else upd_cell sc p c (fst fv) (fun _ => norm (snd fv)) d') cols d
    | None => d
    end
  | CUpdate sets key =>
    match key_of sc key with
    | Some (p, c) => fold_left (fun d' a => upd_cell sc p c (assign_field a) (apply_assign a) d') sets d
    | None => d
    end
  | CDelete items key =>
    match key_of sc key with
    | Some (p, c) =>
      match items with
      | [] =>
        match ck_col sc, c with
        | Some _, None => filter (fun kv => negb (fst (fst (fst kv)) =? p)) d                          (* whole partition *)
        | _, _ => let c' := match ck_col sc with Some _ => c | None => Some 0 end in
                  filter (fun kv => negb ((fst (fst (fst kv)) =? p) && oz_eqb (snd (fst (fst kv))) c')) d   (* one row *)
        end
      | _ =>
        fold_left (fun d' it => upd_cell sc p c (del_field it) (apply_del it) d') items d
      end
    | None => d
    end
  end.

Definition exec_all (sc : schema) (d : db) (l : list cql) : db := fold_left (exec sc) l d.

(* SELECT of the given columns of one row *)
Definition read_row (sc : schema) (d : db) (p : Z) (c : option Z) (cols : list name) : list (name * val) :=
  map (fun f => (f, match cell_of sc p c f with Some k => db_get k d | None => VNone end)) cols.

Definition row_eqb (a b : list (name * val)) : bool :=
  list_eqb (fun x y => (fst x =? fst y) && val_eqb (snd x) (snd y)) a b.
