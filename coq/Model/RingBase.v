(* C26 -- vocabulary shared by the driver-shaped model (Ring.v) and the Cassandra-shaped specification
   (PlacementSpec.v): hosts/datacenters/racks/tokens are integers; a ring is a list of (token, owner) pairs
   in ring order; a topology maps a host to (datacenter, rack).  Only list/set utilities live here. *)
From Coq Require Import ZArith List Bool.
Import ListNotations.
Local Open Scope Z_scope.

Definition ring_t := list (Z * Z).          (* (token, owning host), sorted by token *)
Definition topo_t := Z -> Z * Z.            (* host -> (datacenter, rack) *)

Definition dc_of (loc : topo_t) (h : Z) : Z := fst (loc h).
Definition rack_of (loc : topo_t) (h : Z) : Z := snd (loc h).

Fixpoint memZ (x : Z) (l : list Z) : bool :=
  match l with [] => false | y :: t => (x =? y) || memZ x t end.

(* insertion-ordered set (Python: `if x not in l: l.append(x)`; Java: LinkedHashSet.add) *)
Definition set_add (x : Z) (l : list Z) : list Z := if memZ x l then l else l ++ [x].

Definition dedup (l : list Z) : list Z := fold_left (fun acc x => set_add x acc) l [].

Definition lenZ {A} (l : list A) : Z := Z.of_nat (length l).

(* the list read circularly starting at position k (k <= length l) *)
Definition rot {A} (k : nat) (l : list A) : list A := skipn k l ++ firstn k l.

(* dict / java.util.Map as an association list: the first binding of a key is the binding *)
Fixpoint assoc {V} (k : Z) (m : list (Z * V)) : option V :=
  match m with [] => None | (k', v) :: t => if k =? k' then Some v else assoc k t end.

Definition upd {V} (f : Z -> V) (k : Z) (v : V) : Z -> V := fun x => if x =? k then v else f x.

(* topology literal for generated cases: unknown hosts sit in (dc -1, rack -1) *)
Definition topo_of (l : list (Z * (Z * Z))) : topo_t :=
  fun h => match assoc h l with Some p => p | None => (-1, -1) end.

Fixpoint strictly_sorted (l : list Z) : bool :=
  match l with a :: ((b :: _) as t) => (a <? b) && strictly_sorted t | _ => true end.

Fixpoint nodupb (l : list Z) : bool :=
  match l with [] => true | x :: t => negb (memZ x t) && nodupb t end.

Definition subsetb (a b : list Z) : bool := forallb (fun x => memZ x b) a.
Definition set_eqb (a b : list Z) : bool := subsetb a b && subsetb b a.

Fixpoint list_eqb (a b : list Z) : bool :=
  match a, b with
  | [], [] => true
  | x :: a', y :: b' => (x =? y) && list_eqb a' b'
  | _, _ => false
  end.
