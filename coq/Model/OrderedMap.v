(* C33 model of cassandra.util.OrderedMap / OrderedMapSerializedKey: `_items` (list of (key, value)) and
   `_index` (dict: serialized key -> position).  `serialize` stands for _serialize_key (pickle.dumps, or the
   CQL key type's serialize): keys are identified by it.  The dict is an association list with unique keys.
   No proofs here. *)
From Coq Require Import ZArith List Bool Arith.
Import ListNotations.

Fixpoint bytes_eqb (a b : list Z) : bool :=
  match a, b with
  | [], [] => true
  | x :: a', y :: b' => (x =? y)%Z && bytes_eqb a' b'
  | _, _ => false
  end.

Section OrderedMapModel.
  Variable K V : Type.
  Variable serialize : K -> list Z.
  Variable key_eqb : K -> K -> bool.     (* Python == on keys / values, used by __eq__ only *)
  Variable val_eqb : V -> V -> bool.

  Definition dict := list (list Z * nat).
  Fixpoint idx_get (d : dict) (k : list Z) : option nat :=
    match d with
    | [] => None
    | (k', i) :: r => if bytes_eqb k' k then Some i else idx_get r k
    end.
  Definition idx_del (d : dict) (k : list Z) : dict := filter (fun p => negb (bytes_eqb (fst p) k)) d.
  Definition idx_set (d : dict) (k : list Z) (i : nat) : dict := (k, i) :: idx_del d k.

  Record omap := { items : list (K * V); index : dict }.
  Definition empty : omap := {| items := []; index := [] |}.

  Definition set_nth {T} (i : nat) (x : T) (l : list T) : list T := firstn i l ++ x :: skipn (S i) l.
  Definition remove_nth {T} (i : nat) (l : list T) : list T := firstn i l ++ skipn (S i) l.

  Inductive op :=
  | MInsert (k : K) (v : V)                       (* _insert / __setitem__ *)
  | MInsertUnchecked (k : K) (fk : list Z) (v : V)  (* OrderedMapSerializedKey._insert_unchecked *)
  | MGet (k : K)                                  (* __getitem__ *)
  | MDel (k : K)                                  (* __delitem__ *)
  | MPopItem
  | MLen | MKeys | MItems
  | MEq (other : list (K * V)).                   (* == OrderedMap(other) *)

  Inductive out :=
  | XNone | XVal (v : V) | XItem (kv : K * V) | XLen (n : nat) | XKeys (l : list K) | XItems (l : list (K * V))
  | XBool (b : bool) | XKeyError | XIndexError.

  Definition insert (m : omap) (k : K) (v : V) : omap * out :=
    let fk := serialize k in
    match idx_get (index m) fk with
    | Some i => if i <? length (items m)
                then ({| items := set_nth i (k, v) (items m); index := index m |}, XNone)
                else (m, XIndexError)
    | None => ({| items := items m ++ [(k, v)]; index := idx_set (index m) fk (length (items m)) |}, XNone)
    end.

  Definition insert_unchecked (m : omap) (k : K) (fk : list Z) (v : V) : omap :=
    {| items := items m ++ [(k, v)]; index := idx_set (index m) fk (length (items m)) |}.

  Definition getitem (m : omap) (k : K) : out :=
    match idx_get (index m) (serialize k) with
    | Some i => match nth_error (items m) i with Some (_, v) => XVal v | None => XIndexError end
    | None => XKeyError
    end.

  (* index = self._index.pop(fk); self._index = dict((k, i if i < index else i - 1) ...); self._items.pop(index) *)
  Definition delitem (m : omap) (k : K) : omap * out :=
    let fk := serialize k in
    match idx_get (index m) fk with
    | None => (m, XKeyError)
    | Some ix =>
      let idx' := map (fun p => (fst p, if snd p <? ix then snd p else snd p - 1)) (idx_del (index m) fk) in
      if ix <? length (items m)
      then ({| items := remove_nth ix (items m); index := idx' |}, XNone)
      else ({| items := items m; index := idx' |}, XIndexError)
    end.

  (* kv = self._items.pop(); del self._index[serialize(kv[0])]; return kv *)
  Definition popitem (m : omap) : omap * out :=
    match rev (items m) with
    | [] => (m, XKeyError)
    | kv :: r =>
      let fk := serialize (fst kv) in
      match idx_get (index m) fk with
      | Some _ => ({| items := rev r; index := idx_del (index m) fk |}, XItem kv)
      | None => ({| items := rev r; index := index m |}, XKeyError)
      end
    end.

  Definition of_pairs (l : list (K * V)) : omap := fold_left (fun m kv => fst (insert m (fst kv) (snd kv))) l empty.

  Fixpoint pairs_eqb (a b : list (K * V)) : bool :=
    match a, b with
    | [], [] => true
    | (k, v) :: a', (k', v') :: b' => key_eqb k k' && val_eqb v v' && pairs_eqb a' b'
    | _, _ => false
    end.

  Definition step (m : omap) (o : op) : omap * out :=
    match o with
    | MInsert k v => insert m k v
    | MInsertUnchecked k fk v => (insert_unchecked m k fk v, XNone)
    | MGet k => (m, getitem m k)
    | MDel k => delitem m k
    | MPopItem => popitem m
    | MLen => (m, XLen (length (items m)))
    | MKeys => (m, XKeys (map fst (items m)))
    | MItems => (m, XItems (items m))
    | MEq other => (m, XBool (pairs_eqb (items m) (items (of_pairs other))))
    end.

  Fixpoint run (m : omap) (ops : list op) : list (omap * out) :=
    match ops with
    | [] => []
    | o :: r => let '(m', x) := step m o in (m', x) :: run m' r
    end.
  Fixpoint final (m : omap) (ops : list op) : omap :=
    match ops with [] => m | o :: r => final (fst (step m o)) r end.

  (* ------------------------------------------------------------------ specification:
     an insertion-ordered association list whose keys are identified by `serialize` *)
  Definition keys_of (l : list (K * V)) : list (list Z) := map (fun kv => serialize (fst kv)) l.

  Fixpoint find_pos (fk : list Z) (ks : list (list Z)) : option nat :=
    match ks with
    | [] => None
    | k :: r => if bytes_eqb k fk then Some 0 else option_map S (find_pos fk r)
    end.

  Definition a_insert (l : list (K * V)) (k : K) (v : V) : list (K * V) :=
    match find_pos (serialize k) (keys_of l) with
    | Some i => set_nth i (k, v) l          (* existing key: position kept, entry replaced *)
    | None => l ++ [(k, v)]                 (* new key: appended *)
    end.

  Definition a_step (l : list (K * V)) (o : op) : list (K * V) * out :=
    match o with
    | MInsert k v => (a_insert l k v, XNone)
    | MInsertUnchecked k fk v => (l ++ [(k, v)], XNone)
    | MGet k => (l, match find_pos (serialize k) (keys_of l) with
                    | Some i => match nth_error l i with Some (_, v) => XVal v | None => XIndexError end
                    | None => XKeyError end)
    | MDel k => match find_pos (serialize k) (keys_of l) with
                | Some i => (remove_nth i l, XNone)
                | None => (l, XKeyError) end
    | MPopItem => match rev l with [] => (l, XKeyError) | kv :: r => (rev r, XItem kv) end
    | MLen => (l, XLen (length l))
    | MKeys => (l, XKeys (map fst l))
    | MItems => (l, XItems l)
    | MEq other => (l, XBool (pairs_eqb l (fold_left (fun a kv => a_insert a (fst kv) (snd kv)) other [])))
    end.

  (* representation invariant: the index maps exactly the serialized key of items[i] to i; keys are distinct *)
  Definition wf (m : omap) : Prop :=
    NoDup (keys_of (items m)) /\ forall fk, idx_get (index m) fk = find_pos fk (keys_of (items m)).

  (* _insert_unchecked is only used with the key's own serialization and a key not present yet *)
  Definition op_pre (l : list (K * V)) (o : op) : Prop :=
    match o with
    | MInsertUnchecked k fk v => fk = serialize k /\ find_pos fk (keys_of l) = None
    | _ => True
    end.

  Fixpoint run_refines (m : omap) (ops : list op) : Prop :=
    match ops with
    | [] => True
    | o :: r => op_pre (items m) o ->
                let m' := fst (step m o) in
                wf m' /\ items m' = fst (a_step (items m) o) /\ snd (step m o) = snd (a_step (items m) o) /\ run_refines m' r
    end.
End OrderedMapModel.

Arguments MInsert {K V} k v. Arguments MInsertUnchecked {K V} k fk v. Arguments MGet {K V} k.
Arguments MDel {K V} k. Arguments MPopItem {K V}. Arguments MLen {K V}. Arguments MKeys {K V}.
Arguments MItems {K V}. Arguments MEq {K V} other.
Arguments XNone {K V}. Arguments XVal {K V} v. Arguments XItem {K V} kv. Arguments XLen {K V} n.
Arguments XKeys {K V} l. Arguments XItems {K V} l. Arguments XBool {K V} b. Arguments XKeyError {K V}.
Arguments XIndexError {K V}.
Arguments items {K V} o. Arguments index {K V} o.

(* instance used for running: a key is (identity of the Python object, its serialized bytes as computed by the
   real _serialize_key), values are ints *)
Definition kz_serialize (k : Z * list Z) : list Z := snd k.
Definition kz_eqb (a b : Z * list Z) : bool := (fst a =? fst b)%Z.
