(* C43 model: ControlConnection._get_schema_mismatches / wait_for_schema_agreement / _refresh_schema and
   refresh_schema_and_set_result (cassandra/cluster.py), as the code is NOW (after fix e424523).  No proofs in this file.

   Time is integer milliseconds of the virtual clock the harness installs as ControlConnection._time.
   Endpoints and schema versions are opaque identifiers (Z).  A schema version is `option Z`: None = null / empty
   (`if not schema_ver`).  One `poll` = one iteration of the `while elapsed < total_timeout` loop = one call of
   connection.wait_for_responses together with the host states Metadata holds when its result is examined. *)
From Coq Require Import ZArith List Bool.
Import ListNotations.
Local Open Scope Z_scope.

(* Host.is_up: True / False / None *)
Inductive upstate := Up | Down | Unknown.
Definition endpoint := (Z * Z)%type.             (* DefaultEndPoint (address, port) *)
Definition ep_eqb (a b : endpoint) : bool := (fst a =? fst b) && (snd a =? snd b).
Definition hoststates := list (endpoint * upstate).   (* Metadata._hosts restricted to what the property reads; absent = unknown host *)
Definition version := option Z.

Record snapshot := {
  s_local : option version;            (* None: system.local returned no row *)
  s_peers : list (endpoint * version)  (* (endpoint built by endpoint_factory.create(row), row['schema_version']) *)
}.

Fixpoint lookup (h : hoststates) (e : endpoint) : option upstate :=
  match h with
  | [] => None
  | (e', u) :: r => if ep_eqb e e' then Some u else lookup r e
  end.

(* a row of system.peers (native_port = None: the table has no such column) or system.peers_v2, as stored in the table.
   The schema-agreement peers query selects the address AND (peers_v2) native_port, so endpoint_factory.create builds
   (address, native_port); without a positive port the cluster's default port is used (DefaultEndPointFactory) *)
Definition raw_row := (Z * option Z * version)%type.

Definition row_endpoint (default_port : Z) (r : raw_row) : endpoint :=
  let '(a, p, _) := r in
  (a, match p with Some q => if 0 <? q then q else default_port | None => default_port end).

Definition RSn (default_port : Z) (local : option version) (rows : list raw_row) : snapshot :=
  {| s_local := local; s_peers := map (fun r : raw_row => (row_endpoint default_port r, snd r)) rows |}.

(* `peer and peer.is_up is not False` *)
Definition counted (h : hoststates) (e : endpoint) : bool :=
  match lookup h e with
  | Some Down => false
  | Some _ => true
  | None => false
  end.

(* keys of the `versions` defaultdict, in insertion order *)
Definition add_version (v : Z) (vs : list Z) : list Z :=
  if existsb (Z.eqb v) vs then vs else vs ++ [v].

Definition local_versions (s : snapshot) : list Z :=
  match s_local s with
  | Some (Some v) => [v]
  | _ => []
  end.

Fixpoint peer_versions (h : hoststates) (rows : list (endpoint * version)) (acc : list Z) : list Z :=
  match rows with
  | [] => acc
  | (e, None) :: r => peer_versions h r acc
  | (e, Some v) :: r => if counted h e then peer_versions h r (add_version v acc) else peer_versions h r acc
  end.

Definition versions (h : hoststates) (s : snapshot) : list Z := peer_versions h (s_peers s) (local_versions s).

(* _get_schema_mismatches(...) is None  <->  len(versions) == 1 *)
Definition agreed (h : hoststates) (s : snapshot) : bool := Nat.eqb (length (versions h s)) 1.

(* ------------------------------------------------------------------ the wait loop *)
Inductive response :=
| RTimeout                              (* wait_for_responses raised OperationTimedOut after `timeout` *)
| RShutdown (cc_is_shutdown : bool)     (* raised ConnectionShutdown; flag = ControlConnection._is_shutdown at that time *)
| RSnap (s : snapshot).

Record poll := {
  p_resp : response;
  p_hosts : hoststates;
  p_dur : Z                             (* ms the query took when it answered (not used for RTimeout) *)
}.

Record cfg := {
  budget : Z;                           (* total_timeout, ms: wait_time or Cluster.max_schema_agreement_wait *)
  qtimeout : Z                          (* ControlConnection._timeout, ms *)
}.

Inductive event := EQuery (timeout : Z) | ESleep (ms : Z).

Inductive outcome :=
| Agreed (k : nat)                      (* returned True after examining poll number k (0-based) *)
| AgreedPreloaded                       (* returned True on the preloaded results, no poll *)
| Bypassed                              (* total_timeout <= 0: returned True without looking (documented bypass) *)
| Disagreed (elapsed : Z)               (* returned False; elapsed = clock - start when the loop condition failed *)
| Aborted                               (* returned None (shutdown) *)
| Raised                                (* ConnectionShutdown re-raised *)
| More (k : nat) (elapsed : Z).         (* the script ended while the loop was about to issue poll number k *)

Definition sleep_ms : Z := 200.

(* one iteration of the loop body (elapsed < total_timeout already checked): either the loop goes on with a new
   `elapsed`, or wait_for_schema_agreement returns / raises *)
Inductive step_result := Continue (elapsed' : Z) | Return (o : outcome).

Definition poll_step (c : cfg) (k : nat) (elapsed : Z) (p : poll) : list event * step_result :=
  let t := Z.min (qtimeout c) (budget c - elapsed) in
  match p_resp p with
  | RTimeout => ([EQuery t], Continue (elapsed + t))
  | RShutdown sd => ([EQuery t], Return (if sd then Aborted else Raised))
  | RSnap s =>
      if agreed (p_hosts p) s then ([EQuery t], Return (Agreed k))
      else ([EQuery t; ESleep sleep_ms], Continue (elapsed + p_dur p + sleep_ms))
  end.

(* the `while elapsed < total_timeout` loop; k counts polls already made *)
Fixpoint loop (c : cfg) (k : nat) (elapsed : Z) (polls : list poll) : list event * outcome :=
  if elapsed <? budget c then
    match polls with
    | [] => ([], More k elapsed)
    | p :: rest =>
        match poll_step c k elapsed p with
        | (ev, Return o) => (ev, o)
        | (ev, Continue e') => let '(ev', o) := loop c (S k) e' rest in (ev ++ ev', o)
        end
    end
  else ([], Disagreed elapsed).

(* wait_for_schema_agreement(connection, preloaded_results, wait_time) *)
Definition wait (c : cfg) (cc_shutdown : bool) (pre : option (hoststates * snapshot)) (polls : list poll)
  : list event * outcome :=
  if budget c <=? 0 then ([], Bypassed)
  else if cc_shutdown then ([], Aborted)
  else match pre with
       | Some (h, s) => if agreed h s then ([], AgreedPreloaded) else loop c 0 0 polls
       | None => loop c 0 0 polls
       end.

(* truthiness of the value wait_for_schema_agreement returned *)
Definition truthy (o : outcome) : bool :=
  match o with
  | Agreed _ | AgreedPreloaded | Bypassed => true
  | _ => false
  end.

(* ------------------------------------------------------------------ the schema-change path of ResponseFuture *)
Record env := {
  cluster_shutdown : bool;              (* Cluster.is_shutdown *)
  cc_shutdown : bool;                   (* ControlConnection._is_shutdown *)
  meta_enabled : bool;                  (* schema_metadata_enabled *)
  refresh_raises : bool                 (* Metadata.refresh raises (collaborator outside the property) *)
}.

Record future_obs := {
  f_is_schema_agreed : bool;            (* ResponseFuture.is_schema_agreed after everything ran *)
  f_at_delivery : option bool;          (* is_schema_agreed as seen by an add_callback callback / a result() waiter *)
  f_refreshed : bool;                   (* Metadata.refresh was called *)
  f_resubmitted : bool;                 (* control_conn.refresh_schema re-submitted after an exception *)
  f_final_set : bool;                   (* _set_final_result(None) happened *)
  f_events : list event;
  f_wait : option outcome               (* None: wait_for_schema_agreement was not called *)
}.

(* _refresh_schema(connection, **event) with force=False: Some b = returned b, None = raised *)
Definition refresh_schema (e : env) (o : outcome) : option bool * bool (* refreshed? *) :=
  match o with
  | Raised => (None, false)
  | _ =>
    if negb (meta_enabled e) then (Some (truthy o), false)     (* schema metadata disabled: nothing to refresh, report the verdict *)
    else if negb (truthy o) then (Some false, false)
    else if refresh_raises e then (None, true)
    else (Some true, true)
  end.

(* the future as its observers see it: the flag, and what the flag was when the request was delivered
   (_set_final_result: event set, add_callback callbacks run, result() returns) *)
Record fut := { fu_flag : bool; fu_delivered : option bool }.
Inductive fstep := FSet (b : bool) | FDeliver.

Definition fstep_apply (f : fut) (s : fstep) : fut :=
  match s with
  | FSet b => {| fu_flag := b; fu_delivered := fu_delivered f |}
  | FDeliver => {| fu_flag := fu_flag f; fu_delivered := match fu_delivered f with None => Some (fu_flag f) | d => d end |}
  end.

(* _set_result: `self.is_schema_agreed = False`; refresh_schema_and_set_result: `try: fut.is_schema_agreed = _refresh_schema(...)`
   (no assignment when it raised), `finally: fut._set_final_result(None)` -- in this order *)
Definition future_steps (r : option bool) : list fstep :=
  [FSet false] ++ match r with Some b => [FSet b] | None => [] end ++ [FDeliver].

Definition run_future (steps : list fstep) : fut := fold_left fstep_apply steps {| fu_flag := true; fu_delivered := None |}.

(* _set_result(RESULT_KIND_SCHEMA_CHANGE): is_schema_agreed = False; submit(refresh_schema_and_set_result, ...) *)
Definition schema_change_path (e : env) (c : cfg) (polls : list poll) : future_obs :=
  if cluster_shutdown e then
    let f := run_future (future_steps (Some false)) in
    {| f_is_schema_agreed := fu_flag f; f_at_delivery := fu_delivered f; f_refreshed := false; f_resubmitted := false;
       f_final_set := true; f_events := []; f_wait := None |}
  else
    let '(ev, o) := wait c (cc_shutdown e) None polls in
    let '(r, refreshed) := refresh_schema e o in
    let f := run_future (future_steps r) in
    {| f_is_schema_agreed := fu_flag f; f_at_delivery := fu_delivered f;
       f_refreshed := refreshed;
       f_resubmitted := match r with None => true | _ => false end;
       f_final_set := true;
       f_events := ev; f_wait := Some o |}.

(* ------------------------------------------------------------------ boolean comparison helpers for the harness *)
Definition event_eqb (a b : event) : bool :=
  match a, b with
  | EQuery x, EQuery y => x =? y
  | ESleep x, ESleep y => x =? y
  | _, _ => false
  end.

Fixpoint events_eqb (a b : list event) : bool :=
  match a, b with
  | [], [] => true
  | x :: a', y :: b' => event_eqb x y && events_eqb a' b'
  | _, _ => false
  end.

(* what the harness can see of an outcome: the returned value, the number of polls made, the clock *)
Inductive obs_outcome := OTrue (polls : nat) | OFalse (elapsed : Z) | ONone | ORaised | OMore (polls : nat) (elapsed : Z).

Definition observe (o : outcome) : obs_outcome :=
  match o with
  | Agreed k => OTrue (S k)
  | AgreedPreloaded | Bypassed => OTrue 0
  | Disagreed e => OFalse e
  | Aborted => ONone
  | Raised => ORaised
  | More k e => OMore k e
  end.

Definition obs_eqb (a b : obs_outcome) : bool :=
  match a, b with
  | OTrue x, OTrue y => Nat.eqb x y
  | OFalse x, OFalse y => x =? y
  | ONone, ONone => true
  | ORaised, ORaised => true
  | OMore k x, OMore j y => Nat.eqb k j && (x =? y)
  | _, _ => false
  end.

Definition subset (a b : list Z) : bool := forallb (fun x => existsb (Z.eqb x) b) a.
Definition set_eqb (a b : list Z) : bool := subset a b && subset b a.

Definition opt_obs_eqb (a : option outcome) (b : option obs_outcome) : bool :=
  match a, b with
  | Some x, Some y => obs_eqb (observe x) y
  | None, None => true
  | _, _ => false
  end.

(* impl side of a schema-change run, as recorded by the harness *)
Record future_seen := {
  i_is_schema_agreed : bool; i_at_delivery : option bool; i_refreshed : bool; i_resubmitted : bool; i_final_set : bool;
  i_events : list event; i_wait : option obs_outcome
}.

Definition future_eqb (a : future_obs) (b : future_seen) : bool :=
  Bool.eqb (f_is_schema_agreed a) (i_is_schema_agreed b) &&
  match f_at_delivery a, i_at_delivery b with Some x, Some y => Bool.eqb x y | None, None => true | _, _ => false end &&
  Bool.eqb (f_refreshed a) (i_refreshed b) &&
  Bool.eqb (f_resubmitted a) (i_resubmitted b) && Bool.eqb (f_final_set a) (i_final_set b) &&
  events_eqb (f_events a) (i_events b) && opt_obs_eqb (f_wait a) (i_wait b).

(* a direct wait_for_schema_agreement call *)
Definition wait_eqb (m : list event * outcome) (ev : list event) (o : obs_outcome) : bool :=
  events_eqb (fst m) ev && obs_eqb (observe (snd m)) o.

(* short constructors for generated cases *)
Definition Sn := Build_snapshot.
Definition Pl := Build_poll.

(* per-poll check of _get_schema_mismatches: impl's key set (None = returned None) against the model *)
Definition mismatch_eqb (h : hoststates) (s : snapshot) (impl : option (list Z)) : bool :=
  match impl with
  | None => agreed h s
  | Some ks => negb (agreed h s) && set_eqb ks (versions h s) && Nat.eqb (length ks) (length (versions h s))
  end.
