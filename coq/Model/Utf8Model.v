(* UTF-8 as Python's str.encode('utf-8') / bytes.decode('utf8') (strict): code points are Z, bytes are Z.
   encode raises (None) on surrogates; decode rejects overlong forms, surrogates, > U+10FFFF, stray/missing
   continuation bytes.  NO PROOFS HERE. *)
From Coq Require Import ZArith List Bool.
Import ListNotations.
Local Open Scope Z_scope.

Definition is_surrogate (c : Z) : bool := (55296 <=? c) && (c <=? 57343).

Definition utf8_enc1 (c : Z) : option (list Z) :=
  if c <? 0 then None
  else if c <? 128 then Some [c]
  else if c <? 2048 then Some [192 + c / 64; 128 + c mod 64]
  else if c <? 65536 then
    if is_surrogate c then None
    else Some [224 + c / 4096; 128 + (c / 64) mod 64; 128 + c mod 64]
  else if c <? 1114112 then
    Some [240 + c / 262144; 128 + (c / 4096) mod 64; 128 + (c / 64) mod 64; 128 + c mod 64]
  else None.

Fixpoint utf8_encode (cps : list Z) : option (list Z) :=
  match cps with
  | [] => Some []
  | c :: r =>
    match utf8_enc1 c, utf8_encode r with
    | Some a, Some b => Some (a ++ b)
    | _, _ => None
    end
  end.

Definition is_cont (b : Z) : bool := (128 <=? b) && (b <? 192).

Fixpoint utf8_decode (bs : list Z) : option (list Z) :=
  match bs with
  | [] => Some []
  | b0 :: r0 =>
    if (0 <=? b0) && (b0 <? 128) then
      match utf8_decode r0 with Some cs => Some (b0 :: cs) | None => None end
    else if (192 <=? b0) && (b0 <? 224) then
      match r0 with
      | b1 :: r1 =>
        let c := (b0 - 192) * 64 + (b1 - 128) in
        if is_cont b1 && (128 <=? c) then
          match utf8_decode r1 with Some cs => Some (c :: cs) | None => None end
        else None
      | _ => None
      end
    else if (224 <=? b0) && (b0 <? 240) then
      match r0 with
      | b1 :: b2 :: r2 =>
        let c := (b0 - 224) * 4096 + (b1 - 128) * 64 + (b2 - 128) in
        if is_cont b1 && is_cont b2 && (2048 <=? c) && negb (is_surrogate c) then
          match utf8_decode r2 with Some cs => Some (c :: cs) | None => None end
        else None
      | _ => None
      end
    else if (240 <=? b0) && (b0 <? 248) then
      match r0 with
      | b1 :: b2 :: b3 :: r3 =>
        let c := (b0 - 240) * 262144 + (b1 - 128) * 4096 + (b2 - 128) * 64 + (b3 - 128) in
        if is_cont b1 && is_cont b2 && is_cont b3 && (65536 <=? c) && (c <? 1114112) then
          match utf8_decode r3 with Some cs => Some (c :: cs) | None => None end
        else None
      | _ => None
      end
    else None
  end.

(* str.encode('ascii') / bytes.decode('ascii') *)
Definition all_ascii (l : list Z) : bool := forallb (fun c => (0 <=? c) && (c <? 128)) l.
