(* C45, native protocol v1/v2: one HostConnectionPool (cassandra/pool.py) of a session, across Session/Cluster.shutdown.
   _connections is a copy-on-write list; connections are created by executor tasks (_create_new_connection,
   _retrying_replace -> _add_conn_if_under_max), dropped into the trash (_maybe_trash_connection), replaced when lost
   (_replace), and closed by shutdown().  Connection ids are local to the pool (0, 1 = the core connections).
   One step = one call; `d` on a task: 0 nothing special, 1 the shutdown runs while the task's connect is in progress,
   2 the shutdown runs right before the task's locked install.  LShutdownRacing k: the creation task k runs to completion in
   the window just before shutdown() takes the pool lock (after Session.is_shutdown was set).
   No proofs in this file. *)
From Coq Require Import List Bool Arith.
Import ListNotations.

Inductive lt := LCreate | LRetry.
Inductive lop :=
| LSpawn                                  (* _maybe_spawn_new_connection *)
| LRun (k : nat) (ok : bool) (d : nat)    (* the executor runs task k *)
| LShutdown                               (* Session.shutdown -> pool.shutdown *)
| LShutdownRacing (k : nat)
| LTrash (i : nat) (busy : bool)          (* _maybe_trash_connection(conns[i]) *)
| LLost (i : nat)                         (* conns[i] died: return_connection -> _replace *)
| LTrashDone (i : nat).                   (* the last request of trash[i] completes *)

Record ls := mkl { lnconn : nat; lclosed : list nat; lconns : list nat; ltrash : list nat; lshut : bool; lsess_down : bool;
                   lopen : nat; lsched : nat; lqueue : list lt }.

Definition core := 2.
Definition maxc := 8.

Definition l_close (s : ls) (l : list nat) : ls :=
  mkl (lnconn s) (l ++ lclosed s) (lconns s) (ltrash s) (lshut s) (lsess_down s) (lopen s) (lsched s) (lqueue s).
Definition l_submit (s : ls) (t : lt) : ls :=           (* Session.submit: nothing once the session is shut down *)
  if lsess_down s then s
  else mkl (lnconn s) (lclosed s) (lconns s) (ltrash s) (lshut s) (lsess_down s) (lopen s) (lsched s) (lqueue s ++ [t]).

(* HostConnectionPool.shutdown *)
Definition pool_shutdown (s : ls) : ls :=
  if lshut s then s else
  mkl (lnconn s) (ltrash s ++ lconns s ++ lclosed s) (lconns s) (ltrash s) true (lsess_down s)
      (lopen s - length (lconns s)) (lsched s) (lqueue s).
(* Session.shutdown: the flag first, then every pool *)
Definition sess_flag (s : ls) : ls :=
  mkl (lnconn s) (lclosed s) (lconns s) (ltrash s) (lshut s) true (lopen s) (lsched s) (lqueue s).
Definition shutdown (s : ls) : ls := pool_shutdown (sess_flag s).

(* the locked region that follows the connect of connection c (s1: the state right after the connect) *)
Definition add_conn_ok (s1 : ls) (c : nat) (d : nat) : ls * bool :=
  let s := if (d =? 1) || (d =? 2) then shutdown s1 else s1 in
  if lshut s then      (* shut down while connecting: the locked region closes the new connection *)
    (mkl (lnconn s) (c :: lclosed s) (lconns s) (ltrash s) (lshut s) (lsess_down s) (lopen s - 1) (lsched s) (lqueue s), true)
  else (mkl (lnconn s) (lclosed s) (lconns s ++ [c]) (ltrash s) (lshut s) (lsess_down s) (lopen s) (lsched s) (lqueue s), true).

(* _add_conn_if_under_max; returns (state, replaced?) *)
Definition add_conn (s : ls) (ok : bool) (d : nat) : ls * bool :=
  if lshut s then (s, true) else
  if maxc <=? lopen s then (s, true) else
  if ok then
    add_conn_ok (mkl (S (lnconn s)) (lclosed s) (lconns s) (ltrash s) (lshut s) (lsess_down s) (S (lopen s)) (lsched s) (lqueue s)) (lnconn s) d
  else (mkl (lnconn s) (lclosed s) (lconns s) (ltrash s) (lshut s) (lsess_down s) (lopen s) (lsched s) (lqueue s), false).

Definition run_lt (s : ls) (t : lt) (ok : bool) (d : nat) : ls :=
  match t with
  | LCreate => let '(s, _) := add_conn s ok d in        (* finally: _scheduled_for_creation -= 1 *)
               mkl (lnconn s) (lclosed s) (lconns s) (ltrash s) (lshut s) (lsess_down s) (lopen s) (lsched s - 1) (lqueue s)
  | LRetry => let '(s, r) := add_conn s ok d in if r then s else l_submit s LRetry
  end.

Fixpoint remove_nth {A} (k : nat) (l : list A) : list A :=
  match l, k with [], _ => [] | _ :: t, O => t | x :: t, S k' => x :: remove_nth k' t end.

Definition pop_task (s : ls) (k : nat) : ls :=
  mkl (lnconn s) (lclosed s) (lconns s) (ltrash s) (lshut s) (lsess_down s) (lopen s) (lsched s) (remove_nth k (lqueue s)).

Definition lstep (s : ls) (o : lop) : ls :=
  match o with
  | LSpawn => if (1 <=? lsched s) || (maxc <=? lopen s) then s else
              l_submit (mkl (lnconn s) (lclosed s) (lconns s) (ltrash s) (lshut s) (lsess_down s) (lopen s) (S (lsched s)) (lqueue s)) LCreate
  | LRun k ok d => match nth_error (lqueue s) k with
                   | Some t => run_lt (pop_task s k) t ok d
                   | None => s
                   end
  | LShutdown => shutdown s
  | LShutdownRacing k =>
      match nth_error (lqueue s) k with
      | Some t => if lsess_down s then s else pool_shutdown (run_lt (pop_task (sess_flag s) k) t true 0)
      | None => s
      end
  | LTrash i busy =>
      match nth_error (lconns s) i with
      | Some c => if core <? lopen s then
                    let s1 := mkl (lnconn s) (lclosed s) (remove_nth i (lconns s)) (ltrash s) (lshut s) (lsess_down s) (lopen s - 1) (lsched s) (lqueue s) in
                    if busy then mkl (lnconn s1) (lclosed s1) (lconns s1) (c :: ltrash s1) (lshut s1) (lsess_down s1) (lopen s1) (lsched s1) (lqueue s1)
                    else l_close s1 [c]
                  else s
      | None => s
      end
  | LLost i =>
      match nth_error (lconns s) i with
      | Some c => l_submit (l_close (mkl (lnconn s) (lclosed s) (remove_nth i (lconns s)) (ltrash s) (lshut s) (lsess_down s) (lopen s - 1)
                                         (lsched s) (lqueue s)) [c]) LRetry
      | None => s
      end
  | LTrashDone i =>
      match nth_error (ltrash s) i with
      | Some c => if existsb (Nat.eqb c) (lclosed s) then s     (* already dead: stays in _trash *)
                  else l_close (mkl (lnconn s) (lclosed s) (lconns s) (remove_nth i (ltrash s)) (lshut s) (lsess_down s) (lopen s) (lsched s) (lqueue s)) [c]
      | None => s
      end
  end.

Definition lrun (s : ls) (os : list lop) : ls := fold_left lstep os s.
Definition linit : ls := mkl 2 [] [0; 1] [] false false 2 0 [].

(* ---------------------------------------------------------------- observation *)
From Coq Require Import ZArith.
Local Open Scope Z_scope.
Definition lzn (n : nat) : Z := Z.of_nat n.
Definition lobs (s : ls) : list Z :=
  [lzn (lnconn s); Z.b2z (lshut s); Z.b2z (lsess_down s); lzn (lopen s); lzn (lsched s); -1]
  ++ map lzn (filter (fun c => existsb (Nat.eqb c) (lclosed s)) (seq 0 (lnconn s))) ++ [-2]
  ++ map lzn (lconns s) ++ [-3] ++ map lzn (ltrash s) ++ [-4]
  ++ map (fun t => match t with LCreate => 1 | LRetry => 2 end) (lqueue s).
Fixpoint ltrace (s : ls) (os : list lop) : list (list Z) :=
  match os with [] => [] | o :: os' => let s' := lstep s o in lobs s' :: ltrace s' os' end.
Fixpoint lz_eqb (a b : list Z) : bool :=
  match a, b with [], [] => true | x :: a', y :: b' => (x =? y) && lz_eqb a' b' | _, _ => false end.
Fixpoint lzl_eqb (a b : list (list Z)) : bool :=
  match a, b with [], [] => true | x :: a', y :: b' => lz_eqb x y && lzl_eqb a' b' | _, _ => false end.
Definition lcorr (os : list lop) (expected : list (list Z)) : bool := lzl_eqb (ltrace linit os) expected.
