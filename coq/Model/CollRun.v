(* C33: executable comparison used by the correspondence harness: the model's trace (state and result after
   every operation) is flattened to integers and hashed; checks/C33.py hashes the implementation's trace the
   same way (polynomial hash modulo 2^61-1). *)
From Coq Require Import ZArith List Bool Arith.
From Verif Require Import SortedSet OrderedMap.
Import ListNotations.
Local Open Scope Z_scope.

Definition H_MOD : Z := 2305843009213693951.
Definition hstep (h x : Z) : Z := (h * 1000003 + x + 12345) mod H_MOD.
Definition hlist (l : list Z) : Z := fold_left hstep l 0.

Section SetRun.
  Variable A : Type.
  Variable ltb eqb : A -> A -> bool.
  Variable enc : A -> list Z.

  Definition enc_items (l : list A) : list Z := Z.of_nat (length l) :: flat_map enc l.
  Definition enc_out (o : SortedSet.out A) : list Z :=
    match o with
    | RNone => [0]
    | RBool b => [1; if b then 1 else 0]
    | RElem x => 2 :: enc x
    | RItems l => 3 :: enc_items l
    | RLen n => [4; Z.of_nat n]
    | RKeyError => [5]
    | RIndexError => [6]
    end.
  Definition enc_trace (t : list (list A * SortedSet.out A)) : list Z :=
    flat_map (fun sx => enc_items (fst sx) ++ enc_out (snd sx)) t.

  Definition enc_trace2 (t : list ((list A * list A) * SortedSet.out A)) : list Z :=
    flat_map (fun sx => enc_items (fst (fst sx)) ++ enc_items (snd (fst sx)) ++ enc_out (snd sx)) t.

  (* the model (the set and its copy register, both empty at first) reproduces the recorded (items of the set, items of
     the copy, result) after every operation *)
  Definition set_check (ops : list (SortedSet.op2 A)) (expected : Z) : bool :=
    hlist (enc_trace2 (SortedSet.run2 A ltb eqb ([], []) ops)) =? expected.
End SetRun.

Definition enc_z (x : Z) : list Z := [x].
Definition enc_lz (x : list Z) : list Z := Z.of_nat (length x) :: x.
Definition chk_z := set_check Z z_ltb z_eqb enc_z.
Definition chk_lz := set_check (list Z) lz_ltb lz_eqb enc_lz.
Definition chk_bm := set_check Z bm_ltb bm_eqb enc_z.
Definition trace_z ops := SortedSet.run2 Z z_ltb z_eqb ([], []) ops.
Definition trace_lz ops := SortedSet.run2 (list Z) lz_ltb lz_eqb ([], []) ops.
Definition trace_bm ops := SortedSet.run2 Z bm_ltb bm_eqb ([], []) ops.

(* maps: keys are (object id, serialized bytes), values ints *)
Definition mk := (Z * list Z)%type.
Definition enc_k (k : mk) : list Z := fst k :: Z.of_nat (length (snd k)) :: snd k.
Definition enc_kvs (l : list (mk * Z)) : list Z :=
  Z.of_nat (length l) :: flat_map (fun kv => enc_k (fst kv) ++ [snd kv]) l.
Definition enc_mout (o : OrderedMap.out mk Z) : list Z :=
  match o with
  | XNone => [0]
  | XVal v => [1; v]
  | XItem kv => 2 :: enc_k (fst kv) ++ [snd kv]
  | XLen n => [3; Z.of_nat n]
  | XKeys l => 4 :: Z.of_nat (length l) :: flat_map enc_k l
  | XItems l => 5 :: enc_kvs l
  | XBool b => [6; if b then 1 else 0]
  | XKeyError => [7]
  | XIndexError => [8]
  end.
Definition trace_map (ops : list (OrderedMap.op mk Z)) :=
  map (fun mx => (items (fst mx), snd mx)) (OrderedMap.run mk Z kz_serialize kz_eqb Z.eqb (empty mk Z) ops).
Definition map_check (ops : list (OrderedMap.op mk Z)) (expected : Z) : bool :=
  hlist (flat_map (fun sx => enc_kvs (fst sx) ++ enc_mout (snd sx)) (trace_map ops)) =? expected.
