(* C47 model: the connection handshake of cassandra/connection.py as a state machine over server replies.

   One model step = one reactor callback into the connection (all of them run on the single event-loop thread):
     - a decoded reply delivered by Connection.process_msg to the callback that send_msg registered
       (_handle_options_response / _handle_startup_response / _handle_auth_response, each @defunct_on_error),
     - the peer closing the socket  -> reactor close()      (asyncioreactor._close / twistedreactor.close),
     - a socket error               -> Connection.defunct(err).
   Outputs = frames handed to push(), with the flags a peer would see on the wire.
   Compression algorithm names are integers (any); `snappy` is the one name the v5 rule singles out.
   No proofs in this file. *)
From Coq Require Import ZArith List Bool.
Import ListNotations.
Local Open Scope Z_scope.

(* ------------------------------------------------------------------ configuration *)
Inductive authk := ANone | ASasl | ADict.                 (* authenticator=None | Authenticator object | credentials dict *)
Inductive compset := CompOff | CompAuto | CompName (n : Z). (* compression=False | True | 'name' *)

Record config := mkConfig {
  c_auth : authk;
  c_comp : compset;
  c_local : list Z;        (* keys of locally_supported_compressions, in preference order *)
  c_version : Z;           (* protocol_version *)
  c_guard : bool           (* reactor close() records ConnectionShutdown when the handshake is unfinished
                              (asyncore always did; asyncio/twisted/eventlet/gevent since the C47-1 fix) *)
}.

Definition snappy : Z := 1.

(* ProtocolVersion.has_checksumming_support: V5 <= version < DSE_V1 *)
Definition has_cs (v : Z) : bool := (5 <=? v) && (v <? 65).

(* ------------------------------------------------------------------ inputs *)
Inductive errk := EkAuth | EkServer | EkProtocol.   (* BadCredentials 0x0100 | any other ErrorMessage | ProtocolException 0x000A *)

Inductive reply :=
| RSupported (remote : list Z)     (* SUPPORTED, options['COMPRESSION'] *)
| RReady
| RAuthenticate
| RChallenge (good : bool)         (* AUTH_CHALLENGE; good=false: the authenticator's evaluate_challenge raises *)
| RAuthSuccess
| RError (k : errk)
| RUnexpected                      (* any other message type (RESULT, EVENT, ...) *)
| RDisconnect                      (* peer closed the socket: reactor calls close() *)
| RSockErr.                        (* recv/send failed: reactor calls defunct(err) *)

(* ------------------------------------------------------------------ outputs *)
Inductive mkind := MOptions | MStartup (compression : option Z) | MAuthResponse | MCredentials.

Record frame := mkFrame {
  f_kind : mkind;
  f_compressed : bool;     (* COMPRESSED flag of the CQL frame (body passed through the compressor) *)
  f_checksummed : bool;    (* wrapped in a v5 segment *)
  f_segcomp : bool         (* segment written by the compressing segment codec *)
}.

(* class of Connection.last_error *)
Inductive errtag := EAuthFailed | EConnShutdown | EConnException | EProtocolError | EServerProtocolExc
                  | EUnsupportedOp | EKeyError | EOsError | EException.

(* which handler is registered for the outstanding request *)
Inductive cb := CbOptions | CbStartup (did_authenticate : bool) | CbAuth.

Record state := mkState {
  pending : option cb;        (* Connection._requests: the single outstanding handshake request *)
  pcomp : option Z;           (* _compressor (staged by SUPPORTED) *)
  comp : option Z;            (* compressor (applied to outgoing frames) *)
  decomp : option Z;          (* decompressor *)
  cksum : bool;               (* _is_checksumming_enabled *)
  seglz4 : bool;              (* _segment_codec is the compressing codec *)
  connected : bool;           (* connected_event.is_set() *)
  defunct : bool;             (* is_defunct *)
  closed : bool;              (* is_closed *)
  last_error : option errtag  (* last_error *)
}.

Definition is_some {A} (o : option A) : bool := match o with Some _ => true | None => false end.
Definition is_none {A} (o : option A) : bool := match o with Some _ => false | None => true end.

(* what Connection.factory does when the wait returns: hand the connection out iff no last_error and the event is set *)
Definition reported_ready (s : state) : bool := connected s && is_none (last_error s).

Fixpoint memZ (x : Z) (l : list Z) : bool :=
  match l with [] => false | y :: l' => (x =? y) || memZ x l' end.

(* ------------------------------------------------------------------ Connection.defunct *)
Definition do_defunct (s : state) (e : errtag) : state :=
  if defunct s || closed s then s
  else mkState None (pcomp s) (comp s) (decomp s) (cksum s) (seglz4 s) true true true (Some e).
  (* is_defunct; last_error = exc; close() [is_closed; reactor close skips the rest when defunct];
     error_all_requests: the pending handler is called with ConnectionShutdown and returns at `if self.is_defunct`;
     connected_event.set() *)

(* ------------------------------------------------------------------ reactor close() on peer disconnect *)
Definition do_close (guard : bool) (s : state) : state :=
  if closed s then s
  else if defunct s then mkState (pending s) (pcomp s) (comp s) (decomp s) (cksum s) (seglz4 s) (connected s) true true (last_error s)
  else
    (* error_all_requests(ConnectionShutdown): the pending handler raises it, defunct_on_error calls defunct(),
       which returns at once because is_closed is already set: last_error is NOT written by that path *)
    let le := if guard && negb (connected s) then Some EConnShutdown else last_error s in
    mkState None (pcomp s) (comp s) (decomp s) (cksum s) (seglz4 s) true false true le.

(* ------------------------------------------------------------------ send_msg *)
Definition body_nonempty (k : mkind) : bool := match k with MOptions => false | _ => true end.

Definition encode_ok (v : Z) (k : mkind) : bool :=
  match k with MCredentials => v <=? 1 | _ => true end.    (* CredentialsMessage.send_body raises for v > 1 *)

Definition mk_frame (v : Z) (s : state) (k : mkind) : frame :=
  mkFrame k (is_some (comp s) && negb (has_cs v) && body_nonempty k) (cksum s) (cksum s && seglz4 s).

(* send_msg(msg, cb) inside a @defunct_on_error handler: the request is registered, then encoding may raise *)
Definition send (v : Z) (s : state) (k : mkind) (c : cb) : state * list frame :=
  if encode_ok v k then
    (mkState (Some c) (pcomp s) (comp s) (decomp s) (cksum s) (seglz4 s) (connected s) (defunct s) (closed s) (last_error s),
     [mk_frame v s k])
  else (do_defunct s EUnsupportedOp, []).

(* _enable_compression ; _enable_checksumming (only for checksumming versions) *)
Definition enable (v : Z) (s : state) : state :=
  let c := match pcomp s with Some a => Some a | None => comp s end in
  if has_cs v
  then mkState (pending s) (pcomp s) c (decomp s) true (is_some c) (connected s) (defunct s) (closed s) (last_error s)
  else mkState (pending s) (pcomp s) c (decomp s) (cksum s) (seglz4 s) (connected s) (defunct s) (closed s) (last_error s).

Definition set_connected (s : state) : state :=
  mkState (pending s) (pcomp s) (comp s) (decomp s) (cksum s) (seglz4 s) true (defunct s) (closed s) (last_error s).

(* ------------------------------------------------------------------ _handle_options_response: compression choice *)
Inductive nego := NegoNone | NegoSome (a : Z) | NegoFail (e : errtag).

Definition negotiate (cfg : config) (remote : list Z) : nego :=
  match c_comp cfg with
  | CompOff => NegoNone
  | _ =>
    match filter (fun k => memZ k remote) (c_local cfg) with
    | [] => NegoNone                                   (* no overlap: no compression, no error *)
    | first :: _ =>
      let pick := match c_comp cfg with
                  | CompName n => if memZ n remote then inl n else inr EProtocolError
                  | _ => inl first
                  end in
      match pick with
      | inr e => NegoFail e
      | inl a =>
        if (a =? snappy) && has_cs (c_version cfg) then NegoNone
        else if memZ a (c_local cfg) then NegoSome a else NegoFail EKeyError
      end
    end
  end.

Definition stage (s : state) (a : Z) : state :=
  mkState (pending s) (Some a) (comp s) (Some a) (cksum s) (seglz4 s) (connected s) (defunct s) (closed s) (last_error s).

Definition handle_options (cfg : config) (s : state) (r : reply) : state * list frame :=
  match r with
  | RSupported remote =>
    match negotiate cfg remote with
    | NegoFail e => (do_defunct s e, [])
    | NegoNone => send (c_version cfg) (mkState (pending s) None (comp s) (decomp s) (cksum s) (seglz4 s) (connected s) (defunct s) (closed s) (last_error s))
                       (MStartup None) (CbStartup false)
    | NegoSome a => send (c_version cfg) (stage s a) (MStartup (Some a)) (CbStartup false)
    end
  | _ => (do_defunct s EConnException, [])
  end.

Definition handle_startup (cfg : config) (did : bool) (s : state) (r : reply) : state * list frame :=
  let v := c_version cfg in
  match r with
  | RReady => (set_connected (enable v s), [])
  | RAuthenticate =>
    match c_auth cfg with
    | ANone => (do_defunct s EAuthFailed, [])
    | ADict => send v (enable v s) MCredentials (CbStartup true)
    | ASasl => send v (enable v s) MAuthResponse CbAuth
    end
  | RError _ => (do_defunct s (if did then EAuthFailed else EConnException), [])
  | _ => (do_defunct s EProtocolError, [])
  end.

Definition handle_auth (cfg : config) (s : state) (r : reply) : state * list frame :=
  let v := c_version cfg in
  match r with
  | RAuthSuccess =>
    let c := match pcomp s with Some a => Some a | None => comp s end in
    (set_connected (mkState (pending s) (pcomp s) c (decomp s) (cksum s) (seglz4 s) (connected s) (defunct s) (closed s) (last_error s)), [])
  | RChallenge true => send v s MAuthResponse CbAuth
  | RChallenge false => (do_defunct s EException, [])
  | RError _ => (do_defunct s EAuthFailed, [])
  | _ => (do_defunct s EProtocolError, [])
  end.

Definition clear_pending (s : state) : state :=
  mkState None (pcomp s) (comp s) (decomp s) (cksum s) (seglz4 s) (connected s) (defunct s) (closed s) (last_error s).

(* ------------------------------------------------------------------ one reactor callback *)
Definition step (cfg : config) (s : state) (r : reply) : state * list frame :=
  match r with
  | RDisconnect => (do_close (c_guard cfg) s, [])
  | RSockErr => (do_defunct s EOsError, [])
  | _ =>
    match pending s with
    | None => (s, [])                            (* process_msg: no request on that stream, message dropped *)
    | Some c =>
      let s1 := clear_pending s in               (* process_msg pops the request *)
      match r with
      | RError EkProtocol => (do_defunct s1 EServerProtocolExc, [])   (* process_msg defuncts first; the handler then returns *)
      | _ =>
        match c with
        | CbOptions => handle_options cfg s1 r
        | CbStartup did => handle_startup cfg did s1 r
        | CbAuth => handle_auth cfg s1 r
        end
      end
    end
  end.

(* Connection.__init__ + _send_options_message *)
Definition init_state : state := mkState (Some CbOptions) None None None false false false false false None.
Definition init_frames (cfg : config) : list frame := [mk_frame (c_version cfg) (mkState None None None None false false false false false None) MOptions].

Fixpoint run_from (cfg : config) (s : state) (rs : list reply) : state * list frame :=
  match rs with
  | [] => (s, [])
  | r :: rest =>
    let '(s1, o1) := step cfg s r in
    let '(s2, o2) := run_from cfg s1 rest in
    (s2, o1 ++ o2)
  end.

Definition run (cfg : config) (rs : list reply) : state * list frame :=
  let '(s, o) := run_from cfg init_state rs in (s, init_frames cfg ++ o).

(* per-step trace for the correspondence: the state after construction and after every reply, with that step's frames *)
Fixpoint trace_from (cfg : config) (s : state) (rs : list reply) : list (state * list frame) :=
  match rs with
  | [] => []
  | r :: rest => let '(s1, o1) := step cfg s r in (s1, o1) :: trace_from cfg s1 rest
  end.

Definition trace (cfg : config) (rs : list reply) : list (state * list frame) :=
  (init_state, init_frames cfg) :: trace_from cfg init_state rs.

(* ------------------------------------------------------------------ observation codes (correspondence)
   The harness records, after construction and after every reply, two integers: the state code and the code of the
   frames pushed in that step (same packing computed in checks/C47.py from the real connection's attributes). *)
Definition b2z (b : bool) : Z := if b then 1 else 0.
Definition optcode (o : option Z) : Z := match o with None => 0 | Some a => a + 1 end.

Definition errtag_code (e : errtag) : Z :=
  match e with EAuthFailed => 1 | EConnShutdown => 2 | EConnException => 3 | EProtocolError => 4 | EServerProtocolExc => 5
             | EUnsupportedOp => 6 | EKeyError => 7 | EOsError => 8 | EException => 9 end.

Definition mkind_code (k : mkind) : Z * option Z :=
  match k with MOptions => (0, None) | MStartup c => (1, c) | MAuthResponse => (2, None) | MCredentials => (3, None) end.

Definition code_frame (f : frame) : Z :=
  1 + fst (mkind_code (f_kind f))
  + 4 * (b2z (f_compressed f) + 2 * b2z (f_checksummed f) + 4 * b2z (f_segcomp f))
  + 32 * optcode (snd (mkind_code (f_kind f))).

Fixpoint code_frames (l : list frame) : Z :=
  match l with [] => 0 | f :: l' => code_frame f + 4096 * code_frames l' end.

Definition code_state (s : state) : Z :=
  b2z (is_some (pending s))
  + 2 * match last_error s with None => 0 | Some e => errtag_code e end
  + 32 * (b2z (closed s) + 2 * b2z (defunct s) + 4 * b2z (connected s) + 8 * b2z (cksum s && seglz4 s) + 16 * b2z (cksum s))
  + 1024 * optcode (decomp s)
  + 131072 * optcode (comp s).

Fixpoint zlist_eqb (a b : list Z) : bool :=
  match a, b with [], [] => true | x :: a', y :: b' => (x =? y) && zlist_eqb a' b' | _, _ => false end.

Definition code_trace (cfg : config) (rs : list reply) : list Z :=
  flat_map (fun x : state * list frame => [code_state (fst x); code_frames (snd x)]) (trace cfg rs).

Definition check_trace (cfg : config) (rs : list reply) (expected : list Z) : bool :=
  zlist_eqb (code_trace cfg rs) expected.
