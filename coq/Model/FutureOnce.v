(* C14 / C15 model: cassandra/cluster.py class ResponseFuture as a state machine (DESIGN Appendix A.3).
   One op = one call into the real class (one atomic step of the single-threaded harness):

     Send            Session.execute_async -> future.send_request()
     SetPools ps     environment: session._pools changes
     Tick d          virtual clock advances by d ms
     Resp a k        connection invokes the callback recorded by send_msg for attempt a: _set_result(host, conn, pool, k)
     Fire k          the k-th created timer fires: _on_speculative_execute() / _on_timeout(_attempts=n)
     Run k           the executor runs the k-th queued task: _retry_task(reuse, host)
     NextPage plan   start_fetching_next_page() (the load-balancing policy returns `plan`)
     AddCb           add_callbacks(cb, eb)
     Result          result() when it does not block
     KsReport c h e  pool h finishes the internal USE of keyspace propagation c (Session._set_keyspace_for_all_pools ->
                     pool._set_keyspace_for_all_conns -> pool_finished_setting_keyspace), with / without an error

   Two switches select the code that is modelled:
     g  = true : _set_final_result/_set_final_exception keep the first outcome (guard under _callback_lock)
          false: they overwrite and run the callbacks again (the code before the C14 fix)
     pf = true : start_fetching_next_page cancels/clears _timer and resets _start_time before _start_timer()
          false: it calls _start_timer() only (the code before the C15 fix)
   No proofs in this file. *)
From Coq Require Import ZArith List Bool.
From Verif Require Import FutureState.
Import ListNotations.
Local Open Scope Z_scope.

Inductive op :=
| Send | SetPools (ps : list (Z * pstate)) | Tick (d : Z) | Resp (a : nat) (k : rkind) | Fire (k : nat) | Run (k : nat)
| NextPage (pl : list Z) | AddCb | Result
| KsReport (c : nat) (h : Z) (err : bool)
| PResp (a : nat) (pk : pkind)   (* the PREPARE sent as attempt a is answered: _submit(_execute_after_prepare, ...) *)
| Foreign (h : Z)           (* environment: another statement uses the connection of host h (no call into this future) *)
| Shutdown                  (* Session.shutdown() has set is_shutdown *)
| RunRefresh (k : nat).     (* the executor runs a queued refresh_schema_and_set_result *)   (* pool h reports the outcome of its internal USE to propagation c *)

Record config := mkConfig { c_plan : list Z; c_timeout : option Z; c_specs : list Z; c_pools : list (Z * pstate); c_now : Z }.

(* ---------------------------------------------------------------- small helpers *)
Definition is_some {A} (o : option A) : bool := match o with Some _ => true | None => false end.

Fixpoint pool_of (ps : list (Z * pstate)) (h : Z) : pstate :=
  match ps with
  | [] => PMissing
  | (h', p) :: r => if h =? h' then p else pool_of r h
  end.

Fixpoint upd_nth {A} (k : nat) (f : A -> A) (l : list A) : list A :=
  match l, k with
  | [], _ => []
  | x :: r, O => f x :: r
  | x :: r, S k' => x :: upd_nth k' f r
  end.

Fixpoint remove_nth {A} (k : nat) (l : list A) : list A :=
  match l, k with
  | [], _ => []
  | _ :: r, O => r
  | x :: r, S k' => x :: remove_nth k' r
  end.

Definition live (t : timer) : bool := negb (cancelled t) && negb (fired t).
Definition cancel (t : timer) : timer := mkTimer (tk t) (due t) true (fired t).
Definition mark_fired (t : timer) : timer := mkTimer (tk t) (due t) (cancelled t) true.
Definition close (a : attempt) : attempt := mkAtt (ahost a) false (astale a) (aprep a).
Definition make_stale (a : attempt) : attempt := mkAtt (ahost a) (aopen a) true (aprep a).

Definition final_set (s : state) : bool := is_some (fres s) || is_some (fexc s).

(* self._time_remaining *)
Definition time_remaining (s : state) : option Z :=
  match timeout s with Some T => Some (start s + T - now s) | None => None end.

(* ---------------------------------------------------------------- timers *)
(* self._timer = create_timer(delay, callback) *)
Definition new_timer (k : tkind) (d : Z) (s : state) : state :=
  set_cur_timer (Some (length (timers s))) (set_timers (timers s ++ [mkTimer k d false false]) s).

(* _cancel_timer: if self._timer: self._timer.cancel() *)
Definition cancel_timer (s : state) : state :=
  match cur_timer s with
  | Some k => set_timers (upd_nth k cancel (timers s)) s
  | None => s
  end.

(* _start_timer *)
Definition start_timer (s : state) : state :=
  match cur_timer s with
  | Some _ => s
  | None =>
    let delay := match specs s with d :: _ => d | [] => -1 end in
    let s1 := set_specs (tl (specs s)) s in
    let rem := time_remaining s1 in
    if (0 <=? delay) && (match rem with None => true | Some r => delay <? r end)
    then new_timer TSpec (now s1 + delay) s1
    else match rem with
         | Some r => new_timer (TTimeout 0) (now s1 + r) s1
         | None => s1
         end
  end.

Section Variant.
Variable g : bool.    (* first-wins guard present *)
Variable pf : bool.   (* next page resets timer and start time *)

(* ---------------------------------------------------------------- completion *)
Definition run_cbs (v : Z) (ps : list pair) : list pair := map (fun p => mkPair (cbs p ++ [v]) (ebs p)) ps.
Definition run_ebs (e : Z) (ps : list pair) : list pair := map (fun p => mkPair (cbs p) (ebs p ++ [e])) ps.

(* _set_final_result: _cancel_timer(); with _callback_lock: [guard] set, snapshot callbacks; _event.set(); run callbacks *)
Definition set_final_result (v : Z) (s : state) : state :=
  let s := cancel_timer s in
  if g && final_set s then s
  else set_event true (set_pairs (run_cbs v (pairs s)) (set_fres (Some v) s)).

(* _set_final_result(rows, page_info=...): the paging state moves on only together with the page that is delivered *)
Definition set_final_rows (v : Z) (more : bool) (s : state) : state :=
  let s := cancel_timer s in
  if g && final_set s then s
  else set_event true (set_pairs (run_cbs v (pairs s)) (set_fres (Some v) (set_paging more s))).

Definition set_final_exception (e : Z) (s : state) : state :=
  let s := cancel_timer s in
  if g && final_set s then s
  else set_event true (set_pairs (run_ebs e (pairs s)) (set_fexc (Some e) s)).

(* ---------------------------------------------------------------- sending *)
(* _query(host): (state, request id or None).  self._req_id is set right after borrow_connection, before send_msg, for every
   caller (send_request, same-host retry); it is cleared again when send_msg raised (nothing is outstanding on that stream) *)
Definition query_gen (prep : bool) (h : Z) (s : state) : state * option nat :=
  match pool_of (pools s) h with
  | PMissing | PShutdown => (s, None)
  | PNoConn => (set_cur_host (Some h) s, None)
  | PSendFail => (set_cur_req None (set_cur_conn (Some h) (set_cur_host (Some h) s)), None)
  | POk => (set_cur_req (Some (length (attempts s)))
              (set_attempts (attempts s ++ [mkAtt h true false prep]) (set_cur_conn (Some h) (set_cur_host (Some h) s))),
            Some (length (attempts s)))
  end.
Definition query := query_gen false.               (* _query(host): the statement itself *)

(* is request r still registered on connection c? (self._connection._requests.pop(self._req_id) succeeds) *)
Definition req_open_on (r : nat) (c : Z) (s : state) : bool :=
  match nth_error (attempts s) r with
  | Some a => aopen a && (ahost a =? c)
  | None => false
  end.

(* _on_timeout(_attempts = n) *)
Definition on_timeout (n : nat) (s : state) : state :=
  match cur_conn s with
  | None =>
    if (n <? 3)%nat then new_timer (TTimeout (S n)) (now s + 10) s
    else set_final_exception 1 (set_tfired true s)
  | Some c =>
    match cur_req s with
    | Some r =>
      if req_open_on r c s
      then set_final_exception 1 (set_tfired true (set_attempts (upd_nth r close (attempts s)) s))
      else set_final_exception 2 (set_tfired true s)     (* KeyError: "Connection defunct by heartbeat" *)
    | None => set_final_exception 2 (set_tfired true s)
    end
  end.

Definition timed_out_now (s : state) : bool :=
  match timeout s with Some T => T <? now s - start s | None => false end.

(* send_request(error_no_hosts = err): for host in self.query_plan: ... *)
Fixpoint send_loop (err : bool) (pl : list Z) (s : state) : state :=
  match pl with
  | [] => let s := set_plan [] s in if err then set_final_exception 3 s else s
  | h :: rest =>
    let '(s1, r) := query h s in
    match r with
    | Some id => set_plan rest s1
    | None => if timed_out_now s1 then on_timeout 0 (set_plan rest s1) else send_loop err rest s1
    end
  end.
Definition send_request (err : bool) (s : state) : state := send_loop err (plan s) s.

(* _on_speculative_execute *)
Definition on_spec (s : state) : state :=
  let s := set_cur_timer None s in
  if event s then s
  else match attempts s with
       | [] => new_timer TSpec (now s + 10) s
       | _ :: _ =>
         if match time_remaining s with Some r => r <=? 0 | None => false end
         then on_timeout 0 s
         else start_timer (send_request false s)
       end.

(* ---------------------------------------------------------------- responses *)
(* _retry(reuse, cl, host): if self._final_exception: return; self._submit(self._retry_task, reuse, host)
   _submit: a shut-down session refuses the task (Session.submit returns None): _set_final_exception(ConnectionShutdown) *)
Definition submit_task (t : task) (s : state) : state :=
  if shut s then set_final_exception 5 s else set_queue (queue s ++ [t]) s.
Definition retry (reuse : bool) (h : Z) (s : state) : state :=
  let s := set_retries (retries s + 1) s in
  if is_some (fexc s) then s else submit_task (TRetry reuse h) s.

(* SCHEMA_CHANGE answer: session.submit(refresh_schema_and_set_result, ...); refused by a shut-down session: _set_final_result(None) *)
Definition start_refresh (s : state) : state :=
  if shut s then set_final_result 1 s else set_refreshes (S (refreshes s)) s.

(* Session._set_keyspace_for_all_pools(keyspace, self._set_keyspace_completed): pools that are shut down report at once
   (no error); if nothing is left to wait for, _set_keyspace_completed({}) -> _set_final_result(None) *)
Fixpoint ks_hosts (ps : list (Z * pstate)) : list Z :=
  match ps with
  | [] => []
  | (h, PMissing) :: r | (h, PShutdown) :: r => ks_hosts r
  | (h, _) :: r => h :: ks_hosts r
  end.
Definition start_chain (s : state) : state :=
  match ks_hosts (pools s) with
  | [] => set_final_result 1 s
  | hs => set_chains (chains s ++ [(hs, false)]) s
  end.

Fixpoint remove_z (h : Z) (l : list Z) : list Z :=
  match l with [] => [] | x :: r => if x =? h then r else x :: remove_z h r end.
Fixpoint mem_z (h : Z) (l : list Z) : bool :=
  match l with [] => false | x :: r => (x =? h) || mem_z h r end.

(* pool_finished_setting_keyspace(pool, host_errors); the last report calls _set_keyspace_completed(errors) *)
Definition ks_report (c : nat) (h : Z) (err : bool) (s : state) : state :=
  match nth_error (chains s) c with
  | Some (hs, e) =>
    if mem_z h hs then
      let hs' := remove_z h hs in
      let e' := e || err in
      let s1 := set_chains (upd_nth c (fun _ => (hs', e')) (chains s)) s in
      match hs' with
      | [] => if e' then set_final_exception 4 s1 else set_final_result 1 s1
      | _ :: _ => s1
      end
    else s
  | None => s
  end.

Definition set_result (a : nat) (h : Z) (k : rkind) (s : state) : state :=
  match k with
  | RRows more => set_final_rows (10 + Z.of_nat a) more s
  | RVoid => set_final_result 1 s
  | RRetry DRetry => retry true h s
  | RRetry DRetryNext => retry false h s
  | RRetry DRethrow => set_final_exception (10 + Z.of_nat a) s
  | RRetry DIgnore => set_final_result 1 s
  | ROther => set_final_exception (10 + Z.of_nat a) s
  | RUnprepared => submit_task (TReprepare h) s      (* self._submit(self._reprepare, prepare_message, host, ...) *)
  | RSchema => start_refresh s
  | RSetKs => start_chain s
  | RJunk => set_final_exception (10 + Z.of_nat a) (cancel_timer s)
  end.

(* _retry_task(reuse, host) *)
Definition retry_task (reuse : bool) (h : Z) (s : state) : state :=
  if is_some (fexc s) then s
  else if reuse then
         let '(s1, r) := query h s in
         match r with Some _ => s1 | None => send_request true s1 end
       else send_request true s.

(* _reprepare: _query(host, prepare_message, cb = _submit(_execute_after_prepare, host, ...)); nothing sent: send_request() *)
Definition reprepare (h : Z) (s : state) : state :=
  let '(s1, r) := query_gen true h s in
  match r with Some _ => s1 | None => send_request true s1 end.

(* _execute_after_prepare(host, connection, pool, response) *)
Definition after_prepare (h : Z) (a : nat) (pk : pkind) (s : state) : state :=
  if is_some (fexc s) then s
  else match pk with
       | PPrepared => let '(s1, r) := query h s in
                      match r with Some _ => s1 | None => send_request true s1 end
       | PMismatch => set_final_exception 6 s
       | PError => set_final_exception (10 + Z.of_nat a) s
       | PConnErr => send_request true s
       | PJunk => set_final_exception (10 + Z.of_nat a) s
       end.

Definition run_task (t : task) (s : state) : state :=
  match t with
  | TRetry reuse h => retry_task reuse h s
  | TReprepare h => reprepare h s
  | TAfterPrepare h a pk => after_prepare h a pk s
  end.

(* start_fetching_next_page (after the QueryExhausted test) *)
(* _make_query_plan(); _page_no += 1 (every request sent so far becomes stale); _event.clear(); _final_result = _NOT_SET;
   _final_exception = None  (+ ghosts of the new page fetch) *)
Definition page_reset (pl : list Z) (s : state) : state :=
  set_tfired false (set_pstart (now s) (set_pairs (map (fun _ => mkPair [] []) (pairs s))
    (set_fexc None (set_fres None (set_event false (set_attempts (map make_stale (attempts s)) (set_plan pl s))))))).
(* pf: _cancel_timer(); _timer = None; _start_time = time.time() *)
Definition page_timer_reset (s : state) : state :=
  if pf then set_start (now s) (set_cur_timer None (cancel_timer s)) else s.
Definition next_page (pl : list Z) (s : state) : state :=
  send_request true (start_timer (page_timer_reset (page_reset pl s))).

Definition add_cb (s : state) : state :=
  set_pairs (pairs s ++ [mkPair (match fres s with Some v => [v] | None => [] end)
                                (match fexc s with Some e => [e] | None => [] end)]) s.

(* result(): self._event.wait(); if _final_result is not _NOT_SET: return it else: raise _final_exception *)
Definition result_call (s : state) : option (Z * Z) :=
  if event s then Some (match fres s with Some v => (0, v) | None => (1, match fexc s with Some e => e | None => 0 end) end)
  else None.

(* _answered: the callback handed to send_msg first forgets the stream id if self._req_id still names this very request *)
Definition clear_req (a : nat) (s : state) : state :=
  set_cur_req (match cur_req s with Some r => if (r =? a)%nat then None else Some r | None => None end) s.

(* ---------------------------------------------------------------- the machine *)
Definition step (s : state) (o : op) : state :=
  match o with
  | Send => send_request true (set_started true s)
  | SetPools ps => set_pools ps s
  | Tick d => set_now (now s + Z.max 0 d) s
  | Resp a k =>
    match nth_error (attempts s) a with
    | Some at_ =>
      if aopen at_ && negb (aprep at_) then
        let s1 := clear_req a (set_attempts (upd_nth a close (attempts s)) s) in
        if astale at_ then s1      (* _set_result_of_page: answer of an execution of an earlier page fetch, dropped *)
        else set_result a (ahost at_) k s1
      else s
    | None => s
    end
  | Fire k =>
    match nth_error (timers s) k with
    | Some t =>
      if live t && (due t <=? now s)
      then let s1 := set_timers (upd_nth k mark_fired (timers s)) s in
           match tk t with TSpec => on_spec s1 | TTimeout n => on_timeout n s1 end
      else s
    | None => s
    end
  | Run k =>
    match nth_error (queue s) k with
    | Some t => run_task t (set_queue (remove_nth k (queue s)) s)
    | None => s
    end
  | NextPage pl => if paging s then next_page pl s else s
  | AddCb => add_cb s
  | Result => match result_call s with Some r => set_results (results s ++ [r]) s | None => s end
  | KsReport c h err => ks_report c h err s
  | PResp a pk =>
    match nth_error (attempts s) a with
    | Some at_ => if aopen at_ && aprep at_
                  then submit_task (TAfterPrepare (ahost at_) a pk) (clear_req a (set_attempts (upd_nth a close (attempts s)) s))
                  else s
    | None => s
    end
  | Foreign _ => s
  | Shutdown => set_shut true s
  | RunRefresh k =>      (* refresh_schema_and_set_result: ... finally: response_future._set_final_result(None) *)
    match refreshes s with
    | O => s
    | S n => if (k <=? n)%nat then set_final_result 1 (set_refreshes n s) else s
    end
  end.

(* __init__ (ends with _start_timer()) *)
Definition init (c : config) : state :=
  start_timer (mkState (c_plan c) [] None None None 0 [] None (c_specs c) None None false [] false
                       (c_now c) (c_now c) (c_timeout c) (c_now c) [] (c_pools c) false false [] [] 0 false 0).

Definition run (s : state) (h : list op) : state := fold_left step h s.

(* states after every prefix of the history (initial state first) *)
Fixpoint trace (s : state) (h : list op) : list state :=
  s :: match h with [] => [] | o :: r => trace (step s o) r end.

End Variant.

(* ---------------------------------------------------------------- observation compared with the harness after every step *)
Definition oz (o : option Z) : Z := match o with Some v => v | None => 0 end.
Definition om (o : option Z) : Z := match o with Some v => v | None => -1 end.
Definition onat (o : option nat) : Z := match o with Some v => Z.of_nat v | None => -1 end.
Definition bz (b : bool) : Z := if b then 1 else 0.
Definition lastz (l : list Z) : Z := last l 0.

Definition obs_timer (t : timer) : list Z :=
  [match tk t with TSpec => 0 | TTimeout n => 1 + Z.of_nat n end; due t; bz (cancelled t); bz (fired t)].
Definition obs_att (a : attempt) : list Z := [ahost a; bz (aopen a); bz (astale a); bz (aprep a)].
Definition obs_pair (p : pair) : list Z :=
  [Z.of_nat (length (cbs p)); Z.of_nat (length (ebs p)); lastz (cbs p); lastz (ebs p)].

Definition obs (s : state) : list Z :=
  [oz (fres s); oz (fexc s); bz (event s); retries s; onat (cur_timer s); Z.of_nat (length (timers s))]
  ++ flat_map obs_timer (timers s)
  ++ [Z.of_nat (length (queue s)); Z.of_nat (length (attempts s))]
  ++ flat_map obs_att (attempts s)
  ++ [om (cur_host s); om (cur_conn s); onat (cur_req s); bz (paging s); Z.of_nat (length (pairs s))]
  ++ flat_map obs_pair (pairs s)
  ++ [Z.of_nat (length (results s)); fst (last (results s) (-1, 0)); snd (last (results s) (-1, 0))]
  ++ [swallowed s; bz (shut s); Z.of_nat (refreshes s); Z.of_nat (length (chains s))]
  ++ flat_map (fun c => [Z.of_nat (length (fst c)); bz (snd c)] ++ fst c) (chains s).

Fixpoint zlist_eqb (a b : list Z) : bool :=
  match a, b with
  | [], [] => true
  | x :: a', y :: b' => (x =? y) && zlist_eqb a' b'
  | _, _ => false
  end.
Fixpoint zll_eqb (a b : list (list Z)) : bool :=
  match a, b with
  | [], [] => true
  | x :: a', y :: b' => zlist_eqb x y && zll_eqb a' b'
  | _, _ => false
  end.

(* the whole comparison: observations after init and after every op *)
Definition corr (g pf : bool) (c : config) (h : list op) (expected : list (list Z)) : bool :=
  zll_eqb (map obs (trace g pf (init c) h)) expected.

(* compact form of the same comparison: one checksum per observation (the harness computes the same polynomial checksum;
   literals of ~45 numbers per step made coqc spend its time parsing).  On a mismatch the check prints the full observations. *)
Definition obs_hash (l : list Z) : Z := fold_left (fun acc x => (acc * 1000003 + x + 7) mod 2305843009213693951) l 0.
Definition corrh (g pf : bool) (c : config) (h : list op) (expected : list Z) : bool :=
  zlist_eqb (map (fun s => obs_hash (obs s)) (trace g pf (init c) h)) expected.

(* ---------------------------------------------------------------- executable twins of the property statements *)
Definition pair_once (p : pair) : bool := (length (cbs p) + length (ebs p) <=? 1)%nat.
Definition pair_reports (s : state) (p : pair) : bool :=
  forallb (fun v => match result_call s with Some (0, w) => v =? w | _ => false end) (cbs p)
  && forallb (fun e => match result_call s with Some (1, w) => e =? w | _ => false end) (ebs p).
Definition all_answered (s : state) : bool :=
  negb (match attempts s with [] => true | _ => false end)
  && forallb (fun a => negb (aopen a)) (attempts s)
  && match queue s with [] => true | _ => false end
  && forallb (fun c => match fst c with [] => true | _ => false end) (chains s)
  && (refreshes s =? 0)%nat.
(* the same for the requests of the CURRENT page fetch only (what the invariant is about; all_answered implies it) *)
Definition cur_answered (s : state) : bool :=
  negb (match attempts s with [] => true | _ => false end)
  && forallb (fun a => negb (aopen a) || astale a) (attempts s)
  && match queue s with [] => true | _ => false end
  && forallb (fun c => match fst c with [] => true | _ => false end) (chains s)
  && (refreshes s =? 0)%nat.
Definition delivered (s : state) : bool :=
  event s && final_set s && forallb (fun p => (length (cbs p) + length (ebs p) =? 1)%nat) (pairs s).
Definition c14_ok (s : state) : bool :=
  forallb (fun p => pair_once p && pair_reports s p) (pairs s)
  && (if all_answered s || tfired s then delivered s else true).

(* C15: final outcome missing although the page fetch started more than T + 30 ms ago *)
Definition c15_ok (s : state) : bool :=
  match timeout s with
  | Some T => final_set s || (now s <=? pstart s + T + 30)
  | None => true
  end.
