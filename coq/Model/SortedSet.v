(* C33 model of cassandra.util.SortedSet: a Python list `_items` kept sorted, searched by `_find_insertion`
   (bisect_left).  Generic over the element type; `ltb` is Python's `<`, `eqb` is Python's `==` on elements.
   The TypeError fallback scan of _find_insertion is NOT modelled (elements of a single comparable type never
   raise TypeError).  No proofs here. *)
From Coq Require Import ZArith List Bool Arith Sorted.
Import ListNotations.

Section SortedSetModel.
  Variable A : Type.
  Variable ltb : A -> A -> bool.
  Variable eqb : A -> A -> bool.

  (* while lo < hi: mid = (lo+hi)//2; if a[mid] < x: lo = mid+1 else: hi = mid *)
  Fixpoint find_loop (fuel : nat) (a : list A) (x : A) (lo hi : nat) : option nat :=
    match fuel with
    | O => None
    | S f =>
      if lo <? hi then
        let mid := (lo + hi) / 2 in
        match nth_error a mid with
        | Some v => if ltb v x then find_loop f a x (S mid) hi else find_loop f a x lo mid
        | None => None
        end
      else Some lo
    end.

  Definition find_insertion (a : list A) (x : A) : option nat :=
    find_loop (S (length a)) a x 0 (length a).

  (* fuel exhaustion is an error value (index beyond the end); the theorems prove it is never produced *)
  Definition fi (a : list A) (x : A) : nat :=
    match find_insertion a x with Some i => i | None => S (length a) end.

  Definition insert_at (i : nat) (x : A) (l : list A) : list A := firstn i l ++ x :: skipn i l.
  Definition remove_at (i : nat) (l : list A) : list A := firstn i l ++ skipn (S i) l.

  (* __contains__: i = find; return i < len and items[i] == item *)
  Definition contains (s : list A) (x : A) : bool :=
    match nth_error s (fi s x) with Some v => eqb v x | None => false end.

  (* add: i = find; if i < len: (if items[i] != item: insert(i, item)) else: append(item) *)
  Definition add (s : list A) (x : A) : list A :=
    let i := fi s x in
    match nth_error s i with
    | Some v => if eqb v x then s else insert_at i x s
    | None => s ++ [x]
    end.

  (* remove: KeyError -> None *)
  Definition remove (s : list A) (x : A) : option (list A) :=
    let i := fi s x in
    match nth_error s i with
    | Some v => if eqb v x then Some (remove_at i s) else None
    | None => None
    end.

  (* pop: last element; KeyError on empty -> None *)
  Definition pop (s : list A) : option (A * list A) :=
    match rev s with [] => None | m :: r => Some (m, rev r) end.

  Definition update (s : list A) (l : list A) : list A := fold_left add l s.
  Definition of_list (l : list A) : list A := update [] l.

  (* the other operand of a binary operation: another SortedSet built from a literal, or a plain Python
     container (set / list of distinct elements) whose `in` is equality search and whose iteration order is given *)
  Inductive operand := SSet (l : list A) | PSet (l : list A).

  Definition operand_items (o : operand) : list A :=
    match o with SSet l => of_list l | PSet l => l end.
  Definition operand_mem (o : operand) (x : A) : bool :=
    match o with SSet l => contains (of_list l) x | PSet l => existsb (fun y => eqb y x) l end.
  Definition operand_len (o : operand) : nat := length (operand_items o).

  (* _intersect / _diff: fresh sortedset, add the kept items one by one *)
  Definition intersect_ (s : list A) (mem : A -> bool) : list A :=
    fold_left (fun acc it => if mem it then add acc it else acc) s [].
  Definition diff_ (s : list A) (mem : A -> bool) : list A :=
    fold_left (fun acc it => if mem it then acc else add acc it) s [].

  Definition union (s : list A) (others : list operand) : list A :=
    fold_left (fun u o => update u (operand_items o)) others s.

  (* for other in others: isect = isect._intersect(other); if not isect: break *)
  Fixpoint intersection (isect : list A) (others : list operand) : list A :=
    match others with
    | [] => isect
    | o :: r => match intersect_ isect (operand_mem o) with [] => [] | i' => intersection i' r end
    end.
  Fixpoint difference (d : list A) (others : list operand) : list A :=
    match others with
    | [] => d
    | o :: r => match diff_ d (operand_mem o) with [] => [] | d' => difference d' r end
    end.
  (* self._diff(other).union(other.difference(self)); other is a SortedSet, so other.difference(self) is
     other.copy()._diff(self), which tests `item not in self` with SortedSet.__contains__ *)
  Definition symmetric_difference (s : list A) (l : list A) : list A :=
    let o := of_list l in
    update (diff_ s (contains o)) (diff_ o (contains s)).

  Definition issubset (s : list A) (o : operand) : bool := length (intersect_ s (operand_mem o)) =? length s.
  Definition issuperset (s : list A) (o : operand) : bool := length (intersect_ s (operand_mem o)) =? operand_len o.
  Definition isdisjoint (s : list A) (o : operand) : bool := length (intersect_ s (operand_mem o)) =? 0.

  Fixpoint list_eqb (a b : list A) : bool :=
    match a, b with
    | [], [] => true
    | x :: a', y :: b' => eqb x y && list_eqb a' b'
    | _, _ => false
    end.
  (* __eq__: same class -> list equality; else len(other) == len(items) and all(item in self for item in other) *)
  Definition set_eq (s : list A) (o : operand) : bool :=
    match o with
    | SSet l => list_eqb s (of_list l)
    | PSet l => (length l =? length s) && forallb (contains s) l
    end.
  (* __ne__: same class -> list inequality; else len(other) != len(items) or any(item not in self for item in other) *)
  Definition set_ne (s : list A) (o : operand) : bool :=
    match o with
    | SSet l => negb (list_eqb s (of_list l))
    | PSet l => negb (length l =? length s) || existsb (fun x => negb (contains s x)) l
    end.
  Definition set_lt (s : list A) (o : operand) : bool := (length s <? operand_len o) && issubset s o.
  Definition set_gt (s : list A) (o : operand) : bool := (operand_len o <? length s) && issuperset s o.

  (* Python index with negative wrap; IndexError -> None *)
  Definition norm_index (n : nat) (i : Z) : option nat :=
    let j := if (i <? 0)%Z then (i + Z.of_nat n)%Z else i in
    if ((j <? 0) || (Z.of_nat n <=? j))%Z then None else Some (Z.to_nat j).

  Inductive op :=
  | OAdd (x : A) | ORemove (x : A) | OPop | OContains (x : A) | OUpdate (l : list A) | OClear
  | OUnion (os : list operand) | OIntersection (os : list operand) | ODifference (os : list operand)
  | OSymDiff (l : list A)
  | OIOr (o : operand) | OIAnd (o : operand) | OISub (o : operand) | OIXor (l : list A)
  | OIsSubset (o : operand) | OIsSuperset (o : operand) | OIsDisjoint (o : operand)
  | OEq (o : operand) | ONe (o : operand) | OLt (o : operand) | OGt (o : operand)
  | OGetItem (i : Z) | ODelItem (i : Z) | OLen | OIter.

  Inductive out :=
  | RNone | RBool (b : bool) | RElem (x : A) | RItems (l : list A) | RLen (n : nat) | RKeyError | RIndexError.

  Definition step (s : list A) (o : op) : list A * out :=
    match o with
    | OAdd x => (add s x, RNone)
    | ORemove x => match remove s x with Some s' => (s', RNone) | None => (s, RKeyError) end
    | OPop => match pop s with Some (m, s') => (s', RElem m) | None => (s, RKeyError) end
    | OContains x => (s, RBool (contains s x))
    | OUpdate l => (update s l, RNone)
    | OClear => ([], RNone)
    | OUnion os => (s, RItems (union s os))
    | OIntersection os => (s, RItems (intersection s os))
    | ODifference os => (s, RItems (difference s os))
    | OSymDiff l => (s, RItems (symmetric_difference s l))
    | OIOr o => (union s [o], RNone)
    | OIAnd o => (intersect_ s (operand_mem o), RNone)
    | OISub o => (diff_ s (operand_mem o), RNone)
    | OIXor l => (symmetric_difference s l, RNone)
    | OIsSubset o => (s, RBool (issubset s o))
    | OIsSuperset o => (s, RBool (issuperset s o))
    | OIsDisjoint o => (s, RBool (isdisjoint s o))
    | OEq o => (s, RBool (set_eq s o))
    | ONe o => (s, RBool (set_ne s o))
    | OLt o => (s, RBool (set_lt s o))
    | OGt o => (s, RBool (set_gt s o))
    | OGetItem i => match norm_index (length s) i with
                   | Some j => match nth_error s j with Some v => (s, RElem v) | None => (s, RIndexError) end
                   | None => (s, RIndexError) end
    | ODelItem i => match norm_index (length s) i with
                   | Some j => (remove_at j s, RNone)
                   | None => (s, RIndexError) end
    | OLen => (s, RLen (length s))
    | OIter => (s, RItems s)
    end.

  (* states and outputs after each operation *)
  Fixpoint run (s : list A) (ops : list op) : list (list A * out) :=
    match ops with
    | [] => []
    | o :: r => let '(s', x) := step s o in (s', x) :: run s' r
    end.
  Fixpoint final (s : list A) (ops : list op) : list A :=
    match ops with [] => s | o :: r => final (fst (step s o)) r end.

  (* ---------------------------------------------------------------- specification (pure set statements) *)
  Definition elt_lt (x y : A) : Prop := ltb x y = true.
  Definition Inv (s : list A) : Prop := Sorted.StronglySorted elt_lt s.

  Definition oset (o : operand) (y : A) : Prop := match o with SSet l => In y l | PSet l => In y l end.
  Definition osets (os : list operand) (y : A) : Prop := exists o, In o os /\ oset o y.
  Definition allsets (os : list operand) (y : A) : Prop := forall o, In o os -> oset o y.
  (* operands given as plain containers are duplicate-free (Python sets / lists of distinct elements) *)
  Definition operand_ok (o : operand) : Prop := match o with SSet _ => True | PSet l => NoDup l end.

  Definition is_set_of (r : list A) (P : A -> Prop) : Prop := Inv r /\ forall y, In y r <-> P y.

  Definition op_ok (o : op) : Prop :=
    match o with
    | OUnion os | OIntersection os | ODifference os => Forall operand_ok os
    | OIOr o | OIAnd o | OISub o | OIsSubset o | OIsSuperset o | OIsDisjoint o | OEq o | ONe o | OLt o | OGt o => operand_ok o
    | _ => True
    end.

  (* what a mathematical set whose iteration is ascending does on operation o: s, s' are the element lists *)
  Definition spec (s : list A) (o : op) (s' : list A) (r : out) : Prop :=
    match o with
    | OAdd x => r = RNone /\ is_set_of s' (fun y => y = x \/ In y s)
    | ORemove x => (In x s /\ r = RNone /\ is_set_of s' (fun y => In y s /\ y <> x)) \/ (~ In x s /\ r = RKeyError /\ s' = s)
    | OPop => (s = [] /\ r = RKeyError /\ s' = s) \/
             (exists m, r = RElem m /\ In m s /\ (forall y, In y s -> y = m \/ elt_lt y m) /\ is_set_of s' (fun y => In y s /\ y <> m))
    | OContains x => s' = s /\ exists b, r = RBool b /\ (b = true <-> In x s)
    | OUpdate l => r = RNone /\ is_set_of s' (fun y => In y s \/ In y l)
    | OClear => r = RNone /\ s' = []
    | OUnion os => s' = s /\ exists u, r = RItems u /\ is_set_of u (fun y => In y s \/ osets os y)
    | OIntersection os => s' = s /\ exists u, r = RItems u /\ is_set_of u (fun y => In y s /\ allsets os y)
    | ODifference os => s' = s /\ exists u, r = RItems u /\ is_set_of u (fun y => In y s /\ ~ osets os y)
    | OSymDiff l => s' = s /\ exists u, r = RItems u /\ is_set_of u (fun y => (In y s /\ ~ In y l) \/ (In y l /\ ~ In y s))
    | OIOr o => r = RNone /\ is_set_of s' (fun y => In y s \/ oset o y)
    | OIAnd o => r = RNone /\ is_set_of s' (fun y => In y s /\ oset o y)
    | OISub o => r = RNone /\ is_set_of s' (fun y => In y s /\ ~ oset o y)
    | OIXor l => r = RNone /\ is_set_of s' (fun y => (In y s /\ ~ In y l) \/ (In y l /\ ~ In y s))
    | OIsSubset o => s' = s /\ exists b, r = RBool b /\ (b = true <-> (forall y, In y s -> oset o y))
    | OIsSuperset o => s' = s /\ exists b, r = RBool b /\ (b = true <-> (forall y, oset o y -> In y s))
    | OIsDisjoint o => s' = s /\ exists b, r = RBool b /\ (b = true <-> (forall y, In y s -> ~ oset o y))
    | OEq o => s' = s /\ exists b, r = RBool b /\ (b = true <-> (forall y, In y s <-> oset o y))
    | ONe o => s' = s /\ exists b, r = RBool b /\ (b = true <-> ~ (forall y, In y s <-> oset o y))
    | OLt o => s' = s /\ exists b, r = RBool b /\
              (b = true <-> ((forall y, In y s -> oset o y) /\ exists z, oset o z /\ ~ In z s))
    | OGt o => s' = s /\ exists b, r = RBool b /\
              (b = true <-> ((forall y, oset o y -> In y s) /\ exists z, In z s /\ ~ oset o z))
    | OGetItem i => s' = s /\ match norm_index (length s) i with
                             | Some j => exists v, r = RElem v /\ nth_error s j = Some v
                             | None => r = RIndexError end
    | ODelItem i => match norm_index (length s) i with
                   | Some j => r = RNone /\ exists v, nth_error s j = Some v /\ is_set_of s' (fun y => In y s /\ y <> v)
                   | None => r = RIndexError /\ s' = s end
    | OLen => s' = s /\ r = RLen (length s)
    | OIter => s' = s /\ r = RItems s
    end.

  (* every step of a run from s satisfies the specification and keeps the invariant *)
  Fixpoint run_ok (s : list A) (ops : list op) : Prop :=
    match ops with
    | [] => True
    | o :: r => let s' := fst (step s o) in Inv s' /\ spec s o s' (snd (step s o)) /\ run_ok s' r
    end.

  (* ---------------------------------------------------------------- two sets: the set and a copy of it.
     copy() builds a NEW list (new._items = list(self._items)); intersection() / difference() / union() without
     arguments return such a copy.  In the model the two registers are independent values: an operation on one
     never changes the other (no shared backing list). *)
  Inductive copy_how := ByCopy | ByIntersection0 | ByDifference0 | ByUnion0.
  Definition copy_of (how : copy_how) (s : list A) : list A :=
    match how with
    | ByCopy => s
    | ByIntersection0 => intersection s []
    | ByDifference0 => difference s []
    | ByUnion0 => union s []
    end.

  Inductive op2 :=
  | OMain (o : op)               (* operation on the set itself *)
  | OCopy (how : copy_how)       (* c = s.copy() / s.intersection() / s.difference() / s.union() *)
  | OOnCopy (o : op).            (* operation on the copy *)

  Definition step2 (st : list A * list A) (o : op2) : (list A * list A) * out :=
    match o with
    | OMain o => let '(s', r) := step (fst st) o in ((s', snd st), r)
    | OCopy how => ((fst st, copy_of how (fst st)), RItems (copy_of how (fst st)))
    | OOnCopy o => let '(c', r) := step (snd st) o in ((fst st, c'), r)
    end.

  Fixpoint run2 (st : list A * list A) (ops : list op2) : list ((list A * list A) * out) :=
    match ops with
    | [] => []
    | o :: r => let '(st', x) := step2 st o in (st', x) :: run2 st' r
    end.

  Definition op2_ok (o : op2) : Prop :=
    match o with OMain o | OOnCopy o => op_ok o | OCopy _ => True end.

  (* the operated register follows `spec`, the OTHER register is unchanged; a copy has exactly the members of the set *)
  Definition spec2 (st : list A * list A) (o : op2) (st' : list A * list A) (r : out) : Prop :=
    match o with
    | OMain o => spec (fst st) o (fst st') r /\ snd st' = snd st
    | OCopy _ => st' = (fst st, fst st) /\ r = RItems (fst st)
    | OOnCopy o => spec (snd st) o (snd st') r /\ fst st' = fst st
    end.

  Fixpoint run2_ok (st : list A * list A) (ops : list op2) : Prop :=
    match ops with
    | [] => True
    | o :: r => let st' := fst (step2 st o) in
                Inv (fst st') /\ Inv (snd st') /\ spec2 st o st' (snd (step2 st o)) /\ run2_ok st' r
    end.
End SortedSetModel.

Arguments SSet {A} l.
Arguments PSet {A} l.
Arguments OAdd {A} x. Arguments ORemove {A} x. Arguments OPop {A}. Arguments OContains {A} x.
Arguments OUpdate {A} l. Arguments OClear {A}. Arguments OUnion {A} os. Arguments OIntersection {A} os.
Arguments ODifference {A} os. Arguments OSymDiff {A} l. Arguments OIOr {A} o. Arguments OIAnd {A} o.
Arguments OISub {A} o. Arguments OIXor {A} l. Arguments OIsSubset {A} o. Arguments OIsSuperset {A} o.
Arguments OIsDisjoint {A} o. Arguments OEq {A} o. Arguments ONe {A} o. Arguments OLt {A} o. Arguments OGt {A} o.
Arguments OGetItem {A} i. Arguments ODelItem {A} i. Arguments OLen {A}. Arguments OIter {A}.
Arguments OMain {A} o. Arguments OCopy {A} how. Arguments OOnCopy {A} o.
Arguments RNone {A}. Arguments RBool {A} b. Arguments RElem {A} x. Arguments RItems {A} l.
Arguments RLen {A} n. Arguments RKeyError {A}. Arguments RIndexError {A}.

(* ------------------------------------------------------------------ instances used for running *)
Local Open Scope Z_scope.

(* ints *)
Definition z_ltb (a b : Z) : bool := a <? b.
Definition z_eqb (a b : Z) : bool := a =? b.

(* tuples / lists of ints: Python's lexicographic order *)
Fixpoint lz_ltb (a b : list Z) : bool :=
  match a, b with
  | [], [] => false
  | [], _ :: _ => true
  | _ :: _, [] => false
  | x :: a', y :: b' => if x <? y then true else if y <? x then false else lz_ltb a' b'
  end.
Fixpoint lz_eqb (a b : list Z) : bool :=
  match a, b with
  | [], [] => true
  | x :: a', y :: b' => (x =? y) && lz_eqb a' b'
  | _, _ => false
  end.

(* frozenset / SortedSet elements over a small universe, as bitmasks: `<` is PROPER SUBSET (a partial order) *)
Definition bm_ltb (a b : Z) : bool := (Z.land a b =? a) && negb (a =? b).
Definition bm_eqb (a b : Z) : bool := a =? b.
