(* C05: the frame layer of Connection (cassandra/connection.py): _read_frame_header + process_io_buffer (no checksumming)
   + the routing decision of process_msg.  Executable model, no proofs here.
   Bytes are Z in 0..255.  The io buffer is a byte list; `_current_frame` is a cache of the header parsed from the
   first bytes of the buffer (the buffer prefix is immutable until the frame is delivered), exposed as [cur_of]. *)
From Coq Require Import ZArith List Bool.
Import ListNotations.
Local Open Scope Z_scope.

Record header := mkH { h_ver : Z; h_flags : Z; h_stream : Z; h_op : Z; h_len : Z }.

Inductive ievent :=
| Deliver (h : header) (body : list Z)      (* process_msg(frame, body) *)
| Defunct (reason : Z).                     (* 1 unsupported version, 2 negative body length, 3 crc mismatch (C06) *)

Definition R_VERSION : Z := 1.
Definition R_NEGLEN : Z := 2.
Definition R_CRC : Z := 3.

(* ProtocolVersion.SUPPORTED_VERSIONS = (DSE_V2, DSE_V1, V6, V5, V4, V3, V2, V1) *)
Definition SUPPORTED_VERSIONS : list Z := [66; 65; 6; 5; 4; 3; 2; 1].
Definition supported (v : Z) : bool := existsb (Z.eqb v) SUPPORTED_VERSIONS.

(* frame_header_v1_v2 = '>BbBi' (7 bytes), frame_header_v3 = '>BhBi' (8 bytes); header_size = struct size + 1 *)
Definition header_size (v : Z) : Z := if 3 <=? v then 9 else 8.

Definition byte_at (buf : list Z) (i : nat) : Z := nth i buf 0.
Definition signed (bits : Z) (x : Z) : Z := if x <? 2 ^ (bits - 1) then x else x - 2 ^ bits.
Definition be16 (buf : list Z) (i : nat) : Z := byte_at buf i * 256 + byte_at buf (S i).
Definition be32 (buf : list Z) (i : nat) : Z :=
  ((byte_at buf i * 256 + byte_at buf (S i)) * 256 + byte_at buf (S (S i))) * 256 + byte_at buf (S (S (S i))).

(* fields of the header at the start of buf; meaningful when length buf >= header_size v *)
Definition decode_header (v : Z) (buf : list Z) : header :=
  if 3 <=? v
  then mkH v (byte_at buf 1) (signed 16 (be16 buf 2)) (byte_at buf 4) (signed 32 (be32 buf 5))
  else mkH v (byte_at buf 1) (signed 8 (byte_at buf 2)) (byte_at buf 3) (signed 32 (be32 buf 4)).

Definition blen (buf : list Z) : Z := Z.of_nat (length buf).

Inductive pres :=
| NeedMore
| Bad (reason : Z)
| Frame (h : header) (body rest : list Z).

(* one round of the process_io_buffer loop on the cql frame buffer: _read_frame_header, then the end_pos test *)
Definition parse1 (buf : list Z) : pres :=
  match buf with
  | [] => NeedMore
  | b0 :: _ =>
    let v := Z.land b0 127 in
    if negb (supported v) then Bad R_VERSION
    else
      let hs := header_size v in
      if blen buf <? hs then NeedMore
      else
        let h := decode_header v buf in
        if h_len h <? 0 then Bad R_NEGLEN
        else if blen buf <? hs + h_len h then NeedMore
        else Frame h (firstn (Z.to_nat (h_len h)) (skipn (Z.to_nat hs) buf)) (skipn (Z.to_nat (hs + h_len h)) buf)
  end.

(* connection input state: bytes read but not consumed, or defunct (closed; absorbing) *)
Inductive istate := Live (buf : list Z) | Dead.

(* the while-loop; each delivered frame consumes >= 8 bytes, fuel = S (length buf) suffices (proved) *)
Fixpoint parse_loop (fuel : nat) (buf : list Z) : istate * list ievent :=
  match fuel with
  | O => (Live buf, [])
  | S f =>
    match parse1 buf with
    | NeedMore => (Live buf, [])
    | Bad r => (Dead, [Defunct r])
    | Frame h body rest => let '(st, evs) := parse_loop f rest in (st, Deliver h body :: evs)
    end
  end.

Definition parse_all (buf : list Z) : istate * list ievent := parse_loop (S (length buf)) buf.

(* one read: the reactor appends the chunk to the io buffer and calls process_io_buffer() *)
Definition feed (st : istate) (chunk : list Z) : istate * list ievent :=
  match st with
  | Dead => (Dead, [])
  | Live buf => parse_all (buf ++ chunk)
  end.

Definition init : istate := Live [].

Fixpoint run_feed (st : istate) (chunks : list (list Z)) : istate * list ievent :=
  match chunks with
  | [] => (st, [])
  | c :: cs => let '(st1, e1) := feed st c in let '(st2, e2) := run_feed st1 cs in (st2, e1 ++ e2)
  end.

(* observation of _current_frame between reads *)
Definition cur_of (st : istate) : option header :=
  match st with
  | Dead => None
  | Live [] => None
  | Live ((b0 :: _) as buf) =>
    let v := Z.land b0 127 in
    if supported v && (header_size v <=? blen buf) then Some (decode_header v buf) else None
  end.

(* ---- encoder side (what the server writes): used by the theorems and by the generators ---- *)
Definition enc_frame (dirbit : Z) (h : header) (body : list Z) : list Z :=
  let s := h_stream h in
  let l := h_len h in
  if 3 <=? h_ver h
  then (dirbit + h_ver h) :: h_flags h :: (s / 256) mod 256 :: s mod 256 :: h_op h ::
       (l / 16777216) mod 256 :: (l / 65536) mod 256 :: (l / 256) mod 256 :: l mod 256 :: body
  else (dirbit + h_ver h) :: h_flags h :: s mod 256 :: h_op h ::
       (l / 16777216) mod 256 :: (l / 65536) mod 256 :: (l / 256) mod 256 :: l mod 256 :: body.

(* ---- routing in process_msg: by stream id ---- *)
Inductive revent :=
| ToHandler (id : Z) (h : header) (body : list Z)   (* callback popped from _requests[stream] *)
| ToWatchers (h : header) (body : list Z)           (* stream < 0: decoded and handed to handle_pushed *)
| Dropped (h : header)                              (* no callback registered: stream id returned, nothing called *)
| Failed (reason : Z).

Fixpoint remove1 (x : Z) (l : list Z) : list Z :=
  match l with [] => [] | y :: l' => if x =? y then l' else y :: remove1 x l' end.

Definition mem (x : Z) (l : list Z) : bool := existsb (Z.eqb x) l.

Fixpoint route (reqs : list Z) (evs : list ievent) : list revent :=
  match evs with
  | [] => []
  | Defunct r :: _ => [Failed r]
  | Deliver h body :: evs' =>
    if h_stream h <? 0 then ToWatchers h body :: route reqs evs'
    else if mem (h_stream h) reqs then ToHandler (h_stream h) h body :: route (remove1 (h_stream h) reqs) evs'
    else Dropped h :: route reqs evs'
  end.

(* ---- boolean equalities for the correspondence ---- *)
Fixpoint zlist_eqb (a b : list Z) : bool :=
  match a, b with
  | [], [] => true
  | x :: a', y :: b' => (x =? y) && zlist_eqb a' b'
  | _, _ => false
  end.

Definition header_eqb (a b : header) : bool :=
  (h_ver a =? h_ver b) && (h_flags a =? h_flags b) && (h_stream a =? h_stream b) && (h_op a =? h_op b) && (h_len a =? h_len b).

Definition ievent_eqb (a b : ievent) : bool :=
  match a, b with
  | Deliver h x, Deliver h' x' => header_eqb h h' && zlist_eqb x x'
  | Defunct r, Defunct r' => r =? r'
  | _, _ => false
  end.

Definition revent_eqb (a b : revent) : bool :=
  match a, b with
  | ToHandler i h x, ToHandler i' h' x' => (i =? i') && header_eqb h h' && zlist_eqb x x'
  | ToWatchers h x, ToWatchers h' x' => header_eqb h h' && zlist_eqb x x'
  | Dropped h, Dropped h' => header_eqb h h'
  | Failed r, Failed r' => r =? r'
  | _, _ => false
  end.

Fixpoint list_eqb {A} (eqb : A -> A -> bool) (a b : list A) : bool :=
  match a, b with
  | [], [] => true
  | x :: a', y :: b' => eqb x y && list_eqb eqb a' b'
  | _, _ => false
  end.

(* ---- handle_pushed: every watcher registered for the event type is called; an exception raised by one watcher is caught
   INSIDE the loop body (try/except around the single call), so it neither escapes nor stops the iteration.
   A watcher is (id, raises). *)
Definition watcher := (Z * bool)%type.
Inductive outcome := Returned | Raised.
Definition call_watcher (w : watcher) : outcome := if snd w then Raised else Returned.

Fixpoint handle_pushed (ws : list watcher) : list Z * outcome :=      (* (ids called in order, what escapes the method) *)
  match ws with
  | [] => ([], Returned)
  | w :: ws' =>
    match call_watcher w with
    | Returned | Raised (* logged, ignored *) => let '(calls, o) := handle_pushed ws' in (fst w :: calls, o)
    end
  end.

(* correspondence: watchers in the iteration order of the real set object, and the ids the implementation called *)
Definition c05_push_case (ws : list watcher) (impl_calls : list Z) : bool :=
  let '(calls, o) := handle_pushed ws in
  zlist_eqb calls impl_calls && match o with Returned => true | Raised => false end.

(* per-read observation: (#events so far, buffered bytes or -1 when defunct, 1 if _current_frame is set) *)
Definition obs_of (n : Z) (st : istate) : Z * Z * Z :=
  (n, match st with Live b => blen b | Dead => -1 end, match cur_of st with Some _ => 1 | None => 0 end).

Fixpoint run_obs (st : istate) (n : Z) (chunks : list (list Z)) : list (Z * Z * Z) :=
  match chunks with
  | [] => []
  | c :: cs => let '(st1, e1) := feed st c in
               let n1 := n + blen (map (fun _ => 0) e1) in
               obs_of n1 st1 :: run_obs st1 n1 cs
  end.

Definition obs_eqb (a b : Z * Z * Z) : bool :=
  let '(a1, a2, a3) := a in let '(b1, b2, b3) := b in (a1 =? b1) && (a2 =? b2) && (a3 =? b3).

Definition final_buf (st : istate) : list Z := match st with Live b => b | Dead => [] end.

(* one correspondence case: chunks, registered stream ids, and what the implementation did *)
Definition c05_case (chunks : list (list Z)) (reqs : list Z)
           (impl_events : list ievent) (impl_routed : list revent) (impl_obs : list (Z * Z * Z)) (impl_buf : list Z) : bool :=
  let '(st, evs) := run_feed init chunks in
  list_eqb ievent_eqb evs impl_events && list_eqb revent_eqb (route reqs evs) impl_routed &&
  list_eqb obs_eqb (run_obs init 0 chunks) impl_obs && zlist_eqb (final_buf st) impl_buf.
