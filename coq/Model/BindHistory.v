(* C30 model, part 2: one BoundStatement as a state machine.  State = BoundStatement.values, the routing key
   derived-and-cached by the routing_key property, and the routing_key given explicitly to the constructor.
   Ops = bind(values) | read routing_key.  step is the REPAIRED code (bind() drops the derived key when it resets
   self.values); step_stale is the code before the fix (derived key kept across bind), for C30_stale_cache_refuted.
   No proofs here. *)
From Coq Require Import ZArith List Bool.
From Verif Require Import Bind.
Import ListNotations.
Local Open Scope Z_scope.

Record bstate : Type := mkbs { st_values : list wval; st_cache : option (list Z); st_explicit : option (list Z) }.

Inductive bop (V : Type) : Type := OBind (inp : input V) | ORead.
Arguments OBind {V} inp. Arguments ORead {V}.

(* what is observable after a step: the op's outcome and BoundStatement.values *)
Inductive bobs : Type := ObsBind (e : option berr) (vals : list wval) | ObsRead (r : rkres) (vals : list wval).

Section History.
  Variable V : Type.
  Variable ser : nat -> V -> option (list Z).
  Variable names : list Z.
  Variable pk_idx : list nat.
  Variable pv : Z.

  (* the value loop, keeping what was appended to self.values before an exception *)
  Fixpoint bind_loop_p (i : nat) (vs : list (bval V)) : list wval * option berr :=
    match vs with
    | [] => ([], None)
    | v :: rest =>
        match bind_one V ser pk_idx pv i v with
        | inl e => ([], Some e)
        | inr w => let '(ws, e) := bind_loop_p (S i) rest in (w :: ws, e)
        end
    end.

  Fixpoint fill_unset_p (i n : nat) : list wval * option berr :=
    match n with
    | O => ([], None)
    | S n' => match append_unset pk_idx i with
              | inl e => ([], Some e)
              | inr w => let '(ws, e) := fill_unset_p (S i) n' in (w :: ws, e)
              end
    end.

  (* bind(): (exception, self.values afterwards, did it get as far as `self.values = []`) *)
  Definition bind_exec_values (vs : list (bval V)) (old : list wval) : option berr * list wval * bool :=
    let vl := length vs in
    let cl := length names in
    if (cl <? vl)%nat then (Some ETooMany, old, false)
    else if (pv <? 4) && negb (match pk_idx with [] => true | _ => false end) && (vl <? length pk_idx)%nat
    then (Some ETooFew, old, false)
    else let '(ws, e) := bind_loop_p 0 vs in
         match e with
         | Some x => (Some x, ws, true)
         | None => if 4 <=? pv
                   then let '(us, e2) := fill_unset_p vl (cl - vl) in (e2, ws ++ us, true)
                   else (None, ws, true)
         end.

  Definition bind_exec (inp : input V) (old : list wval) : option berr * list wval * bool :=
    match inp with
    | InList vs => bind_exec_values vs old
    | InDict d => match dict_to_list V pv d names with
                  | inl e => (Some e, old, false)
                  | inr vs => bind_exec_values vs old
                  end
    end.

  (* the routing_key property *)
  Definition read_key (s : bstate) : bstate * rkres :=
    match pk_idx with
    | [] => (s, RkNone)
    | _ => match st_explicit s with
           | Some k => (s, RkBytes k)                     (* given to the constructor: returned as it is *)
           | None => match st_cache s with
                     | Some k => (s, RkBytes k)
                     | None => match routing_key pk_idx (st_values s) with
                               | RkBytes k => (mkbs (st_values s) (Some k) None, RkBytes k)
                               | r => (s, r)
                               end
                     end
           end
    end.

  Definition step_gen (reset : bool) (s : bstate) (o : bop V) : bstate * bobs :=
    match o with
    | OBind inp =>
        let '(e, vals, touched) := bind_exec inp (st_values s) in
        let s' := mkbs vals (if touched && reset then None else st_cache s) (st_explicit s) in
        (s', ObsBind e vals)
    | ORead => let '(s', r) := read_key s in (s', ObsRead r (st_values s'))
    end.

  Definition step := step_gen true.          (* repaired bind(): derived key dropped together with the old values *)
  Definition step_stale := step_gen false.   (* before the fix *)

  Fixpoint run_with (st : bstate -> bop V -> bstate * bobs) (s : bstate) (ops : list (bop V)) : bstate * list bobs :=
    match ops with
    | [] => (s, [])
    | o :: r => let '(s1, ob) := st s o in let '(s2, obs) := run_with st s1 r in (s2, ob :: obs)
    end.

  Definition init (explicit : option (list Z)) : bstate := mkbs [] None explicit.
End History.

(* ---- running histories on concrete columns ---- *)
Definition c30_hist (ns : list Z) (ts : list ctype) (server_pk : list nat) (table_pk : option (list Z)) (pv : Z)
                    (explicit : option (list Z)) (ops : list (bop cval)) : list bobs :=
  let idx := derive_indexes ns server_pk table_pk in
  snd (run_with cval (step cval (cser_cols ts) ns idx pv) (init explicit) ops).

Definition c30_hist_stale (ns : list Z) (ts : list ctype) (server_pk : list nat) (table_pk : option (list Z)) (pv : Z)
                    (explicit : option (list Z)) (ops : list (bop cval)) : list bobs :=
  let idx := derive_indexes ns server_pk table_pk in
  snd (run_with cval (step_stale cval (cser_cols ts) ns idx pv) (init explicit) ops).

Definition bobs_eqb (a b : bobs) : bool :=
  match a, b with
  | ObsBind None x, ObsBind None y => wlist_eqb x y
  | ObsBind (Some e) x, ObsBind (Some f) y => berr_eqb e f && wlist_eqb x y
  | ObsRead r x, ObsRead q y => rkres_eqb r q && wlist_eqb x y
  | _, _ => false
  end.

Fixpoint obs_eqb (a b : list bobs) : bool :=
  match a, b with
  | [], [] => true
  | x :: a', y :: b' => bobs_eqb x y && obs_eqb a' b'
  | _, _ => false
  end.
