(* C03 -- driver-shaped primitive writers of cassandra/protocol.py (write_* helpers over marshal.py packers).
   A write sequence is `option bytes`: None = the Python code raised (struct.error, TypeError, UnsupportedOperation).
   Bytes are Z (0..255 when produced by the packers; content bytes are copied verbatim).  No proofs here. *)
From Coq Require Import ZArith List Bool.
Import ListNotations.
Local Open Scope Z_scope.

Definition bytes := list Z.
Definition W := option bytes.

Definition cat (a b : W) : W :=
  match a with
  | Some x => match b with Some y => Some (x ++ y) | None => None end
  | None => None
  end.
Infix "+++" := cat (at level 60, right associativity).

Definition wnil : W := Some [].
Definition raw (b : bytes) : W := Some b.
Definition len {A} (l : list A) : Z := Z.of_nat (length l).

(* struct.pack('>...'): big-endian, n bytes.  Floor division gives two's complement for negative z. *)
Fixpoint be_bytes (n : nat) (z : Z) : bytes :=
  match n with
  | O => []
  | S k => be_bytes k (z / 256) ++ [z mod 256]
  end.

(* unsigned formats B H I Q raise struct.error outside 0 .. 256^n-1; signed b h i q outside -2^(8n-1) .. 2^(8n-1)-1 *)
Definition pack_u (n : nat) (z : Z) : W :=
  if (0 <=? z) && (z <? 256 ^ Z.of_nat n) then Some (be_bytes n z) else None.
Definition pack_s (n : nat) (z : Z) : W :=
  if (- (256 ^ Z.of_nat n / 2) <=? z) && (z <? 256 ^ Z.of_nat n / 2) then Some (be_bytes n z) else None.

Definition write_byte := pack_u 1.      (* uint8_pack  *)
Definition write_short := pack_u 2.     (* uint16_pack *)
Definition write_int := pack_s 4.       (* int32_pack  *)
Definition write_uint := pack_u 4.      (* uint32_pack *)
Definition write_long := pack_s 8.      (* int64_pack *)
Definition write_consistency_level := write_short.

(* strings arrive here already UTF-8 encoded (s.encode('utf8') is Python's, trusted) *)
Definition write_string (s : bytes) : W := write_short (len s) +++ raw s.
Definition write_longstring (s : bytes) : W := write_int (len s) +++ raw s.

Inductive value := VNull | VUnset | VBytes (b : bytes).

Definition write_value (v : value) : W :=
  match v with
  | VNull => write_int (-1)
  | VUnset => write_int (-2)
  | VBytes b => write_int (len b) +++ raw b
  end.

Definition write_seq {A} (w : A -> W) (l : list A) : W :=
  fold_right (fun x acc => w x +++ acc) wnil l.

Definition write_stringlist (l : list bytes) : W := write_short (len l) +++ write_seq write_string l.

Definition write_stringmap (m : list (bytes * bytes)) : W :=
  write_short (len m) +++ write_seq (fun kv => write_string (fst kv) +++ write_string (snd kv)) m.

(* custom payload values: bytes or None *)
Definition write_bytes_opt (v : option bytes) : W :=
  match v with None => write_int (-1) | Some b => write_int (len b) +++ raw b end.

Definition write_bytesmap (m : list (bytes * option bytes)) : W :=
  write_short (len m) +++ write_seq (fun kv => write_string (fst kv) +++ write_bytes_opt (snd kv)) m.

Definition w_opt {A} (o : option A) (w : A -> W) : W :=
  match o with Some x => w x | None => wnil end.

Definition is_some {A} (o : option A) : bool := match o with Some _ => true | None => false end.
Definition is_nil {A} (l : list A) : bool := match l with [] => true | _ => false end.

(* Python truthiness of an optional int / optional bytes attribute: `if self.x:` *)
Definition truthy_z (o : option Z) : option Z :=
  match o with Some z => if z =? 0 then None else Some z | None => None end.
Definition truthy_b (o : option bytes) : option bytes :=
  match o with Some [] => None | Some b => Some b | None => None end.

Definition flag_if (b : bool) (c : Z) : Z := if b then c else 0.

Fixpoint bytes_eqb (a b : bytes) : bool :=
  match a, b with
  | [], [] => true
  | x :: a', y :: b' => (x =? y) && bytes_eqb a' b'
  | _, _ => false
  end.
