(* Hand models of the two small token functions outside the translated subset.
   MD5Token.hash_fn(key) = abs(varint_unpack(md5(key).digest()))  (cassandra/metadata.py, marshal.py) *)
From Coq Require Import ZArith List.
Import ListNotations.
Local Open Scope Z_scope.

(* marshal.varint_unpack: val = int(hex(term), 16); if term[0] & 128: val -= 1 << (len(term) * 8) *)
Definition varint_unpack_model (term : list Z) : Z :=
  let val := fold_left (fun acc b => acc * 256 + b) term 0 in
  match term with
  | [] => val
  | b0 :: _ => if negb (Z.land b0 128 =? 0) then val - Z.shiftl 1 (Z.of_nat (length term) * 8) else val
  end.

Section MD5.
  Variable md5 : list Z -> list Z.
  Definition md5_hash_fn (key : list Z) : Z := Z.abs (varint_unpack_model (md5 key)).
End MD5.
