(* C03 -- the statement's vocabulary: which fields a driver request "requests" in the specification's terms (canon),
   which requests the session layer can build (session_ok, DESIGN 4.0 reading), which requests carry something the
   version cannot carry (carries_unsupported)).  No proofs here. *)
From Coq Require Import ZArith List Bool.
From Verif Require Import PyBase ReqPV ReqConsts ReqWire Request ProtocolSpec.
Import ListNotations.
Local Open Scope Z_scope.

Definition cv (v : value) : svalue :=
  match v with VNull => SNull | VUnset => SNotSet | VBytes b => SBytes b end.

Definition canon_cpo (pv : Z) (o : cpopts) : scpo :=
  {| s_max_pages := cp_max_pages o; s_pps := cp_pps o;
     (* max_queue_size is "only honored for protocol version DSE_V2 and higher" (documented) *)
     s_next_pages := if pv =? 66 then Some (cp_queue o) else None |}.

(* Python truthiness: serial_consistency_level 0/None, fetch_size 0/None and paging_state b''/None all mean "not requested".
   skip_meta is not among the options of the statement and is never encoded by the driver: canon says false. *)
Definition canon_params (pv : Z) (m : qmsg) : sparams :=
  {| s_cl := q_cl m; s_values := option_map (map cv) (q_params m); s_skip_metadata := false;
     s_page_size := truthy_z (q_fetch m); s_paging_state := truthy_b (q_paging_state m);
     s_serial := truthy_z (q_serial m); s_timestamp := q_timestamp m; s_keyspace := q_keyspace m; s_now := None;
     s_page_bytes := match q_cpo m with Some o => cp_unit_bytes o | None => false end;
     s_cpo := option_map (canon_cpo pv) (q_cpo m) |}.

Definition canon_bquery (q : bquery) : sbquery :=
  match q with
  | BQ false s ps => SBQuery s (map cv ps)
  | BQ true id ps => SBPrepared id (map cv ps)
  end.

Definition canon_request (pv : Z) (r : request) : srequest :=
  match r with
  | Startup cqlv opts => SStartup (upsert CQL_VERSION cqlv opts)
  | Options => SOptions
  | AuthResponse resp => SAuthResponse (Some resp)
  | Credentials creds => SCredentials creds
  | Query q m => SQuery q (canon_params pv m)
  | Prepare q ks => SPrepare q ks
  | Execute id rmid m => SExecute id (if pv_uses_prepared_metadata pv then rmid else None) (canon_params pv m)
  | Batch ty qs cl serial ts ks => SBatch ty (map canon_bquery qs) cl (truthy_z serial) ts ks None
  | Register evs => SRegister evs
  | Revise op id next => SRevise op id (if op =? 2 then Some next else None)
  end.

Definition canon (pv : Z) (compressor_given : bool) (e : envelope) (r : request) (body_nonempty : bool) : sframe :=
  {| f_version := pv;
     f_compressed := compressor_given && negb (pv_has_checksumming_support pv) && body_nonempty;
     f_tracing := e_tracing e;
     f_beta := e_beta e && (5 <=? pv);     (* the use-beta bit is undefined ("ignored") before v5 *)
     f_stream := e_stream e;
     f_payload := if is_nil (e_payload e) then None else Some (e_payload e);
     f_request := canon_request pv r |}.

Definition body_nonempty (e : envelope) (r : request) : bool :=
  negb (is_nil (e_payload e)) || match r with Options => false | _ => true end.

Definition supported (pv : Z) : bool :=
  (pv =? 1) || (pv =? 2) || (pv =? 3) || (pv =? 4) || (pv =? 5) || (pv =? 6) || (pv =? 65) || (pv =? 66).

(* ---- what the session layer can put on a message (DESIGN 4.0, C03) ------------------------------------------- *)
Definition no_unset (l : list value) : bool :=
  forallb (fun v => match v with VUnset => false | _ => true end) l.
(* BoundStatement.bind refuses UNSET_VALUE below v4 *)
Definition values_ok (pv : Z) (l : list value) : bool := (4 <=? pv) || no_unset l.
(* Session._create_response_future: timestamp = generator() only when protocol_version >= 3 *)
Definition ts_ok (pv : Z) (ts : option Z) : bool := (3 <=? pv) || negb (is_some ts).

Definition session_ok (pv : Z) (r : request) : bool :=
  match r with
  | Query _ m => negb (is_some (q_params m)) && ts_ok pv (q_timestamp m)          (* QueryMessage passes query_params=None *)
  | Execute _ _ m => ts_ok pv (q_timestamp m) && match q_params m with Some l => values_ok pv l | None => true end
                     && negb (is_some (q_keyspace m))                             (* ExecuteMessage has no keyspace argument *)
  | Batch _ qs _ _ ts _ => (2 <=? pv) && ts_ok pv ts                              (* BATCH does not exist in v1; Session raises *)
                           && forallb (fun q => match q with BQ _ _ ps => values_ok pv ps end) qs
  | AuthResponse _ => 2 <=? pv                                                    (* v1 authenticates with CREDENTIALS *)
  | Revise _ _ _ => (pv =? 65) || (pv =? 66)                                      (* sent by ContinuousPagingSession only *)
  | _ => true
  end.

(* ---- second sentence of the property ------------------------------------------------------------------------- *)
(* continuous paging below DSE_V1; serial consistency / paging on v1 *)
Definition qmsg_unsupported_nk (pv : Z) (m : qmsg) : bool :=
  (is_some (q_cpo m) && negb (pv_has_continuous_paging_support pv))
  || ((pv =? 1) && (is_some (truthy_z (q_serial m)) || is_some (truthy_z (q_fetch m)) || is_some (truthy_b (q_paging_state m)))).
(* ... and a per-request keyspace below v5 / on DSE_V1 *)
Definition qmsg_unsupported (pv : Z) (m : qmsg) : bool :=
  (is_some (q_keyspace m) && negb (pv_uses_keyspace_flag pv)) || qmsg_unsupported_nk pv m.

Definition carries_unsupported (pv : Z) (e : envelope) (r : request) : bool :=
  (negb (is_nil (e_payload e)) && (pv <? 4))
  || match r with
     | Query _ m => qmsg_unsupported pv m
     | Execute _ _ m => qmsg_unsupported_nk pv m        (* ExecuteMessage has no keyspace argument *)
     | Prepare _ ks => is_some ks && negb (pv_uses_keyspace_flag pv)
     | Batch _ _ _ serial ts ks => (is_some ks && negb (pv_uses_keyspace_flag pv))
                                   || ((pv <? 3) && (is_some (truthy_z serial) || is_some ts))
     | _ => false
     end.

