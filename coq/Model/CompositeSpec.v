(* Cassandra's encoding of a partition key, written from the specification (CompositeType.java /
   the token-aware routing contract), independently of the driver-shaped models:
     - a table with ONE partition-key column: the routing key is that column's serialized value, raw;
     - a COMPOSITE partition key: for each component, in table order,
         <unsigned 16-bit big-endian length> <bytes> <end-of-component byte 0x00>.
   Bytes are Z in 0..255.  A component must be shorter than 2^16 bytes (unsigned short length). *)
From Coq Require Import ZArith List Bool.
Import ListNotations.
Local Open Scope Z_scope.

(* UNSIGNED 16-bit big-endian: for 0 <= n < 65536 the two bytes are n / 256 (0..255) and n mod 256; lengths
   32768..65535 have the top bit set (0x80..0xFF first byte) and are valid. *)
Definition u16_be (n : Z) : list Z := [n / 256; n mod 256].

Definition composite_component (b : list Z) : list Z :=
  u16_be (Z.of_nat (length b)) ++ b ++ [0].

Definition composite_spec (parts : list (list Z)) : list Z :=
  match parts with
  | [p] => p
  | _ => concat (map composite_component parts)
  end.

Definition component_ok (b : list Z) : bool := Z.of_nat (length b) <? 65536.
