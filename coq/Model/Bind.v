(* C30 model: PreparedStatement.from_message (routing-key index derivation), BoundStatement.bind,
   BoundStatement.routing_key, Statement._key_parts_packed   (cassandra/query.py).
   Value serialization is property C01/C02: each column's serializer is an abstract function
   ser : column index -> value -> option bytes  (None = serialize raised).  No proofs here. *)
From Coq Require Import ZArith List Bool.
Import ListNotations.
Local Open Scope Z_scope.

(* what the application passes for one bind marker *)
Inductive bval (V : Type) : Type := BNone | BUnset | BVal (v : V).
Arguments BNone {V}. Arguments BUnset {V}. Arguments BVal {V} v.

(* one entry of BoundStatement.values *)
Inductive wval : Type := WNull | WUnset | WBytes (b : list Z).

(* why bind() raised *)
Inductive berr : Type :=
| EKey          (* KeyError: name missing from the dict, protocol < 4 *)
| ETooMany      (* ValueError: too many arguments *)
| ETooFew       (* ValueError: too few arguments for the routing key, protocol < 4 *)
| EUnsetProto   (* ValueError: UNSET_VALUE bound on protocol < 4 *)
| EUnsetPk      (* ValueError: UNSET_VALUE (explicit or implied) as part of the routing key *)
| ESer.         (* the column's serializer raised *)

Inductive input (V : Type) : Type := InList (vs : list (bval V)) | InDict (d : list (Z * bval V)).
Arguments InList {V} vs. Arguments InDict {V} d.

Inductive rkres : Type := RkNone | RkErr | RkBytes (b : list Z).

Fixpoint map_opt {A B} (f : A -> option B) (l : list A) : option (list B) :=
  match l with
  | [] => Some []
  | a :: r => match f a with
              | None => None
              | Some b => match map_opt f r with None => None | Some bs => Some (b :: bs) end
              end
  end.

Fixpoint dict_get {A} (d : list (Z * A)) (k : Z) : option A :=
  match d with
  | [] => None
  | (k', v) :: r => if k =? k' then Some v else dict_get r k
  end.

Section Bind.
  Variable V : Type.
  Variable ser : nat -> V -> option (list Z).
  Variable names : list Z.          (* column_metadata[i].name, as identifiers *)
  Variable pk_idx : list nat.       (* routing_key_indexes; [] stands for None/empty (both falsy) *)
  Variable pv : Z.                  (* protocol version *)

  Definition is_rk (i : nat) : bool := existsb (Nat.eqb i) pk_idx.

  (* _append_unset_value at next_index = i *)
  Definition append_unset (i : nat) : berr + wval :=
    if is_rk i then inl EUnsetPk else inr WUnset.

  (* "special case for binding dicts": for col in col_meta: values_dict[col.name] / UNSET / KeyError *)
  Fixpoint dict_to_list (d : list (Z * bval V)) (ns : list Z) : berr + list (bval V) :=
    match ns with
    | [] => inr []
    | n :: rest =>
        match dict_get d n with
        | Some v => match dict_to_list d rest with inl e => inl e | inr l => inr (v :: l) end
        | None => if 4 <=? pv
                  then match dict_to_list d rest with inl e => inl e | inr l => inr (BUnset :: l) end
                  else inl EKey
        end
    end.

  (* one iteration of `for value, col_spec in zip(values, col_meta)` at position i *)
  Definition bind_one (i : nat) (v : bval V) : berr + wval :=
    match v with
    | BNone => inr WNull
    | BUnset => if 4 <=? pv then append_unset i else inl EUnsetProto
    | BVal x => match ser i x with Some b => inr (WBytes b) | None => inl ESer end
    end.

  Fixpoint bind_loop (i : nat) (vs : list (bval V)) : berr + list wval :=
    match vs with
    | [] => inr []
    | v :: rest =>
        match bind_one i v with
        | inl e => inl e
        | inr w => match bind_loop (S i) rest with inl e => inl e | inr ws => inr (w :: ws) end
        end
    end.

  (* `for _ in range(diff): self._append_unset_value()` starting at index i *)
  Fixpoint fill_unset (i n : nat) : berr + list wval :=
    match n with
    | O => inr []
    | S n' => match append_unset i with
              | inl e => inl e
              | inr w => match fill_unset (S i) n' with inl e => inl e | inr ws => inr (w :: ws) end
              end
    end.

  Definition bind_values (vs : list (bval V)) : berr + list wval :=
    let vl := length vs in
    let cl := length names in
    if (cl <? vl)%nat then inl ETooMany
    else if (pv <? 4) && negb (match pk_idx with [] => true | _ => false end) && (vl <? length pk_idx)%nat
    then inl ETooFew
    else match bind_loop 0 vs with
         | inl e => inl e
         | inr ws =>
             if 4 <=? pv
             then match fill_unset vl (cl - vl) with inl e => inl e | inr us => inr (ws ++ us) end
             else inr ws
         end.

  Definition bind (inp : input V) : berr + list wval :=
    match inp with
    | InList vs => bind_values vs
    | InDict d => match dict_to_list d names with inl e => inl e | inr vs => bind_values vs end
    end.

  (* struct.pack(">H%dsB" % l, l, p, 0): raises for l > 65535, len(None) raises, values[i] may raise *)
  Definition key_part (ws : list wval) (i : nat) : option (list Z) :=
    match nth_error ws i with
    | Some (WBytes b) =>
        let l := Z.of_nat (length b) in
        if l <? 65536 then Some ([Z.land (Z.shiftr l 8) 255; Z.land l 255] ++ b ++ [0]) else None
    | _ => None
    end.

  (* BoundStatement.routing_key (no explicit routing_key given to the constructor) *)
  Definition routing_key (ws : list wval) : rkres :=
    match pk_idx with
    | [] => RkNone
    | [i] => match nth_error ws i with
             | Some (WBytes b) => RkBytes b
             | Some WNull => RkNone          (* self.values[i] is None: "no routing key" *)
             | Some WUnset => RkErr          (* unreachable after bind: see C30_pk_unset_rejected *)
             | None => RkErr                 (* IndexError (short value list on protocol < 4) *)
             end
    | _ => match map_opt (key_part ws) pk_idx with
           | Some parts => RkBytes (concat parts)
           | None => RkErr
           end
    end.
End Bind.

(* PreparedStatement.from_message: which bind markers are partition-key components.
   server_pk = pk_indexes of the PREPARED result (v4+), table_pk = names of the table's partition key
   columns in table order from cluster metadata (None: keyspace/table unknown). *)
Fixpoint last_index_from (n : Z) (ns : list Z) (i : nat) (acc : option nat) : option nat :=
  match ns with
  | [] => acc
  | m :: r => last_index_from n r (S i) (if m =? n then Some i else acc)
  end.

(* statement_indexes = dict((c.name, i) ...): a later duplicate name overwrites an earlier one *)
Definition statement_index (ns : list Z) (n : Z) : option nat := last_index_from n ns 0%nat None.

Definition derive_indexes (ns : list Z) (server_pk : list nat) (table_pk : option (list Z)) : list nat :=
  match ns with
  | [] => []
  | _ => match server_pk with
         | _ :: _ => server_pk
         | [] => match table_pk with
                 | None => []
                 | Some pkn => match map_opt (statement_index ns) pkn with Some l => l | None => [] end
                 end
         end
  end.

(* ---- concrete column types used to RUN the model against the driver (not used by theorems) ---- *)
Inductive cval : Type :=
| CInt (z : Z)              (* a Python int *)
| CStr (cps : list Z)       (* a Python str, as code points *)
| CBytes (b : list Z).      (* a Python bytes *)

Inductive ctype : Type := TInt32 | TText | TBlob.

Definition be32 (z : Z) : list Z :=
  let u := z mod 4294967296 in [u / 16777216; (u / 65536) mod 256; (u / 256) mod 256; u mod 256].

Definition utf8_cp (c : Z) : option (list Z) :=
  if c <? 0 then None
  else if c <? 128 then Some [c]
  else if c <? 2048 then Some [192 + c / 64; 128 + c mod 64]
  else if (55296 <=? c) && (c <? 57344) then None
  else if c <? 65536 then Some [224 + c / 4096; 128 + (c / 64) mod 64; 128 + c mod 64]
  else if c <? 1114112 then Some [240 + c / 262144; 128 + (c / 4096) mod 64; 128 + (c / 64) mod 64; 128 + c mod 64]
  else None.

Definition cser (t : ctype) (v : cval) : option (list Z) :=
  match t, v with
  | TInt32, CInt z => if (-2147483648 <=? z) && (z <=? 2147483647) then Some (be32 z) else None
  | TText, CStr cps => match map_opt utf8_cp cps with Some l => Some (concat l) | None => None end
  | TText, CBytes b => None        (* bytes.encode: AttributeError *)
  | TBlob, CBytes b => Some b
  | TBlob, CStr _ => None          (* "blob values must be bytes-like": TypeError *)
  | _, _ => None
  end.

Definition cser_cols (ts : list ctype) (i : nat) (v : cval) : option (list Z) :=
  match nth_error ts i with Some t => cser t v | None => None end.

(* ---- running one correspondence case: from_message, bind, routing_key on concrete columns ---- *)
Definition c30_run (ns : list Z) (ts : list ctype) (server_pk : list nat) (table_pk : option (list Z)) (pv : Z)
                   (inp : input cval) : list nat * (berr + list wval) * rkres :=
  let idx := derive_indexes ns server_pk table_pk in
  let r := bind cval (cser_cols ts) ns idx pv inp in
  (idx, r, match r with inr ws => routing_key idx ws | inl _ => RkNone end).

Fixpoint zlist_eqb (a b : list Z) : bool :=
  match a, b with
  | [], [] => true
  | x :: a', y :: b' => (x =? y) && zlist_eqb a' b'
  | _, _ => false
  end.

Fixpoint natlist_eqb (a b : list nat) : bool :=
  match a, b with
  | [], [] => true
  | x :: a', y :: b' => Nat.eqb x y && natlist_eqb a' b'
  | _, _ => false
  end.

Definition wval_eqb (a b : wval) : bool :=
  match a, b with
  | WNull, WNull => true
  | WUnset, WUnset => true
  | WBytes x, WBytes y => zlist_eqb x y
  | _, _ => false
  end.

Fixpoint wlist_eqb (a b : list wval) : bool :=
  match a, b with
  | [], [] => true
  | x :: a', y :: b' => wval_eqb x y && wlist_eqb a' b'
  | _, _ => false
  end.

Definition berr_eqb (a b : berr) : bool :=
  match a, b with
  | EKey, EKey | ETooMany, ETooMany | ETooFew, ETooFew | EUnsetProto, EUnsetProto | EUnsetPk, EUnsetPk | ESer, ESer => true
  | _, _ => false
  end.

Definition rkres_eqb (a b : rkres) : bool :=
  match a, b with
  | RkNone, RkNone => true
  | RkErr, RkErr => true
  | RkBytes x, RkBytes y => zlist_eqb x y
  | _, _ => false
  end.

Definition c30_eqb (a b : list nat * (berr + list wval) * rkres) : bool :=
  let '(ia, ra, ka) := a in
  let '(ib, rb, kb) := b in
  natlist_eqb ia ib &&
  match ra, rb with
  | inl x, inl y => berr_eqb x y
  | inr x, inr y => wlist_eqb x y
  | _, _ => false
  end && rkres_eqb ka kb.
