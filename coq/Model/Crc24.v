(* Clean reference definition of the CRC-24 used for native-protocol v5 segment headers
   (Cassandra's org.apache.cassandra.net.Crc.crc24 / the driver's compute_crc24): the register is updated byte by byte,
   least significant header byte first; each byte is xor-ed into bits 16..23 and followed by 8 shift-and-reduce steps.
   The constants come from the source tree (Gen/SegmentConsts.v).  No proofs here (Model file). *)
From Coq Require Import ZArith List Bool.
From Verif Require Import SegmentConsts.
Import ListNotations.
Local Open Scope Z_scope.

(* one bit step: shift left; if bit 24 would become set, reduce by the polynomial (which has bit 24 set) *)
Definition crc24_step (c : Z) : Z :=
  Z.lxor (Z.shiftl c 1) (if Z.testbit c 23 then CRC24_POLY else 0).

(* one byte: xor it into the top byte of the 24-bit register, then 8 bit steps *)
Definition crc24_byte (c b : Z) : Z := Nat.iter 8 crc24_step (Z.lxor c (Z.shiftl b 16)).

Definition crc24_from (c : Z) (bytes : list Z) : Z := fold_left crc24_byte bytes c.

Definition crc24_ref (bytes : list Z) : Z := crc24_from CRC24_INIT bytes.

(* the n low-order bytes of an integer, least significant first (two's complement for negative integers) *)
Fixpoint le_bytes (n : nat) (d : Z) : list Z :=
  match n with
  | O => []
  | S n' => d mod 256 :: le_bytes n' (Z.shiftr d 8)
  end.

(* bytewise xor of two equally long byte strings *)
Fixpoint xor_bytes (a b : list Z) : list Z :=
  match a, b with
  | x :: a', y :: b' => Z.lxor x y :: xor_bytes a' b'
  | _, _ => []
  end.

(* hand model of the sink write_uint_le(buffer, v, size=n), n <> 4, and of the 4-byte struct '<I' (for 0 <= v < 2^32) *)
Definition write_uint_le_model (rec : Z * Z) : list Z := le_bytes (Z.to_nat (snd rec)) (fst rec).

(* header word layout (native protocol v5, section 2.2): 17 bits payload length, [17 bits uncompressed length,]
   1 bit self-contained flag, zero padding *)
Definition header_word (compression : bool) (payload_length uncompressed_length : Z) (self_contained : bool) : Z :=
  if compression
  then payload_length + uncompressed_length * 2 ^ 17 + (if self_contained then 2 ^ 34 else 0)
  else payload_length + (if self_contained then 2 ^ 17 else 0).
