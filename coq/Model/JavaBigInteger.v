(* Independent specification of java.math.BigInteger.toByteArray() and new BigInteger(byte[]),
   written from the Javadoc, not from the driver:

     bitLength():   "the number of bits in the minimal two's-complement representation of this BigInteger,
                     excluding a sign bit": ceil(log2(this < 0 ? -this : this+1)).
     toByteArray(): "a byte array containing the two's-complement representation of this BigInteger.  The byte array
                     will be in big-endian byte-order ... The array will contain the minimum number of bytes required to
                     represent this BigInteger, including at least one sign bit, which is (ceil((this.bitLength() + 1)/8))".
                     ceil((b+1)/8) = b/8 + 1 (integer division).
     BigInteger(byte[] val): "Translates a byte array containing the two's-complement binary representation of a
                     BigInteger ... big-endian"; NumberFormatException when val is zero bytes long.

   Bytes are Z in 0..255 (the unsigned reading of Java's signed byte).  No proofs here (Model file). *)
From Coq Require Import ZArith List Bool.
Import ListNotations.
Local Open Scope Z_scope.

(* number of binary digits of a non-negative integer: 0 for 0, floor(log2 n) + 1 otherwise *)
Definition nbits (n : Z) : Z := if n <=? 0 then 0 else Z.log2 n + 1.

Definition java_bitLength (z : Z) : Z := if z <? 0 then nbits (- z - 1) else nbits z.

(* the n low-order bytes of the (infinite) two's-complement expansion of z, most significant first;
   Z.shiftr is the arithmetic shift (floor division by a power of two), so negative z sign-extends *)
Fixpoint be_bytes (n : nat) (z : Z) : list Z :=
  match n with
  | O => []
  | S n' => (Z.shiftr z (8 * Z.of_nat n')) mod 256 :: be_bytes n' z
  end.

Definition java_byteLength (z : Z) : Z := java_bitLength z / 8 + 1.

Definition java_toByteArray (z : Z) : list Z := be_bytes (Z.to_nat (java_byteLength z)) z.

(* magnitude of a big-endian unsigned byte string *)
Definition be_unsigned (bs : list Z) : Z := fold_left (fun acc b => acc * 256 + b) bs 0.

(* new BigInteger(bytes): two's complement, big-endian; None = NumberFormatException("Zero length BigInteger") *)
Definition java_fromByteArray (bs : list Z) : option Z :=
  match bs with
  | [] => None
  | b0 :: _ => Some (if b0 <? 128 then be_unsigned bs else be_unsigned bs - 2 ^ (8 * Z.of_nat (length bs)))
  end.

Definition is_byte (b : Z) : Prop := 0 <= b < 256.
