(* C31 model: the generator's state is `last`; one call = one atomic step (the whole `with self.lock` body
   of MonotonicTimestampGenerator.__call__, clock read included).  next_timestamp is GENERATED from source. *)
From Coq Require Import ZArith List Bool.
From Verif Require Import PyBase Timestamps.
Import ListNotations.
Local Open Scope Z_scope.

(* __call__: with self.lock: return self._next_timestamp(now=<clock>, last=self.last) *)
Definition call (last : Z) (now : Z) : Z * Z := next_timestamp now last last.

(* run a sequence of calls (in lock-acquisition order) with the given clock readings *)
Fixpoint run (last : Z) (clock : list Z) : list Z :=
  match clock with
  | [] => []
  | now :: rest => let '(r, last') := call last now in r :: run last' rest
  end.

Fixpoint final (last : Z) (clock : list Z) : Z :=
  match clock with
  | [] => last
  | now :: rest => final (snd (call last now)) rest
  end.

Fixpoint strictly_increasing (l : list Z) : bool :=
  match l with
  | a :: ((b :: _) as t) => (a <? b) && strictly_increasing t
  | _ => true
  end.

(* fine-grained model used only when the lock is gone: read clock+last, then write last, as separate steps
   of two threads A and B.  Interleaving: A reads, B reads, A writes, B writes. *)
Definition unlocked_two_threads (last nowA nowB : Z) : Z * Z :=
  let '(rA, _) := next_timestamp nowA last last in
  let '(rB, _) := next_timestamp nowB last last in
  (rA, rB).
