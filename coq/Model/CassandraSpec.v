(* INDEPENDENT SPECIFICATION (trusted): what Cassandra's own type serializers write for a CQL value, per
   native-protocol version, transcribed from the native protocol specification (v3-v5, section "data types" /
   "[bytes]") and org.apache.cassandra.serializers.* as I know them.  Written as total, declarative functions,
   separately from the driver-shaped model (CqlCodec.v).  NO PROOFS HERE.

   - fixed-width numbers: big-endian two's complement (tinyint 1, smallint 2, int 4, bigint/counter/time/timestamp 8);
     float/double: IEEE-754 bit pattern, big-endian; boolean: one byte 0/1; uuid 16 bytes; inet 4 or 16 bytes
   - date: unsigned 32-bit, days since epoch + 2^31;  time: nanoseconds since midnight as int64
   - varint: BigInteger.toByteArray;  decimal: int32 scale, then the unscaled value as varint
   - duration: three signed vints (months, days, nanoseconds)
   - text: UTF-8; ascii: the bytes
   - list/set: [n][len e1][e1]...  map: [n][len k1][k1][len v1][v1]...  with n and len int32 in v3+ and uint16 in
     v1/v2; a null element has length -1 (v3+ only); elements themselves are serialized in the v3+ layout
   - tuple / UDT: for each given field [int32 len][bytes], -1 for null; trailing fields may be missing
   - vector<t, n>: the n elements back to back; each is preceded by its size as an unsigned vint unless t has a
     fixed serialized size.  WHICH types are fixed-size is taken from the driver's own table (serial_size):
     Cassandra 5's table is not available offline (DESIGN 4, C02 "not covered").  Vector elements are written
     with the same protocol version as the vector (no Cassandra version has vectors below v4; taken from the driver). *)
From Coq Require Import ZArith List Bool.
From Verif Require Import MarshalModel Utf8Model CqlType CassandraSpecInt.
Import ListNotations.
Local Open Scope Z_scope.

Definition in_z (lo hi z : Z) : bool := (lo <=? z) && (z <? hi).
Definition all_bytes (l : list Z) : bool := forallb (fun b => in_z 0 256 b) l.
Definition scalar_cp (c : Z) : bool := in_z 0 1114112 c && negb (is_surrogate c).

(* ---------------------------------------------------------------- scalars *)
Definition spec_utf8 (cps : list Z) : list Z :=
  match utf8_encode cps with Some b => b | None => [] end.     (* UTF-8 (RFC 3629) as modelled in Utf8Model.v *)

Definition spec_scalar (s : scalar) (v : value) : list Z :=
  match s, v with
  | SAscii, VText cps => cps
  | SText, VText cps => spec_utf8 cps
  | SBigint, VInt z | STime, VInt z | STimestamp, VInt z | SDouble, VInt z => spec_be 8 z
  | SInt, VInt z | SFloat, VInt z => spec_be 4 z
  | SSmallint, VInt z => spec_be 2 z
  | STinyint, VInt z => spec_be 1 z
  | SBoolean, VBool b => [if b then 1 else 0]
  | SDate, VInt d => spec_be 4 (d + 2 ^ 31)
  | SDecimal, VDec u sc => spec_be 4 sc ++ spec_varint u
  | SVarint, VInt z => spec_varint z
  | SBlob, VBytes bs | SInet, VBytes bs | SUuid, VBytes bs => bs
  | SDuration, VDur m d n => spec_vint m ++ spec_vint d ++ spec_vint n
  | _, _ => []
  end.

(* the values a serializer accepts.  duration: months and days
   must fit int32 on the server -- the driver's wider acceptance is recorded in docs/C02.md, and harmless for
   "encoded as a different value" because encoding stays injective (C01) *)
Definition range_scalar (s : scalar) (v : value) : bool :=
  match s, v with
  | SAscii, VText cps => all_ascii cps
  | SText, VText cps => forallb scalar_cp cps
  | SBigint, VInt z | STimestamp, VInt z => in_z (- 2 ^ 63) (2 ^ 63) z
  | STime, VInt z => in_z 0 DAY_NANOS z
  | SDouble, VInt z => in_z 0 (2 ^ 64) z
  | SFloat, VInt z => in_z 0 (2 ^ 32) z
  | SInt, VInt z | SDate, VInt z => in_z (- 2 ^ 31) (2 ^ 31) z
  | SSmallint, VInt z => in_z (- 2 ^ 15) (2 ^ 15) z
  | STinyint, VInt z => in_z (- 2 ^ 7) (2 ^ 7) z
  | SBoolean, VBool _ => true
  | SDecimal, VDec _ sc => in_z (- 2 ^ 31) (2 ^ 31) sc
  | SVarint, VInt _ => true
  | SBlob, VBytes _ => true
  | SInet, VBytes bs => (length bs =? 4)%nat || (length bs =? 16)%nat
  | SUuid, VBytes bs => (length bs =? 16)%nat
  | SDuration, VDur m d n => in_z (- 2 ^ 63) (2 ^ 63) m && in_z (- 2 ^ 63) (2 ^ 63) d && in_z (- 2 ^ 63) (2 ^ 63) n
  | _, _ => false
  end.

(* "is a Python value of that CQL kind": right constructor; bytes are bytes; str holds code points < 0x110000 *)
Definition kind_scalar (s : scalar) (v : value) : bool :=
  match s, v with
  | SAscii, VText cps | SText, VText cps => forallb (in_z 0 1114112) cps
  | SBigint, VInt _ | STimestamp, VInt _ | STime, VInt _ | SDouble, VInt _ | SFloat, VInt _ | SInt, VInt _
  | SDate, VInt _ | SSmallint, VInt _ | STinyint, VInt _ | SVarint, VInt _ => true
  | SBoolean, VBool _ => true
  | SDecimal, VDec _ _ => true
  | SBlob, VBytes bs | SInet, VBytes bs | SUuid, VBytes bs => all_bytes bs
  | SDuration, VDur _ _ _ => true
  | _, _ => false
  end.

(* ---------------------------------------------------------------- length fields *)
Definition spec_lenw (pv : Z) : nat := if 3 <=? pv then 4%nat else 2%nat.
Definition spec_len (pv z : Z) : list Z := spec_be (spec_lenw pv) z.
Definition spec_inner (pv : Z) : Z := Z.max 3 pv.
(* largest count/length the field can carry: int32 (v3+) or uint16 (v1, v2) *)
Definition len_limit (pv : Z) : Z := if 3 <=? pv then 2 ^ 31 else 2 ^ 16.

Definition spec_elem (pv : Z) (enc : value -> list Z) (v : value) : list Z :=
  match v with
  | VNull => spec_len pv (-1)
  | _ => let b := enc v in spec_len pv (len b) ++ b
  end.

Definition spec_vec_elem (fixed : bool) (enc : value -> list Z) (v : value) : list Z :=
  let b := enc v in if fixed then b else spec_uvint (len b) ++ b.

Fixpoint spec_enc (pv : Z) (t : cqltype) (v : value) {struct t} : list Z :=
  match t with
  | TScalar s => spec_scalar s v
  | TList t' | TSet t' =>
    match v with
    | VSeq vs => spec_len pv (len vs) ++ flat_map (spec_elem pv (spec_enc (spec_inner pv) t')) vs
    | _ => []
    end
  | TMap k x =>
    match v with
    | VMap kvs =>
      spec_len pv (len kvs) ++
      flat_map (fun kv => spec_elem pv (spec_enc (spec_inner pv) k) (fst kv) ++ spec_elem pv (spec_enc (spec_inner pv) x) (snd kv)) kvs
    | _ => []
    end
  | TTuple ts | TUdt ts =>
    match v with
    | VSeq vs =>
      (fix go (ts : list cqltype) (vs : list value) {struct ts} : list Z :=
         match ts, vs with
         | t1 :: ts', v1 :: vs' => spec_elem 3 (spec_enc (spec_inner pv) t1) v1 ++ go ts' vs'
         | _, _ => []
         end) ts vs
    | _ => []
    end
  | TVector t' n =>
    match v with
    | VSeq vs => flat_map (spec_vec_elem (match serial_size t' with Some _ => true | None => false end) (spec_enc pv t')) vs
    | _ => []
    end
  | TFrozen t' | TReversed t' => spec_enc pv t' v
  end.

(* ---------------------------------------------------------------- which values have an encoding *)
(* an element of a list/set/map/tuple/UDT: null needs a signed length field *)
Definition elem_ok (pv : Z) (limit : Z) (rng : value -> bool) (enc : value -> list Z) (v : value) : bool :=
  match v with
  | VNull => 3 <=? pv
  | _ => rng v && (len (enc v) <? limit)
  end.

Fixpoint in_range (pv : Z) (t : cqltype) (v : value) {struct t} : bool :=
  match t with
  | TScalar s => range_scalar s v
  | TList t' | TSet t' =>
    match v with
    | VSeq vs =>
      (len vs <? len_limit pv) &&
      forallb (elem_ok pv (len_limit pv) (in_range (spec_inner pv) t') (spec_enc (spec_inner pv) t')) vs
    | _ => false
    end
  | TMap k x =>
    match v with
    | VMap kvs =>
      (len kvs <? len_limit pv) &&
      forallb (fun kv => elem_ok pv (len_limit pv) (in_range (spec_inner pv) k) (spec_enc (spec_inner pv) k) (fst kv) &&
                         elem_ok pv (len_limit pv) (in_range (spec_inner pv) x) (spec_enc (spec_inner pv) x) (snd kv)) kvs
    | _ => false
    end
  | TTuple ts =>
    match v with
    | VSeq vs =>
      (length vs <=? length ts)%nat &&
      (fix go (ts : list cqltype) (vs : list value) {struct ts} : bool :=
         match ts, vs with
         | t1 :: ts', v1 :: vs' => elem_ok 3 (2 ^ 31) (in_range (spec_inner pv) t1) (spec_enc (spec_inner pv) t1) v1 && go ts' vs'
         | _, _ => true
         end) ts vs
    | _ => false
    end
  | TUdt ts =>
    match v with
    | VSeq vs =>
      (length vs =? length ts)%nat &&
      (fix go (ts : list cqltype) (vs : list value) {struct ts} : bool :=
         match ts, vs with
         | t1 :: ts', v1 :: vs' => elem_ok 3 (2 ^ 31) (in_range (spec_inner pv) t1) (spec_enc (spec_inner pv) t1) v1 && go ts' vs'
         | _, _ => true
         end) ts vs
    | _ => false
    end
  | TVector t' n =>
    match v with
    | VSeq vs =>
      (len vs =? n) &&
      forallb (fun x => negb (is_null x) && in_range pv t' x &&
                        ((match serial_size t' with Some _ => true | None => false end) || (len (spec_enc pv t' x) <? 2 ^ 64))) vs
    | _ => false
    end
  | TFrozen t' | TReversed t' => negb (is_null v) && in_range pv t' v
  end.

(* what Cassandra writes, or None when the value has no encoding *)
Definition spec_result (pv : Z) (t : cqltype) (v : value) : option (list Z) :=
  if in_range pv t v then Some (spec_enc pv t v) else None.

(* ---------------------------------------------------------------- "a Python value of this CQL type" *)
Definition kind_elem (k : value -> bool) (v : value) : bool := match v with VNull => true | _ => k v end.

Fixpoint kind (t : cqltype) (v : value) {struct t} : bool :=
  match t with
  | TScalar s => kind_scalar s v
  | TList t' | TSet t' =>
    match v with VSeq vs => forallb (kind_elem (kind t')) vs | _ => false end
  | TMap k x =>
    match v with VMap kvs => forallb (fun kv => kind_elem (kind k) (fst kv) && kind_elem (kind x) (snd kv)) kvs | _ => false end
  | TTuple ts =>
    match v with
    | VSeq vs =>
      (fix go (ts : list cqltype) (vs : list value) {struct ts} : bool :=
         match ts, vs with
         | t1 :: ts', v1 :: vs' => kind_elem (kind t1) v1 && go ts' vs'
         | _, _ => true
         end) ts vs
    | _ => false
    end
  | TUdt ts =>
    match v with
    | VSeq vs =>
      (length vs =? length ts)%nat &&
      (fix go (ts : list cqltype) (vs : list value) {struct ts} : bool :=
         match ts, vs with
         | t1 :: ts', v1 :: vs' => kind_elem (kind t1) v1 && go ts' vs'
         | _, _ => true
         end) ts vs
    | _ => false
    end
  | TVector t' _ => match v with VSeq vs => forallb (kind t') vs | _ => false end
  | TFrozen t' | TReversed t' => kind t' v
  end.

(* ---------------------------------------------------------------- C01: normal forms and side conditions *)
(* the documented normalisation visible in this value syntax: a tuple written with fewer items than the type has
   fields comes back padded with nulls.  (Sets come back as util.sortedset: same elements, the order is
   SortedSet's business -- the model keeps wire order; Decimal/float/text are canonical already.) *)
Fixpoint norm (t : cqltype) (v : value) {struct t} : value :=
  match v with
  | VNull => VNull
  | _ =>
    match t with
    | TScalar _ => v
    | TList t' | TSet t' | TVector t' _ => match v with VSeq vs => VSeq (map (norm t') vs) | _ => v end
    | TMap k x => match v with VMap kvs => VMap (map (fun kv => (norm k (fst kv), norm x (snd kv))) kvs) | _ => v end
    | TTuple ts | TUdt ts =>
      match v with
      | VSeq vs =>
        VSeq ((fix go (ts : list cqltype) (vs : list value) {struct ts} : list value :=
                 match ts, vs with
                 | t1 :: ts', v1 :: vs' => norm t1 v1 :: go ts' vs'
                 | _, [] => map (fun _ => VNull) ts
                 | [], _ => []
                 end) ts vs)
      | _ => v
      end
    | TFrozen t' | TReversed t' => norm t' v
    end
  end.

(* types the round-trip theorem covers: vectors have a positive dimension, tuples/UDTs at least one field, and the
   Frozen/Reversed wrappers are not put around text/ascii/blob (their from_binary maps b'' to None: see docs/C01.md) *)
Fixpoint wf_type (t : cqltype) : bool :=
  match t with
  | TScalar _ => true
  | TList t' | TSet t' => wf_type t'
  | TMap k x => wf_type k && wf_type x
  | TTuple ts | TUdt ts => negb (match ts with [] => true | _ => false end) && forallb wf_type ts
  | TVector t' n => (1 <=? n) && wf_type t'
  | TFrozen t' | TReversed t' => negb (empty_ok t') && wf_type t'
  end.

(* values the driver can hand back as the documented Python objects: timestamps inside datetime's range
   (years 1..9999), tuple values with at least one item (an empty tuple is written as b'' = null), vector
   elements are not null (Cassandra has no null vector elements; the driver raises for most element types) *)
Fixpoint py_repr (t : cqltype) (v : value) {struct t} : bool :=
  match v with
  | VNull => true
  | _ =>
    match t with
    | TScalar STimestamp => match v with VInt ms => (TS_MIN <=? ms) && (ms <=? TS_MAX) | _ => true end
    | TScalar _ => true
    | TList t' | TSet t' => match v with VSeq vs => forallb (py_repr t') vs | _ => true end
    | TVector t' _ => match v with VSeq vs => forallb (fun x => negb (is_null x) && py_repr t' x) vs | _ => true end
    | TMap k x => match v with VMap kvs => forallb (fun kv => py_repr k (fst kv) && py_repr x (snd kv)) kvs | _ => true end
    | TTuple ts | TUdt ts =>
      match v with
      | VSeq vs =>
        negb (match vs with [] => true | _ => false end) &&
        (fix go (ts : list cqltype) (vs : list value) {struct ts} : bool :=
           match ts, vs with
           | t1 :: ts', v1 :: vs' => py_repr t1 v1 && go ts' vs'
           | _, _ => true
           end) ts vs
      | _ => true
      end
    | TFrozen t' | TReversed t' => py_repr t' v
    end
  end.
