(* Model of cassandra/pool.py HostConnection (protocol v3+): C12, C13.
   One op per atomic region of the source (one `with lock:` block or one unlocked statement group), see
   docs/C12.md for the region <-> op table.  NO proofs in this file.

   Per-connection summary (the stream bookkeeping itself is another model's business):
     c_inflight = Connection.in_flight            c_orph = len(Connection.orphaned_request_ids)
     c_thr = orphaned_threshold_reached           c_closed / c_defunct / c_signaled = is_closed / is_defunct / signaled_error
   Ghost fields (not in the source; they only record what the clients of the pool are doing):
     c_live  = streams handed out by borrow/set_keyspace_async, not yet returned and not orphaned
     c_retp  = return_connection calls that have passed their decrement (or were entered with stream_was_orphaned)
               and have not yet read the connection's flags
     c_trp   = return_connection calls that saw "connection in self._trash" and have not yet run the locked trash region
     c_replaced = _replace finished for this connection
   Connection ids are indices into `conns`, the list of every connection the pool ever opened. *)
From Coq Require Import ZArith List Bool.
Import ListNotations.
Local Open Scope Z_scope.

Record conn := mkConn {
  c_inflight : Z; c_orph : Z; c_thr : bool; c_closed : bool; c_defunct : bool; c_signaled : bool;
  c_live : Z; c_retp : Z; c_trp : Z; c_replaced : bool
}.

Definition new_conn : conn := mkConn 0 0 false false false false 0 0 0 false.

Record state := mkState {
  conns : list conn;            (* every connection ever opened (cid = index); closed set = c_closed flags *)
  cur : option nat;             (* self._connection *)
  trash : list nat;             (* self._trash (kept sorted, no duplicates) *)
  replacing : bool;             (* self._is_replacing *)
  shut : bool;                  (* self.is_shutdown *)
  soe : bool;                   (* self.shutdown_on_error *)
  queue : list nat;             (* executor: submitted _replace(old) tasks *)
  connecting : list nat;        (* _replace tasks past the is_shutdown check, before connection_factory *)
  assigning : list (nat * nat); (* _replace tasks holding a fresh connection (old, new), before the locked assignment *)
  finishing : list nat;         (* _replace tasks after the assignment, before the locked else-branch *)
  sd_phase : Z;                 (* shutdown(): 0 not started, 1 flag set, 2 main connection closed, 3 done *)
  maxid : Z;                    (* Connection.max_request_id *)
  thrN : Z                      (* Connection.orphaned_threshold *)
}.

Definition init (with_conn : bool) (mx th : Z) : state :=
  mkState (if with_conn then [new_conn] else []) (if with_conn then Some 0%nat else None)
          [] false false false [] [] [] [] 0 mx th.

(* ---- field updates ---- *)
Definition set_conns s v := mkState v (cur s) (trash s) (replacing s) (shut s) (soe s) (queue s) (connecting s) (assigning s) (finishing s) (sd_phase s) (maxid s) (thrN s).
Definition set_cur s v := mkState (conns s) v (trash s) (replacing s) (shut s) (soe s) (queue s) (connecting s) (assigning s) (finishing s) (sd_phase s) (maxid s) (thrN s).
Definition set_trash s v := mkState (conns s) (cur s) v (replacing s) (shut s) (soe s) (queue s) (connecting s) (assigning s) (finishing s) (sd_phase s) (maxid s) (thrN s).
Definition set_replacing s v := mkState (conns s) (cur s) (trash s) v (shut s) (soe s) (queue s) (connecting s) (assigning s) (finishing s) (sd_phase s) (maxid s) (thrN s).
Definition set_shut s v := mkState (conns s) (cur s) (trash s) (replacing s) v (soe s) (queue s) (connecting s) (assigning s) (finishing s) (sd_phase s) (maxid s) (thrN s).
Definition set_soe s v := mkState (conns s) (cur s) (trash s) (replacing s) (shut s) v (queue s) (connecting s) (assigning s) (finishing s) (sd_phase s) (maxid s) (thrN s).
Definition set_queue s v := mkState (conns s) (cur s) (trash s) (replacing s) (shut s) (soe s) v (connecting s) (assigning s) (finishing s) (sd_phase s) (maxid s) (thrN s).
Definition set_connecting s v := mkState (conns s) (cur s) (trash s) (replacing s) (shut s) (soe s) (queue s) v (assigning s) (finishing s) (sd_phase s) (maxid s) (thrN s).
Definition set_assigning s v := mkState (conns s) (cur s) (trash s) (replacing s) (shut s) (soe s) (queue s) (connecting s) v (finishing s) (sd_phase s) (maxid s) (thrN s).
Definition set_finishing s v := mkState (conns s) (cur s) (trash s) (replacing s) (shut s) (soe s) (queue s) (connecting s) (assigning s) v (sd_phase s) (maxid s) (thrN s).
Definition set_phase s v := mkState (conns s) (cur s) (trash s) (replacing s) (shut s) (soe s) (queue s) (connecting s) (assigning s) (finishing s) v (maxid s) (thrN s).

Fixpoint upd {A} (i : nat) (f : A -> A) (l : list A) : list A :=
  match l, i with
  | [], _ => []
  | x :: t, O => f x :: t
  | x :: t, S j => x :: upd j f t
  end.

Definition getc (s : state) (c : nat) : conn := nth c (conns s) new_conn.
Definition valid (s : state) (c : nat) : bool := Nat.ltb c (length (conns s)).
Definition updc (s : state) (c : nat) (f : conn -> conn) : state := set_conns s (upd c f (conns s)).

Definition k_inflight (f : Z -> Z) (k : conn) := mkConn (f (c_inflight k)) (c_orph k) (c_thr k) (c_closed k) (c_defunct k) (c_signaled k) (c_live k) (c_retp k) (c_trp k) (c_replaced k).
Definition k_close (k : conn) := mkConn (c_inflight k) (c_orph k) (c_thr k) true (c_defunct k) (c_signaled k) (c_live k) (c_retp k) (c_trp k) (c_replaced k).
Definition k_defunct (k : conn) := mkConn (c_inflight k) (c_orph k) (c_thr k) true true (c_signaled k) (c_live k) (c_retp k) (c_trp k) (c_replaced k).
Definition k_signal (k : conn) := mkConn (c_inflight k) (c_orph k) (c_thr k) (c_closed k) (c_defunct k) true (c_live k) (c_retp k) (c_trp k) (c_replaced k).
Definition k_replaced (k : conn) := mkConn (c_inflight k) (c_orph k) (c_thr k) (c_closed k) (c_defunct k) (c_signaled k) (c_live k) (c_retp k) (c_trp k) true.
(* borrow / set_keyspace_async success: in_flight += 1 (one more live stream) *)
Definition k_take (k : conn) := mkConn (c_inflight k + 1) (c_orph k) (c_thr k) (c_closed k) (c_defunct k) (c_signaled k) (c_live k + 1) (c_retp k) (c_trp k) (c_replaced k).
(* return_connection first region: in_flight -= 1; the call still has to look at the connection *)
Definition k_give (k : conn) := mkConn (c_inflight k - 1) (c_orph k) (c_thr k) (c_closed k) (c_defunct k) (c_signaled k) (c_live k - 1) (c_retp k + 1) (c_trp k) (c_replaced k).
(* ResponseFuture._on_timeout `with connection.lock`: orphan one live stream, maybe cross the threshold;
   a return_connection(stream_was_orphaned=True) call follows *)
Definition k_orphan (th : Z) (k : conn) := mkConn (c_inflight k) (c_orph k + 1) (c_thr k || (th <=? c_orph k + 1)) (c_closed k) (c_defunct k) (c_signaled k) (c_live k - 1) (c_retp k + 1) (c_trp k) (c_replaced k).
(* Connection.process_msg, orphaned stream id: in_flight -= 1; orphaned_request_ids.remove *)
Definition k_late (k : conn) := mkConn (c_inflight k - 1) (c_orph k - 1) (c_thr k) (c_closed k) (c_defunct k) (c_signaled k) (c_live k) (c_retp k) (c_trp k) (c_replaced k).
Definition k_read (totrash : bool) (k : conn) := mkConn (c_inflight k) (c_orph k) (c_thr k) (c_closed k) (c_defunct k) (c_signaled k) (c_live k) (c_retp k - 1) (if totrash then c_trp k + 1 else c_trp k) (c_replaced k).
Definition k_trp (k : conn) := mkConn (c_inflight k) (c_orph k) (c_thr k) (c_closed k) (c_defunct k) (c_signaled k) (c_live k) (c_retp k) (c_trp k - 1) (c_replaced k).

Definition dead (k : conn) : bool := c_defunct k || c_closed k.

Fixpoint mem (c : nat) (l : list nat) : bool :=
  match l with [] => false | x :: t => Nat.eqb c x || mem c t end.
Fixpoint ins (c : nat) (l : list nat) : list nat :=
  match l with
  | [] => [c]
  | x :: t => if Nat.eqb c x then l else if Nat.ltb c x then c :: l else x :: ins c t
  end.
Fixpoint del (c : nat) (l : list nat) : list nat :=
  match l with [] => [] | x :: t => if Nat.eqb c x then del c t else x :: del c t end.
Definition close_all (l : list nat) (cs : list conn) : list conn := fold_left (fun acc c => upd c k_close acc) l cs.

(* reasons attached to close() events *)
Definition BY_TRASH := 0.      (* return_connection trash branch *)
Definition BY_REPLACE := 1.    (* _replace else-branch: old connection had only orphans left *)
Definition BY_SHUTDOWN := 2.   (* shutdown(): main connection / trash *)
Definition BY_ABORT := 3.      (* _replace: fresh connection dropped because the pool was shut down meanwhile *)
Definition BY_SELF := 4.       (* Connection.defunct() *)

Inductive out :=
| OConn (c : nat) | OErrShutdown | OErrNoConn | OErrBusy | OWait
| OBool (b : bool)
| ORead (isdead signaled soe_ intrash : bool)
| OClose (c : nat) (why : Z)
| OOpen (c : nat)
| OSubmit (c : nat)
| ONone.

Inductive op :=
| GetConn                         (* _get_connection: unlocked reads of is_shutdown, _connection *)
| BorrowReadThr (c : nat)         (* borrow_connection: unlocked read of conn.orphaned_threshold_reached *)
| BorrowCheckReplace (c : nat)    (* borrow_connection: `with self._lock` *)
| BorrowTry (c : nat)             (* borrow_connection: `with conn.lock` *)
| BorrowRetryGet (c : nat)        (* borrow_connection: `with self._stream_available_condition` *)
| ReturnDec (c : nat)             (* return_connection: `with connection.lock: in_flight -= 1` *)
| Notify                          (* `with self._stream_available_condition: notify()` *)
| ReturnRead (c : nat)            (* return_connection: unlocked reads of is_defunct/is_closed/signaled_error/shutdown_on_error/_trash *)
| ReturnSignal (c : nat) (down : bool) (* signal_connection_failure (oracle `down`), signaled_error = True, shutdown_on_error test *)
| ReturnReplace (c : nat)         (* return_connection: `with self._lock` of the defunct branch *)
| ReturnTrash (c : nat)           (* return_connection: `with connection.lock` of the trash branch *)
| ReplaceCheck                    (* _replace: first `with self._lock` *)
| ReplaceConnect (ok : bool)      (* _replace: connection_factory (outcome `ok`), resubmission on failure *)
| ReplaceAssign                   (* _replace: `with self._lock` installing the fresh connection (or closing it: pool shut down) *)
| ReplaceFinish                   (* _replace: else-branch `with connection.lock: with self._lock` *)
| ShutdownFlag | ShutdownCloseMain | ShutdownTrash   (* the three regions of shutdown() *)
| Orphan (c : nat)                (* ResponseFuture._on_timeout `with connection.lock` *)
| LateDec (c : nat)               (* Connection.process_msg orphaned-stream branch `with self.lock`: in_flight -= 1 AND orphaned_request_ids.remove *)
| LateRecycle                     (* Connection.process_msg `with self.lock: request_ids.append(stream_id)` (no pool-visible effect) *)
| ConnDefunct (c : nat)           (* Connection.defunct()/close() *)
| SetKsRead                       (* _set_keyspace_for_all_conns: unlocked reads of is_shutdown, _connection *)
| SetKsInc (c : nat)              (* Connection.set_keyspace_async `with self.lock` *)
| SetSoe                          (* ConnectionHeartbeat: owner.shutdown_on_error = True *)
| HbRead                          (* ConnectionHeartbeat.run: owner.get_connections() -- the pool's current connection, if any *)
| QueryCheck                      (* ResponseFuture._query: unlocked read of pool.is_shutdown before borrowing *)
| QuerySend (c : nat).            (* ResponseFuture._query: connection.send_msg refuses (ConnectionShutdown if dead, else ConnectionBusy) *)

Definition is_cur (s : state) (c : nat) : bool := match cur s with Some x => Nat.eqb x c | None => false end.

Definition get_conn (s : state) : list out :=
  if shut s then [OErrShutdown] else match cur s with Some c => [OConn c] | None => [OErrNoConn] end.

Definition submit (s : state) (c : nat) : state := set_queue s (queue s ++ [c]).

Definition step (s : state) (o : op) : state * list out :=
  match o with
  | GetConn => (s, get_conn s)
  | BorrowReadThr c => (s, [OBool (valid s c && c_thr (getc s c))])
  | BorrowCheckReplace c =>
      if valid s c && c_thr (getc s c) && negb (replacing s) && is_cur s c
      then (submit (set_replacing s true) c, [OSubmit c]) else (s, [])
  | BorrowTry c =>
      let k := getc s c in
      if valid s c && negb (c_thr k && c_closed k) && (c_inflight k <? maxid s)
      then (updc s c k_take, [OBool true]) else (s, [OBool false])
  | BorrowRetryGet c =>
      let k := getc s c in
      if valid s c && c_thr k && c_closed k then (s, get_conn s) else (s, [OWait])
  | ReturnDec c =>
      if valid s c && (0 <? c_live (getc s c)) then (updc s c k_give, []) else (s, [])
  | Notify => (s, [])
  | ReturnRead c =>
      let k := getc s c in
      if valid s c && (0 <? c_retp k) then
        let totrash := negb (dead k) && mem c (trash s) in
        (updc s c (k_read totrash), [ORead (dead k) (c_signaled k) (soe s) (mem c (trash s))])
      else (s, [])
  | ReturnSignal c down =>
      if valid s c && dead (getc s c) then
        let isdown := down || soe s in
        (updc s c k_signal, [OBool isdown])
      else (s, [])
  | ReturnReplace c =>
      if valid s c && dead (getc s c) && is_cur s c then
        let s1 := set_cur s None in
        if replacing s then (s1, []) else (submit (set_replacing s1 true) c, [OSubmit c])
      else (s, [])
  | ReturnTrash c =>
      let k := getc s c in
      if valid s c && (0 <? c_trp k) then
        let s1 := updc s c k_trp in
        if (c_inflight k =? c_orph k) && mem c (trash s)
        then (updc (set_trash s1 (del c (trash s))) c k_close, [OClose c BY_TRASH]) else (s1, [])
      else (s, [])
  | ReplaceCheck =>
      match queue s with
      | c :: q => if shut s then (set_queue s q, [OBool false])
                  else (set_connecting (set_queue s q) (connecting s ++ [c]), [OBool true])
      | [] => (s, [])
      end
  | ReplaceConnect ok =>
      match connecting s with
      | c :: r =>
          if ok then
            let n := length (conns s) in
            (set_assigning (set_conns (set_connecting s r) (conns s ++ [new_conn])) (assigning s ++ [(c, n)]), [OOpen n])
          else (submit (set_connecting s r) c, [OSubmit c])
      | [] => (s, [])
      end
  | ReplaceAssign =>
      match assigning s with
      | (c, n) :: r =>
          if shut s then (updc (set_assigning s r) n k_close, [OClose n BY_ABORT])
          else (set_finishing (set_cur (set_assigning s r) (Some n)) (finishing s ++ [c]), [OBool true])
      | [] => (s, [])
      end
  | ReplaceFinish =>
      match finishing s with
      | c :: r =>
          let k := getc s c in
          let s1 := updc (set_replacing (set_finishing s r) false) c k_replaced in
          if c_thr k then
            if c_inflight k =? c_orph k then (updc s1 c k_close, [OClose c BY_REPLACE])
            else if shut s then (updc s1 c k_close, [OClose c BY_SHUTDOWN])
            else (set_trash s1 (ins c (trash s)), [])
          else (s1, [])
      | [] => (s, [])
      end
  | ShutdownFlag =>
      if shut s then (s, [OBool false]) else (set_phase (set_shut s true) 1, [OBool true])
  | ShutdownCloseMain =>
      if sd_phase s =? 1 then
        match cur s with
        | Some c => (updc (set_cur (set_phase s 2) None) c k_close, [OClose c BY_SHUTDOWN])
        | None => (set_phase s 2, [])
        end
      else (s, [])
  | ShutdownTrash =>
      if sd_phase s =? 2
      then (set_conns (set_trash (set_phase s 3) []) (close_all (trash s) (conns s)), map (fun c => OClose c BY_SHUTDOWN) (trash s))
      else (s, [])
  | Orphan c =>
      if valid s c && (0 <? c_live (getc s c)) then (updc s c (k_orphan (thrN s)), []) else (s, [])
  | LateRecycle => (s, [])
  | LateDec c =>
      if valid s c && (0 <? c_orph (getc s c)) then (updc s c k_late, []) else (s, [])
  | ConnDefunct c =>
      if valid s c && negb (dead (getc s c)) then (updc s c k_defunct, [OClose c BY_SELF]) else (s, [])
  | SetKsRead =>
      if shut s then (s, [ONone]) else match cur s with Some c => (s, [OConn c]) | None => (s, [ONone]) end
  | SetKsInc c =>
      if valid s c && (c_inflight (getc s c) <? maxid s) then (updc s c k_take, [OBool true]) else (s, [OBool false])
  | SetSoe => (set_soe s true, [])
  | QueryCheck => (s, [OBool (shut s)])
  | HbRead => (s, match cur s with Some c => [OConn c; OBool (dead (getc s c))] | None => [ONone] end)
  | QuerySend c => (s, [OBool (dead (getc s c))])
  end.

Definition run (s : state) (ops : list op) : state := fold_left (fun st o => fst (step st o)) ops s.

(* every close() event of a run, with the state in which it happened *)
Fixpoint events (s : state) (ops : list op) : list (state * out) :=
  match ops with
  | [] => []
  | o :: r => map (fun e => (s, e)) (snd (step s o)) ++ events (fst (step s o)) r
  end.

(* quiescent: no _replace task queued or running, shutdown() has run to completion *)
Definition no_tasks (s : state) : bool :=
  match queue s, connecting s, assigning s, finishing s with [], [], [], [] => true | _, _, _, _ => false end.
Definition quiescent (s : state) : bool := no_tasks s && (sd_phase s =? 3).
Definition all_closed (s : state) : bool := forallb c_closed (conns s).

(* ------------------------------------------------------------------------------------------------
   Sequential programs: how one call of the source strings the atomic regions together.
   Used by the correspondence run (macro operations with interrupts at region boundaries). *)
Inductive prog := Ret (r : out) | Do (o : op) (k : list out -> prog).

Definition first (r : list out) : out := match r with x :: _ => x | [] => ONone end.

Definition shutdown_prog : prog :=
  Do ShutdownFlag (fun r => match first r with
    | OBool true => Do ShutdownCloseMain (fun _ => Do ShutdownTrash (fun _ => Ret ONone))
    | _ => Ret ONone end).

Fixpoint borrow_loop (fuel : nat) (c : nat) : prog :=
  Do (BorrowTry c) (fun r => match first r with
    | OBool true => Ret (OConn c)
    | _ => match fuel with
           | O => Ret OErrBusy
           | S f => Do (BorrowRetryGet c) (fun r2 => match first r2 with
                      | OConn c2 => borrow_loop f c2
                      | x => Ret x end)
           end
    end).

Definition borrow_prog (fuel : nat) : prog :=
  Do GetConn (fun r => match first r with
    | OConn c => Do (BorrowReadThr c) (fun r2 => match first r2 with
        | OBool true => Do (BorrowCheckReplace c) (fun _ => borrow_loop fuel c)
        | _ => borrow_loop fuel c end)
    | x => Ret x end).

(* borrow_connection followed by the caller's continuation *)
Fixpoint borrow_loop_k (fuel : nat) (c : nat) (k : out -> prog) : prog :=
  Do (BorrowTry c) (fun r => match first r with
    | OBool true => k (OConn c)
    | _ => match fuel with
           | O => k OErrBusy
           | S f => Do (BorrowRetryGet c) (fun r2 => match first r2 with
                      | OConn c2 => borrow_loop_k f c2 k
                      | x => k x end)
           end
    end).

Definition borrow_prog_k (fuel : nat) (k : out -> prog) : prog :=
  Do GetConn (fun r => match first r with
    | OConn c => Do (BorrowReadThr c) (fun r2 => match first r2 with
        | OBool true => Do (BorrowCheckReplace c) (fun _ => borrow_loop_k fuel c k)
        | _ => borrow_loop_k fuel c k end)
    | x => k x end).

Definition return_tail (c : nat) (down : bool) : prog :=
  Do (ReturnRead c) (fun r => match first r with
    | ORead true sg so _ =>
        if sg then (if so then shutdown_prog else Ret ONone)
        else Do (ReturnSignal c down) (fun r2 => match first r2 with
               | OBool true => shutdown_prog
               | _ => Do (ReturnReplace c) (fun _ => Ret ONone) end)
    | ORead false _ _ true => Do (ReturnTrash c) (fun _ => Ret ONone)
    | _ => Ret ONone end).

Definition return_prog (c : nat) (down : bool) : prog :=
  Do (ReturnDec c) (fun _ => Do Notify (fun _ => return_tail c down)).

Definition orphan_prog (c : nat) (down : bool) : prog := Do (Orphan c) (fun _ => return_tail c down).
Definition late_prog (c : nat) : prog := Do (LateDec c) (fun _ => Do Notify (fun _ => Do LateRecycle (fun _ => Ret ONone))).

(* ResponseFuture._query whose send_msg is refused: ConnectionBusy -> re-queue the stream id under connection.lock, then
   pool.return_connection; ConnectionShutdown (dead connection) -> pool.return_connection *)
Definition query_busy_prog (fuel : nat) (down : bool) : prog :=
  Do QueryCheck (fun r => match first r with
    | OBool true => Ret ONone
    | _ => borrow_prog_k fuel (fun x => match x with
        | OConn c => Do (QuerySend c) (fun r2 => match first r2 with
            | OBool true => return_prog c down
            | _ => Do LateRecycle (fun _ => return_prog c down) end)
        | _ => Ret ONone end)
    end).

(* HostConnection._set_keyspace_for_all_conns for the keyspace the connection already has: set_keyspace_async reserves an
   in-flight slot and calls back at once; the pool's callback hands the slot back through return_connection *)
Definition setks_prog (down : bool) : prog :=
  Do SetKsRead (fun r => match first r with
    | OConn c => Do (SetKsInc c) (fun r2 => match first r2 with
        | OBool true => return_prog c down
        | _ => Ret OWait end)
    | _ => Ret ONone end).

(* one pass of ConnectionHeartbeat.run over this pool, idle live connection, SUPPORTED answered: HeartbeatFuture reserves an
   in-flight slot under connection.lock; after the answer the slot is given back under connection.lock and the pool is told
   (return_connection(stream_was_orphaned=True): flags, trash check) *)
Definition heartbeat_prog (down : bool) : prog :=
  Do HbRead (fun r => match r with
    | [OConn c; OBool false] => Do (SetKsInc c) (fun r2 => match first r2 with
        | OBool true => Do (ReturnDec c) (fun _ => return_tail c down)
        | _ => Ret OWait end)
    | _ => Ret ONone end).

Definition task_prog (ok : bool) : prog :=
  Do ReplaceCheck (fun r => match first r with
    | OBool true => Do (ReplaceConnect ok) (fun r2 => match first r2 with
        | OOpen _ => Do ReplaceAssign (fun r3 => match first r3 with
            | OBool true => Do ReplaceFinish (fun _ => Ret ONone)
            | _ => Ret ONone end)
        | _ => Ret ONone end)
    | _ => Ret ONone end).

Inductive mop0 :=
| MBorrow (fuel : nat) | MReturn (c : nat) (down : bool) | MOrphan (c : nat) (down : bool) | MLate (c : nat)
| MDefunct (c : nat) | MTask (ok : bool) | MShutdown | MSetSoe | MReleased
| MQueryBusy (fuel : nat) (down : bool) | MSetKs (down : bool) | MHeartbeat (down : bool).

Definition prog_of (m : mop0) : prog :=
  match m with
  | MBorrow f => borrow_prog f
  | MReturn c d => return_prog c d
  | MOrphan c d => orphan_prog c d
  | MLate c => late_prog c
  | MDefunct c => Do (ConnDefunct c) (fun _ => Ret ONone)
  | MTask ok => task_prog ok
  | MShutdown => shutdown_prog
  | MSetSoe => Do SetSoe (fun _ => Ret ONone)
  | MReleased => Do Notify (fun _ => Ret ONone)
  | MQueryBusy f d => query_busy_prog f d
  | MSetKs d => setks_prog d
  | MHeartbeat d => heartbeat_prog d
  end.

(* which steps start at an instrumented point of the real code (a lock acquisition, the factory call, the
   failure signal, the first flag read of return_connection/borrow_connection); the others run without a
   preceding interrupt slot *)
Definition hooked (o : op) : bool :=
  match o with
  | GetConn | ShutdownCloseMain | Orphan _ | ConnDefunct _ | SetSoe | SetKsRead | QueryCheck | HbRead => false
  | _ => true
  end.

(* shutdown(): `if self._connection: self._connection.close()` -- the close() call is an instrumented point only when there
   is a current connection *)
Definition hooked_s (s : state) (o : op) : bool :=
  match o with
  | ShutdownCloseMain => match cur s with Some _ => true | None => false end
  | _ => hooked o
  end.

(* observable state, as a list of integers *)
Definition b2z (b : bool) : Z := if b then 1 else 0.
Definition snap_conn (k : conn) : list Z :=
  [c_inflight k; c_orph k; b2z (c_thr k); b2z (c_closed k); b2z (c_defunct k); b2z (c_signaled k)].
Definition snap (s : state) : list Z :=
  [100; match cur s with Some c => Z.of_nat c | None => -1 end; b2z (replacing s); b2z (shut s); b2z (soe s)]
  ++ (101 :: map Z.of_nat (trash s)) ++ (102 :: map Z.of_nat (queue s))
  ++ (103 :: flat_map snap_conn (conns s)).
Definition res_code (r : out) : list Z :=
  match r with
  | OConn c => [200; Z.of_nat c] | OErrShutdown => [201] | OErrNoConn => [202] | OErrBusy => [203] | OWait => [204]
  | _ => [205]
  end.

Fixpoint run_prog0 (p : prog) (s : state) (acc : list (list Z)) : state * list (list Z) :=
  match p with
  | Ret r => (s, res_code r :: snap s :: acc)
  | Do o k =>
      let acc1 := if hooked_s s o then snap s :: acc else acc in
      let '(s2, r) := step s o in run_prog0 (k r) s2 acc1
  end.

Fixpoint run_ints (l : list mop0) (s : state) (acc : list (list Z)) : state * list (list Z) :=
  match l with
  | [] => (s, acc)
  | m :: r => let '(s1, acc1) := run_prog0 (prog_of m) s acc in run_ints r s1 acc1
  end.

Fixpoint run_prog (p : prog) (ints : list (list mop0)) (s : state) (acc : list (list Z)) : state * list (list Z) :=
  match p with
  | Ret r => (s, res_code r :: snap s :: acc)
  | Do o k =>
      if hooked_s s o then
        let '(s1, acc1) := run_ints (hd [] ints) s (snap s :: acc) in
        let '(s2, r) := step s1 o in run_prog (k r) (tl ints) s2 acc1
      else let '(s2, r) := step s o in run_prog (k r) ints s2 acc
  end.

Fixpoint run_hist (h : list (mop0 * list (list mop0))) (s : state) (acc : list (list Z)) : state * list (list Z) :=
  match h with
  | [] => (s, acc)
  | (m, ints) :: r => let '(s1, acc1) := run_prog (prog_of m) ints s acc in run_hist r s1 acc1
  end.

Definition trace (with_conn : bool) (mx th : Z) (h : list (mop0 * list (list mop0))) : list (list Z) :=
  rev (snd (run_hist h (init with_conn mx th) [])).

Fixpoint zl_eqb (a b : list Z) : bool :=
  match a, b with [], [] => true | x :: a', y :: b' => (x =? y) && zl_eqb a' b' | _, _ => false end.
Fixpoint tr_eqb (a b : list (list Z)) : bool :=
  match a, b with [], [] => true | x :: a', y :: b' => zl_eqb x y && tr_eqb a' b' | _, _ => false end.
(* index of the first differing trace item (for diagnosis) *)
Fixpoint tr_diff (i : Z) (a b : list (list Z)) : Z :=
  match a, b with [], [] => -1 | x :: a', y :: b' => if zl_eqb x y then tr_diff (i + 1) a' b' else i | _, _ => i end.
