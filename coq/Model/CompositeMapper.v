(* C38 model: cqlengine's routing key.
   ModelMetaClass.__new__ (cassandra/cqlengine/models.py): _partition_key_index assignment incl. inherited and
   overriding columns, partition_keys order, partition_key_index (db_field -> index), key_cql_types;
   BaseCQLStatement/AssignmentStatement.partition_key_values (statements.py);
   _execute_statement routing-key assembly (query.py); Statement._set_routing_key (cassandra/query.py).
   The metaclass loop is modelled AFTER the fix (an overriding column does not consume a partition-key index);
   process_def_gap is the loop as it was before, kept for C38_gap_refuted.  No proofs here. *)
From Coq Require Import ZArith List Bool.
From Verif Require Import CompositeSpec.
Import ListNotations.
Local Open Scope Z_scope.

Section Mapper.
  Variable T : Type.                      (* column type (cql_type of the column class) *)

  (* a column as declared in a class body (or inherited): attribute name, db_field_name, partition_key=, primary_key= *)
  Record cdef : Type := mkdef { d_name : Z; d_dbf : Z; d_pkflag : bool; d_primflag : bool; d_type : T }.

  (* Column.__init__: self.primary_key = partition_key or primary_key *)
  Definition d_prim (d : cdef) : bool := d_pkflag d || d_primflag d.

  (* a processed column: partition_key, _partition_key_index, primary_key *)
  Record pcol : Type := mkpcol { p_dbf : Z; p_part : bool; p_pidx : nat; p_prim : bool; p_type : T }.

  Fixpoint lookup {A} (n : Z) (l : list (Z * A)) : option A :=
    match l with [] => None | (k, v) :: r => if k =? n then Some v else lookup n r end.

  (* OrderedDict assignment: replace in place, or append *)
  Fixpoint upd {A} (n : Z) (v : A) (l : list (Z * A)) : list (Z * A) :=
    match l with
    | [] => [(n, v)]
    | (k, x) :: r => if k =? n then (k, v) :: r else (k, x) :: upd n v r
    end.

  Record mstate : Type := mkst { s_has_pk : bool; s_counter : nat; s_cols : list (Z * pcol); s_pks : list (Z * pcol) }.

  (* one iteration of `for k, v in column_definitions:` (repaired code) *)
  Definition process_def (s : mstate) (d : cdef) : mstate :=
    let auto := negb (s_has_pk s) && d_prim d in
    let part1 := d_pkflag d || auto in
    let has' := s_has_pk s || auto in
    match lookup (d_name d) (s_cols s) with
    | Some o =>       (* overriding: position, partition_key and _partition_key_index come from the overridden column *)
        let c := mkpcol (d_dbf d) (p_part o) (p_pidx o) (d_prim d) (d_type d) in
        mkst has' (s_counter s) (upd (d_name d) c (s_cols s)) (if d_prim d then upd (d_name d) c (s_pks s) else s_pks s)
    | None =>
        let c := mkpcol (d_dbf d) part1 (s_counter s) (d_prim d) (d_type d) in
        mkst has' (if part1 then S (s_counter s) else s_counter s)
             (upd (d_name d) c (s_cols s)) (if d_prim d then upd (d_name d) c (s_pks s) else s_pks s)
    end.

  (* the loop before the fix: the counter was advanced BEFORE looking for an overridden column *)
  Definition process_def_gap (s : mstate) (d : cdef) : mstate :=
    let auto := negb (s_has_pk s) && d_prim d in
    let part1 := d_pkflag d || auto in
    let has' := s_has_pk s || auto in
    let counter' := if part1 then S (s_counter s) else s_counter s in
    match lookup (d_name d) (s_cols s) with
    | Some o =>
        let c := mkpcol (d_dbf d) (p_part o) (p_pidx o) (d_prim d) (d_type d) in
        mkst has' counter' (upd (d_name d) c (s_cols s)) (if d_prim d then upd (d_name d) c (s_pks s) else s_pks s)
    | None =>
        let c := mkpcol (d_dbf d) part1 (s_counter s) (d_prim d) (d_type d) in
        mkst has' counter' (upd (d_name d) c (s_cols s)) (if d_prim d then upd (d_name d) c (s_pks s) else s_pks s)
    end.

  Definition init_state (defs : list cdef) : mstate := mkst (existsb d_pkflag defs) 0 [] [].

  Definition run_meta_with (step : mstate -> cdef -> mstate) (defs : list cdef) : mstate :=
    fold_left step defs (init_state defs).

  (* partition_keys = OrderedDict(k for k in primary_keys.items() if k[1].partition_key)  -- also the order CREATE TABLE uses *)
  Definition partition_keys (s : mstate) : list pcol := filter p_part (map snd (s_pks s)).

  (* partition_key_index = dict((col.db_field_name, col._partition_key_index) for col in key_cols) *)
  Definition pk_index_map (pks : list pcol) : list (Z * nat) :=
    fold_left (fun m c => upd (p_dbf c) (p_pidx c) m) pks [].

  (* ---- statements ---- *)
  Variable V : Type.
  Variable ser : T -> V -> option (list Z).      (* cql_type.to_binary; None = raised *)

  (* a where clause / assignment: field (db name), EqualsOperator?, value (None = Python None) *)
  Record clause : Type := mkclause { c_field : Z; c_eq : bool; c_value : option V }.

  Fixpoint set_nth {A} (i : nat) (v : A) (l : list A) : option (list A) :=   (* parts[i] = v ; None = IndexError *)
    match l, i with
    | [], _ => None
    | _ :: r, O => Some (v :: r)
    | x :: r, S i' => match set_nth i' v r with Some r' => Some (x :: r') | None => None end
    end.

  (* _update_part_key_values over the clauses whose field is in field_index_map *)
  Fixpoint update_parts (m : list (Z * nat)) (cs : list clause) (parts : list (option V)) : option (list (option V)) :=
    match cs with
    | [] => Some parts
    | c :: r => match lookup (c_field c) m with
                | None => update_parts m r parts
                | Some i => match set_nth i (c_value c) parts with
                            | None => None
                            | Some parts' => update_parts m r parts'
                            end
                end
    end.

  (* where clauses with EqualsOperator first, then (AssignmentStatement only) the assignments *)
  Definition partition_key_values (m : list (Z * nat)) (wheres assigns : list clause) : option (list (option V)) :=
    update_parts m (filter c_eq wheres ++ assigns) (repeat None (length m)).

  Fixpoint zip_ser (ts : list T) (parts : list (option V)) : option (list (list Z)) :=
    match ts, parts with
    | t :: ts', Some v :: ps' =>
        match ser t v with
        | None => None
        | Some b => match zip_ser ts' ps' with Some bs => Some (b :: bs) | None => None end
        end
    | _ :: _, None :: _ => None         (* unreachable: guarded by `not any(v is None ...)` *)
    | _, _ => Some []
    end.

  Inductive rres : Type := RNone | RErr | RBytes (b : list Z).

  (* Statement._set_routing_key on a list: one part -> raw, else b"".join(_key_parts_packed(parts)) *)
  Definition pack_part (b : list Z) : option (list Z) :=
    let l := Z.of_nat (length b) in
    if l <? 65536 then Some ([Z.land (Z.shiftr l 8) 255; Z.land l 255] ++ b ++ [0]) else None.

  Fixpoint pack_all (bs : list (list Z)) : option (list Z) :=
    match bs with
    | [] => Some []
    | b :: r => match pack_part b, pack_all r with Some x, Some y => Some (x ++ y) | _, _ => None end
    end.

  Definition set_routing_key (bs : list (list Z)) : rres :=
    match bs with
    | [b] => RBytes b
    | _ => match pack_all bs with Some k => RBytes k | None => RErr end
    end.

  (* _execute_statement *)
  Definition execute (s : mstate) (wheres assigns : list clause) : rres :=
    let pks := partition_keys s in
    let m := pk_index_map pks in
    match m with
    | [] => RNone
    | _ => match partition_key_values m wheres assigns with
           | None => RErr
           | Some parts =>
               if existsb (fun p => match p with None => true | Some _ => false end) parts then RNone
               else match zip_ser (map p_type pks) parts with
                    | None => RErr
                    | Some bs => set_routing_key bs
                    end
           end
    end.
End Mapper.

Arguments mkdef {T}. Arguments mkclause {V}.

(* ---- running cases: values are their own serialization ---- *)
Definition c38_ser (t : unit) (v : list Z) : option (list Z) := Some v.

Definition c38_def (n dbf : Z) (pk prim : bool) : cdef unit := mkdef n dbf pk prim tt.

Definition c38_run (defs : list (cdef unit)) (wheres assigns : list (clause (list Z)))
  : list (Z * nat) * rres :=
  let s := run_meta_with unit (process_def unit) defs in
  (pk_index_map unit (partition_keys unit s), execute unit (list Z) c38_ser s wheres assigns).

Fixpoint c38_zeqb (a b : list Z) : bool :=
  match a, b with
  | [], [] => true
  | x :: a', y :: b' => (x =? y) && c38_zeqb a' b'
  | _, _ => false
  end.

Fixpoint c38_map_eqb (a b : list (Z * nat)) : bool :=
  match a, b with
  | [], [] => true
  | (k, i) :: a', (k', i') :: b' => (k =? k') && Nat.eqb i i' && c38_map_eqb a' b'
  | _, _ => false
  end.

Definition c38_eqb (a b : list (Z * nat) * rres) : bool :=
  c38_map_eqb (fst a) (fst b) &&
  match snd a, snd b with
  | RNone, RNone => true
  | RErr, RErr => true
  | RBytes x, RBytes y => c38_zeqb x y
  | _, _ => false
  end.
