(* C04 model, driver side: what cassandra/protocol.py does with a response frame body.
   Mirrors _ProtocolHandler.decode_message, the recv_body of every response message class, the read_* helpers and
   ResultMessage.read_type.  No proofs here.  Bytes are Z in 0..255; a Python `str` is represented by its UTF-8
   byte list (Python's strict UTF-8 codec is a bijection between str and valid byte sequences).
   io.BytesIO.read(n) returns at most n bytes WITHOUT raising on a short read: modelled as such (rd_n). *)
From Coq Require Import ZArith List Bool String Ascii.
Import ListNotations.
Local Open Scope Z_scope.

Definition str := list Z.
Definition bytes := list Z.

Fixpoint zs (s : string) : list Z :=
  match s with EmptyString => [] | String a r => Z.of_N (N_of_ascii a) :: zs r end.

Fixpoint list_eqb (a b : list Z) : bool :=
  match a, b with
  | [], [] => true
  | x :: a', y :: b' => (x =? y) && list_eqb a' b'
  | _, _ => false
  end.

Definition len {A} (l : list A) : Z := Z.of_nat (List.length l).

(* ---------------------------------------------------------------- bytes.decode('utf8'), strict *)
Definition cont (b : Z) : bool := (128 <=? b) && (b <=? 191).

Fixpoint utf8_valid (l : list Z) : bool :=
  match l with
  | [] => true
  | b0 :: t0 =>
    if b0 <? 0 then false
    else if b0 <=? 127 then utf8_valid t0
    else if b0 <? 194 then false
    else if b0 <=? 223 then
      match t0 with b1 :: t1 => cont b1 && utf8_valid t1 | _ => false end
    else if b0 <=? 239 then
      match t0 with
      | b1 :: b2 :: t2 =>
        (if b0 =? 224 then (160 <=? b1) && (b1 <=? 191)
         else if b0 =? 237 then (128 <=? b1) && (b1 <=? 159) else cont b1)
        && cont b2 && utf8_valid t2
      | _ => false
      end
    else if b0 <=? 244 then
      match t0 with
      | b1 :: b2 :: b3 :: t3 =>
        (if b0 =? 240 then (144 <=? b1) && (b1 <=? 191)
         else if b0 =? 244 then (128 <=? b1) && (b1 <=? 143) else cont b1)
        && cont b2 && cont b3 && utf8_valid t3
      | _ => false
      end
    else false
  end.

Definition ascii_upper (s : str) : str := map (fun c => if (97 <=? c) && (c <=? 122) then c - 32 else c) s.
Definition ascii_lower (s : str) : str := map (fun c => if (65 <=? c) && (c <=? 90) then c + 32 else c) s.

(* ---------------------------------------------------------------- parser monad over the rest of the body *)
Definition P (A : Type) := list Z -> option (A * list Z).
Definition ret {A} (a : A) : P A := fun l => Some (a, l).
Definition fail {A} : P A := fun _ => None.
Definition pbind {A B} (p : P A) (f : A -> P B) : P B :=
  fun l => match p l with Some (a, l') => f a l' | None => None end.
Notation "x <- p ;; q" := (pbind p (fun x => q)) (at level 61, p at next level, right associativity).

(* f.read(n): n < 0 reads everything; otherwise up to n bytes, fewer at end of buffer, never raises *)
Definition rd_n (n : Z) : P bytes :=
  fun l => if n <? 0 then Some (l, []) else Some (firstn (Z.to_nat n) l, skipn (Z.to_nat n) l).

(* int8_unpack(f.read(1)): struct.error unless exactly one byte *)
Definition rd_byte : P Z :=
  fun l => match l with b :: r => Some ((if b <? 128 then b else b - 256), r) | [] => None end.

Definition rd_short : P Z :=
  fun l => match l with a :: b :: r => Some (a * 256 + b, r) | _ => None end.

Definition rd_int : P Z :=
  fun l => match l with
           | a :: b :: c :: d :: r =>
             let u := ((a * 256 + b) * 256 + c) * 256 + d in
             Some ((if u <? 2147483648 then u else u - 4294967296), r)
           | _ => None
           end.

Definition rd_utf8 (b : bytes) : P str := if utf8_valid b then ret b else fail.

Definition rd_string : P str := n <- rd_short ;; b <- rd_n n ;; rd_utf8 b.
Definition rd_bstring : P bytes := n <- rd_short ;; rd_n n.               (* read_binary_string *)
Definition rd_blong : P bytes := n <- rd_int ;; rd_n n.                    (* read_binary_longstring *)
Definition rd_longstring : P str := b <- rd_blong ;; rd_utf8 b.            (* read_longstring *)
Definition rd_value : P (option bytes) :=
  n <- rd_int ;; if n <? 0 then ret None else (b <- rd_n n ;; ret (Some b)).

Fixpoint rd_rep {A} (n : nat) (p : P A) : P (list A) :=
  match n with
  | O => ret []
  | S n' => x <- p ;; xs <- rd_rep n' p ;; ret (x :: xs)
  end.
(* [p(f) for _ in range(n)] : a negative n gives no iterations *)
Definition rd_count {A} (n : Z) (p : P A) : P (list A) := rd_rep (Z.to_nat n) p.

Definition rd_stringlist : P (list str) := n <- rd_short ;; rd_count n rd_string.

(* Python dict: assignment to an existing key keeps its position *)
Fixpoint dict_set {V} (k : list Z) (v : V) (d : list (list Z * V)) : list (list Z * V) :=
  match d with
  | [] => [(k, v)]
  | (k', v') :: d' => if list_eqb k k' then (k', v) :: d' else (k', v') :: dict_set k v d'
  end.
Definition dict_of {V} (l : list (list Z * V)) : list (list Z * V) :=
  fold_left (fun d kv => dict_set (fst kv) (snd kv) d) l [].
Fixpoint dict_pop {V} (k : list Z) (d : list (list Z * V)) : option (V * list (list Z * V)) :=
  match d with
  | [] => None
  | (k', v') :: d' =>
    if list_eqb k k' then Some (v', d')
    else match dict_pop k d' with Some (v, r) => Some (v, (k', v') :: r) | None => None end
  end.

Definition rd_bytesmap : P (list (str * option bytes)) :=
  n <- rd_short ;; l <- rd_count n (k <- rd_string ;; v <- rd_value ;; ret (k, v)) ;; ret (dict_of l).
Definition rd_stringmultimap : P (list (str * list str)) :=
  n <- rd_short ;; l <- rd_count n (k <- rd_string ;; v <- rd_stringlist ;; ret (k, v)) ;; ret (dict_of l).

(* read_inet_addr_only: the address stays its 4 or 16 raw bytes (inet_ntop is injective on each family) *)
Definition rd_inet_addr : P bytes :=
  size <- rd_byte ;; a <- rd_n size ;;
  if ((size =? 4) || (size =? 16)) && (len a =? size) then ret a else fail.
Definition rd_inet : P (bytes * Z) := a <- rd_inet_addr ;; p <- rd_int ;; ret (a, p).

Definition rd_error_code_map : P (list (bytes * Z)) :=
  n <- rd_int ;; l <- rd_count n (a <- rd_inet_addr ;; c <- rd_short ;; ret (a, c)) ;; ret (dict_of l).

(* ---------------------------------------------------------------- ProtocolVersion predicates used on the receive path *)
Definition V5 := 5.
Definition DSE_V1 := 65.
Definition uses_prepared_metadata (pv : Z) : bool := (V5 <=? pv) && negb (pv =? DSE_V1).
Definition uses_error_code_map (pv : Z) : bool := V5 <=? pv.
Definition has_checksumming_support (pv : Z) : bool := (V5 <=? pv) && (pv <? DSE_V1).

(* ---------------------------------------------------------------- column types: ResultMessage.read_type *)
Inductive cqlt :=
| TCustom (cls : str)
| TPrim (code : Z)
| TList (t : cqlt)
| TSet (t : cqlt)
| TMap (k v : cqlt)
| TUdt (ks name : str) (fields : list (str * cqlt))
| TTuple (ts : list cqlt).

(* cassandra/type_codes.py: simple types 0x0001 .. 0x0015 *)
Definition prim_known (c : Z) : bool := (1 <=? c) && (c <=? 21).

(* lookup_casstype(classname) on a custom type's class name: the class-name grammar is another property (C28);
   here a name made of one scanner token [a-zA-Z0-9_.]+ is kept as the name, anything else is rejected *)
Definition custom_char (c : Z) : bool :=
  ((48 <=? c) && (c <=? 57)) || ((65 <=? c) && (c <=? 90)) || ((97 <=? c) && (c <=? 122)) || (c =? 95) || (c =? 46).
Definition custom_ok (s : str) : bool := negb (list_eqb s []) && forallb custom_char s.

Fixpoint rd_type (fuel : nat) : P cqlt :=
  match fuel with
  | O => fail
  | S f =>
    c <- rd_short ;;
    if c =? 0 then (s <- rd_string ;; if custom_ok s then ret (TCustom s) else fail)
    else if prim_known c then ret (TPrim c)
    else if c =? 32 then (t <- rd_type f ;; ret (TList t))
    else if c =? 34 then (t <- rd_type f ;; ret (TSet t))
    else if c =? 33 then (k <- rd_type f ;; v <- rd_type f ;; ret (TMap k v))
    else if c =? 49 then (n <- rd_short ;; ts <- rd_count n (rd_type f) ;; ret (TTuple ts))
    else if c =? 48 then
      (ks <- rd_string ;; nm <- rd_string ;; n <- rd_short ;;
       fs <- rd_count n (fn <- rd_string ;; t <- rd_type f ;; ret (fn, t)) ;;
       (* names, types = zip( * fields ) : ValueError when there is no field *)
       if n =? 0 then fail else ret (TUdt ks nm fs))
    else fail
  end.
(* Python recursion has no explicit bound; every nested read_type consumes at least two bytes *)
Definition rd_type_top : P cqlt := fun l => rd_type (S (List.length l)) l.

Record colspec := mkcol { c_ks : str; c_tbl : str; c_name : str; c_type : cqlt }.

Definition rd_colspecs (glob : option (str * str)) (n : Z) : P (list colspec) :=
  rd_count n
    (match glob with
     | Some (ks, tb) => nm <- rd_string ;; t <- rd_type_top ;; ret (mkcol ks tb nm t)
     | None => ks <- rd_string ;; tb <- rd_string ;; nm <- rd_string ;; t <- rd_type_top ;; ret (mkcol ks tb nm t)
     end).

Definition has (flags bit : Z) : bool := negb (Z.land flags bit =? 0).

Definition rd_opt {A} (c : bool) (p : P A) : P (option A) := if c then (x <- p ;; ret (Some x)) else ret None.

Definition rd_glob (flags : Z) : P (option (str * str)) :=
  rd_opt (has flags 1) (ks <- rd_string ;; cf <- rd_string ;; ret (ks, cf)).

(* ---------------------------------------------------------------- RESULT *)
(* attributes recv_results_metadata may set on the message *)
Record rmeta_out := mkmo {
  mo_paging : option bytes; mo_cp_seq : option Z; mo_cp_last : option Z;
  mo_meta_id : option bytes; mo_cols : option (list colspec) }.

Definition rd_results_metadata : P rmeta_out :=
  flags <- rd_int ;; colcount <- rd_int ;;
  paging <- rd_opt (has flags 2) rd_blong ;;
  if has flags 4 then ret (mkmo paging None None None None)
  else
    cp <- rd_opt (has flags 1073741824) rd_int ;;
    mid <- rd_opt (has flags 8) rd_bstring ;;
    glob <- rd_glob flags ;;
    cols <- rd_colspecs glob colcount ;;
    ret (mkmo paging cp (match cp with Some _ => Some (Z.land flags 2147483648) | None => None end) mid (Some cols)).

(* EventMessage.recv_schema_change *)
Inductive sch_extra :=
| SxNone
| SxName (key name : str)
| SxFunction (name : str) (args : list str)
| SxAggregate (name : str) (args : list str).
Record schema_ev := mksch { se_target : str; se_change : str; se_keyspace : str; se_extra : sch_extra }.

Definition rd_schema_change (pv : Z) : P schema_ev :=
  change <- rd_string ;;
  if 3 <=? pv then
    target <- rd_string ;; ks <- rd_string ;;
    if list_eqb target (zs "KEYSPACE") then ret (mksch target change ks SxNone)
    else
      nm <- rd_string ;;
      if list_eqb target (zs "FUNCTION") then (args <- rd_stringlist ;; ret (mksch target change ks (SxFunction nm args)))
      else if list_eqb target (zs "AGGREGATE") then (args <- rd_stringlist ;; ret (mksch target change ks (SxAggregate nm args)))
      else ret (mksch target change ks (SxName (ascii_lower target) nm))
  else
    ks <- rd_string ;; tb <- rd_string ;;
    if list_eqb tb [] then ret (mksch (zs "KEYSPACE") change ks SxNone)
    else ret (mksch (zs "TABLE") change ks (SxName (zs "table") tb)).

(* the attributes of a decoded ResultMessage (class defaults = None) *)
Record rmsg := mkr {
  r_kind : Z;
  r_paging : option bytes; r_cp_seq : option Z; r_cp_last : option Z; r_meta_id : option bytes;
  r_colmeta : option (list colspec);
  r_colnames : option (list str); r_coltypes : option (list cqlt);
  r_rows : option (list (list (option bytes)));        (* cells stay raw: value decoding is C01 *)
  r_keyspace : option str;
  r_query_id : option bytes; r_bind : option (list colspec); r_pk : option (list Z);
  r_schema : option schema_ev }.

Definition r_empty (kind : Z) : rmsg := mkr kind None None None None None None None None None None None None None.

Definition rd_rows (result_metadata : option (list colspec)) : P rmsg :=
  mo <- rd_results_metadata ;;
  (* column_metadata = self.column_metadata or result_metadata *)
  let cm := match mo_cols mo with Some (c :: cs) => Some (c :: cs) | _ => result_metadata end in
  rowcount <- rd_int ;;
  match cm with
  | None => fail                         (* len(None) / iterating None: TypeError *)
  | Some cols =>
    rows <- rd_count rowcount (rd_count (len cols) rd_value) ;;
    ret (mkr 2 (mo_paging mo) (mo_cp_seq mo) (mo_cp_last mo) (mo_meta_id mo) (mo_cols mo)
             (Some (map c_name cols)) (Some (map c_type cols)) (Some rows) None None None None None)
  end.

Definition rd_prepared (pv : Z) : P rmsg :=
  qid <- rd_bstring ;;
  rmid <- rd_opt (uses_prepared_metadata pv) rd_bstring ;;
  flags <- rd_int ;; colcount <- rd_int ;;
  pk <- rd_opt (4 <=? pv) (n <- rd_int ;; rd_count n rd_short) ;;
  glob <- rd_glob flags ;;
  bind <- rd_colspecs glob colcount ;;
  mo <- (if 2 <=? pv then rd_results_metadata else ret (mkmo None None None None None)) ;;
  ret (mkr 4 (mo_paging mo) (mo_cp_seq mo) (mo_cp_last mo)
           (match mo_meta_id mo with Some x => Some x | None => rmid end) (mo_cols mo)
           None None None None (Some qid) (Some bind) pk None).

Definition rd_result (pv : Z) (result_metadata : option (list colspec)) : P rmsg :=
  kind <- rd_int ;;
  if kind =? 1 then ret (r_empty 1)
  else if kind =? 2 then rd_rows result_metadata
  else if kind =? 3 then (ks <- rd_string ;; ret (mkr 3 None None None None None None None None (Some ks) None None None None))
  else if kind =? 4 then rd_prepared pv
  else if kind =? 5 then (e <- rd_schema_change pv ;; ret (mkr 5 None None None None None None None None None None None None (Some e)))
  else fail.

(* ---------------------------------------------------------------- ERROR *)
Inductive errclass :=
| CErrorMessage | CServerError | CProtocolException | CBadCredentials | CUnavailable | COverloaded | CIsBootstrapping
| CTruncateError | CWriteTimeout | CReadTimeout | CReadFailure | CFunctionFailure | CWriteFailure | CCDCWrite
| CSyntax | CUnauthorized | CInvalidRequest | CConfiguration | CAlreadyExists | CPreparedQueryNotFound | CClientWriteError.

(* error_classes: error_code -> ErrorMessage subclass, default ErrorMessage itself *)
Definition error_class (code : Z) : errclass :=
  if code =? 0 then CServerError else if code =? 10 then CProtocolException else if code =? 256 then CBadCredentials
  else if code =? 4096 then CUnavailable else if code =? 4097 then COverloaded else if code =? 4098 then CIsBootstrapping
  else if code =? 4099 then CTruncateError else if code =? 4352 then CWriteTimeout else if code =? 4608 then CReadTimeout
  else if code =? 4864 then CReadFailure else if code =? 5120 then CFunctionFailure else if code =? 5376 then CWriteFailure
  else if code =? 5632 then CCDCWrite else if code =? 8192 then CSyntax else if code =? 8448 then CUnauthorized
  else if code =? 8704 then CInvalidRequest else if code =? 8960 then CConfiguration else if code =? 9216 then CAlreadyExists
  else if code =? 9472 then CPreparedQueryNotFound else if code =? 32768 then CClientWriteError
  else CErrorMessage.

Inductive einfo :=
| EiNone
| EiUnavailable (cl required alive : Z)
| EiWriteTimeout (cl received required wt : Z) (contentions : option Z)
| EiReadTimeout (cl received required : Z) (data : bool)
| EiReadFailure (cl received required failures : Z) (reasons : option (list (bytes * Z))) (data : bool)
| EiFunctionFailure (ks fn : str) (args : list str)
| EiWriteFailure (cl received required failures : Z) (reasons : option (list (bytes * Z))) (wt : Z)
| EiCasWriteUnknown (cl received required : Z)
| EiUnprepared (id : bytes)
| EiAlreadyExists (ks tbl : str).

(* WriteType.name_to_value[...] : KeyError on an unknown name *)
Definition write_type_names : list string :=
  ["SIMPLE"; "BATCH"; "UNLOGGED_BATCH"; "COUNTER"; "BATCH_LOG"; "CAS"; "VIEW"; "CDC"]%string.
Fixpoint find_name (s : str) (names : list string) (i : Z) : option Z :=
  match names with
  | [] => None
  | n :: r => if list_eqb s (zs n) then Some i else find_name s r (i + 1)
  end.
Definition rd_write_type : P Z :=
  s <- rd_string ;; match find_name s write_type_names 0 with Some v => ret v | None => fail end.

Definition rd_bool : P bool := b <- rd_byte ;; ret (negb (b =? 0)).

Definition rd_failures (pv : Z) : P (Z * option (list (bytes * Z))) :=
  if uses_error_code_map pv then (m <- rd_error_code_map ;; ret (len m, Some m))
  else (n <- rd_int ;; ret (n, None)).

Definition rd_error_info (pv : Z) (c : errclass) : P einfo :=
  match c with
  | CUnavailable => cl <- rd_short ;; rq <- rd_int ;; al <- rd_int ;; ret (EiUnavailable cl rq al)
  | CWriteTimeout => cl <- rd_short ;; rc <- rd_int ;; rq <- rd_int ;; wt <- rd_write_type ;; ret (EiWriteTimeout cl rc rq wt None)
  | CReadTimeout => cl <- rd_short ;; rc <- rd_int ;; rq <- rd_int ;; d <- rd_bool ;; ret (EiReadTimeout cl rc rq d)
  | CReadFailure =>
    cl <- rd_short ;; rc <- rd_int ;; rq <- rd_int ;; fm <- rd_failures pv ;; d <- rd_bool ;;
    ret (EiReadFailure cl rc rq (fst fm) (snd fm) d)
  | CFunctionFailure => ks <- rd_string ;; fn <- rd_string ;; args <- rd_stringlist ;; ret (EiFunctionFailure ks fn args)
  | CWriteFailure =>
    cl <- rd_short ;; rc <- rd_int ;; rq <- rd_int ;; fm <- rd_failures pv ;; wt <- rd_write_type ;;
    ret (EiWriteFailure cl rc rq (fst fm) (snd fm) wt)
  | CPreparedQueryNotFound => id <- rd_bstring ;; ret (EiUnprepared id)
  | CAlreadyExists => ks <- rd_string ;; tb <- rd_string ;; ret (EiAlreadyExists ks tb)
  | _ => ret EiNone
  end.

(* ---------------------------------------------------------------- EVENT *)
Inductive evargs :=
| EaNode (change : str) (addr : bytes) (port : Z)
| EaSchema (e : schema_ev).

Definition rd_event (pv : Z) : P (str * evargs) :=
  t <- rd_string ;;
  let ty := ascii_upper t in
  if list_eqb ty (zs "TOPOLOGY_CHANGE") || list_eqb ty (zs "STATUS_CHANGE") then
    (c <- rd_string ;; a <- rd_inet ;; ret (ty, EaNode c (fst a) (snd a)))
  else if list_eqb ty (zs "SCHEMA_CHANGE") then (e <- rd_schema_change pv ;; ret (ty, EaSchema e))
  else fail.

(* ---------------------------------------------------------------- message bodies and decode_message *)
Inductive mbody :=
| BError (cls : errclass) (code : Z) (message : str) (info : einfo)
| BReady
| BAuthenticate (authenticator : str)
| BSupported (cql_versions : list str) (options : list (str * list str))
| BResult (r : rmsg)
| BEvent (event_type : str) (args : evargs)
| BAuthChallenge (challenge : bytes)
| BAuthSuccess (token : str).

Definition rd_body (pv : Z) (result_metadata : option (list colspec)) (opcode : Z) : P mbody :=
  if opcode =? 0 then
    (code <- rd_int ;; m <- rd_string ;; i <- rd_error_info pv (error_class code) ;; ret (BError (error_class code) code m i))
  else if opcode =? 2 then ret BReady
  else if opcode =? 3 then (a <- rd_string ;; ret (BAuthenticate a))
  else if opcode =? 6 then
    (o <- rd_stringmultimap ;;
     match dict_pop (zs "CQL_VERSION") o with Some (v, rest) => ret (BSupported v rest) | None => fail end)
  else if opcode =? 8 then (r <- rd_result pv result_metadata ;; ret (BResult r))
  else if opcode =? 12 then (e <- rd_event pv ;; ret (BEvent (fst e) (snd e)))
  else if opcode =? 14 then (c <- rd_blong ;; ret (BAuthChallenge c))
  else if opcode =? 16 then (t <- rd_longstring ;; ret (BAuthSuccess t))
  else fail.   (* unknown opcode: KeyError; request opcodes: no recv_body *)

Record msg := mkmsg {
  m_stream : Z; m_trace : option bytes; m_warnings : option (list str);
  m_payload : option (list (str * option bytes)); m_body : mbody }.

(* UUID(bytes=body.read(16)) : ValueError unless 16 bytes *)
Definition rd_uuid : P bytes := b <- rd_n 16 ;; if len b =? 16 then ret b else fail.

(* decompressor is None in this model: a compressed frame below v5 raises *)
Definition decode_message (pv : Z) (result_metadata : option (list colspec)) (stream flags opcode : Z) (body : bytes)
  : option msg :=
  if negb (has_checksumming_support pv) && has flags 1 then None
  else
    match (trace <- rd_opt (has flags 2) rd_uuid ;;
           warnings <- rd_opt (has flags 8) rd_stringlist ;;
           payload <- rd_opt (has flags 4) rd_bytesmap ;;
           b <- rd_body pv result_metadata opcode ;;
           ret (mkmsg stream trace warnings payload b)) body with
    | Some (m, _) => Some m           (* bytes left over after the message are ignored *)
    | None => None
    end.

(* ---------------------------------------------------------------- to_exception *)
Inductive exn :=
| XUnavailable (cl required alive : Z)
| XWriteTimeout (cl received required wt : Z)
| XReadTimeout (cl received required : Z) (data : bool)
| XReadFailure (cl received required failures : Z) (reasons : option (list (bytes * Z))) (data : bool)
| XFunctionFailure (ks fn : str) (args : list str)
| XWriteFailure (cl received required failures : Z) (reasons : option (list (bytes * Z))) (wt : Z)
| XAlreadyExists (ks tbl : str)
| XInvalidRequest (message : str)
| XUnauthorized (message : str)
| XMessage (cls : errclass) (code : Z) (message : str) (info : einfo).   (* to_exception returns the message itself *)

(* None: Python raises (TypeError from **info with a non-dict) *)
Definition to_exception (b : mbody) : option exn :=
  match b with
  | BError cls code m info =>
    match cls, info with
    | CUnavailable, EiUnavailable cl rq al => Some (XUnavailable cl rq al)
    | CWriteTimeout, EiWriteTimeout cl rc rq wt _ => Some (XWriteTimeout cl rc rq wt)
    | CReadTimeout, EiReadTimeout cl rc rq d => Some (XReadTimeout cl rc rq d)
    | CReadFailure, EiReadFailure cl rc rq f r d => Some (XReadFailure cl rc rq f r d)
    | CFunctionFailure, EiFunctionFailure ks fn a => Some (XFunctionFailure ks fn a)
    | CWriteFailure, EiWriteFailure cl rc rq f r wt => Some (XWriteFailure cl rc rq f r wt)
    | CAlreadyExists, EiAlreadyExists ks tb => Some (XAlreadyExists ks tb)
    | CInvalidRequest, _ => Some (XInvalidRequest m)
    | CUnauthorized, _ => Some (XUnauthorized m)
    | (CUnavailable | CWriteTimeout | CReadTimeout | CReadFailure | CFunctionFailure | CWriteFailure | CAlreadyExists), _ => None
    | _, _ => Some (XMessage cls code m info)
    end
  | _ => None
  end.

(* ---------------------------------------------------------------- UserType._cache (cassandra/cqltypes.py) *)
(* ResultMessage.read_type builds every UDT option through UserType.make_udt_class, which keeps ONE class per
   (keyspace, type name) in a process-global cache and hands the cached class back only when its field names and its
   field types equal the ones just read.  That state outlives a frame, so decoding is modelled as a step over the
   cache; a class is represented by its (field name, field type) list.  Python compares the subtypes tuples
   element-wise by class identity; identical classes have identical structure and a re-created class replaces the
   entry with a structurally equal one, so structural equality gives the same observable classes and cache. *)
Section Lst.
  Variable A : Type.
  Variable e : A -> A -> bool.
  Fixpoint lst_eqb (a b : list A) : bool :=
    match a, b with
    | [], [] => true
    | x :: a', y :: b' => e x y && lst_eqb a' b'
    | _, _ => false
    end.
  Definition opt_eqb (a b : option A) : bool :=
    match a, b with Some x, Some y => e x y | None, None => true | _, _ => false end.
End Lst.
Arguments lst_eqb {A} e a b.
Arguments opt_eqb {A} e a b.

Fixpoint cqlt_eqb (a b : cqlt) : bool :=
  match a, b with
  | TCustom s, TCustom s' => list_eqb s s'
  | TPrim c, TPrim c' => c =? c'
  | TList x, TList y => cqlt_eqb x y
  | TSet x, TSet y => cqlt_eqb x y
  | TMap k v, TMap k' v' => cqlt_eqb k k' && cqlt_eqb v v'
  | TUdt ks nm fs, TUdt ks' nm' fs' =>
    list_eqb ks ks' && list_eqb nm nm' && lst_eqb (fun p q => list_eqb (fst p) (fst q) && cqlt_eqb (snd p) (snd q)) fs fs'
  | TTuple ts, TTuple ts' => lst_eqb cqlt_eqb ts ts'
  | _, _ => false
  end.

Definition udt_class := list (str * cqlt).
Definition udt_cache := list ((str * str) * udt_class).

Fixpoint cache_get (c : udt_cache) (ks nm : str) : option udt_class :=
  match c with
  | [] => None
  | ((k, n), cls) :: r => if list_eqb ks k && list_eqb nm n then Some cls else cache_get r ks nm
  end.
Fixpoint cache_set (c : udt_cache) (ks nm : str) (cls : udt_class) : udt_cache :=
  match c with
  | [] => [((ks, nm), cls)]
  | ((k, n), old) :: r => if list_eqb ks k && list_eqb nm n then ((k, n), cls) :: r else ((k, n), old) :: cache_set r ks nm cls
  end.

(* if not instance or instance.fieldnames != field_names or instance.subtypes != field_types: <new class, cached>
   check_subtypes = false is the variant WITHOUT the third test (kept to show that the test is necessary) *)
Definition make_udt_class (check_subtypes : bool) (c : udt_cache) (ks nm : str) (fs : udt_class) : cqlt * udt_cache :=
  match cache_get c ks nm with
  | Some inst =>
    if lst_eqb list_eqb (map fst inst) (map fst fs) && (negb check_subtypes || lst_eqb cqlt_eqb (map snd inst) (map snd fs))
    then (TUdt ks nm inst, c)
    else (TUdt ks nm fs, cache_set c ks nm fs)
  | None => (TUdt ks nm fs, cache_set c ks nm fs)
  end.

(* thread a state through a list, left to right *)
Definition map_st {A B S} (f : S -> A -> B * S) : S -> list A -> list B * S :=
  fix go (s : S) (l : list A) : list B * S :=
    match l with
    | [] => ([], s)
    | x :: r => let (y, s1) := f s x in let (r', s2) := go s1 r in (y :: r', s2)
    end.

(* the classes read_type hands out for a type option: inner options first, fields left to right *)
Fixpoint intern (cs : bool) (c : udt_cache) (t : cqlt) : cqlt * udt_cache :=
  match t with
  | TCustom _ | TPrim _ => (t, c)
  | TList e => let (e', c') := intern cs c e in (TList e', c')
  | TSet e => let (e', c') := intern cs c e in (TSet e', c')
  | TMap k v => let (k', c1) := intern cs c k in let (v', c2) := intern cs c1 v in (TMap k' v', c2)
  | TTuple ts => let (ts', c') := map_st (intern cs) c ts in (TTuple ts', c')
  | TUdt ks nm fs =>
    let (fs', c') := map_st (fun c p => let (t', c1) := intern cs c (snd p) in ((fst p, t'), c1)) c fs in
    make_udt_class cs c' ks nm fs'
  end.

Definition intern_cols (cs : bool) : udt_cache -> list colspec -> list colspec * udt_cache :=
  map_st (fun c col => let (t', c1) := intern cs c (c_type col) in (mkcol (c_ks col) (c_tbl col) (c_name col) t', c1)).
Definition intern_ocols (cs : bool) (c : udt_cache) (o : option (list colspec)) : option (list colspec) * udt_cache :=
  match o with Some l => let (l', c') := intern_cols cs c l in (Some l', c') | None => (None, c) end.

(* PREPARED reads the bind columns before the result columns; column_types are the classes of column_metadata *)
Definition intern_rmsg (cs : bool) (c : udt_cache) (r : rmsg) : rmsg * udt_cache :=
  let (b', c1) := intern_ocols cs c (r_bind r) in
  let (m', c2) := intern_ocols cs c1 (r_colmeta r) in
  (mkr (r_kind r) (r_paging r) (r_cp_seq r) (r_cp_last r) (r_meta_id r) m' (r_colnames r)
       (match r_coltypes r, m' with Some _, Some (x :: l) => Some (map c_type (x :: l)) | _, _ => r_coltypes r end)
       (r_rows r) (r_keyspace r) (r_query_id r) b' (r_pk r) (r_schema r), c2).

(* one decode_message call in a process whose UDT cache is c.  (Cache entries written by a frame that is rejected
   further on are not modelled: by C04_cache_independent no later result can depend on them.) *)
Definition decode_message_st (cs : bool) (c : udt_cache) (pv : Z) (result_metadata : option (list colspec))
           (stream flags opcode : Z) (body : bytes) : option msg * udt_cache :=
  match decode_message pv result_metadata stream flags opcode body with
  | Some m =>
    match m_body m with
    | BResult r => let (r', c') := intern_rmsg cs c r in
                   (Some (mkmsg (m_stream m) (m_trace m) (m_warnings m) (m_payload m) (BResult r')), c')
    | _ => (Some m, c)
    end
  | None => (None, c)
  end.

Record frame := mkframe { f_pv : Z; f_rm : option (list colspec); f_stream : Z; f_flags : Z; f_opcode : Z; f_body : bytes }.

(* a history of frames decoded one after the other by the same process *)
Fixpoint decode_history (cs : bool) (c : udt_cache) (fs : list frame) : list (option msg) :=
  match fs with
  | [] => []
  | f :: r =>
    let (m, c') := decode_message_st cs c (f_pv f) (f_rm f) (f_stream f) (f_flags f) (f_opcode f) (f_body f) in
    m :: decode_history cs c' r
  end.
