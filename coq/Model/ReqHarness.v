(* C03 -- harness side of the correspondence (checks/C03.py): literals, a toy compressor, decidable comparison of the
   specification parser's result with canon, and the per-case verdict evaluated by vm_compute.  Not used by any theorem. *)
From Coq Require Import ZArith List Bool.
From Coq Require Export Uint63.
From Verif Require Import PyBase ReqPV ReqConsts ReqWire Request ProtocolSpec ReqCanon.
Import ListNotations.
Local Open Scope Z_scope.

(* ---- decidable equality on the specification's result types (harness only) ---------------------------------- *)
Definition opt_eqb {A} (eqb : A -> A -> bool) (a b : option A) : bool :=
  match a, b with Some x, Some y => eqb x y | None, None => true | _, _ => false end.
Fixpoint list_eqb {A} (eqb : A -> A -> bool) (a b : list A) : bool :=
  match a, b with
  | [], [] => true
  | x :: a', y :: b' => eqb x y && list_eqb eqb a' b'
  | _, _ => false
  end.
Definition svalue_eqb (a b : svalue) : bool :=
  match a, b with
  | SNull, SNull => true | SNotSet, SNotSet => true | SBytes x, SBytes y => bytes_eqb x y | _, _ => false
  end.
Definition pair_eqb {A B} (ea : A -> A -> bool) (eb : B -> B -> bool) (a b : A * B) : bool :=
  ea (fst a) (fst b) && eb (snd a) (snd b).
Definition scpo_eqb (a b : scpo) : bool :=
  (s_max_pages a =? s_max_pages b) && (s_pps a =? s_pps b) && opt_eqb Z.eqb (s_next_pages a) (s_next_pages b).
Definition sparams_eqb (a b : sparams) : bool :=
  (s_cl a =? s_cl b) && opt_eqb (list_eqb svalue_eqb) (s_values a) (s_values b)
  && Bool.eqb (s_skip_metadata a) (s_skip_metadata b) && opt_eqb Z.eqb (s_page_size a) (s_page_size b)
  && opt_eqb bytes_eqb (s_paging_state a) (s_paging_state b) && opt_eqb Z.eqb (s_serial a) (s_serial b)
  && opt_eqb Z.eqb (s_timestamp a) (s_timestamp b) && opt_eqb bytes_eqb (s_keyspace a) (s_keyspace b)
  && opt_eqb Z.eqb (s_now a) (s_now b) && Bool.eqb (s_page_bytes a) (s_page_bytes b)
  && opt_eqb scpo_eqb (s_cpo a) (s_cpo b).
Definition sbquery_eqb (a b : sbquery) : bool :=
  match a, b with
  | SBQuery q v, SBQuery q' v' => bytes_eqb q q' && list_eqb svalue_eqb v v'
  | SBPrepared q v, SBPrepared q' v' => bytes_eqb q q' && list_eqb svalue_eqb v v'
  | _, _ => false
  end.
Definition smap_eqb := list_eqb (pair_eqb bytes_eqb bytes_eqb).
Definition srequest_eqb (a b : srequest) : bool :=
  match a, b with
  | SStartup x, SStartup y => smap_eqb x y
  | SOptions, SOptions => true
  | SAuthResponse x, SAuthResponse y => opt_eqb bytes_eqb x y
  | SCredentials x, SCredentials y => smap_eqb x y
  | SQuery q p, SQuery q' p' => bytes_eqb q q' && sparams_eqb p p'
  | SPrepare q k, SPrepare q' k' => bytes_eqb q q' && opt_eqb bytes_eqb k k'
  | SExecute i r p, SExecute i' r' p' => bytes_eqb i i' && opt_eqb bytes_eqb r r' && sparams_eqb p p'
  | SBatch t q c s ts k n, SBatch t' q' c' s' ts' k' n' =>
      (t =? t') && list_eqb sbquery_eqb q q' && (c =? c') && opt_eqb Z.eqb s s' && opt_eqb Z.eqb ts ts'
      && opt_eqb bytes_eqb k k' && opt_eqb Z.eqb n n'
  | SRegister x, SRegister y => list_eqb bytes_eqb x y
  | SRevise o i n, SRevise o' i' n' => (o =? o') && (i =? i') && opt_eqb Z.eqb n n'
  | _, _ => false
  end.
Definition sframe_eqb (a b : sframe) : bool :=
  (f_version a =? f_version b) && Bool.eqb (f_compressed a) (f_compressed b) && Bool.eqb (f_tracing a) (f_tracing b)
  && Bool.eqb (f_beta a) (f_beta b) && (f_stream a =? f_stream b)
  && opt_eqb (list_eqb (pair_eqb bytes_eqb (opt_eqb bytes_eqb))) (f_payload a) (f_payload b)
  && srequest_eqb (f_request a) (f_request b).


(* ---- harness: literals and the per-case verdict -------------------------------------------------------------- *)
(* byte-string literals: n bytes packed big-endian, 7 per primitive 63-bit integer (cheap to elaborate) *)
Definition ub (n : Z) (chunks : list int) : bytes :=
  firstn (Z.to_nat n) (flat_map (fun c => be_bytes 7 (Uint63.to_Z c)) chunks).
Definition rep (b n : Z) : bytes := repeat b (Z.to_nat n).

(* the correspondence runs use this toy compressor on both sides (the theorems are for an abstract one) *)
Definition toy_compress (b : bytes) : bytes := 90 :: rev_append b [].
Definition toy_decompress (b : bytes) : option bytes := match b with 90 :: r => Some (rev_append r []) | _ => None end.

Definition W_eqb (a b : W) : bool := opt_eqb bytes_eqb a b.

(* the property's conclusion evaluated on given frame bytes *)
Definition conforms (pv : Z) (compressed : bool) (e : envelope) (r : request) (bs : bytes) : bool :=
  match spec_parse toy_decompress bs with
  | Some f => sframe_eqb f (canon pv compressed e r (body_nonempty e r))
  | None => false
  end.

(* verdict bits:  1 model bytes <> implementation bytes
                  2 implementation produced a frame that the specification parser does not read back as requested
                  4 implementation encoded a request carrying something the version cannot carry
                  8 request is outside what the session layer can build (hand-constructed message: evidence only)
                 16 implementation raised on a request that carries nothing unsupported (informational: range errors)
                 32 (with 2) the frame is not parseable at all;  64 (with 2) only frame-level fields differ *)
Definition conform_code (pv : Z) (compressed : bool) (e : envelope) (r : request) (bs : bytes) : Z :=
  match spec_parse toy_decompress bs with
  | Some f => if sframe_eqb f (canon pv compressed e r (body_nonempty e r)) then 0
              else if srequest_eqb (f_request f) (canon_request pv r) then 2 + 64 else 2
  | None => 2 + 32
  end.
Definition check_case (pv : Z) (compressed : bool) (e : envelope) (r : request) (impl : W) : Z :=
  let model := encode_message pv (if compressed then Some toy_compress else None) e r in
  (if W_eqb model impl then 0 else 1)
  + match impl with
    | Some bs => conform_code pv compressed e r bs + (if carries_unsupported pv e r then 4 else 0)
    | None => if carries_unsupported pv e r then 0 else 16
    end
  + (if session_ok pv r then 0 else 8).
