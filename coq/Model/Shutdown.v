(* C45 model: which connections are open/closed across Cluster.shutdown / Session.shutdown, with a coarse pool summary
   (HostConnection: current connection, is_shutdown, _is_replacing, the trash of replaced connections that still carry
   requests), the control connection, host and control reconnection handlers, the executor queue and the scheduler.
   One step = one call into the driver (deterministic executor/scheduler); `during = true` means: the cluster is shut down
   by another thread while this step's connect is in progress, or right before the locked region that follows it
   (the harness forces both windows; that the "shut down meanwhile?" test and the install share one lock region is
   checked on the source by checks/C45.py:lock_audit).
   Source regions: Cluster.shutdown, Session.shutdown/submit/add_or_renew_pool (cluster.py); ControlConnection.reconnect/
   _reconnect/_reconnect_internal/_try_connect/_set_new_connection/shutdown, _ControlReconnectionHandler (cluster.py);
   HostConnection._replace/return_connection/shutdown, _ReconnectionHandler.run, _HostReconnectionHandler (pool.py);
   Cluster._start_reconnector.
   No proofs in this file. *)
From Coq Require Import ZArith List Bool Arith.
Import ListNotations.

Inductive oc := Ok | Err.
(* how the connection being replaced is disposed of: orphan limit reached and idle -> closed; still carrying a request ->
   trash; lost (defunct, already closed) -> nothing *)
Inductive rmode := RIdle | RBusy | RLost.
Inductive task := KAddPool (h : nat) (initial : bool) | KReplace (h p c0 : nat) (m : rmode) | KCCReconnect.
Inductive timer := TRecon (h : nat) (live : bool) | TCtl (live : bool).
Inductive op :=
| OPoolTask (h : nat) (initial : bool) | OReplace (h : nat) (busy : bool) | OConnLost (h : nat) | OTrashDone (h : nat)
| OCCReconnect | OStartRecon (h : nat)
| ORun (k : nat) (o : oc) (during : bool) | OFire (k : nat) (o : oc) (during : bool)
| ORunNested (k j : nat)          (* pool creation k is about to install its pool when pool creation j runs to completion *)
| OClusterShutdown | OSessionShutdown | OSubmit | ORequest.
Inductive out := Refused | Accepted | Nothing.

Record pl := mkp { pid : nat; pconn : option nat; pshut : bool; prepl : bool; ptrash : list nat }.

Record st := mk { nconn : nat; closed : list nat; cl_down : bool; sess_down : bool; cc_down : bool; sched_down : bool;
                  pool : nat -> option pl; cc_conn : option nat;
                  queue : list task; timers : list timer; nh : nat;
                  attempts : nat (* connection attempts started so far *);
                  npool : nat (* pools installed so far *) }.

Definition set_nconn s v := mk v (closed s) (cl_down s) (sess_down s) (cc_down s) (sched_down s) (pool s) (cc_conn s) (queue s) (timers s) (nh s) (attempts s) (npool s).
Definition set_closed s v := mk (nconn s) v (cl_down s) (sess_down s) (cc_down s) (sched_down s) (pool s) (cc_conn s) (queue s) (timers s) (nh s) (attempts s) (npool s).
Definition set_pool s v := mk (nconn s) (closed s) (cl_down s) (sess_down s) (cc_down s) (sched_down s) v (cc_conn s) (queue s) (timers s) (nh s) (attempts s) (npool s).
Definition set_cc s v := mk (nconn s) (closed s) (cl_down s) (sess_down s) (cc_down s) (sched_down s) (pool s) v (queue s) (timers s) (nh s) (attempts s) (npool s).
Definition set_queue s v := mk (nconn s) (closed s) (cl_down s) (sess_down s) (cc_down s) (sched_down s) (pool s) (cc_conn s) v (timers s) (nh s) (attempts s) (npool s).
Definition set_timers s v := mk (nconn s) (closed s) (cl_down s) (sess_down s) (cc_down s) (sched_down s) (pool s) (cc_conn s) (queue s) v (nh s) (attempts s) (npool s).
Definition set_attempts s v := mk (nconn s) (closed s) (cl_down s) (sess_down s) (cc_down s) (sched_down s) (pool s) (cc_conn s) (queue s) (timers s) (nh s) v (npool s).
Definition set_npool s v := mk (nconn s) (closed s) (cl_down s) (sess_down s) (cc_down s) (sched_down s) (pool s) (cc_conn s) (queue s) (timers s) (nh s) (attempts s) v.
Definition att (s : st) (n : nat) : st := set_attempts s (attempts s + n).

Definition close (s : st) (c : nat) : st := set_closed s (c :: closed s).
Definition close_opt (s : st) (o : option nat) : st := match o with Some c => close s c | None => s end.
Definition close_all (s : st) (l : list nat) : st := set_closed s (l ++ closed s).
Definition upd_pool (s : st) (h : nat) (v : option pl) : st :=
  set_pool s (fun x => if x =? h then v else pool s x).

(* every connection a pool holds: the current one and the trash *)
Definition pl_conns (p : pl) : list nat := (match pconn p with Some c => [c] | None => [] end) ++ ptrash p.
Definition opl_conns (o : option pl) : list nat := match o with Some p => pl_conns p | None => [] end.
(* HostConnection.shutdown: current connection closed, trash emptied and closed *)
Definition shut_pl (p : pl) : pl := mkp (pid p) None true (prepl p) [].
Definition shut_pool (o : option pl) : option pl := match o with Some p => Some (shut_pl p) | None => None end.

Definition is_initial (t : task) : bool := match t with KAddPool _ true => true | _ => false end.

(* Session.shutdown: the initial pool creations that have not started are cancelled, every pool in _pools is shut down *)
Definition session_shutdown (s : st) : st :=
  if sess_down s then s else
  let conns := flat_map (fun h => opl_conns (pool s h)) (seq 0 (nh s)) in
  mk (nconn s) (conns ++ closed s) (cl_down s) true (cc_down s) (sched_down s) (fun h => shut_pool (pool s h)) (cc_conn s)
     (filter (fun t => negb (is_initial t)) (queue s)) (timers s) (nh s) (attempts s) (npool s).

(* ControlConnection.shutdown *)
Definition cc_shutdown (s : st) : st :=
  let s := set_timers s (map (fun t => match t with TCtl _ => TCtl false | t => t end) (timers s)) in
  if cc_down s then s else
  let s := close_opt s (cc_conn s) in
  mk (nconn s) (closed s) (cl_down s) (sess_down s) true (sched_down s) (pool s) None (queue s) (timers s) (nh s) (attempts s) (npool s).

(* Cluster.shutdown: scheduler.shutdown, control_connection.shutdown, every session.shutdown, executor.shutdown *)
Definition cluster_shutdown (s : st) : st :=
  if cl_down s then s else
  let s := mk (nconn s) (closed s) true (sess_down s) (cc_down s) true (pool s) (cc_conn s) (queue s) (timers s) (nh s) (attempts s) (npool s) in
  session_shutdown (cc_shutdown s).

Definition connect (s : st) (during : bool) : st * nat :=
  let c := nconn s in
  let s := att (set_nconn s (S c)) 1 in
  (if during then cluster_shutdown s else s, c).

Fixpoint remove_nth {A} (k : nat) (l : list A) : list A :=
  match l, k with [], _ => [] | _ :: t, O => t | x :: t, S k' => x :: remove_nth k' t end.

(* run_add_or_renew_pool after HostConnection(...) has connected c: the locked region (session shut down meanwhile? /
   previous = _pools.get(host); _pools[host] = new_pool), then previous.shutdown() *)
Definition install_pool (s : st) (h c : nat) : st :=
  if sess_down s then close s c                   (* fix cbd87a0: new_pool.shutdown() *)
  else close_all (set_npool (upd_pool s h (Some (mkp (npool s) (Some c) false false []))) (S (npool s))) (opl_conns (pool s h)).

Definition run_task (s : st) (t : task) (o : oc) (during : bool) : st :=
  match t with
  | KAddPool h _ =>
      match o with
      | Err => s                                   (* not generated: failures of pool creation belong to C25 *)
      | Ok => if negb (h <? nh s) then s else          (* not a host of this cluster: never generated *)
              let '(s, c) := connect s during in install_pool s h c
      end
  | KReplace h p c0 m =>
      match pool s h with
      | Some q =>
          if (pid q =? p) && negb (pshut q) then         (* the task belongs to this pool object; `if self.is_shutdown: return` *)
            match o with
            | Err => let s := att s 1 in if sess_down s then s else set_queue s (queue s ++ [KReplace h p c0 m])
            | Ok => let '(s, c) := connect s during in
                    match pool s h with
                    | Some q' =>
                        if pshut q' then close s c       (* fix 084ea49: pool shut down while connecting -> conn.close() *)
                        else
                          match pconn q' with
                          | Some c1 => if c1 =? c0 then
                                         match m with
                                         | RBusy => upd_pool s h (Some (mkp (pid q') (Some c) false false (c0 :: ptrash q')))
                                         | _ => close (upd_pool s h (Some (mkp (pid q') (Some c) false false (ptrash q')))) c0
                                         end
                                       else close s c   (* unreachable under the _is_replacing discipline (prepl) *)
                          | None => upd_pool s h (Some (mkp (pid q') (Some c) false false
                                                            (match m with RBusy => c0 :: ptrash q' | _ => ptrash q' end)))
                          end
                    | None => close s c
                    end
            end
          else s
      | None => s
      end
  | KCCReconnect =>
      match o with
      | Err => (* _reconnect_internal walks the query plan; after a failed attempt it stops as soon as _is_shutdown *)
               if during then cluster_shutdown (att s 1) else
               if cc_down s then att s 1 else
               let s := att s (nh s) in
               if sched_down s then set_timers s (map (fun t => match t with TCtl _ => TCtl false | t => t end) (timers s))
               else set_timers s (map (fun t => match t with TCtl _ => TCtl false | t => t end) (timers s) ++ [TCtl true])
      | Ok => let '(s, c) := connect s during in
              if cc_down s then close s c          (* _try_connect / _set_new_connection: is_shutdown -> close *)
              else set_cc (close_opt s (cc_conn s)) (Some c)               (* _set_new_connection *)
      end
  end.

Definition fire (s : st) (t : timer) (o : oc) (during : bool) : st :=
  match t with
  | TRecon h live =>
      if negb live then s else
      match o with
      | Ok => let '(s, c) := connect s during in close s c                 (* run(): finally conn.close() *)
      | Err => let s := att s 1 in if sched_down s then s else set_timers s (timers s ++ [TRecon h true])
      end
  | TCtl live =>
      if negb live then s else
      match o with
      | Ok => let '(s, c) := connect s during in
              if cc_down s then close s c
              else close (set_cc (close_opt s (cc_conn s)) (Some c)) c    (* on_reconnection, then finally conn.close() *)
      | Err => if during then cluster_shutdown (att s 1) else
               let s := att s (nh s) in if sched_down s then s else set_timers s (timers s ++ [TCtl true])
      end
  end.

Definition step (s : st) (o : op) : st * out :=
  match o with
  | OPoolTask h i => if sess_down s then (s, Refused) else (set_queue s (queue s ++ [KAddPool h i]), Accepted)
  | OReplace h busy =>          (* borrow_connection: orphan limit reached on the current connection *)
      match pool s h with
      | Some q => match pconn q with
                  | Some c => if prepl q || pshut q then (s, Nothing) else
                              let s1 := upd_pool s h (Some (mkp (pid q) (pconn q) (pshut q) true (ptrash q))) in
                              if sess_down s then (s1, Refused)
                              else (set_queue s1 (queue s1 ++ [KReplace h (pid q) c (if busy then RBusy else RIdle)]), Accepted)
                  | None => (s, Nothing)
                  end
      | None => (s, Nothing)
      end
  | OConnLost h =>              (* the current connection died and is returned (host not convicted) *)
      match pool s h with
      | Some q => match pconn q with
                  | Some c => if pshut q then (s, Nothing) else
                              let s1 := close (upd_pool s h (Some (mkp (pid q) None false true (ptrash q)))) c in
                              if prepl q then (s1, Nothing) else
                              if sess_down s then (s1, Refused)
                              else (set_queue s1 (queue s1 ++ [KReplace h (pid q) c RLost]), Accepted)
                  | None => (s, Nothing)
                  end
      | None => (s, Nothing)
      end
  | OTrashDone h =>             (* the last request of a trashed connection completes: return_connection closes it *)
      match pool s h with
      | Some q => match ptrash q with
                  | c :: rest => if pshut q || existsb (Nat.eqb c) (closed s) then (s, Nothing)     (* no longer in _trash / already dead *)
                                 else (close (upd_pool s h (Some (mkp (pid q) (pconn q) (pshut q) (prepl q) rest))) c, Nothing)
                  | [] => (s, Nothing)
                  end
      | None => (s, Nothing)
      end
  | OCCReconnect => if cc_down s || cl_down s then (s, Refused) else (set_queue s (queue s ++ [KCCReconnect]), Accepted)
  | OStartRecon h =>
      if sched_down s then (s, Refused) else
      (set_timers s (map (fun t => match t with TRecon h' _ => if h' =? h then TRecon h' false else t | t => t end) (timers s)
                     ++ [TRecon h true]), Accepted)
  | ORun k oc_ d => match nth_error (queue s) k with
                    | Some t => (run_task (set_queue s (remove_nth k (queue s))) t oc_ d, Nothing)
                    | None => (s, Nothing)
                    end
  | ORunNested k j =>
      match nth_error (queue s) k with
      | Some (KAddPool h _) =>
          let s0 := set_queue s (remove_nth k (queue s)) in
          match nth_error (queue s0) j with
          | Some (KAddPool h' i') =>
              if negb (h <? nh s) || negb (h' <? nh s) then (s, Nothing) else
              let '(s1, c) := connect s0 false in
              let s2 := run_task (set_queue s1 (remove_nth j (queue s1))) (KAddPool h' i') Ok false in
              (install_pool s2 h c, Nothing)
          | _ => (s, Nothing)
          end
      | _ => (s, Nothing)
      end
  | OFire k oc_ d => if sched_down s then (s, Nothing) else
                     match nth_error (timers s) k with
                     | Some t => (fire (set_timers s (remove_nth k (timers s))) t oc_ d, Nothing)
                     | None => (s, Nothing)
                     end
  | OClusterShutdown => (cluster_shutdown s, Nothing)
  | OSessionShutdown => (session_shutdown s, Nothing)
  | OSubmit => (s, if sess_down s then Refused else Accepted)
  | ORequest => (s, if sess_down s then Refused else Accepted)
  end.

Definition run (s : st) (os : list op) : st := fold_left (fun s o => fst (step s o)) os s.

(* after Cluster.connect(): control connection = connection 0, one pool (connection h+1) per host *)
Definition init (n : nat) : st :=
  mk (S n) [] false false false false (fun h => if h <? n then Some (mkp h (Some (S h)) false false []) else None) (Some 0) [] [] n 0 n.

(* ---------------------------------------------------------------- observation *)
Local Open Scope Z_scope.
Definition zn (n : nat) : Z := Z.of_nat n.
Definition zo (o : option nat) : Z := match o with Some c => zn c | None => -1 end.
Definition obs_mode (m : rmode) : Z := match m with RIdle => 0 | RBusy => 1 | RLost => 2 end.
Definition obs_task (t : task) : Z :=
  match t with
  | KAddPool h i => 100 + 10 * zn h + Z.b2z i
  | KReplace h p c m => 100000 + 10000 * zn h + 1000 * obs_mode m + 100 * zn p + zn c
  | KCCReconnect => 300
  end.
Definition obs_timer (t : timer) : Z := match t with TRecon h _ => 10 + zn h | TCtl _ => 20 end.
Definition obs_out (o : out) : Z := match o with Refused => 0 | Accepted => 1 | Nothing => 2 end.
Definition obs (s : st) (o : out) : list Z :=
  [zn (nconn s); zn (attempts s); Z.b2z (cl_down s); Z.b2z (sess_down s); Z.b2z (cc_down s); Z.b2z (sched_down s); zo (cc_conn s); -1]
  ++ map zn (filter (fun c => existsb (Nat.eqb c) (closed s)) (seq 0 (nconn s))) ++ [-2]
  ++ flat_map (fun h => match pool s h with
                        | None => [-9]
                        | Some q => [zn (pid q); zo (pconn q); Z.b2z (pshut q); Z.b2z (prepl q); -8] ++ map zn (ptrash q) ++ [-7]
                        end) (seq 0 (nh s)) ++ [-3]
  ++ map obs_task (queue s) ++ [-4] ++ map obs_timer (timers s) ++ [-5; obs_out o].

Fixpoint trace (s : st) (os : list op) : list (list Z) :=
  match os with [] => [] | o :: os' => let '(s', r) := step s o in obs s' r :: trace s' os' end.
Fixpoint zlist_eqb (a b : list Z) : bool :=
  match a, b with [], [] => true | x :: a', y :: b' => (x =? y) && zlist_eqb a' b' | _, _ => false end.
Fixpoint zll_eqb (a b : list (list Z)) : bool :=
  match a, b with [], [] => true | x :: a', y :: b' => zlist_eqb x y && zll_eqb a' b' | _, _ => false end.
Definition corr45 (n : nat) (os : list op) (expected : list (list Z)) : bool := zll_eqb (trace (init n) os) expected.
