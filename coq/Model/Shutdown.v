(* C45 model: which connections are open/closed across Cluster.shutdown / Session.shutdown, with a coarse pool summary
   (one connection per HostConnection), the control connection, host and control reconnection handlers, the executor
   queue and the scheduler.  One step = one call into the driver (deterministic executor/scheduler); `during = true`
   means: the cluster is shut down by another thread while this step's connect is in progress.
   Source regions: Cluster.shutdown, Session.shutdown/submit/add_or_renew_pool (cluster.py); ControlConnection.reconnect/
   _reconnect/_reconnect_internal/_try_connect/_set_new_connection/shutdown, _ControlReconnectionHandler (cluster.py);
   HostConnection._replace/shutdown, _ReconnectionHandler.run, _HostReconnectionHandler (pool.py); Cluster._start_reconnector.
   No proofs in this file. *)
From Coq Require Import ZArith List Bool Arith.
Import ListNotations.

Inductive oc := Ok | Err.
Inductive task := KAddPool (h : nat) | KReplace (h c0 : nat) | KCCReconnect.
Inductive timer := TRecon (h : nat) (live : bool) | TCtl (live : bool).
Inductive op :=
| OPoolTask (h : nat) | OReplace (h : nat) | OCCReconnect | OStartRecon (h : nat)
| ORun (k : nat) (o : oc) (during : bool) | OFire (k : nat) (o : oc) (during : bool)
| OClusterShutdown | OSessionShutdown | OSubmit | ORequest.
Inductive out := Refused | Accepted | Nothing.

Record st := mk { nconn : nat; closed : list nat; cl_down : bool; sess_down : bool; cc_down : bool; sched_down : bool;
                  pool : nat -> option (option nat * bool); cc_conn : option nat;
                  queue : list task; timers : list timer; nh : nat;
                  attempts : nat (* connection attempts started so far *) }.

Definition set_nconn s v := mk v (closed s) (cl_down s) (sess_down s) (cc_down s) (sched_down s) (pool s) (cc_conn s) (queue s) (timers s) (nh s) (attempts s).
Definition set_closed s v := mk (nconn s) v (cl_down s) (sess_down s) (cc_down s) (sched_down s) (pool s) (cc_conn s) (queue s) (timers s) (nh s) (attempts s).
Definition set_pool s v := mk (nconn s) (closed s) (cl_down s) (sess_down s) (cc_down s) (sched_down s) v (cc_conn s) (queue s) (timers s) (nh s) (attempts s).
Definition set_cc s v := mk (nconn s) (closed s) (cl_down s) (sess_down s) (cc_down s) (sched_down s) (pool s) v (queue s) (timers s) (nh s) (attempts s).
Definition set_queue s v := mk (nconn s) (closed s) (cl_down s) (sess_down s) (cc_down s) (sched_down s) (pool s) (cc_conn s) v (timers s) (nh s) (attempts s).
Definition set_timers s v := mk (nconn s) (closed s) (cl_down s) (sess_down s) (cc_down s) (sched_down s) (pool s) (cc_conn s) (queue s) v (nh s) (attempts s).
Definition set_attempts s v := mk (nconn s) (closed s) (cl_down s) (sess_down s) (cc_down s) (sched_down s) (pool s) (cc_conn s) (queue s) (timers s) (nh s) v.
Definition att (s : st) (n : nat) : st := set_attempts s (attempts s + n).

Definition close (s : st) (c : nat) : st := set_closed s (c :: closed s).
Definition close_opt (s : st) (o : option nat) : st := match o with Some c => close s c | None => s end.
Definition upd_pool (s : st) (h : nat) (v : option (option nat * bool)) : st :=
  set_pool s (fun x => if x =? h then v else pool s x).

Definition pool_conn (p : option (option nat * bool)) : option nat :=
  match p with Some (Some c, _) => Some c | _ => None end.
Definition shut_pool (p : option (option nat * bool)) : option (option nat * bool) :=
  match p with Some _ => Some (None, true) | None => None end.

(* Session.shutdown: every pool in _pools is shut down (its connection closed) *)
Definition session_shutdown (s : st) : st :=
  if sess_down s then s else
  let conns := flat_map (fun h => match pool_conn (pool s h) with Some c => [c] | None => [] end) (seq 0 (nh s)) in
  mk (nconn s) (conns ++ closed s) (cl_down s) true (cc_down s) (sched_down s) (fun h => shut_pool (pool s h)) (cc_conn s)
     (queue s) (timers s) (nh s) (attempts s).

(* ControlConnection.shutdown *)
Definition cc_shutdown (s : st) : st :=
  let s := set_timers s (map (fun t => match t with TCtl _ => TCtl false | t => t end) (timers s)) in
  if cc_down s then s else
  let s := close_opt s (cc_conn s) in
  mk (nconn s) (closed s) (cl_down s) (sess_down s) true (sched_down s) (pool s) None (queue s) (timers s) (nh s) (attempts s).

(* Cluster.shutdown: scheduler.shutdown, control_connection.shutdown, every session.shutdown, executor.shutdown *)
Definition cluster_shutdown (s : st) : st :=
  if cl_down s then s else
  let s := mk (nconn s) (closed s) true (sess_down s) (cc_down s) true (pool s) (cc_conn s) (queue s) (timers s) (nh s) (attempts s) in
  session_shutdown (cc_shutdown s).

Definition connect (s : st) (during : bool) : st * nat :=
  let c := nconn s in
  let s := att (set_nconn s (S c)) 1 in
  (if during then cluster_shutdown s else s, c).

Fixpoint remove_nth {A} (k : nat) (l : list A) : list A :=
  match l, k with [], _ => [] | _ :: t, O => t | x :: t, S k' => x :: remove_nth k' t end.

Definition run_task (s : st) (t : task) (o : oc) (during : bool) : st :=
  match t with
  | KAddPool h =>
      match o with
      | Err => s                                   (* not generated: failures of pool creation belong to C25 *)
      | Ok => if negb (h <? nh s) then s else          (* not a host of this cluster: never generated *)
              let '(s, c) := connect s during in
              if sess_down s then close s c          (* fix cbd87a0: shut down while connecting -> new_pool.shutdown() *)
              else close_opt (upd_pool s h (Some (Some c, false))) (pool_conn (pool s h))   (* previous.shutdown() *)
      end
  | KReplace h c0 =>
      match pool s h with
      | Some (Some c0', false) =>
          if c0' =? c0 then
            match o with
            | Err => let s := att s 1 in if sess_down s then s else set_queue s (queue s ++ [KReplace h c0])
            | Ok => let '(s, c) := connect s during in
                    match pool s h with
                    | Some (Some _, false) =>                       (* self._connection = conn; old connection closed *)
                        close_opt (upd_pool s h (Some (Some c, false))) (pool_conn (pool s h))
                    | _ => close s c           (* fix 084ea49: pool shut down while connecting -> conn.close() *)
                    end
            end
          else s
      | _ => s
      end
  | KCCReconnect =>
      match o with
      | Err => (* _reconnect_internal walks the query plan; after a failed attempt it stops as soon as _is_shutdown *)
               if during then cluster_shutdown (att s 1) else
               if cc_down s then att s 1 else
               let s := att s (nh s) in
               if sched_down s then set_timers s (map (fun t => match t with TCtl _ => TCtl false | t => t end) (timers s))
               else set_timers s (map (fun t => match t with TCtl _ => TCtl false | t => t end) (timers s) ++ [TCtl true])
      | Ok => let '(s, c) := connect s during in
              if cc_down s then close s c                                   (* _try_connect: is_shutdown -> close, raise *)
              else set_cc (close_opt s (cc_conn s)) (Some c)               (* _set_new_connection *)
      end
  end.

Definition fire (s : st) (t : timer) (o : oc) (during : bool) : st :=
  match t with
  | TRecon h live =>
      if negb live then s else
      match o with
      | Ok => let '(s, c) := connect s during in close s c                 (* run(): finally conn.close() *)
      | Err => let s := att s 1 in if sched_down s then s else set_timers s (timers s ++ [TRecon h true])
      end
  | TCtl live =>
      if negb live then s else
      match o with
      | Ok => let '(s, c) := connect s during in
              if cc_down s then close s c
              else close (set_cc (close_opt s (cc_conn s)) (Some c)) c    (* on_reconnection, then finally conn.close() *)
      | Err => if during then cluster_shutdown (att s 1) else
               let s := att s (nh s) in if sched_down s then s else set_timers s (timers s ++ [TCtl true])
      end
  end.

Definition step (s : st) (o : op) : st * out :=
  match o with
  | OPoolTask h => if sess_down s then (s, Refused) else (set_queue s (queue s ++ [KAddPool h]), Accepted)
  | OReplace h => match pool_conn (pool s h) with
                  | Some c => if sess_down s then (s, Refused) else (set_queue s (queue s ++ [KReplace h c]), Accepted)
                  | None => (s, Nothing)
                  end
  | OCCReconnect => if cc_down s || cl_down s then (s, Refused) else (set_queue s (queue s ++ [KCCReconnect]), Accepted)
  | OStartRecon h =>
      if sched_down s then (s, Refused) else
      (set_timers s (map (fun t => match t with TRecon h' _ => if h' =? h then TRecon h' false else t | t => t end) (timers s)
                     ++ [TRecon h true]), Accepted)
  | ORun k oc_ d => match nth_error (queue s) k with
                    | Some t => (run_task (set_queue s (remove_nth k (queue s))) t oc_ d, Nothing)
                    | None => (s, Nothing)
                    end
  | OFire k oc_ d => if sched_down s then (s, Nothing) else
                     match nth_error (timers s) k with
                     | Some t => (fire (set_timers s (remove_nth k (timers s))) t oc_ d, Nothing)
                     | None => (s, Nothing)
                     end
  | OClusterShutdown => (cluster_shutdown s, Nothing)
  | OSessionShutdown => (session_shutdown s, Nothing)
  | OSubmit => (s, if sess_down s then Refused else Accepted)
  | ORequest => (s, if sess_down s then Refused else Accepted)
  end.

Definition run (s : st) (os : list op) : st := fold_left (fun s o => fst (step s o)) os s.

(* after Cluster.connect(): control connection = connection 0, one pool (connection h+1) per host *)
Definition init (n : nat) : st :=
  mk (S n) [] false false false false (fun h => if h <? n then Some (Some (S h), false) else None) (Some 0) [] [] n 0.

(* ---------------------------------------------------------------- observation *)
Local Open Scope Z_scope.
Definition zn (n : nat) : Z := Z.of_nat n.
Definition zo (o : option nat) : Z := match o with Some c => zn c | None => -1 end.
Definition obs_task (t : task) : Z :=
  match t with KAddPool h => 100 + zn h | KReplace h c => 2000 + 100 * zn h + zn c | KCCReconnect => 300 end.
Definition obs_timer (t : timer) : Z := match t with TRecon h _ => 10 + zn h | TCtl _ => 20 end.
Definition obs_out (o : out) : Z := match o with Refused => 0 | Accepted => 1 | Nothing => 2 end.
Definition obs (s : st) (o : out) : list Z :=
  [zn (nconn s); zn (attempts s); Z.b2z (cl_down s); Z.b2z (sess_down s); Z.b2z (cc_down s); Z.b2z (sched_down s); zo (cc_conn s); -1]
  ++ map zn (filter (fun c => existsb (Nat.eqb c) (closed s)) (seq 0 (nconn s))) ++ [-2]
  ++ flat_map (fun h => match pool s h with None => [-9] | Some (c, b) => [zo c; Z.b2z b] end) (seq 0 (nh s)) ++ [-3]
  ++ map obs_task (queue s) ++ [-4] ++ map obs_timer (timers s) ++ [-5; obs_out o].

Fixpoint trace (s : st) (os : list op) : list (list Z) :=
  match os with [] => [] | o :: os' => let '(s', r) := step s o in obs s' r :: trace s' os' end.
Fixpoint zlist_eqb (a b : list Z) : bool :=
  match a, b with [], [] => true | x :: a', y :: b' => (x =? y) && zlist_eqb a' b' | _, _ => false end.
Fixpoint zll_eqb (a b : list (list Z)) : bool :=
  match a, b with [], [] => true | x :: a', y :: b' => zlist_eqb x y && zll_eqb a' b' | _, _ => false end.
Definition corr45 (n : nat) (os : list op) (expected : list (list Z)) : bool := zll_eqb (trace (init n) os) expected.
