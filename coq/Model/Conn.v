(* Model/Conn.v -- one connection's stream-id bookkeeping (C09, C10, C44).   DESIGN Appendix A.1.
   Executable model, NO proofs here.  One op = one `with lock` region or one unlocked statement group of
   cassandra/connection.py (Connection, HeartbeatFuture, ConnectionHeartbeat.run), pool.py
   (HostConnection.borrow_connection / return_connection) and cluster.py (ResponseFuture._on_timeout, _query).
   The granularity is checked against the source by the atomicity audit in lib/vf/conn_audit.py.

   Real containers:  free = request_ids (deque, order kept), reqs = _requests (newest first), orphans =
   orphaned_request_ids, cps = _continuous_paging_sessions.  Ghost (not in the code, only for the theorems):
   ghost = ids that are in nobody's container (held by a caller, between two regions of one method, lost on a
   dead connection), wire = requests the server still has to answer, owed/leaked/spurious = in_flight units
   not attached to an id, log = events (newest first). *)
From Coq Require Import ZArith List Bool.
Import ListNotations.
Local Open Scope Z_scope.

Inductive tag := THeld | TChecked | TPend | TAband | TCur | TLost | TBusy.
Inductive dec := DOk | DFail | DProto | DLast.
Inductive phase := PBegun | PBegunCp | PHeld (cb : Z) | PDelivered.

Inductive event :=
| EGot (i : Z)                 (* an id was handed out *)
| ENoConn                      (* borrow refused: at capacity / replaced *)
| EAssert                      (* `assert new_request_id <= max_request_id` fired *)
| ESent (i cb : Z)             (* send_msg registered cb on stream i *)
| ERefused (i : Z)             (* send_msg raised ConnectionShutdown *)
| EBusy (i : Z)                (* send_msg raised ConnectionBusy *)
| EDeliver (i cb r : Z)        (* response to wire request r on stream i handed to callback cb *)
| ECbExc (cb : Z)              (* decode failure: callback(exc) *)
| ECbShutdown (cb : Z)         (* error_all_requests: callback(ConnectionShutdown) *)
| EDropped (cb : Z)            (* _on_timeout popped the callback *)
| ETimeoutKeyErr               (* _on_timeout: KeyError branch *)
| ECpDeliver (sess : Z)
| ECpError (sess : Z)
| EHbCap                       (* heartbeat not sent: in_flight at threshold *)
| ENotified.                   (* owner.return_connection from ConnectionHeartbeat.run *)

Record state := mk {
  free : list Z; highest : Z; max_id : Z;
  reqs : list (Z * Z);
  orphans : list Z;
  cps : list (Z * (Z * bool));          (* stream -> (session, released) *)
  in_flight : Z;
  thr : Z; thr_reached : bool;
  defunct : bool; closed : bool; writable : bool; msg_received : bool;
  cur : option (Z * Z * phase);         (* message inside process_msg: stream, wire request, phase *)
  erroring : list Z;                    (* callbacks error_all_requests still has to call *)
  ghost : list (Z * tag);
  wire : list (Z * Z);
  owed : Z; ks_pending : Z; leaked : Z; spurious : Z;
  raced : bool; assert_failed : bool;
  log : list event
}.

(* ---- small list helpers ---- *)
Fixpoint rm (i : Z) (l : list Z) : list Z :=
  match l with [] => [] | y :: t => if i =? y then rm i t else y :: rm i t end.
Fixpoint rmk {A} (i : Z) (l : list (Z * A)) : list (Z * A) :=
  match l with [] => [] | (k, v) :: t => if i =? k then rmk i t else (k, v) :: rmk i t end.
Fixpoint lookup {A} (i : Z) (l : list (Z * A)) : option A :=
  match l with [] => None | (k, v) :: t => if i =? k then Some v else lookup i t end.
Fixpoint mem (i : Z) (l : list Z) : bool :=
  match l with [] => false | y :: t => (i =? y) || mem i t end.
Definition keys {A} (l : list (Z * A)) : list Z := map fst l.
Definition zlen {A} (l : list A) : Z := Z.of_nat (length l).
Fixpoint range_from (a : Z) (n : nat) : list Z :=
  match n with O => [] | S k => a :: range_from (a + 1) k end.

Definition init (n_init max : Z) (threshold : Z) : state :=
  mk (range_from 0 (Z.to_nat n_init)) (n_init - 1) max [] [] [] 0 threshold false
     false false true false None [] [] [] 0 0 0 0 false false [].

(* ---- record updates ---- *)
Definition ev (e : event) (s : state) : state :=
  mk (free s) (highest s) (max_id s) (reqs s) (orphans s) (cps s) (in_flight s) (thr s) (thr_reached s)
     (defunct s) (closed s) (writable s) (msg_received s) (cur s) (erroring s) (ghost s) (wire s)
     (owed s) (ks_pending s) (leaked s) (spurious s) (raced s) (assert_failed s) (e :: log s).
Definition set_free f h (s : state) : state :=
  mk f h (max_id s) (reqs s) (orphans s) (cps s) (in_flight s) (thr s) (thr_reached s)
     (defunct s) (closed s) (writable s) (msg_received s) (cur s) (erroring s) (ghost s) (wire s)
     (owed s) (ks_pending s) (leaked s) (spurious s) (raced s) (assert_failed s) (log s).
Definition set_reqs r (s : state) : state :=
  mk (free s) (highest s) (max_id s) r (orphans s) (cps s) (in_flight s) (thr s) (thr_reached s)
     (defunct s) (closed s) (writable s) (msg_received s) (cur s) (erroring s) (ghost s) (wire s)
     (owed s) (ks_pending s) (leaked s) (spurious s) (raced s) (assert_failed s) (log s).
Definition set_orph o t (s : state) : state :=
  mk (free s) (highest s) (max_id s) (reqs s) o (cps s) (in_flight s) (thr s) t
     (defunct s) (closed s) (writable s) (msg_received s) (cur s) (erroring s) (ghost s) (wire s)
     (owed s) (ks_pending s) (leaked s) (spurious s) (raced s) (assert_failed s) (log s).
Definition set_cps c (s : state) : state :=
  mk (free s) (highest s) (max_id s) (reqs s) (orphans s) c (in_flight s) (thr s) (thr_reached s)
     (defunct s) (closed s) (writable s) (msg_received s) (cur s) (erroring s) (ghost s) (wire s)
     (owed s) (ks_pending s) (leaked s) (spurious s) (raced s) (assert_failed s) (log s).
Definition set_inf n (s : state) : state :=
  mk (free s) (highest s) (max_id s) (reqs s) (orphans s) (cps s) n (thr s) (thr_reached s)
     (defunct s) (closed s) (writable s) (msg_received s) (cur s) (erroring s) (ghost s) (wire s)
     (owed s) (ks_pending s) (leaked s) (spurious s) (raced s) (assert_failed s) (log s).
Definition set_flags d c w m (s : state) : state :=
  mk (free s) (highest s) (max_id s) (reqs s) (orphans s) (cps s) (in_flight s) (thr s) (thr_reached s)
     d c w m (cur s) (erroring s) (ghost s) (wire s)
     (owed s) (ks_pending s) (leaked s) (spurious s) (raced s) (assert_failed s) (log s).
Definition set_cur c (s : state) : state :=
  mk (free s) (highest s) (max_id s) (reqs s) (orphans s) (cps s) (in_flight s) (thr s) (thr_reached s)
     (defunct s) (closed s) (writable s) (msg_received s) c (erroring s) (ghost s) (wire s)
     (owed s) (ks_pending s) (leaked s) (spurious s) (raced s) (assert_failed s) (log s).
Definition set_erroring e (s : state) : state :=
  mk (free s) (highest s) (max_id s) (reqs s) (orphans s) (cps s) (in_flight s) (thr s) (thr_reached s)
     (defunct s) (closed s) (writable s) (msg_received s) (cur s) e (ghost s) (wire s)
     (owed s) (ks_pending s) (leaked s) (spurious s) (raced s) (assert_failed s) (log s).
Definition set_ghost g (s : state) : state :=
  mk (free s) (highest s) (max_id s) (reqs s) (orphans s) (cps s) (in_flight s) (thr s) (thr_reached s)
     (defunct s) (closed s) (writable s) (msg_received s) (cur s) (erroring s) g (wire s)
     (owed s) (ks_pending s) (leaked s) (spurious s) (raced s) (assert_failed s) (log s).
Definition set_wire w (s : state) : state :=
  mk (free s) (highest s) (max_id s) (reqs s) (orphans s) (cps s) (in_flight s) (thr s) (thr_reached s)
     (defunct s) (closed s) (writable s) (msg_received s) (cur s) (erroring s) (ghost s) w
     (owed s) (ks_pending s) (leaked s) (spurious s) (raced s) (assert_failed s) (log s).
Definition set_units o k l sp (s : state) : state :=
  mk (free s) (highest s) (max_id s) (reqs s) (orphans s) (cps s) (in_flight s) (thr s) (thr_reached s)
     (defunct s) (closed s) (writable s) (msg_received s) (cur s) (erroring s) (ghost s) (wire s)
     o k l sp (raced s) (assert_failed s) (log s).
Definition set_bad r a (s : state) : state :=
  mk (free s) (highest s) (max_id s) (reqs s) (orphans s) (cps s) (in_flight s) (thr s) (thr_reached s)
     (defunct s) (closed s) (writable s) (msg_received s) (cur s) (erroring s) (ghost s) (wire s)
     (owed s) (ks_pending s) (leaked s) (spurious s) r a (log s).

Definition add_owed (s : state) := set_units (owed s + 1) (ks_pending s) (leaked s) (spurious s) s.
Definition add_leak (s : state) := set_units (owed s) (ks_pending s) (leaked s + 1) (spurious s) s.
Definition put_ghost i t (s : state) := set_ghost ((i, t) :: rmk i (ghost s)) s.
Definition del_ghost i (s : state) := set_ghost (rmk i (ghost s)) s.

Definition unit_tag (t : tag) : Z :=
  match t with THeld | TChecked | TPend | TAband => 1 | TCur | TLost | TBusy => 0 end.

(* get_request_id (caller holds the lock): popleft, else highest+1 guarded by the assert.
   The id goes to the caller (ghost THeld). *)
Definition get_id (s : state) : option Z * state :=
  match free s with
  | i :: f => (Some i, ev (EGot i) (put_ghost i THeld (set_free f (highest s) s)))
  | [] =>
    let n := highest s + 1 in
    if n <=? max_id s then (Some n, ev (EGot n) (put_ghost n THeld (set_free [] n s)))
    else (None, ev EAssert (set_bad (raced s) true s))
  end.

(* the three flag tests at the top of send_msg *)
Definition send_verdict (s : state) : Z :=      (* 0 ok, 1 shutdown, 2 busy *)
  if defunct s then 1 else if closed s then 1 else if negb (writable s) then 2 else 0.

(* self._requests[i] = cb ; push *)
Definition register (i cb : Z) (s : state) : state :=
  ev (ESent i cb) (set_wire (wire s ++ [(i, cb)]) (set_reqs ((i, cb) :: rmk i (reqs s)) (del_ghost i s))).

Fixpoint take_ids (k : nat) (s : state) : Z * state :=
  match k with
  | O => (0, s)
  | S k' => match get_id s with
            | (Some _, s') => let '(n, s'') := take_ids k' s' in (n + 1, s'')
            | (None, s') => (0, s')
            end
  end.

(* error_all_requests: the locked swap of _requests; the old entries are queued for their ConnectionShutdown callback *)
Definition err_swap (s : state) : state :=
    let order := match reqs s with [] => [] | (_, cb) :: rest => cb :: rev (map snd rest) end in
    set_erroring (erroring s ++ order)
      (set_ghost (map (fun c => (fst c, TLost)) (reqs s) ++ ghost s) (set_reqs [] s)).

Inductive op :=
| Borrow                     (* HostConnection.borrow_connection: `with conn.lock` test + in_flight++ + get_request_id *)
| WaitIds (n : Z)            (* Connection.wait_for_responses lock region *)
| SendCheck (i : Z)          (* send_msg: is_defunct / is_closed / _socket_writable tests (no lock) *)
| SendReg (i cb : Z)         (* send_msg: _requests[i] = ... ; push (no lock) *)
| IdRelease (i : Z)          (* ResponseFuture._query, `except ConnectionBusy`: `with connection.lock: request_ids.append(id)` *)
| ReturnConn                 (* return_connection first region / ResponseWaiter.got_response: in_flight -= 1 *)
| RecvBegin (i : Z)          (* process_msg: msg_received, paging-session test, orphan lock region *)
| RecvPop (i : Z) (d : dec)  (* process_msg: _requests.pop + decode + callback; KeyError -> locked append *)
| RecvDeliver                (* process_msg: callback(response) after defunct(ProtocolException) *)
| CpNew (sess : Z)           (* new_continuous_paging_session, called from inside the callback *)
| RecvEnd                    (* process_msg tail: session release test / `with lock: request_ids.append` *)
| TimeoutPop (i : Z) (pool_live : bool)  (* _on_timeout: _requests.pop (no lock) *)
| TimeoutOrphan (i : Z)      (* _on_timeout: `with conn.lock` orphan region (+ return_connection(orphaned)) *)
| DefunctFlag                (* defunct: lock region *)
| Close                      (* close(): lock region (every reactor) *)
| ErrCp                      (* error_all_cp_sessions *)
| ErrSwap                    (* error_all_requests: lock region *)
| ErrCall                    (* error_all_requests: one callback(ConnectionShutdown) *)
| HbSend (cb : Z)            (* HeartbeatFuture.__init__ lock region *)
| HbDone                     (* ConnectionHeartbeat.run: `with connection.lock: in_flight -= 1`; reset_idle *)
| HbSkipBusy                 (* run: connection.reset_idle() on a non-idle connection *)
| OwnerReturn                (* run: owner.return_connection(connection) for a dead connection: in_flight -= 1 *)
| SetKsLock                  (* set_keyspace_async: lock region *)
| SetKsGetId                 (* set_keyspace_async: get_request_id under the lock *)
| SetWritable (b : bool)     (* libev reactor only: write buffer watermark *)
| RecvPush                   (* process_msg for a server-pushed EVENT frame (stream < 0): msg_received; handle_pushed *)
| CloseRun.                  (* AsyncioConnection._close, the DEFERRED half of close(): `if not self.is_defunct: error_all_requests(...)` *)

Definition step (s : state) (o : op) : state :=
  match o with
  | Borrow =>
    if negb (thr_reached s && closed s) && (in_flight s <? max_id s)
    then let s1 := set_inf (in_flight s + 1) s in
         match get_id s1 with
         | (Some _, s2) => s2
         | (None, s2) => add_leak s2
         end
    else ev ENoConn s
  | WaitIds n =>
    (* available = min(needed, max_request_id - in_flight + 1); it is never negative in the code because
       in_flight <= max_request_id + 1 always (only this region pushes it past max_request_id) *)
    let k := Z.max 0 (Z.min n (max_id s - in_flight s + 1)) in
    let '(taken, s1) := take_ids (Z.to_nat k) s in
    if taken <? k
    then set_units (owed s1) (ks_pending s1) (leaked s1 - taken) (spurious s1) s1   (* assert fired: popped ids are lost *)
    else set_inf (in_flight s1 + k) s1
  | SendCheck i =>
    match lookup i (ghost s) with
    | Some THeld =>
      match send_verdict s with
      | 0 => put_ghost i TChecked s
      | 1 => ev (ERefused i) (add_owed (put_ghost i TLost s))
      | _ => ev (EBusy i) (add_owed (put_ghost i TBusy s))
      end
    | _ => s
    end
  | IdRelease i =>
    match lookup i (ghost s) with
    | Some TBusy => set_free (free s ++ [i]) (highest s) (del_ghost i s)
    | _ => s
    end
  | SendReg i cb =>
    match lookup i (ghost s) with
    | Some TChecked => register i cb s
    | _ => s
    end
  | ReturnConn =>
    if 0 <? owed s
    then set_units (owed s - 1) (ks_pending s) (leaked s) (spurious s) (set_inf (in_flight s - 1) s)
    else s
  | RecvBegin i =>
    match cur s with
    | Some _ => s
    | None =>
      let s0 := set_flags (defunct s) (closed s) (writable s) true s in
      match lookup i (cps s) with
      | Some _ => set_cur (Some (i, -1, PBegunCp)) s0
      | None =>
        match lookup i (wire s) with
        | None => s
        | Some r =>
          let s1 := set_wire (rmk i (wire s0)) s0 in
          let s2 := if mem i (orphans s1)
                    then put_ghost i TCur (set_orph (rm i (orphans s1)) (thr_reached s1) (set_inf (in_flight s1 - 1) s1))
                    else s1 in
          set_cur (Some (i, r, PBegun)) s2
        end
      end
    end
  | RecvPop i d =>
    match cur s with
    | Some (j, r, PBegun) =>
      if negb (i =? j) then s else
      match lookup i (reqs s) with
      | None =>
        let s1 := match lookup i (ghost s) with
                  | Some TPend => set_bad true (assert_failed s) s      (* response overtook _on_timeout's orphan region *)
                  | Some t => if unit_tag t =? 1 then add_leak (del_ghost i s) else del_ghost i s
                  | None => set_bad true (assert_failed s) s
                    (* i is an orphan again: _on_timeout overtook process_msg between its orphan test and its pop;
                       (or i is in no container at all: a response nobody asked for -- cannot happen while the
                       server only answers requests that were sent, see RecvBegin) *)
                  end in
        set_cur None (set_free (free s1 ++ [i]) (highest s1) s1)
      | Some cb =>
        let s1 := set_reqs (rmk i (reqs s)) s in
        match d with
        | DFail => set_cur None (ev (ECbExc cb) (add_owed (put_ghost i TLost s1)))
        | DProto => set_cur (Some (i, r, PHeld cb)) (put_ghost i TCur s1)
        | _ => set_cur (Some (i, r, PDelivered)) (ev (EDeliver i cb r) (add_owed (put_ghost i TCur s1)))
        end
      end
    | Some (j, r, PBegunCp) =>
      if negb (i =? j) then s else
      match lookup i (cps s) with
      | None => set_cur None s
      | Some (sess, rel) =>
        let rel' := match d with DLast => true | _ => rel end in
        set_cur (Some (i, r, PDelivered)) (ev (ECpDeliver sess) (set_cps ((i, (sess, rel')) :: rmk i (cps s)) s))
      end
    | _ => s
    end
  | RecvDeliver =>
    match cur s with
    | Some (i, r, PHeld cb) => set_cur (Some (i, r, PDelivered)) (ev (EDeliver i cb r) (add_owed s))
    | _ => s
    end
  | CpNew sess =>
    match cur s with
    | Some (i, r, PDelivered) =>
      match lookup i (cps s), lookup i (ghost s) with
      | None, Some TCur => set_cps ((i, (sess, false)) :: cps s) (del_ghost i s)
      | _, _ => s
      end
    | _ => s
    end
  | RecvEnd =>
    match cur s with
    | Some (i, r, PDelivered) =>
      match lookup i (cps s) with
      | Some (_, true) => set_cur None (set_free (free s ++ [i]) (highest s) (set_cps (rmk i (cps s)) s))
      | Some (_, false) => set_cur None s
      | None =>
        match lookup i (ghost s) with
        | Some TCur => set_cur None (set_free (free s ++ [i]) (highest s) (del_ghost i s))
        | _ => set_cur None (set_bad true (assert_failed s) (set_free (free s ++ [i]) (highest s) s))
          (* the stream being delivered always carries the TCur mark (set by RecvPop, nobody else touches it);
             this branch is unreachable and only keeps the step function total *)
        end
      end
    | _ => s
    end
  | TimeoutPop i live =>
    match lookup i (reqs s) with
    | None => ev ETimeoutKeyErr s
    | Some cb => ev (EDropped cb) (put_ghost i (if live then TPend else TAband) (set_reqs (rmk i (reqs s)) s))
    end
  | TimeoutOrphan i =>
    match lookup i (ghost s) with
    | Some TPend =>
      let o := i :: rm i (orphans s) in
      set_orph o (thr_reached s || (thr s <=? zlen o)) (del_ghost i s)
    | _ => s
    end
  | DefunctFlag =>
    if defunct s || closed s then s else set_flags true (closed s) (writable s) (msg_received s) s
  | Close =>
    if closed s then s else set_flags (defunct s) true (writable s) (msg_received s) s
  | ErrCp =>
    fold_right (fun c acc => ev (ECpError (fst (snd c))) acc)
               (set_cps (map (fun c => (fst c, (fst (snd c), true))) (cps s)) s) (cps s)
  | ErrSwap => err_swap s
  | ErrCall =>
    match erroring s with
    | [] => s
    | cb :: rest => ev (ECbShutdown cb) (add_owed (set_erroring rest s))
    end
  | HbSend cb =>
    if in_flight s <? max_id s then
      let s1 := set_inf (in_flight s + 1) s in
      match get_id s1 with
      | (None, s2) => add_leak s2
      | (Some i, s2) =>
        match send_verdict s2 with
        | 0 => register i cb s2
        | 1 => ev (ERefused i) (add_leak (put_ghost i TLost s2))
        | _ => ev (EBusy i) (add_leak (put_ghost i TLost s2))
        end
      end
    else ev EHbCap s
  | HbDone =>
    if 0 <? owed s
    then set_flags (defunct s) (closed s) (writable s) false
           (set_units (owed s - 1) (ks_pending s) (leaked s) (spurious s) (set_inf (in_flight s - 1) s))
    else s
  | HbSkipBusy => set_flags (defunct s) (closed s) (writable s) false s
  | OwnerReturn =>
    ev ENotified (set_units (owed s) (ks_pending s) (leaked s) (spurious s + 1) (set_inf (in_flight s - 1) s))
  | SetKsLock =>
    if in_flight s <? max_id s
    then set_units (owed s) (ks_pending s + 1) (leaked s) (spurious s) (set_inf (in_flight s + 1) s)
    else s
  | SetKsGetId =>
    if 0 <? ks_pending s then
      let s1 := set_units (owed s) (ks_pending s - 1) (leaked s) (spurious s) s in
      match get_id s1 with
      | (Some _, s2) => s2
      | (None, s2) => add_leak s2
      end
    else s
  | SetWritable b => set_flags (defunct s) (closed s) b (msg_received s) s
  | RecvPush => set_flags (defunct s) (closed s) (writable s) true s
  | CloseRun => if defunct s then s else err_swap s
  end.

Definition run (s : state) (ops : list op) : state := fold_left step ops s.

(* The guide's interface `step : state -> op -> state * list out`: the outputs of a step are the events it
   prepended to the log. *)
Definition step_out (s : state) (o : op) : state * list event :=
  let s' := step s o in (s', rev (firstn (length (log s') - length (log s)) (log s'))).

(* all ids the connection knows about, container by container *)
Definition all_ids (s : state) : list Z :=
  free s ++ keys (reqs s) ++ orphans s ++ keys (cps s) ++ keys (ghost s).

Fixpoint cnt (x : Z) (l : list Z) : Z :=
  match l with [] => 0 | y :: t => (if x =? y then 1 else 0) + cnt x t end.

Fixpoint unit_tags (g : list (Z * tag)) : Z :=
  match g with [] => 0 | (_, t) :: r => unit_tag t + unit_tags r end.

(* in_flight units, attributed *)
Definition cur_unit (c : option (Z * Z * phase)) : Z :=
  match c with Some (_, _, PHeld _) => 1 | _ => 0 end.
Definition units (s : state) : Z :=
  zlen (reqs s) + zlen (orphans s) + unit_tags (ghost s) + zlen (erroring s) + cur_unit (cur s)
  + owed s + ks_pending s + leaked s - spurious s.

(* the callback registered by the most recent send on stream i, reading the log newest-first *)
Fixpoint last_sent (i : Z) (l : list event) : option Z :=
  match l with
  | [] => None
  | ESent j cb :: t => if i =? j then Some cb else last_sent i t
  | _ :: t => last_sent i t
  end.

(* how often callback token cb was invoked (any way) *)
Fixpoint invoked (cb : Z) (l : list event) : Z :=
  match l with
  | [] => 0
  | EDeliver _ c _ :: t | ECbExc c :: t | ECbShutdown c :: t => (if cb =? c then 1 else 0) + invoked cb t
  | _ :: t => invoked cb t
  end.
Fixpoint shutdowns (cb : Z) (l : list event) : Z :=
  match l with
  | [] => 0
  | ECbShutdown c :: t => (if cb =? c then 1 else 0) + shutdowns cb t
  | _ :: t => shutdowns cb t
  end.
Fixpoint sent_count (cb : Z) (l : list event) : Z :=
  match l with
  | [] => 0
  | ESent _ c :: t => (if cb =? c then 1 else 0) + sent_count cb t
  | _ :: t => sent_count cb t
  end.
Fixpoint dropped (cb : Z) (l : list event) : Z :=
  match l with
  | [] => 0
  | EDropped c :: t => (if cb =? c then 1 else 0) + dropped cb t
  | _ :: t => dropped cb t
  end.

(* ops that cannot happen on a healthy connection without paging sessions / libev back-pressure /
   wait_for_responses; used as hypothesis of the quiescence and assert theorems *)
Definition benign (o : op) : bool :=
  match o with
  | WaitIds _ | RecvPop _ DFail | RecvPop _ DProto | RecvDeliver | CpNew _ | TimeoutPop _ false
  | DefunctFlag | Close | ErrCp | ErrSwap | ErrCall | OwnerReturn | SetWritable _ | CloseRun => false
  | _ => true
  end.

(* the send ops carry callback tokens: fresh tokens = each token used by at most one SendReg/HbSend *)
Fixpoint tokens (ops : list op) : list Z :=
  match ops with
  | [] => []
  | SendReg _ cb :: t | HbSend cb :: t => cb :: tokens t
  | _ :: t => tokens t
  end.

(* ---- printing helpers for the correspondence harness (canonical observable state) ---- *)
Fixpoint insert_sorted (x : Z) (l : list Z) : list Z :=
  match l with [] => [x] | y :: t => if x <=? y then x :: l else y :: insert_sorted x t end.
Definition sort (l : list Z) : list Z := fold_right insert_sorted [] l.
Fixpoint list_eqb (a b : list Z) : bool :=
  match a, b with
  | [], [] => true
  | x :: a', y :: b' => (x =? y) && list_eqb a' b'
  | _, _ => false
  end.

(* observable: request_ids (order), highest, sorted _requests keys, sorted orphans, in_flight,
   thr_reached, defunct, closed, msg_received, sorted session streams *)
Definition obs (s : state) : list Z * Z * list Z * list Z * Z * (bool * bool * bool * bool) * list Z :=
  (free s, highest s, sort (keys (reqs s)), sort (orphans s), in_flight s,
   (thr_reached s, defunct s, closed s, msg_received s), sort (keys (cps s))).

Definition obs_eqb (s : state) (f : list Z) (h : Z) (rq orp : list Z) (inf : Z) (t d c m : bool) (cp : list Z) : bool :=
  list_eqb (free s) f && (highest s =? h) && list_eqb (sort (keys (reqs s))) rq
  && list_eqb (sort (orphans s)) orp && (in_flight s =? inf)
  && Bool.eqb (thr_reached s) t && Bool.eqb (defunct s) d && Bool.eqb (closed s) c && Bool.eqb (msg_received s) m
  && list_eqb (sort (keys (cps s))) cp.

(* callback-invocation events of the log, oldest first, as (kind, a, b): 1 deliver(i,cb) 2 exc(cb) 3 shutdown(cb)
   4 cp page(sess) 5 cp error(sess) 6 refused(i) 7 busy(i) 8 got(i) 9 noconn 10 assert 11 hbcap 12 notified 13 keyerr *)
Definition ev_code (e : event) : list Z :=
  match e with
  | EGot i => [8; i] | ENoConn => [9] | EAssert => [10] | ESent i cb => [0; i; cb]
  | ERefused i => [6; i] | EBusy i => [7; i] | EDeliver i cb _ => [1; i; cb] | ECbExc cb => [2; cb]
  | ECbShutdown cb => [3; cb] | EDropped cb => [14; cb] | ETimeoutKeyErr => [13]
  | ECpDeliver se => [4; se] | ECpError se => [5; se] | EHbCap => [11] | ENotified => [12]
  end.
Definition log_codes (s : state) : list (list Z) := rev (map ev_code (log s)).
Fixpoint codes_eqb (a b : list (list Z)) : bool :=
  match a, b with
  | [], [] => true
  | x :: a', y :: b' => list_eqb x y && codes_eqb a' b'
  | _, _ => false
  end.

(* one correspondence check point: after running `ops` from `s0`, the observable state equals the recorded one *)
Fixpoint check_points (s : state) (pts : list (list op * (state -> bool))) : bool :=
  match pts with
  | [] => true
  | (ops, chk) :: rest => let s' := run s ops in chk s' && check_points s' rest
  end.

(* first-order encoding of a check point (fast to elaborate): ops, (free, highest, reqs, orphans, in_flight),
   (thr_reached, defunct, closed, msg_received), session streams, number of events so far, the NEW events *)
Definition point := (list op * (list Z * Z * list Z * list Z * Z) * (bool * bool * bool * bool) * list Z * list (list Z))%type.
Fixpoint check_pts (s : state) (seen : list (list Z)) (pts : list point) : bool :=
  match pts with
  | [] => true
  | (ops, (f, h, rq, orp, inf), (t, d, c, m), cp, newev) :: rest =>
    let s' := run s ops in
    let seen' := seen ++ newev in
    obs_eqb s' f h rq orp inf t d c m cp && codes_eqb (log_codes s') seen' && check_pts s' seen' rest
  end.

Definition mkpt (ops : list op) (f : list Z) (h : Z) (rq orp : list Z) (inf : Z) (t d c m : bool) (cp : list Z)
  (newev : list (list Z)) : point := (ops, (f, h, rq, orp, inf), (t, d, c, m), cp, newev).
