(* Little-endian word reading shared by the murmur3 models. Bytes are Z in 0..255. *)
From Coq Require Import ZArith List.
Import ListNotations.
Local Open Scope Z_scope.

(* unsigned little-endian value of a byte list *)
Fixpoint le_u (bs : list Z) : Z :=
  match bs with
  | [] => 0
  | b :: r => b + 256 * le_u r
  end.

(* the first n 8-byte little-endian words of data (unsigned) *)
Fixpoint words (n : nat) (data : list Z) : list Z :=
  match n with
  | O => []
  | S k => le_u (firstn 8 data) :: words k (skipn 8 data)
  end.

Definition sext8 (b : Z) : Z := if b <? 128 then b else b - 256.
Definition sext64 (w : Z) : Z := if w <? 2 ^ 63 then w else w - 2 ^ 64.

Definition is_byte (b : Z) : Prop := 0 <= b < 256.
