(* C41 -- protocol version negotiation only steps down and terminates.
   get_lower_supported, the version tables and Cluster.protocol_downgrade are regenerated from source
   (Gen/ProtoVersion.v, Gen/ProtoConsts.v); the connect loop is Model/Negotiation.v (tied by correspondence). *)
From Coq Require Import ZArith List Bool.
From Verif Require Import PyBase ProtoConsts ProtoVersion Negotiation C41_proofs.
Import ListNotations.
Local Open Scope Z_scope.

(* the version chosen after a rejection is the greatest non-beta supported version strictly below the
   rejected one, or 0 when there is none -- for every integer, not just the supported versions *)
Theorem C41_lower : forall v,
  (get_lower_supported v = 0 /\ forall u, non_beta_supported u = true -> u < v -> False) \/
  is_next_lower v (get_lower_supported v).
Proof. exact lower_spec. Qed.
Print Assumptions C41_lower.

(* an explicitly configured version is never downgraded *)
Theorem C41_explicit_never_downgraded : forall pv cur, protocol_downgrade pv true cur = Raise.
Proof. exact downgrade_explicit. Qed.
Print Assumptions C41_explicit_never_downgraded.

(* a downgrade never steps up and never lands on a beta or unsupported version; below the minimum it raises *)
Theorem C41_never_up : forall pv cur r, protocol_downgrade pv false cur = r ->
  (exists pv', r = Ok (tt, pv') /\ pv' = get_lower_supported pv /\ is_next_lower pv pv') \/
  (r = Raise /\ forall u, non_beta_supported u = true -> u < pv -> False).
Proof. exact downgrade_spec. Qed.
Print Assumptions C41_never_up.

(* for EVERY server behaviour and EVERY starting version the connect loop terminates within
   |SUPPORTED_VERSIONS| + 2 iterations; the versions tried start at the configured one and form the descending
   non-beta chain; with an explicit version exactly one attempt is made; it ends connected at a version the
   server accepted, or with an error after a version the server did not accept *)
Theorem C41_terminates : forall server explicit pv tr o,
  try_connect enough_fuel server explicit pv = (tr, o) ->
  o <> OutOfFuel /\
  hd_error tr = Some pv /\
  chain tr /\
  (forall v, In v tr -> v <= pv) /\
  (explicit = true -> tr = [pv]) /\
  (forall v, o = Connected v -> server v = Accept /\ last tr pv = v) /\
  (o = Failed -> server (last tr pv) <> Accept).
Proof.
  intros server explicit pv tr o. apply try_connect_spec.
  unfold enough_fuel. pose proof (below_le_length pv). apply le_n_S. apply le_S. assumption.
Qed.
Print Assumptions C41_terminates.

Example C41_nonvacuous :
  try_connect enough_fuel (fun v => if v <=? 3 then Accept else if v =? 6 then BetaError else Unsupported) false 66
  = ([66; 65; 5; 4; 3], Connected 3) /\
  try_connect enough_fuel (fun _ => Unsupported) false 5 = ([5; 4; 3; 2; 1], Failed) /\
  try_connect enough_fuel (fun _ => Unsupported) true 4 = ([4], Failed).
Proof. repeat split; reflexivity. Qed.
