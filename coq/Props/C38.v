(* C38 -- cqlengine routing keys equal the partition key Cassandra hashes.
   Model/CompositeMapper.v: the metaclass loop (REPAIRED: an overriding column no longer consumes a partition-key
   index), partition_key_values, _execute_statement, Statement._set_routing_key; composite_spec from CompositeSpec.v.
   T = column types, V = values, ser = cql_type.to_binary: all abstract. *)
From Coq Require Import ZArith List Bool.
From Verif Require Import CompositeSpec CompositeMapper C38_proofs.
Import ListNotations.
Local Open Scope Z_scope.

(* For EVERY list of column definitions (inherited first, then the class's own; overriding and db_field renames included):
   the partition-key indexes are 0,1,2,.. in partition-key order -- the order CREATE TABLE uses. *)
Theorem C38_index_dense : forall T (defs : list (cdef T)),
  let pks := partition_keys T (run_meta_with T (process_def T) defs) in
  map (p_pidx T) pks = seq 0 (length pks).
Proof. exact index_dense. Qed.
Print Assumptions C38_index_dense.

(* Whole partition key fixed by equality clauses / assignments with non-null values (the LAST one per column counts)
   ==> the routing key handed to the session is Cassandra's encoding of the serialized key values in table order. *)
Theorem C38_routing : forall T V (ser : T -> V -> option (list Z)) defs wheres assigns vs bs,
  let s := run_meta_with T (process_def T) defs in
  let pks := partition_keys T s in
  let cs := filter (c_eq V) wheres ++ assigns in
  pks <> [] -> NoDup (map (p_dbf T) pks) ->
  Forall2 (fun c v => bound_value V cs (p_dbf T c) = Some v) pks vs ->
  Forall2 (fun tv b => ser (fst tv) (snd tv) = Some b) (combine (map (p_type T) pks) vs) bs ->
  forallb component_ok bs = true \/ length pks = 1%nat ->
  execute T V ser s wheres assigns = RBytes (composite_spec bs).
Proof. exact routing. Qed.
Print Assumptions C38_routing.

(* the loop as it was before the fix: a subclass that overrides an inherited partition key column and then adds a
   partition key column gets indexes {0,1,3} for three columns, and every statement on the model raises IndexError *)
Theorem C38_gap_refuted :
  let defs := [c38_def 1 1 true false; c38_def 2 2 true false; c38_def 1 1 true false; c38_def 3 3 true false] in
  let s := run_meta_with unit (process_def_gap unit) defs in
  map (p_pidx unit) (partition_keys unit s) = [0; 1; 3]%nat /\
  execute unit (list Z) c38_ser s [mkclause 1 true (Some [1]); mkclause 2 true (Some [2]); mkclause 3 true (Some [3])] [] = RErr.
Proof. vm_compute. split; reflexivity. Qed.
Print Assumptions C38_gap_refuted.

(* non-vacuity: inherited (a, b) + own override of a + new partition key c renamed in the database; an INSERT *)
Example C38_nonvacuous :
  c38_run [c38_def 1 1 true false; c38_def 2 2 true false; c38_def 1 1 true false; c38_def 3 30 true false; c38_def 4 4 false false]
          [] [mkclause 1 true (Some [0; 0; 0; 1]); mkclause 2 true (Some [120]); mkclause 30 true (Some [9; 9]); mkclause 4 true (Some [5])]
  = ([(1, 0%nat); (2, 1%nat); (30, 2%nat)], RBytes (composite_spec [[0; 0; 0; 1]; [120]; [9; 9]])).
Proof. vm_compute. reflexivity. Qed.
