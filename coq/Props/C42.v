(* C42 -- node-list refreshes make cluster metadata mirror the system tables.
   Model: Model/NodeList.v (hand-written; tied to cassandra/cluster.py + metadata.py by the correspondence in checks/C42.py).
   `refresh c f st sn` = ControlConnection._refresh_node_list_and_token_map(force_token_rebuild=f) on metadata state st with
   snapshot sn (system.local row option + ANY list of peers rows).  `Inv c st`: the control node is known, endpoints distinct.
   "Any sequence of snapshots": Inv holds after every sequence (C42_inv_seq), and every per-refresh theorem below needs only Inv,
   so it holds for the refresh that follows any sequence (C42_exact_seq spells this out for exactness). *)
From Coq Require Import ZArith List Bool Lia.
From Verif Require Import NodeList C42_proofs.
Import ListNotations.
Local Open Scope Z_scope.

(* hosts after a refresh = the control node + every valid row's endpoint (rows that fail _is_valid_peer contribute nothing;
   duplicates contribute one host); each endpoint once *)
Theorem C42_exact : forall c f st sn, Inv c st ->
  NoDup (keys (st_hosts (fst (refresh c f st sn)))) /\
  forall e, In e (keys (st_hosts (fst (refresh c f st sn)))) <-> e = control c \/ row_for c (sn_peers sn) e.
Proof.
  intros c f st sn [Hn Hc]. rewrite refresh_hosts. split; [apply after_NoDup; exact Hn|apply exact_hosts; exact Hc].
Qed.
Print Assumptions C42_exact.

Theorem C42_inv_seq : forall c st steps, Inv c st -> Inv c (final c st steps).
Proof. intros c st steps. apply Inv_final. Qed.
Print Assumptions C42_inv_seq.

Theorem C42_exact_seq : forall c st steps f sn, Inv c st ->
  forall e, In e (keys (st_hosts (fst (refresh c f (final c st steps) sn)))) <-> e = control c \/ row_for c (sn_peers sn) e.
Proof. intros c st steps f sn H. apply C42_exact. apply Inv_final. exact H. Qed.
Print Assumptions C42_exact_seq.

(* validity is exactly: an address (native/rpc address, else peer), host id, datacenter, rack, and tokens when fetched *)
Theorem C42_valid_spec : forall c r, valid c r = true <->
  rpc_address r <> None /\ r_host_id r <> None /\ r_dc r <> None /\ r_rack r <> None /\
  (token_meta c = true -> exists t ts, r_tokens r = Some (t :: ts)).
Proof. exact valid_spec. Qed.
Print Assumptions C42_valid_spec.

(* newly seen hosts are announced exactly once to listeners and to the policy; nobody else is *)
Theorem C42_added_once : forall c f st sn,
  listener_adds (snd (refresh c f st sn)) = policy_adds (snd (refresh c f st sn)) /\
  NoDup (listener_adds (snd (refresh c f st sn))) /\
  forall e, In e (listener_adds (snd (refresh c f st sn))) <->
            ~ In e (keys (st_hosts st)) /\ In e (keys (st_hosts (fst (refresh c f st sn)))).
Proof.
  intros c f st sn. pose proof (refresh_proj4 c f st sn) as H. unfold proj4 in H. injection H as H1 H2 _ _.
  rewrite H1, H2, refresh_hosts. split; [reflexivity|]. split; [apply new_NoDup|apply In_new_iff].
Qed.
Print Assumptions C42_added_once.

(* vanished hosts are removed exactly once *)
Theorem C42_removed_once : forall c f st sn, Inv c st ->
  listener_removes (snd (refresh c f st sn)) = policy_removes (snd (refresh c f st sn)) /\
  NoDup (listener_removes (snd (refresh c f st sn))) /\
  forall e, In e (listener_removes (snd (refresh c f st sn))) <->
            In e (keys (st_hosts st)) /\ ~ In e (keys (st_hosts (fst (refresh c f st sn)))).
Proof.
  intros c f st sn [Hn _]. pose proof (refresh_proj4 c f st sn) as H. unfold proj4 in H. injection H as _ _ H3 H4.
  rewrite H3, H4, refresh_hosts. split; [reflexivity|]. split; [apply gone_NoDup; exact Hn|apply In_gone_iff].
Qed.
Print Assumptions C42_removed_once.

(* a host known before and after whose datacenter / rack differ: the policy saw on_down at the old place immediately
   followed by on_up at the new place *)
Theorem C42_location_reaches_lbp : forall c f st sn e h h',
  find e (st_hosts st) = Some h -> find e (st_hosts (fst (refresh c f st sn))) = Some h' ->
  same_location h (h_dc h') (h_rack h') = false ->
  exists a b, snd (refresh c f st sn) = a ++ [ELbpDown e (h_dc h) (h_rack h); ELbpUp e (h_dc h') (h_rack h')] ++ b.
Proof. intros c f st sn e h h' H1 H2. exact (location_reaches_policy c f st sn e h h' H1 H2). Qed.
Print Assumptions C42_location_reaches_lbp.

(* rebuild_token_map is called (once, last, with the snapshot's assignment) exactly when system.local names a partitioner and:
   forced, or never built, or a new host / a moved known peer among the accepted rows, or a host vanished *)
Theorem C42_token_rebuild_iff_changed : forall c f st sn,
  snd (refresh c f st sn) = notifications c st sn ++ (if rebuilt c f st sn then [ERebuild (snapshot_tokens c st sn)] else []) /\
  (rebuilt c f st sn = true <->
   lr_part (local_part c st sn) = true /\
   (f = true \/ st_partitioner st = false \/
    (exists er, In er (accepted c st sn) /\ row_triggers (lr_hosts (local_part c st sn)) er) \/
    (exists e, In e (keys (st_hosts st)) /\ ~ In e (keys (hosts_after c st sn))))).
Proof. intros c f st sn. split; [apply refresh_events|apply rebuilt_iff]. Qed.
Print Assumptions C42_token_rebuild_iff_changed.

(* membership changed -> rebuilt, and the new token map is the snapshot's *)
Theorem C42_membership_change_rebuilds : forall c f st sn e, lr_part (local_part c st sn) = true ->
  (In e (keys (st_hosts st)) /\ ~ In e (keys (st_hosts (fst (refresh c f st sn))))) \/
  (~ In e (keys (st_hosts st)) /\ In e (keys (st_hosts (fst (refresh c f st sn))))) ->
  rebuilt c f st sn = true /\ st_tokens (fst (refresh c f st sn)) = Some (snapshot_tokens c st sn).
Proof.
  intros c f st sn e Hp H. rewrite refresh_hosts in H.
  pose proof (membership_change_rebuilds c f st sn e Hp H) as Hr. split; [exact Hr|]. rewrite refresh_tokens, Hr. reflexivity.
Qed.
Print Assumptions C42_membership_change_rebuilds.

(* ---- the same refresh on a LIVE control connection: removing a host makes ControlConnection.on_remove run a nested, forced
   refresh inside the removal loop (refresh_live; recursion budget live_fuel is proved sufficient: no EOutOfFuel).
   The hosts are the same as without nesting, and however many hosts vanish at once each is announced removed exactly once *)
Theorem C42_live_exact : forall c f st sn, Inv c st ->
  NoDup (keys (st_hosts (fst (refresh_live (live_fuel c st sn) c f st sn)))) /\
  forall e, In e (keys (st_hosts (fst (refresh_live (live_fuel c st sn) c f st sn)))) <-> e = control c \/ row_for c (sn_peers sn) e.
Proof.
  intros c f st sn [Hn Hc]. rewrite (live_hosts c f st sn Hn). split; [apply after_NoDup; exact Hn|apply exact_hosts; exact Hc].
Qed.
Print Assumptions C42_live_exact.

Theorem C42_live_removed_once : forall c f st sn, Inv c st ->
  let r := refresh_live (live_fuel c st sn) c f st sn in
  policy_removes (snd r) = listener_removes (snd r) /\ NoDup (listener_removes (snd r)) /\
  (forall e, In e (listener_removes (snd r)) <-> In e (keys (st_hosts st)) /\ ~ In e (keys (st_hosts (fst r)))) /\
  nofuel (snd r).
Proof. intros c f st sn [Hn _]. apply live_removed_once. exact Hn. Qed.
Print Assumptions C42_live_removed_once.

(* non-vacuity: three hosts vanish in one refresh on a live control connection: 3 removals, each once, 4 rebuilds (3 nested) *)
Example C42_nonvacuous_live :
  let st := Build_state [((100, 9042), Hs (Some 1) (Some 1) (Some 100)); ((1, 9042), Hs (Some 1) (Some 1) (Some 1));
                         ((2, 9042), Hs (Some 1) (Some 1) (Some 2)); ((3, 9042), Hs (Some 1) (Some 1) (Some 3))] true (Some []) in
  let sn := Build_snapshot (Some (Lr (Some 1) (Some 1) (Some 100) true (Some [1000]))) [] in
  let r := refresh_live (live_fuel (Build_config (100, 9042) true 9042) st sn) (Build_config (100, 9042) true 9042) false st sn in
  listener_removes (snd r) = [(1, 9042); (2, 9042); (3, 9042)] /\
  length (filter (fun x => match x with ERebuild _ => true | _ => false end) (snd r)) = 4%nat /\
  keys (st_hosts (fst r)) = [(100, 9042)].
Proof. vm_compute. repeat split. Qed.

(* FULL statement of the token clause: after a refresh whose system.local names a partitioner, the token map is the one the
   snapshot describes ("rebuilt whenever membership or tokens changed").  The code never compares tokens: refuted. *)
Definition C42_tokens_mirror_full_statement : Prop := forall c f st sn, Inv c st -> lr_part (local_part c st sn) = true ->
  st_tokens (fst (refresh c f st sn)) = Some (snapshot_tokens c st sn).

Definition wit_cfg := Build_config (100, 9042) true 9042.
Definition wit_st := Build_state [((100, 9042), Hs (Some 1) (Some 1) (Some 100)); ((1, 9042), Hs (Some 1) (Some 1) (Some 1))]
                                 true (Some [((1, 9042), [10])]).
Definition wit_sn := Build_snapshot (Some (Lr (Some 1) (Some 1) (Some 100) true None))
                                    [Rw (Some 1) (Some 1) (Some 9042) (Some 1) (Some 1) (Some 1) (Some [11])].

Theorem C42_tokens_mirror_refuted : ~ C42_tokens_mirror_full_statement.
Proof.
  intros H. specialize (H wit_cfg false wit_st wit_sn).
  assert (Hi : Inv wit_cfg wit_st).
  { split; simpl.
    - constructor; [intros [H1|[]]; discriminate H1|]. constructor; [intros []|constructor].
    - left. reflexivity. }
  specialize (H Hi eq_refl). vm_compute in H. discriminate H.
Qed.
Print Assumptions C42_tokens_mirror_refuted.

(* PARTIAL: it holds unless ONLY tokens changed: i.e. when the tokens are unchanged, or the rebuild is forced, or the map was
   never built, or membership changed *)
Theorem C42_tokens_mirror_partial : forall c f st sn, lr_part (local_part c st sn) = true ->
  st_tokens st = Some (snapshot_tokens c st sn) \/ f = true \/ st_partitioner st = false \/
  (exists e, (In e (keys (st_hosts st)) /\ ~ In e (keys (hosts_after c st sn))) \/
             (~ In e (keys (st_hosts st)) /\ In e (keys (hosts_after c st sn)))) ->
  st_tokens (fst (refresh c f st sn)) = Some (snapshot_tokens c st sn).
Proof. exact tokens_mirror_partial. Qed.
Print Assumptions C42_tokens_mirror_partial.

(* non-vacuity: one refresh with a new host, a vanished host, a moved host, an invalid row, a duplicate row *)
Definition ex_cfg := Build_config (100, 9042) true 9042.
Definition ex_st := Build_state [((100, 9042), Hs (Some 1) (Some 1) (Some 100)); ((1, 9042), Hs (Some 1) (Some 1) (Some 1));
                                 ((6, 9042), Hs (Some 1) (Some 1) (Some 6))] true (Some []).
Definition ex_sn := Build_snapshot (Some (Lr (Some 1) (Some 1) (Some 100) true (Some [1000])))
  [ Rw (Some 1) (Some 0) (Some 9042) (Some 1) (Some 2) (Some 1) (Some [10]);      (* bind-all address -> peer; dc moved *)
    Rw (Some 2) (Some 2) (Some 9042) (Some 2) (Some 1) (Some 1) (Some [20]);      (* new host *)
    Rw (Some 3) (Some 3) (Some 9042) None (Some 1) (Some 1) (Some [30]);          (* no host id: ignored *)
    Rw (Some 2) (Some 2) (Some 9042) (Some 77) (Some 3) (Some 3) (Some [777]) ].  (* duplicate endpoint: ignored *)
Example C42_nonvacuous : Inv ex_cfg ex_st /\
  refresh ex_cfg false ex_st ex_sn =
  ({| st_hosts := [((100, 9042), Hs (Some 1) (Some 1) (Some 100)); ((1, 9042), Hs (Some 2) (Some 1) (Some 1));
                   ((2, 9042), Hs (Some 1) (Some 1) (Some 2))];
      st_partitioner := true;
      st_tokens := Some [((100, 9042), [1000]); ((1, 9042), [10]); ((2, 9042), [20])] |},
   [ELbpDown (1, 9042) (Some 1) (Some 1); ELbpUp (1, 9042) (Some 2) (Some 1);
    ELbpAdd (2, 9042) (Some 1) (Some 1); EListenerAdd (2, 9042) (Some 1) (Some 1);
    ELbpRemove (6, 9042); EListenerRemove (6, 9042);
    ERebuild [((100, 9042), [1000]); ((1, 9042), [10]); ((2, 9042), [20])]]).
Proof.
  split; [|reflexivity]. split; simpl.
  - repeat constructor; simpl; intuition discriminate.
  - left. reflexivity.
Qed.
