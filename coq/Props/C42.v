(* C42 placeholder while the correspondence is brought up *)
From Coq Require Import ZArith List Bool.
From Verif Require Import NodeList.
Import ListNotations.
Theorem C42_placeholder : forall e, ep_eqb e e = true.
Proof. intros [a p]. unfold ep_eqb. simpl. rewrite !Z.eqb_refl. reflexivity. Qed.
Print Assumptions C42_placeholder.
