(* C25 -- host state changes keep a single reconnector and notify listeners once.
   Model: Model/HostState.v (tied to cassandra/cluster.py + pool.py by per-step correspondence, checks/C25.py).
   All theorems quantify over every initial configuration (any number of hosts and sessions, finite or infinite
   reconnection schedule) and every event history of any length. *)
From Coq Require Import ZArith List Bool Arith.
From Verif Require Import HostState C25_proofs C25_notify_proofs.
Import ListNotations.

Definition note_eqb (a b : note) : bool :=
  match a, b with
  | NL k h, NL k' h' => (k =? k') && (h =? h') | NP k h, NP k' h' => (k =? k') && (h =? h')
  | NAttempt h, NAttempt h' => h =? h' | _, _ => false end.
Fixpoint notes_eqb (a b : list note) : bool :=
  match a, b with [], [] => true | x :: a', y :: b' => note_eqb x y && notes_eqb a' b' | _, _ => false end.
Definition step_out_is (r : st * list note) (l : list note) : bool := notes_eqb (snd r) l.

(* A live reconnector = not cancelled and pending (timer scheduled, or its connection attempt in flight).  At all times a host has at most one, and it is the one
   registered on the host (Host._reconnection_handler). *)
Theorem C25_single_reconnector : forall kinds ns sc es r1 r2,
  let s := run (init kinds ns sc) es in
  live s r1 -> live s r2 -> rhost (recs s r1) = rhost (recs s r2) ->
  r1 = r2 /\ reg (hosts s (rhost (recs s r1))) = Some r1.
Proof.
  intros kinds ns sc es r1 r2 s L1 L2 Hh. pose proof (J_run es _ (J_init kinds ns sc)) as HJ. fold s in HJ.
  split; [eapply at_most_one_live; eauto | apply live_is_registered; auto].
Qed.
Print Assumptions C25_single_reconnector.

(* A removed host has no registered and no live reconnector, _start_reconnector is a no-op for it (so it never gets one
   again), a stale timer of one of its old reconnectors does nothing when it fires (no connection attempt), and a
   connection attempt that was in flight when the host was removed does nothing when it succeeds (no on_up / on_add). *)
Theorem C25_removed_never_reconnected : forall kinds ns sc es h,
  let s := run (init kinds ns sc) es in
  present (hosts s h) = 2 ->
  reg (hosts s h) = None /\
  (forall r, live s r -> rhost (recs s r) <> h) /\
  (forall a, start_reconnector s h a = s) /\
  (forall k r o, nth_error (timers s) k = Some r -> rhost (recs s r) = h ->
                 step s (EReconnect k o) = (set_timers (set_out s []) (remove_nth k (timers s)), [])) /\
  (forall j r, nth_error (probes s) j = Some r -> rhost (recs s r) = h ->
               step s (EProbeFinish j OOk) = (set_probes (set_out s []) (remove_nth j (probes s)), [])).
Proof.
  intros kinds ns sc es h s Hp. pose proof (J_run es _ (J_init kinds ns sc)) as HJ. fold s in HJ.
  destruct (removed_no_reconnector s h HJ Hp) as [H1 H2].
  assert (HJ' : J (set_out s [])) by (eapply J_frame; [| exact HJ]; repeat split; auto).
  split; [exact H1 | split; [exact H2 | split; [|split]]].
  - intros a. apply removed_start_noop; auto.
  - intros k r o Hk Hh. unfold step.
    rewrite (removed_fire_noop (set_out s []) k r o HJ' Hk); [reflexivity | simpl; rewrite Hh; exact Hp].
  - intros j r Hj Hh. unfold step.
    rewrite (removed_probe_finish_noop (set_out s []) j r HJ' Hj); [reflexivity | simpl; rewrite Hh; exact Hp].
Qed.
Print Assumptions C25_removed_never_reconnected.

(* Any step, from ANY state (reachable or not), that takes a host from "not up" (down or unknown) to "up" -- a successful
   reconnection with no pool to create, the completion of the pool futures of on_up, or of on_add -- emits exactly one
   listener notification (on_up or on_add) for that host.  lc h = number of NL 0 h / NL 2 h notes. *)
Theorem C25_up_once_per_transition : forall s e h,
  up (hosts s h) <> 1 -> up (hosts (fst (step s e)) h) = 1 -> lc h (snd (step s e)) = 1.
Proof. exact marked_up_notified_once. Qed.
Print Assumptions C25_up_once_per_transition.

Example C25_nonvacuous_up : let s := run (init [1] 0 None) [EFail 0; ERun 0 OOk] in
  up (hosts s 0) = 0 /\ step_out_is (step s (EReconnect 0 OOk)) [NAttempt 0; NP 0 0; NL 0 0] = true
  /\ up (hosts (fst (step s (EReconnect 0 OOk))) 0) = 1.
Proof. vm_compute. repeat split; auto. Qed.

(* ---- "exactly one while the host is down" and "a host marked up has pools": full statements, refuted by witnesses that
   replay on the driver (open findings C25-3 / C25-4, see docs/C25.md) ---- *)
Definition quiescent (s : st) : bool := match queue s with [] => true | _ => false end.
Definition noauth (es : list ev) : bool := forallb (fun e => match e with ERun _ OAuth => false | _ => true end) es.
Definition down_ok (s : st) (h : nat) : bool :=
  let x := hosts s h in
  if (present x =? 1) && (up x =? 0) && negb (ignd s h) then
    match reg x with
    | Some r => negb (rcanc (recs s r)) && (existsb (Nat.eqb r) (timers s) || rstop (recs s r))
    | None => false
    end
  else true.
Definition up_ok (s : st) (h : nat) : bool :=
  let x := hosts s h in
  if (present x =? 1) && (up x =? 1) && negb (ignd s h) then forallb (fun sid => negb (poolsd s h sid =? 0)) (sessions s) else true.

Definition C25_down_has_reconnector_full : Prop := forall kinds ns sc es h,
  let s := run (init kinds ns sc) es in noauth es = true -> quiescent s = true -> down_ok s h = true.
Definition C25_up_has_pools_full : Prop := forall kinds ns sc es h,
  let s := run (init kinds ns sc) es in quiescent s = true -> up_ok s h = true.

(* new host, two sessions: one pool is created, the other fails; the resulting on_down is ignored because a pool is open
   (_discount_down_events) and the host stays "unknown"; a later real failure marks it down without any reconnector *)
Definition w_down : list ev :=
  [EAdd 0; ERun 1 OOk; ERun 0 OFail; ERun 0 OOk; EStatusDown 0; EFail 0; ERun 1 OOk; ERun 0 OOk].
Theorem C25_down_has_reconnector_refuted : ~ C25_down_has_reconnector_full.
Proof. intros H. specialize (H [0] 2 None w_down 0 eq_refl eq_refl). vm_compute in H. discriminate. Qed.
Print Assumptions C25_down_has_reconnector_refuted.

(* on_up handling (status event) overlapping on_add handling of the same new host: on_add marks the host up, then the
   failed on_up handling removes every pool; the host stays up without pools *)
Definition w_up : list ev :=
  [EAdd 0; EStatusUp 0; ERun 0 OOk; ERun 0 OOk; ERun 0 OFail; ERun 1 OOk; ERun 0 OOk; ERun 0 OOk; ERun 0 OOk].
Theorem C25_up_has_pools_refuted : ~ C25_up_has_pools_full.
Proof. intros H. specialize (H [0] 2 None w_up 0 eq_refl). vm_compute in H. discriminate. Qed.
Print Assumptions C25_up_has_pools_refuted.

(* "... until it is marked up": whenever on_up goes ahead for a host -- whatever the policy says about its distance at that
   moment (the distance may have changed since the host went down) -- the host's reconnector is detached and cancelled *)
Theorem C25_up_clears_reconnector : forall s h, handling (hosts s h) = false -> up (hosts s h) <> 1 ->
  reg (hosts (on_up s h) h) = None /\ (forall r, reg (hosts s h) = Some r -> rcanc (recs (on_up s h) r) = true).
Proof. exact on_up_clears. Qed.
Print Assumptions C25_up_clears_reconnector.

(* the global form "a host marked up has no live reconnector" is refuted by the same overlapping on_add / on_up history
   (open finding C25-4): there the host is marked up by on_add while the failed on_up handling starts a reconnector *)
Definition no_reconnector_when_up (s : st) (h : nat) : bool :=
  let x := hosts s h in
  if (present x =? 1) && (up x =? 1) then
    match reg x with Some r => rcanc (recs s r) || negb (existsb (Nat.eqb r) (timers s ++ probes s)) | None => true end
  else true.
Definition C25_up_no_reconnector_full : Prop := forall kinds ns sc es h,
  let s := run (init kinds ns sc) es in no_reconnector_when_up s h = true.
Theorem C25_up_no_reconnector_refuted : ~ C25_up_no_reconnector_full.
Proof. intros H. specialize (H [0] 2 None w_up 0). vm_compute in H. discriminate. Qed.
Print Assumptions C25_up_no_reconnector_refuted.

(* hypotheses are satisfiable: a failed host with its single live reconnector; a removed host *)
Example C25_nonvacuous_live : let s := run (init [1; 1] 2 None) [EFail 0; ERun 0 OOk] in
  live s 0 /\ rhost (recs s 0) = 0 /\ up (hosts s 0) = 0 /\ down_ok s 0 = true.
Proof. vm_compute. repeat split; auto. Qed.
Example C25_nonvacuous_inflight : let s := run (init [1] 1 None) [EFail 0; ERun 0 OOk; EProbeStart 0; ERemove 0] in
  present (hosts s 0) = 2 /\ probes s = [0] /\ up (hosts (fst (step s (EProbeFinish 0 OOk))) 0) = 0.
Proof. vm_compute. repeat split; auto. Qed.
Example C25_nonvacuous_removed : let s := run (init [1; 1] 1 (Some 2)) [EFail 1; ERun 0 OOk; ERemove 1] in
  present (hosts s 1) = 2 /\ timers s = [0] /\ rcanc (recs s 0) = true.
Proof. vm_compute. repeat split; auto. Qed.
(* a replacement node under the address of a removed one is a different object: late work for the removed object starts no
   reconnector (object 0 removed, object 1 = same endpoint added, the old object's pool creation fails afterwards) *)
Example C25_nonvacuous_replacement :
  let s := run (init [1] 1 None) [EFail 0; ERun 0 OOk; EStatusUp 0; ERemove 0; EAdd 1; ERun 1 OFail; ERun 2 OOk] in
  present (hosts s 0) = 2 /\ present (hosts s 1) = 1 /\ reg (hosts s 0) = None /\ ep s 1 = ep s 0.
Proof. vm_compute. repeat split; auto. Qed.
(* the host became IGNORED while it was down: a status-up event still cancels its reconnector *)
Example C25_nonvacuous_ignored_later :
  let s := run (init [1] 1 None) [EFail 0; ERun 0 OOk; ESetIgn 0 true; EStatusUp 0] in
  up (hosts s 0) = 1 /\ reg (hosts s 0) = None /\ rcanc (recs s 0) = true /\ timers s = [0].
Proof. vm_compute. repeat split; auto. Qed.
