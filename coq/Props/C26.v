(* C26 -- replica sets match Cassandra's replica placement. *)
From Coq Require Import ZArith List Bool.
From Verif Require Import RingBase Ring PlacementSpec C26_proofs.
Import ListNotations.
Local Open Scope Z_scope.

Definition C26_nts_statement (impl : topo_t -> strategy -> ring_t -> Z -> list Z) : Prop :=
  forall loc rfs ring t, strictly_sorted (map fst ring) = true ->
    NoDup (impl loc (NTS rfs) ring t) /\
    (forall h, In h (impl loc (NTS rfs) ring t) <-> In h (nts_spec loc rfs ring t)).

Theorem C26_nts_unfixed_refuted : ~ C26_nts_statement driver_replicas_prefix.
Proof.
  intro H. destruct (H witness_loc [(0,4)] witness_ring 0 eq_refl) as [_ Hs].
  assert (Hin : In 4 (nts_spec witness_loc [(0,4)] witness_ring 0)) by (vm_compute; tauto).
  apply Hs in Hin. vm_compute in Hin. intuition discriminate.
Qed.
Print Assumptions C26_nts_unfixed_refuted.
