(* C26 -- replica sets match Cassandra's replica placement.
   Model of the driver: Model/Ring.v (hand-written from cassandra/metadata.py, tied by correspondence in checks/C26.py).
   Specification: Model/PlacementSpec.v (Cassandra's SimpleStrategy / NetworkTopologyStrategy.calculateNaturalEndpoints).
   All theorems hold for ANY ring (any number of tokens per host, any datacenter / rack layout `loc`), any replication
   settings and any key token t; the only hypothesis is that ring tokens are distinct and sorted, which
   Metadata.rebuild_token_map establishes (`sorted(ring)`). *)
From Coq Require Import ZArith List Bool.
From Verif Require Import RingBase Ring PlacementSpec RingCache C26_lookup C26_proofs C26_cache.
Import ListNotations.
Local Open Scope Z_scope.

(* SimpleStrategy: the driver's replica list IS Cassandra's list (same hosts, same order) *)
Theorem C26_simple : forall loc rf ring t, strictly_sorted (map fst ring) = true ->
  driver_replicas loc (Simple rf) ring t = simple_spec rf ring t.
Proof. exact simple_correct. Qed.
Print Assumptions C26_simple.

(* NetworkTopologyStrategy (repaired code): no host is repeated, and the hosts are exactly Cassandra's *)
Theorem C26_nts : forall loc rfs ring t, strictly_sorted (map fst ring) = true ->
  NoDup (driver_replicas loc (NTS rfs) ring t) /\
  (forall h, In h (driver_replicas loc (NTS rfs) ring t) <-> In h (nts_spec loc rfs ring t)).
Proof. exact nts_correct. Qed.
Print Assumptions C26_nts.

(* the statement of the property, for either strategy *)
Theorem C26_replicas : forall loc s ring t, strictly_sorted (map fst ring) = true ->
  NoDup (driver_replicas loc s ring t) /\
  (forall h, In h (driver_replicas loc s ring t) <-> In h (natural_endpoints loc (placement_of s) ring t)).
Proof. exact replicas_correct. Qed.
Print Assumptions C26_replicas.

(* bisect_left + wrap: the replicas of a key are those of the first ring token at or after its token, else of the first token *)
Theorem C26_bisect : forall loc s ring t, strictly_sorted (map fst ring) = true ->
  driver_replicas loc s ring t =
  driver_replicas loc s ring (match find (fun tk => t <=? tk) (map fst ring) with Some tk => tk | None => hd 0 (map fst ring) end).
Proof. exact bisect_range. Qed.
Print Assumptions C26_bisect.

(* ... and what a lookup of ring token number k returns is the entry stored under that token by make_token_replica_map *)
Theorem C26_map_lookup : forall loc s ring k, strictly_sorted (map fst ring) = true -> (k < length ring)%nat ->
  assoc (nth k (map fst ring) 0) (replica_map true loc s ring) = Some (driver_replicas loc s ring (nth k (map fst ring) 0)).
Proof. exact map_lookup. Qed.
Print Assumptions C26_map_lookup.

(* The code before the `fix:` commit (skipped_hosts.append without the membership test) violates the statement:
   host 2 owns two consecutive tokens in a rack that is already represented, is emitted twice, host 4 is lost. *)
Definition C26_nts_statement (impl : topo_t -> strategy -> ring_t -> Z -> list Z) : Prop :=
  forall loc rfs ring t, strictly_sorted (map fst ring) = true ->
    NoDup (impl loc (NTS rfs) ring t) /\
    (forall h, In h (impl loc (NTS rfs) ring t) <-> In h (nts_spec loc rfs ring t)).

Theorem C26_nts_unfixed_refuted : ~ C26_nts_statement driver_replicas_prefix.
Proof.
  intro H. destruct (H witness_loc [(0,4)] witness_ring 0 eq_refl) as [_ Hs].
  assert (Hin : In 4 (nts_spec witness_loc [(0,4)] witness_ring 0)) by (vm_compute; tauto).
  apply Hs in Hin. vm_compute in Hin. intuition discriminate.
Qed.
Print Assumptions C26_nts_unfixed_refuted.

Theorem C26_nts_fixed_statement : C26_nts_statement driver_replicas.
Proof. exact nts_correct. Qed.
Print Assumptions C26_nts_fixed_statement.

(* Metadata.get_replicas(keyspace, key) under Murmur3Partitioner: a key whose hash is Long.MIN_VALUE lives in the range of token Long.MAX_VALUE *)
Theorem C26_key : forall loc s ring h, strictly_sorted (map fst ring) = true ->
  NoDup (driver_replicas_for_hash loc s ring h) /\
  (forall x, In x (driver_replicas_for_hash loc s ring h) <-> In x (natural_endpoints_for_hash loc (placement_of s) ring h)).
Proof. exact key_correct. Qed.
Print Assumptions C26_key.

(* the cached replica map of a keyspace, under ANY interleaving of lookups, ALTER KEYSPACE events (settings written without the
   lock, rebuild under _rebuild_lock) and evictions: whenever nothing is in flight, what a lookup is served was computed from the
   CURRENT replication settings.  The atomic regions are checked on the source by the lock audit in checks/C26.py. *)
Theorem C26_cache_current : forall v ops, forallb in_source ops = true ->
  quiescent (crun (cinit v) ops) -> served (crun (cinit v) ops) = settings (crun (cinit v) ops).
Proof. exact cache_current. Qed.
Print Assumptions C26_cache_current.

(* with the "is a rebuild needed" test outside the lock (and not repeated inside) a stale map is published and stays *)
Theorem C26_cache_unlocked_refuted : exists ops,
  quiescent (crun (cinit 0) ops) /\ served (crun (cinit 0) ops) <> settings (crun (cinit 0) ops).
Proof. exists [QStart; QRead; ESet 1; ECheckUnlocked; QPublish]. cbn. repeat split. discriminate. Qed.
Print Assumptions C26_cache_unlocked_refuted.

(* non-vacuity: a two-datacenter ring, host 2 owning consecutive tokens, hypotheses satisfied, non-trivial answers *)
Definition ex_loc : topo_t := topo_of [(1,(0,1)); (2,(0,1)); (3,(0,2)); (4,(0,1)); (5,(1,1)); (6,(1,1))].
Definition ex_ring : ring_t := [(-30,5); (0,1); (10,2); (20,2); (25,6); (30,3); (40,4)].
Example C26_nonvacuous :
  strictly_sorted (map fst ex_ring) = true /\
  driver_replicas ex_loc (NTS [(0,3); (1,5)]) ex_ring (-7) = [6; 5; 1; 3; 2] /\
  nts_spec ex_loc [(0,3); (1,5)] ex_ring (-7) = [1; 6; 3; 2; 5] /\
  driver_replicas_prefix witness_loc (NTS [(0,4)]) witness_ring 0 = [1; 3; 2; 2] /\
  driver_replicas witness_loc (NTS [(0,4)]) witness_ring 0 = [1; 3; 2; 4] /\
  driver_replicas ex_loc (Simple 3) ex_ring 41 = [5; 1; 2].
Proof. vm_compute. repeat split. Qed.
