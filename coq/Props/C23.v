(* C23 -- Built-in retry policies make bounded, consistency-safe decisions.
   The policy functions are REGENERATED from cassandra/policies.py on every run (Gen/RetryPolicies.v);
   this file only states the theorems.  Readings fixed in DESIGN.md 4.0 (C23). *)
From Coq Require Import ZArith List Bool.
From Verif Require Import PyBase RetryConsts RetryPolicies Consistency C23_proofs.
Local Open Scope Z_scope.

(* default policy: retries a read/write timeout or unavailable at most once *)
Theorem C23_default_at_most_once : forall c w rq rc d n, n <> 0 ->
  Default_on_read_timeout c rq rc d n = (RETHROW, None) /\
  Default_on_write_timeout c w rq rc n = (RETHROW, None) /\
  Default_on_unavailable c rq rc n = (RETHROW, None).
Proof. intros; split; [|split]; [apply default_read_bounded|apply default_write_bounded|apply default_unavailable_bounded]; assumption. Qed.
Print Assumptions C23_default_at_most_once.

(* ... and only as documented on the first failure, at the same consistency level *)
Theorem C23_default_as_documented : forall c w rq rc d,
  Default_on_read_timeout c rq rc d 0 = (if (rq <=? rc) && negb d then (RETRY, Some c) else (RETHROW, None)) /\
  Default_on_write_timeout c w rq rc 0 = (if w =? WT_BATCH_LOG then (RETRY, Some c) else (RETHROW, None)) /\
  Default_on_unavailable c rq rc 0 = (RETRY_NEXT_HOST, None).
Proof. intros; split; [apply default_read_documented|split; [apply default_write_documented|apply default_unavailable_documented]]. Qed.
Print Assumptions C23_default_as_documented.

Theorem C23_fallthrough_never_retries :
  Fallthrough_on_read_timeout = (RETHROW, None) /\ Fallthrough_on_write_timeout = (RETHROW, None) /\
  Fallthrough_on_unavailable = (RETHROW, None) /\ Fallthrough_on_request_error = (RETHROW, None).
Proof. exact fallthrough_all. Qed.
Print Assumptions C23_fallthrough_never_retries.

Theorem C23_never_retry_policy :
  Never_on_read_timeout = (RETHROW, None) /\ Never_on_write_timeout = (RETHROW, None) /\
  Never_on_unavailable = (RETHROW, None).
Proof. exact never_all. Qed.
Print Assumptions C23_never_retry_policy.

(* downgrading policy: bounded too *)
Theorem C23_downgrading_at_most_once : forall c w rq rc d n, n <> 0 ->
  Downgrading_on_read_timeout c rq rc d n = (RETHROW, None) /\
  Downgrading_on_write_timeout c w rq rc n = (RETHROW, None) /\
  Downgrading_on_unavailable c rq rc n = (RETHROW, None).
Proof. intros; split; [|split]; [apply downgrading_bounded_read|apply downgrading_bounded_write|apply downgrading_bounded_unav]; assumption. Qed.
Print Assumptions C23_downgrading_at_most_once.

(* never downgrades a serial level.  For a write timeout the coordinator reports a serial
   consistency exactly when the write type is CAS (DESIGN 4.0). *)
Theorem C23_downgrading_never_serial : forall c w rq rc d n,
  (is_serial c = true -> Downgrading_on_read_timeout c rq rc d n = (RETHROW, None)) /\
  (is_serial c = true -> snd (Downgrading_on_unavailable c rq rc n) = None) /\
  (w = WT_CAS -> Downgrading_on_write_timeout c w rq rc n = (RETHROW, None)).
Proof. intros; split; [|split]; [apply downgrading_serial_read|apply downgrading_serial_unav|apply downgrading_serial_write]. Qed.
Print Assumptions C23_downgrading_never_serial.

(* never picks a level that needs more replicas than responded / were alive; and, for every failure
   a coordinator can report (too few responses: rc < rq), the level is not stronger than the requested
   one (it needs k <= rc < rq = blockFor(requested) replicas). *)
Theorem C23_downgrading_fits : forall c w rq rc d n cl',
  (snd (Downgrading_on_read_timeout c rq rc d n) = Some cl' ->
     (cl' = c /\ rq <= rc) \/ (exists k, needs cl' = Some k /\ k <= rc /\ rc < rq)) /\
  (snd (Downgrading_on_unavailable c rq rc n) = Some cl' -> exists k, needs cl' = Some k /\ k <= rc) /\
  (snd (Downgrading_on_write_timeout c w rq rc n) = Some cl' ->
     (cl' = c /\ w = WT_BATCH_LOG) \/ (w = WT_UNLOGGED_BATCH /\ exists k, needs cl' = Some k /\ k <= rc)).
Proof.
  intros; split; [|split]; intros H.
  - apply downgrading_fits_read in H; tauto.
  - apply downgrading_fits_unav in H; tauto.
  - apply downgrading_fits_write in H; tauto.
Qed.
Print Assumptions C23_downgrading_fits.

Theorem C23_downgrading_not_stronger : forall c w rq rc d n cl' rf dcs,
  rc < rq ->   (* what a coordinator can report: fewer responses / live replicas than required *)
  (snd (Downgrading_on_read_timeout c rq rc d n) = Some cl' -> block_for cl' rf dcs < rq) /\
  (snd (Downgrading_on_unavailable c rq rc n) = Some cl' -> block_for cl' rf dcs < rq) /\
  (snd (Downgrading_on_write_timeout c w rq rc n) = Some cl' -> cl' = c \/ block_for cl' rf dcs < rq).
Proof.
  intros c w rq rc d n cl' rf dcs Hlt; split; [|split]; intros H.
  - apply downgrading_fits_read in H. destruct H as [_ [[_ H]|(k & Hk & H1 & _)]]; [exfalso; apply (Z.lt_irrefl rc); apply Z.lt_le_trans with rq; assumption|].
    rewrite (needs_block_for _ _ rf dcs Hk). apply Z.le_lt_trans with rc; assumption.
  - apply downgrading_fits_unav in H. destruct H as [_ (k & Hk & H1)].
    rewrite (needs_block_for _ _ rf dcs Hk). apply Z.le_lt_trans with rc; assumption.
  - apply downgrading_fits_write in H. destruct H as [_ [[H _]|[_ (k & Hk & H1)]]]; [left; assumption|right].
    rewrite (needs_block_for _ _ rf dcs Hk). apply Z.le_lt_trans with rc; assumption.
Qed.
Print Assumptions C23_downgrading_not_stronger.

Theorem C23_decisions_wellformed : forall c w rq rc d n,
  valid_decision (fst (Downgrading_on_read_timeout c rq rc d n)) = true /\
  valid_decision (fst (Downgrading_on_write_timeout c w rq rc n)) = true /\
  valid_decision (fst (Downgrading_on_unavailable c rq rc n)) = true.
Proof. exact decisions_valid_downgrading. Qed.
Print Assumptions C23_decisions_wellformed.

(* the full (unconditional) statement "a serial level is never downgraded on a write timeout" is FALSE of
   the code when the (impossible for a coordinator) pair (SERIAL, UNLOGGED_BATCH) is supplied: kept visible *)
Definition C23_serial_write_unconditional : Prop :=
  forall c w rq rc n cl', is_serial c = true -> snd (Downgrading_on_write_timeout c w rq rc n) = Some cl' -> cl' = c.
Theorem C23_serial_write_unconditional_refuted : ~ C23_serial_write_unconditional.
Proof.
  intros H. specialize (H CL_SERIAL WT_UNLOGGED_BATCH 2 1 0 CL_ONE eq_refl eq_refl). discriminate H.
Qed.
Print Assumptions C23_serial_write_unconditional_refuted.

(* non-vacuity: the hypotheses are met by concrete coordinator reports with non-trivial outcomes *)
Example C23_nonvacuous_downgrade :
  Downgrading_on_read_timeout CL_QUORUM 2 1 true 0 = (RETRY, Some CL_ONE) /\ 1 < 2 /\
  Downgrading_on_unavailable CL_ALL 5 3 0 = (RETRY, Some CL_THREE) /\
  Default_on_read_timeout CL_QUORUM 2 2 false 0 = (RETRY, Some CL_QUORUM).
Proof. repeat split; reflexivity. Qed.
