From Coq Require Import ZArith List.
From Verif Require Import Stream.
Theorem C05_stub : init = Live nil. Proof. reflexivity. Qed.
Print Assumptions C05_stub.
