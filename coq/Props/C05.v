(* C05 -- incoming frames are reassembled exactly under any TCP chunking (model: Model/Stream.v). *)
From Coq Require Import ZArith List Bool.
From Verif Require Import Stream C05_proofs.
Import ListNotations.
Local Open Scope Z_scope.

(* However the byte stream is split into reads, the deliveries and the final state are those of one read of the whole stream. *)
Theorem C05_chunking : forall chunks : list (list Z), run_feed init chunks = feed init (concat chunks).
Proof. intros. apply chunking. exact init_stable. Qed.
Print Assumptions C05_chunking.

(* ... from every state the connection can be in between two reads. *)
Theorem C05_chunking_from : forall st c0 chunks, run_feed (fst (feed st c0)) chunks = feed (fst (feed st c0)) (concat chunks).
Proof. intros. apply chunking. destruct (feed st c0) eqn:E. eapply feed_stable. exact E. Qed.
Print Assumptions C05_chunking_from.

(* Any list of well-formed frames (v1-v2 8-byte / v3+ 9-byte headers, any stream ids, empty bodies allowed) followed by an
   incomplete tail, split into reads in any way: exactly those frames, in order, with their exact bodies; the tail stays buffered. *)
Theorem C05_exact : forall (frames : list frame) (tail : list Z) (chunks : list (list Z)),
  Forall wf frames -> parse1 tail = NeedMore ->
  concat chunks = concat (map enc frames) ++ tail ->
  run_feed init chunks = (Live tail, map deliver frames).
Proof.
  intros frames tail chunks Hwf Ht Hc. rewrite C05_chunking, Hc. simpl. apply parse_all_frames; assumption.
Qed.
Print Assumptions C05_exact.

(* Never a partial frame: every delivered body has exactly the length announced in its header ... *)
Theorem C05_no_partial : forall st chunk st' evs h body,
  feed st chunk = (st', evs) -> In (Deliver h body) evs -> blen body = h_len h /\ 0 <= h_len h.
Proof. exact no_partial. Qed.
Print Assumptions C05_no_partial.

(* ... and what was delivered for a prefix of the stream is a prefix of what is delivered for the whole stream. *)
Theorem C05_prefix_monotone : forall st p q, exists evs', snd (feed st (p ++ q)) = snd (feed st p) ++ evs'.
Proof. exact prefix_monotone. Qed.
Print Assumptions C05_prefix_monotone.

(* Routing: a handler only ever gets a frame carrying its own (non-negative) stream id; watchers only negative ids. *)
Theorem C05_routing_sound : forall evs reqs,
  (forall id h b, In (ToHandler id h b) (route reqs evs) -> id = h_stream h /\ 0 <= id /\ In (Deliver h b) evs) /\
  (forall h b, In (ToWatchers h b) (route reqs evs) -> h_stream h < 0 /\ In (Deliver h b) evs).
Proof. intros. split; intros; [eapply route_handler|eapply route_watchers]; eassumption. Qed.
Print Assumptions C05_routing_sound.

(* End to end: frames whose non-negative stream ids are distinct and registered, under any chunking: every frame reaches
   the handler registered for its stream id exactly once, in order, and pushed events (negative ids) reach the watchers. *)
Theorem C05_routing : forall (frames : list frame) (tail : list Z) (chunks : list (list Z)) (reqs : list Z),
  Forall wf frames -> parse1 tail = NeedMore ->
  concat chunks = concat (map enc frames) ++ tail ->
  NoDup (nonneg_ids frames) -> (forall i, In i (nonneg_ids frames) -> In i reqs) ->
  route reqs (snd (run_feed init chunks)) = map routed_as frames.
Proof.
  intros. rewrite (C05_exact frames tail chunks) by assumption. simpl. apply route_frames; assumption.
Qed.
Print Assumptions C05_routing.

(* Pushed events reach EVERY watcher registered for the event type, exactly once each, whichever of them raise; nothing escapes. *)
Theorem C05_watchers_all_called : forall ws : list watcher, handle_pushed ws = (map fst ws, Returned).
Proof. exact handle_pushed_all. Qed.
Print Assumptions C05_watchers_all_called.

(* The hypotheses are satisfiable by a non-trivial input: a v2 frame (8-byte header, stream -1, pushed event), a v4 frame
   (9-byte header, stream 300, empty body), a partial third header; fed one byte at a time. *)
Definition ex_frames : list frame :=
  [(128, mkH 2 0 (-1) 12 3, [7; 8; 9]); (128, mkH 4 1 300 8 0, []); (0, mkH 3 0 5 8 2, [1; 2])].
Definition ex_tail : list Z := [132; 0; 0].
Example C05_nonvacuous :
  Forall wf ex_frames /\ parse1 ex_tail = NeedMore /\
  let stream := concat (map enc ex_frames) ++ ex_tail in
  run_feed init (map (fun b => [b]) stream) = (Live ex_tail, map deliver ex_frames) /\
  route [300; 5] (snd (run_feed init (map (fun b => [b]) stream))) = map routed_as ex_frames /\
  snd (feed init [135; 0; 0]) = [Defunct R_VERSION] /\
  fst (handle_pushed [(1, true); (2, false); (3, true)]) = [1; 2; 3].
Proof.
  split; [|split; [reflexivity|vm_compute; repeat split; reflexivity]].
  repeat constructor; vm_compute; intuition discriminate.
Qed.
