(* C31 -- client-side timestamps strictly increase across all threads.
   next_timestamp is regenerated from cassandra/timestamps.py on every run (Gen/Timestamps.v).
   One call = one atomic step: that granularity is checked by the lock audit in checks/C31.py. *)
From Coq Require Import ZArith List Bool.
From Verif Require Import PyBase Timestamps Timestamp C31_proofs.
Import ListNotations.
Local Open Scope Z_scope.

(* for ANY initial state and ANY sequence of clock readings (standing still, jumping backwards, ...),
   any two calls, in the order they held the lock: the earlier returned value is strictly smaller *)
Theorem C31_strict : forall (last : Z) (clock : list Z) (i j : nat) (a b : Z),
  (i < j)%nat -> nth_error (run last clock) i = Some a -> nth_error (run last clock) j = Some b -> a < b.
Proof. intros last clock. exact (strict_pairwise _ (run_strict clock last)). Qed.
Print Assumptions C31_strict.

(* every call returns exactly one value, never behind the clock reading taken for that call *)
Theorem C31_not_behind : forall (last : Z) (clock : list Z) (i : nat) (now r : Z),
  nth_error clock i = Some now -> nth_error (run last clock) i = Some r -> now <= r.
Proof. exact (fun last clock => run_not_behind clock last). Qed.
Print Assumptions C31_not_behind.

Theorem C31_one_per_call : forall last clock, length (run last clock) = length clock.
Proof. exact (fun last clock => run_length clock last). Qed.
Print Assumptions C31_one_per_call.

(* every returned value is also above the generator's previous state *)
Theorem C31_above_state : forall last clock x, In x (run last clock) -> last < x.
Proof. exact (fun last clock => run_all_gt clock last). Qed.
Print Assumptions C31_above_state.

(* without the lock (fine-grained steps) two threads can return the same value: the lock is necessary *)
Theorem C31_unlocked_refuted : exists last nowA nowB, fst (unlocked_two_threads last nowA nowB) = snd (unlocked_two_threads last nowA nowB).
Proof. exists 10, 5, 5. reflexivity. Qed.
Print Assumptions C31_unlocked_refuted.

Example C31_nonvacuous : run 100 [50; 50; 200; 150; 201] = [101; 102; 200; 201; 202].
Proof. reflexivity. Qed.
