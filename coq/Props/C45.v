(* C45 -- shutdown releases every connection and stops accepting work (partial).
   Model: Model/Shutdown.v, tied to Cluster/Session/ControlConnection/HostConnection by per-step correspondence (checks/C45.py).
   Proved here for every number of hosts and every operation history of any length: after Cluster.shutdown everything
   is shut down, no task/timer is accepted and no timer fires; after Session.shutdown requests and internal submissions are
   refused; and C45_all_closed at full strength (after the pool.py fixes 084ea49 / 43f5e7c and the cluster.py fix cbd87a0):
   every connection ever opened is closed in every state after Cluster.shutdown (invariant KK in Proofs/C45_proofs.v). *)
From Coq Require Import ZArith List Bool Arith Lia.
From Verif Require Import Shutdown C45_proofs.
Import ListNotations.

Theorem C45_shutdown_is_total : forall n os, let s := run (init n) os in
  cl_down s = true -> sess_down s = true /\ cc_down s = true /\ sched_down s = true.
Proof. intros n os. exact (D_run os _ (D_init n)). Qed.
Print Assumptions C45_shutdown_is_total.

(* once the cluster is shut down, every further operation leaves the executor queue without new tasks, the scheduler
   without new timers (none fires either), is never "Accepted"; user-level submissions are Refused *)
Theorem C45_no_new_connections : forall n os o, let s := run (init n) os in
  cl_down s = true ->
  let s' := fst (step s o) in
  ((forall t, In t (queue s') -> In t (queue s)) /\ timers s' = timers s /\ snd (step s o) <> Accepted) \/
  ((o = OSubmit \/ o = ORequest) /\ step s o = (s, Refused)).
Proof.
  intros n os o s Hc. destruct (C45_shutdown_is_total n os Hc) as (A & B & C).
  exact (no_new_work s o Hc A B C).
Qed.
Print Assumptions C45_no_new_connections.

(* ... and a step after the shutdown starts at most one connection attempt (that of a task queued before the shutdown, which
   then sees the flag): a walk over the query plan never goes on to further hosts after Cluster.shutdown *)
Theorem C45_no_late_attempts : forall n os o, let s := run (init n) os in
  cl_down s = true -> attempts (fst (step s o)) <= S (attempts s).
Proof.
  intros n os o s Hc. destruct (C45_shutdown_is_total n os Hc) as (A & B & C).
  exact (one_late_attempt s o Hc A B C).
Qed.
Print Assumptions C45_no_late_attempts.

Theorem C45_requests_refused : forall s h, sess_down s = true ->
  step s ORequest = (s, Refused) /\ step s OSubmit = (s, Refused) /\ step s (OPoolTask h) = (s, Refused) /\
  snd (step s (OReplace h)) <> Accepted.
Proof.
  intros s h Hs. simpl. rewrite Hs. repeat split; auto.
  destruct (pool_conn (pool s h)); simpl; discriminate.
Qed.
Print Assumptions C45_requests_refused.

Definition all_closed (s : st) : bool := forallb (fun c => existsb (Nat.eqb c) (closed s)) (seq 0 (nconn s)).

(* FULL statement: in every state reached after Cluster.shutdown -- whatever was queued, connecting or scheduled when it
   ran, and whether or not the executor has drained yet -- every connection ever opened (pools, replacements, control
   connection, reconnection attempts, connects that finished after or during the shutdown) is closed. *)
Theorem C45_all_closed : forall n os, let s := run (init n) os in
  cl_down s = true -> all_closed s = true /\ forall c, c < nconn s -> In c (closed s).
Proof.
  intros n os s Hc. destruct (C45_shutdown_is_total n os Hc) as (A & B & _).
  pose proof (KK_run os _ (KK_init n)) as HK. fold s in HK.
  pose proof (all_closed_when_down s HK A B) as H. split; auto.
  unfold all_closed. apply forallb_forall. intros c Hin. apply in_seq in Hin. apply existsb_exists.
  exists c. split; [apply H; lia | apply Nat.eqb_refl].
Qed.
Print Assumptions C45_all_closed.

(* after Session.shutdown alone every connection is closed except, possibly, the live control connection *)
Theorem C45_session_all_closed : forall n os c, let s := run (init n) os in
  sess_down s = true -> c < nconn s -> In c (closed s) \/ cc_conn s = Some c.
Proof.
  intros n os c s Hs Hc. pose proof (KK_run os _ (KK_init n)) as HK. fold s in HK.
  exact (session_closed_when_down s HK Hs c Hc).
Qed.
Print Assumptions C45_session_all_closed.

(* concrete non-trivial runs: shutdown with queued pool creation, control reconnect and timers: everything ends closed *)
Example C45_nonvacuous : let s := run (init 2) [OPoolTask 0; OCCReconnect; OStartRecon 1; OFire 0 Err false; OClusterShutdown;
                                               ORun 0 Ok false; ORun 0 Ok false] in
  cl_down s = true /\ queue s = [] /\ nconn s = 5 /\ all_closed s = true.
Proof. vm_compute. repeat split; auto. Qed.
Example C45_nonvacuous_during : let s := run (init 1) [OPoolTask 0; OReplace 0; ORun 1 Ok true; ORun 0 Ok false] in
  cl_down s = true /\ nconn s = 4 /\ all_closed s = true.
Proof. vm_compute. auto. Qed.
