(* C45 -- shutdown releases every connection and stops accepting work (partial).
   Model: Model/Shutdown.v, tied to Cluster/Session/ControlConnection/HostConnection by per-step correspondence (checks/C45.py).
   Proved here for every number of hosts and every operation history of any length: after Cluster.shutdown everything
   is shut down, no task/timer is accepted and no timer fires; after Session.shutdown requests and internal submissions are
   refused.  The connection-accounting statement (all opened connections closed) is refuted at full strength by a witness
   (a pool replacement finishing while the pool is being shut down, defect in pool.py owned by C12); its partial form is
   checked on the implementation by the oracle over generated histories, not proved (see docs/C45.md). *)
From Coq Require Import ZArith List Bool Arith.
From Verif Require Import Shutdown C45_proofs.
Import ListNotations.

Theorem C45_shutdown_is_total : forall n os, let s := run (init n) os in
  cl_down s = true -> sess_down s = true /\ cc_down s = true /\ sched_down s = true.
Proof. intros n os. exact (D_run os _ (D_init n)). Qed.
Print Assumptions C45_shutdown_is_total.

(* once the cluster is shut down, every further operation leaves the executor queue without new tasks, the scheduler
   without new timers (none fires either), is never "Accepted"; user-level submissions are Refused *)
Theorem C45_no_new_connections : forall n os o, let s := run (init n) os in
  cl_down s = true ->
  let s' := fst (step s o) in
  ((forall t, In t (queue s') -> In t (queue s)) /\ timers s' = timers s /\ snd (step s o) <> Accepted) \/
  ((o = OSubmit \/ o = ORequest) /\ step s o = (s, Refused)).
Proof.
  intros n os o s Hc. destruct (C45_shutdown_is_total n os Hc) as (A & B & C).
  exact (no_new_work s o Hc A B C).
Qed.
Print Assumptions C45_no_new_connections.

Theorem C45_requests_refused : forall s h, sess_down s = true ->
  step s ORequest = (s, Refused) /\ step s OSubmit = (s, Refused) /\ step s (OPoolTask h) = (s, Refused) /\
  snd (step s (OReplace h)) <> Accepted.
Proof.
  intros s h Hs. simpl. rewrite Hs. repeat split; auto.
  destruct (pool_conn (pool s h)); simpl; discriminate.
Qed.
Print Assumptions C45_requests_refused.

Definition all_closed (s : st) : bool := forallb (fun c => existsb (Nat.eqb c) (closed s)) (seq 0 (nconn s)).
Definition C45_all_closed_full : Prop := forall n os, let s := run (init n) os in
  cl_down s = true -> queue s = [] -> all_closed s = true.
(* a replacement connection finishing while Cluster.shutdown runs stays open *)
Theorem C45_all_closed_refuted : ~ C45_all_closed_full.
Proof. intros H. specialize (H 1 [OReplace 0; ORun 0 Ok true] eq_refl eq_refl). vm_compute in H. discriminate. Qed.
Print Assumptions C45_all_closed_refuted.

(* concrete non-trivial runs: shutdown with queued pool creation, control reconnect and timers: everything ends closed *)
Example C45_nonvacuous : let s := run (init 2) [OPoolTask 0; OCCReconnect; OStartRecon 1; OFire 0 Err false; OClusterShutdown;
                                               ORun 0 Ok false; ORun 0 Ok false] in
  cl_down s = true /\ queue s = [] /\ nconn s = 5 /\ all_closed s = true /\ leaked s = false.
Proof. vm_compute. repeat split; auto. Qed.
Example C45_nonvacuous_during : let s := run (init 1) [OPoolTask 0; ORun 0 Ok true] in
  cl_down s = true /\ all_closed s = true.
Proof. vm_compute. auto. Qed.
