(* C45 -- shutdown releases every connection and stops accepting work (partial).
   Model: Model/Shutdown.v, tied to Cluster/Session/ControlConnection/HostConnection by per-step correspondence (checks/C45.py).
   Proved here for every number of hosts and every operation history of any length: after Cluster.shutdown everything
   is shut down, no task/timer is accepted and no timer fires; after Session.shutdown requests and internal submissions are
   refused; and C45_all_closed at full strength (after the pool.py fixes 084ea49 / 43f5e7c and the cluster.py fix cbd87a0):
   every connection ever opened is closed in every state after Cluster.shutdown (invariant KK in Proofs/C45_proofs.v). *)
From Coq Require Import ZArith List Bool Arith Lia.
From Verif Require Import LegacyPool C45_legacy_proofs.
From Verif Require Import Shutdown C45_proofs.
Import ListNotations.

Theorem C45_shutdown_is_total : forall n os, let s := run (init n) os in
  cl_down s = true -> sess_down s = true /\ cc_down s = true /\ sched_down s = true.
Proof. intros n os. exact (D_run os _ (D_init n)). Qed.
Print Assumptions C45_shutdown_is_total.

(* once the cluster is shut down, every further operation leaves the executor queue without new tasks, the scheduler
   without new timers (none fires either) and is never "Accepted" *)
Theorem C45_no_new_connections : forall n os o, let s := run (init n) os in
  cl_down s = true ->
  let s' := fst (step s o) in
  (forall t, In t (queue s') -> In t (queue s)) /\ timers s' = timers s /\ snd (step s o) <> Accepted.
Proof.
  intros n os o s Hc. destruct (C45_shutdown_is_total n os Hc) as (A & B & C).
  destruct (after_shutdown s o (conj Hc (conj A (conj B C)))) as ((Q & T & _ & _) & R). auto.
Qed.
Print Assumptions C45_no_new_connections.

(* ... and a step after the shutdown starts at most one connection attempt per task that was already queued (one, or two
   when two queued pool creations overlap): a walk over the query plan never goes on to further hosts, Session.shutdown
   itself starts none *)
Theorem C45_no_late_attempts : forall n os o, let s := run (init n) os in
  cl_down s = true -> attempts (fst (step s o)) <= attempts s + match o with ORunNested _ _ => 2 | _ => 1 end.
Proof.
  intros n os o s Hc. destruct (C45_shutdown_is_total n os Hc) as (A & B & C).
  destruct (after_shutdown s o (conj Hc (conj A (conj B C)))) as ((_ & _ & L & _) & _). exact L.
Qed.
Print Assumptions C45_no_late_attempts.

(* the shutdown calls themselves start no connection attempt (initial pool creations that have not started are cancelled,
   not waited for) *)
Theorem C45_shutdown_starts_nothing : forall s,
  attempts (cluster_shutdown s) = attempts s /\ attempts (session_shutdown s) = attempts s /\
  (forall t, In t (queue (session_shutdown s)) -> In t (queue s)) /\
  (sess_down s = false -> forall h, ~ In (KAddPool h true) (queue (session_shutdown s))).
Proof.
  intros s. assert (E2 : attempts (session_shutdown s) = attempts s) by (unfold session_shutdown; destruct (sess_down s); reflexivity).
  assert (E3 : attempts (cc_shutdown s) = attempts s) by (unfold cc_shutdown; simpl; destruct (cc_down s); simpl; auto; destruct (cc_conn s); reflexivity).
  split; [|split; [exact E2|split]].
  - unfold cluster_shutdown. destruct (cl_down s); auto.
    unfold session_shutdown, cc_shutdown. simpl. destruct (cc_down s); simpl; destruct (sess_down s); simpl; auto;
      destruct (cc_conn s); simpl; destruct (sess_down s); reflexivity.
  - unfold session_shutdown. destruct (sess_down s); simpl; auto. intros t Ht. apply filter_In in Ht. tauto.
  - intros Hs h Hin. unfold session_shutdown in Hin. rewrite Hs in Hin. simpl in Hin. apply filter_In in Hin.
    destruct Hin as [_ Hf]. discriminate.
Qed.
Print Assumptions C45_shutdown_starts_nothing.

Theorem C45_requests_refused : forall s h i b, sess_down s = true ->
  step s ORequest = (s, Refused) /\ step s OSubmit = (s, Refused) /\ step s (OPoolTask h i) = (s, Refused) /\
  snd (step s (OReplace h b)) <> Accepted /\ snd (step s (OConnLost h)) <> Accepted.
Proof.
  intros s h i b Hs. simpl. rewrite Hs. repeat split; auto.
  - destruct (pool s h) as [q|]; [|discriminate]. destruct (pconn q); [|discriminate].
    destruct (prepl q || pshut q); simpl; discriminate.
  - destruct (pool s h) as [q|]; [|discriminate]. destruct (pconn q); [|discriminate].
    destruct (pshut q); [discriminate|]. destruct (prepl q); simpl; discriminate.
Qed.
Print Assumptions C45_requests_refused.

Definition all_closed (s : st) : bool := forallb (fun c => existsb (Nat.eqb c) (closed s)) (seq 0 (nconn s)).

(* FULL statement: in every state reached after Cluster.shutdown -- whatever was queued, connecting or scheduled when it
   ran, and whether or not the executor has drained yet -- every connection ever opened (pools, replacements, control
   connection, reconnection attempts, connects that finished after or during the shutdown) is closed. *)
Theorem C45_all_closed : forall n os, let s := run (init n) os in
  cl_down s = true -> all_closed s = true /\ forall c, c < nconn s -> In c (closed s).
Proof.
  intros n os s Hc. destruct (C45_shutdown_is_total n os Hc) as (A & B & _).
  pose proof (KK_run os _ (KK_init n)) as HK. fold s in HK.
  pose proof (all_closed_when_down s HK A B) as H. split; auto.
  unfold all_closed. apply forallb_forall. intros c Hin. apply in_seq in Hin. apply existsb_exists.
  exists c. split; [apply H; lia | apply Nat.eqb_refl].
Qed.
Print Assumptions C45_all_closed.

(* after Session.shutdown alone every connection is closed except, possibly, the live control connection *)
Theorem C45_session_all_closed : forall n os c, let s := run (init n) os in
  sess_down s = true -> c < nconn s -> In c (closed s) \/ cc_conn s = Some c.
Proof.
  intros n os c s Hs Hc. pose proof (KK_run os _ (KK_init n)) as HK. fold s in HK.
  exact (session_closed_when_down s HK Hs c Hc).
Qed.
Print Assumptions C45_session_all_closed.

(* at ANY time (no shutdown needed): an open connection is owned by the control connection or by a pool registered in the
   session, as its current connection or in its trash.  Nothing is orphaned (two overlapping pool creations for one host, a
   replacement, a lost connection ...), so the shutdown that comes later reaches every connection. *)
Theorem C45_open_has_owner : forall n os c, let s := run (init n) os in
  c < nconn s -> In c (closed s) \/ cc_conn s = Some c \/ exists h, In c (opl_conns (pool s h)).
Proof.
  intros n os c s Hc. pose proof (KK_run os _ (KK_init n)) as HK. fold s in HK. exact (open_has_owner s c HK Hc).
Qed.
Print Assumptions C45_open_has_owner.

(* ---- native protocol v1/v2: the legacy HostConnectionPool (Model/LegacyPool.v) ----
   every history of pool operations (connection creations, trashing, lost connections, replacements), with the shutdown at
   any point -- also while a creation is connecting, right before its locked install, or with a creation completing in the
   window just before shutdown() takes the pool lock: once the pool is shut down every connection it ever opened is closed,
   and from then on it opens none. *)
Theorem C45_legacy_all_closed : forall os, let s := lrun linit os in
  lshut s = true -> forall c, c < lnconn s -> In c (lclosed s).
Proof. intros os s Hs. exact (legacy_all_closed s (LI_run os _ LI_init) Hs). Qed.
Print Assumptions C45_legacy_all_closed.

Theorem C45_legacy_no_new_connections : forall os o, let s := lrun linit os in
  lshut s = true -> lnconn (lstep s o) = lnconn s /\ lshut (lstep s o) = true.
Proof. intros os o s Hs. exact (shut_step s o Hs). Qed.
Print Assumptions C45_legacy_no_new_connections.

Example C45_nonvacuous_legacy : let s := lrun linit [LSpawn; LRun 0 true 0; LTrash 0 true; LLost 0; LSpawn; LShutdownRacing 1; LRun 0 false 0] in
  lshut s = true /\ lnconn s = 4 /\ lconns s = [2; 3] /\ ltrash s = [0] /\ lqueue s = [].
Proof. vm_compute. repeat split; auto. Qed.

(* concrete non-trivial runs: shutdown with queued pool creation, control reconnect and timers: everything ends closed *)
Example C45_nonvacuous : let s := run (init 2) [OPoolTask 0 false; OCCReconnect; OStartRecon 1; OFire 0 Err false; OClusterShutdown;
                                               ORun 0 Ok false; ORun 0 Ok false] in
  cl_down s = true /\ queue s = [] /\ nconn s = 5 /\ all_closed s = true.
Proof. vm_compute. repeat split; auto. Qed.
Example C45_nonvacuous_during : let s := run (init 1) [OPoolTask 0 false; OReplace 0 false; ORun 1 Ok true; ORun 0 Ok false] in
  cl_down s = true /\ nconn s = 4 /\ all_closed s = true.
Proof. vm_compute. auto. Qed.
(* a trashed connection with a live request, the replacement lost, then the shutdown: the trash is closed too *)
Example C45_nonvacuous_trash : let s0 := run (init 1) [OReplace 0 true; ORun 0 Ok false; OConnLost 0] in
  let s := run s0 [OClusterShutdown] in
  opl_conns (pool s0 0) = [1] /\ all_closed s = true /\ nconn s = 3.
Proof. vm_compute. auto. Qed.
(* two pool creations for one host overlapping: the pool that loses its place is shut down, nothing is orphaned *)
Example C45_nonvacuous_nested : let s := run (init 1) [OPoolTask 0 false; OPoolTask 0 false; ORunNested 0 0] in
  nconn s = 4 /\ opl_conns (pool s 0) = [2] /\ closed s = [3; 1].
Proof. vm_compute. auto. Qed.
