(* C36 -- cqlengine column values are stored as the core driver would store them.
   Model: Model/Columns.v (hand-written from cassandra/cqlengine/columns.py, tied by correspondence on every run).
   DateTime.to_database is the REPAIRED code (integer timedelta arithmetic, utcoffset of the value itself); the code
   before the repair is kept as datetime_to_db_legacy (bit-exact floats) with its two refutations. *)
From Coq Require Import ZArith List Bool.
From Verif Require Import DyFloat Columns C36_proofs.
Import ListNotations.
Local Open Scope Z_scope.

(* For every column class (containers nested to any depth) and every valid Python value: to_database succeeds; the
   database-ready value denotes, under the column's CQL type, exactly the CQL value that cassandra.cqltypes serialisation
   encodes for the original Python value; and so does the CQL LITERAL the Encoder renders for it (what is actually sent),
   read as a literal of the column's type.  (VSet/VMap lists are read as sets; equal lists = equal sets.) *)
Theorem C36_same_value : forall (c : col) (v : pyval), valid c v = true ->
  exists x a l, to_database c v = Some x /\ denote (cql_type c) x = Some a /\ prepared_value (cql_type c) v = Some a /\
                encode_literal x = Some l /\ lit_value (cql_type c) l = Some a.
Proof. exact same_value_all. Qed.
Print Assumptions C36_same_value.

(* Sending the same Python object any number of times: to_database never writes its argument (UserDefinedType converts
   the fields of a deep copy), so every send of the history denotes the value the core driver encodes. *)
Theorem C36_resend : forall (c : col) (v : pyval) (n : nat) (x : option pyval), valid c v = true ->
  In x (send_history c v n) ->
  exists y a l, x = Some y /\ denote (cql_type c) y = Some a /\ prepared_value (cql_type c) v = Some a /\
                encode_literal y = Some l /\ lit_value (cql_type c) l = Some a.
Proof. exact resend_all. Qed.
Print Assumptions C36_resend.

(* the literal of a Duration carries ONE sign: a days-only negative duration keeps it *)
Example C36_duration_literal :
  encode_literal (PDuration 0 (-3) 0) = Some (LDuration true 0 3 0) /\
  lit_value TDuration (LDuration true 0 3 0) = Some (VDuration 0 (-3) 0).
Proof. split; reflexivity. Qed.

(* A datetime is stored as its exact millisecond instant: naive = UTC wall clock, aware = wall clock minus the zone's
   offset AT THAT VALUE (any offset function: DST included).  Digits below one millisecond are dropped toward zero. *)
Theorem C36_datetime_exact_ms : forall (wall : Z) (tz : option (Z -> Z)),
  exists ms, to_database CDateTime (PDatetime wall tz) = Some (PInt ms) /\
             (forall k, wall - tz_off tz wall = 1000 * k -> ms = k) /\
             (0 <= wall - tz_off tz wall -> 1000 * ms <= wall - tz_off tz wall < 1000 * ms + 1000) /\
             (wall - tz_off tz wall <= 0 -> 1000 * ms - 1000 < wall - tz_off tz wall <= 1000 * ms).
Proof.
  intros wall tz. exists (datetime_to_db wall tz). split; [reflexivity|]. split.
  - intros k Hk. apply datetime_exact. exact Hk.
  - exact (datetime_bracket wall tz).
Qed.
Print Assumptions C36_datetime_exact_ms.

Theorem C36_datetime_naive_is_utc : forall wall k, wall = 1000 * k ->
  to_database CDateTime (PDatetime wall None) = Some (PInt k).
Proof. intros wall k H. cbn [to_database]. rewrite (datetime_exact wall None k); [reflexivity|]. cbn [tz_off]. rewrite H. apply Z.sub_0_r. Qed.
Print Assumptions C36_datetime_naive_is_utc.

(* OPEN finding C36-5 (core driver, cassandra/cqltypes.py DateType.serialize): the full statement "the core float
   expression sends the instant truncated toward zero, as cqlengine does, for EVERY datetime" is false far from the epoch;
   C36_same_value is the partial theorem (`valid` admits sub-millisecond datetimes only within 2^44 ms of the epoch). *)
Definition C36_full_statement : Prop := forall (wall : Z) (tz : option (Z -> Z)),
  core_datetime_ms_float wall tz = datetime_to_db wall tz.

(* 9000-01-01T00:00:00.000999 (naive): cqlengine sends 221845392000000, the core float path 221845392000001 *)
Theorem C36_core_float_refuted : ~ C36_full_statement.
Proof. intros H. specialize (H 221845392000000999 None). vm_compute in H. discriminate H. Qed.
Print Assumptions C36_core_float_refuted.

(* The statement the code BEFORE the repair had to meet, and its refutations (the witnesses are replayed on the real
   column by checks/C36.py from corpus/C36): float truncation, and the UTC offset taken at the 1970 epoch. *)
Definition C36_legacy_full_statement : Prop := forall (wall : Z) (tz : option (Z -> Z)) (k : Z),
  wall - tz_off tz wall = 1000 * k -> datetime_to_db_legacy wall tz = k.

Theorem C36_legacy_float_refuted : ~ C36_legacy_full_statement.
Proof. intros H. specialize (H 1001000 None 1001 eq_refl). vm_compute in H. discriminate H. Qed.
Print Assumptions C36_legacy_float_refuted.

(* 2020-07-01T12:00 in a zone that is +01:00 at the epoch and +02:00 (DST) at the value: one hour off *)
Theorem C36_legacy_dst_refuted :
  datetime_to_db_legacy 1593604800000000 (Some zone_dst) = 1593601200000 /\
  datetime_to_db 1593604800000000 (Some zone_dst) = 1593597600000 /\
  1593604800000000 - zone_dst 1593604800000000 = 1000 * 1593597600000.
Proof. vm_compute. repeat split; reflexivity. Qed.
Print Assumptions C36_legacy_dst_refuted.

Example C36_nonvacuous :
  let c := CMap CText (CList (CTuple [CDateTime; CDate; CBlob; CFloat])) in
  let v := PDict [(PStr [97; 98], PList [PTuple [PDatetime 1593604800123000 (Some zone_dst); PDatetime 86400000001 None;
                                                   PBytes [0; 255]; PInt 16777217]])] in
  valid c v = true /\ same_value c v = true /\
  to_database c v = Some (PDict [(PStr [97; 98], PList [PTuple [PInt 1593597600123; PInt 2147483649; PBytes [0; 255];
                                                                PFloat 4503599895805952 (-28)]])]).
Proof. vm_compute. repeat split; reflexivity. Qed.
