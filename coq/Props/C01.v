(* C01 -- every CQL value survives an encode/decode round trip.
   Model: Model/CqlCodec.v (to_binary/from_binary of cassandra/cqltypes.py, per type and protocol version), tied to
   the source by correspondence on every run (checks/C01.py); its marshal part equals the translated source (MarshalBridge.v).  Statement side: norm, wf_type, py_repr in
   Model/CassandraSpec.v.  All theorems hold for every protocol version pv : Z, every type tree, unbounded sizes. *)
From Coq Require Import ZArith List Bool.
From Verif Require Import PyBase MarshalModel Utf8Model CqlType CqlCodec CassandraSpecInt CassandraSpec C01_proofs.
Import ListNotations.
Local Open Scope Z_scope.

(* whatever the driver encodes for a (non-null) value decodes to the normal form of that value *)
Theorem C01_roundtrip : forall pv t v bs,
  wf_type t = true -> py_repr t v = true -> v <> VNull ->
  to_binary pv t v = Some bs -> from_binary pv t bs = Some (norm t v).
Proof. exact roundtrip_to_from. Qed.
Print Assumptions C01_roundtrip.

(* null elements of a list/set survive, in place (they are written with length -1, protocol v3+; v1/v2 refuse) *)
Theorem C01_null_elements : forall pv t vs bs,
  wf_type t = true -> forallb (py_repr t) vs = true ->
  to_binary pv (TList t) (VSeq vs) = Some bs ->
  exists ws, from_binary pv (TList t) bs = Some (VSeq ws) /\ length ws = length vs /\
             forall i, nth_error vs i = Some VNull -> nth_error ws i = Some VNull.
Proof. exact null_elements. Qed.
Print Assumptions C01_null_elements.

(* null fields of tuples and UDTs survive; a tuple written with fewer items comes back padded with nulls *)
Theorem C01_null_fields : forall pv t1 t2 v1 bs,
  wf_type (TTuple [t1; t2]) = true -> py_repr t1 v1 = true -> v1 <> VNull ->
  to_binary pv (TTuple [t1; t2]) (VSeq [v1]) = Some bs ->
  from_binary pv (TTuple [t1; t2]) bs = Some (VSeq [norm t1 v1; VNull]).
Proof. exact null_fields. Qed.
Print Assumptions C01_null_fields.

(* empty collections survive at every protocol version *)
Theorem C01_empty_collections : forall pv t k x,
  (exists bs, to_binary pv (TList t) (VSeq []) = Some bs /\ from_binary pv (TList t) bs = Some (VSeq [])) /\
  (exists bs, to_binary pv (TSet t) (VSeq []) = Some bs /\ from_binary pv (TSet t) bs = Some (VSeq [])) /\
  (exists bs, to_binary pv (TMap k x) (VMap []) = Some bs /\ from_binary pv (TMap k x) bs = Some (VMap [])).
Proof. exact empty_collections. Qed.
Print Assumptions C01_empty_collections.

(* a decoded map is readable through the Mapping API: the decoded key re-serializes (OrderedMapSerializedKey, inner
   protocol version) to exactly the bytes it arrived as -- for keys that are not null and not tuples written short *)
Theorem C01_map_keys_found : forall pv kt k kb,
  wf_type kt = true -> py_repr kt k = true -> k <> VNull -> norm kt k = k ->
  to_binary (inner pv) kt k = Some kb ->
  exists k', from_binary (inner pv) kt kb = Some k' /\ key_lookup_bytes pv kt k' = Some kb.
Proof. exact map_keys_found. Qed.
Print Assumptions C01_map_keys_found.

(* finding C01-3 (fixed): with the OUTER protocol version a list-typed key decoded at v2 is never found *)
Theorem C01_map_key_outer_version_refuted :
  to_binary (inner 2) (TList (TScalar SInt)) (VSeq [VInt 1; VInt 2]) = Some [0;0;0;2; 0;0;0;4;0;0;0;1; 0;0;0;4;0;0;0;2] /\
  key_lookup_bytes_outer 2 (TList (TScalar SInt)) (VSeq [VInt 1; VInt 2]) = Some [0;2; 0;4;0;0;0;1; 0;4;0;0;0;2] /\
  key_lookup_bytes 2 (TList (TScalar SInt)) (VSeq [VInt 1; VInt 2]) = Some [0;0;0;2; 0;0;0;4;0;0;0;1; 0;0;0;4;0;0;0;2].
Proof. repeat split; reflexivity. Qed.
Print Assumptions C01_map_key_outer_version_refuted.

(* finding C01-4 (open): without the two exclusions the statement fails -- a tuple key written with fewer items comes back
   padded and re-serializes to other bytes; a null key cannot be serialized at all (raises) *)
Definition C01_map_keys_full_statement : Prop :=
  forall pv kt k kb, wf_type kt = true -> py_repr kt k = true ->
    enc_elem (inner pv) (serialize (inner pv) kt) k = Some kb ->
    exists k' l, dec_elem (inner pv) (wrap_from (empty_ok kt) (deserialize (inner pv) kt)) (Some kb) = Some (k', Some []) /\
                 key_lookup_bytes pv kt k' = Some l /\ enc_elem (inner pv) (fun _ => Some l) k' = Some kb.
Theorem C01_map_keys_refuted : ~ C01_map_keys_full_statement.
Proof.
  intro H.
  destruct (H 4 (TTuple [TScalar SInt; TScalar SInt]) (VSeq [VInt 1]) [0;0;0;8; 0;0;0;4;0;0;0;1] eq_refl eq_refl eq_refl)
    as (k' & l & D & L & E).
  vm_compute in D. inversion D; subst k'. vm_compute in L. inversion L; subst l. vm_compute in E. discriminate.
Qed.
Print Assumptions C01_map_keys_refuted.

Theorem C01_map_null_key_refuted : key_lookup_bytes 4 (TScalar SText) VNull = None.
Proof. reflexivity. Qed.
Print Assumptions C01_map_null_key_refuted.

(* the side conditions are needed: without wf_type / py_repr the statement fails on the model (and on the driver:
   checks/C01.py counts these cases as 'outside_statement'): a Reversed/Frozen wrapper around text maps '' to None,
   an empty tuple value is written as b'' and read back as None *)
Definition C01_unrestricted_statement : Prop :=
  forall pv t v bs, v <> VNull -> to_binary pv t v = Some bs -> from_binary pv t bs = Some (norm t v).
Theorem C01_unrestricted_refuted : ~ C01_unrestricted_statement.
Proof.
  intro H. specialize (H 4 (TReversed (TScalar SText)) (VText []) [] ltac:(discriminate) eq_refl). discriminate.
Qed.
Print Assumptions C01_unrestricted_refuted.

Theorem C01_empty_tuple_refuted :
  from_binary 4 (TTuple [TScalar SInt; TScalar SInt]) [] = Some VNull /\
  to_binary 4 (TTuple [TScalar SInt; TScalar SInt]) (VSeq []) = Some [].
Proof. split; reflexivity. Qed.
Print Assumptions C01_empty_tuple_refuted.

(* hypotheses are satisfiable by a non-trivial nested value with nulls two levels deep, at v2 (16-bit outer lengths) *)
Example C01_nonvacuous :
  let t := TMap (TScalar SText) (TList (TTuple [TScalar SInt; TSet (TScalar SVarint); TScalar STimestamp])) in
  let v := VMap [(VText [104; 233; 128512], VSeq [VSeq [VNull; VSeq [VInt (-129); VNull]; VInt 170234527813096]; VNull; VSeq [VInt 7]])] in
  let bs := [0; 1; 0; 7; 104; 195; 169; 240; 159; 152; 128; 0; 58; 0; 0; 0; 3;
             0; 0; 0; 34; 255; 255; 255; 255; 0; 0; 0; 14; 0; 0; 0; 2; 0; 0; 0; 2; 255; 127; 255; 255; 255; 255;
             0; 0; 0; 8; 0; 0; 154; 211; 208; 143; 13; 232;
             255; 255; 255; 255;
             0; 0; 0; 8; 0; 0; 0; 4; 0; 0; 0; 7] in
  wf_type t = true /\ py_repr t v = true /\ v <> VNull /\
  to_binary 2 t v = Some bs /\ from_binary 2 t bs = Some (norm t v) /\
  norm t v = VMap [(VText [104; 233; 128512], VSeq [VSeq [VNull; VSeq [VInt (-129); VNull]; VInt 170234527813096]; VNull; VSeq [VInt 7; VNull; VNull]])].
Proof. cbv zeta. repeat split; try (vm_compute; reflexivity). discriminate. Qed.
