(* C43 -- schema agreement is reported only when all live nodes agree.
   Model: Model/SchemaAgreement.v (hand-written; tied to cassandra/cluster.py by the correspondence in checks/C43.py).
   A script `polls` is ANY finite list of polls (snapshot / timeout / shutdown, host states, durations); every theorem
   below quantifies over all of them, so "at poll k after any history" is "after any prefix `pre`".
   `wait c false None polls` = wait_for_schema_agreement on a live control connection without preloaded results;
   outcome `More k e` = the script ended while the loop was about to issue poll k at elapsed time e (it went on polling). *)
From Coq Require Import ZArith List Bool Lia.
From Verif Require Import SchemaAgreement C43_proofs.
Import ListNotations.
Local Open Scope Z_scope.

(* _get_schema_mismatches reports "no mismatch" exactly when the control node and the known peers not marked down
   report exactly one distinct non-empty version (DESIGN 4.0) *)
Theorem C43_mismatch_spec : forall h s, agreed h s = true <-> single_version h s.
Proof. exact agreed_spec. Qed.
Print Assumptions C43_mismatch_spec.

(* zero reported versions is not agreement *)
Theorem C43_zero_versions_disagree : forall h s, (forall v, ~ reported h s v) -> agreed h s = false.
Proof. exact agreed_zero_versions. Qed.
Print Assumptions C43_zero_versions_disagree.

(* returns True at poll k  <->  the versions at poll k form a single version *)
Theorem C43_verdict : forall c pre p rest k e, 0 < budget c ->
  snd (wait c false None pre) = More k e ->
  (snd (wait c false None (pre ++ p :: rest)) = Agreed k <->
   exists s, p_resp p = RSnap s /\ single_version (p_hosts p) s).
Proof. intros c pre p rest k e Hb. rewrite !wait_loop by exact Hb. apply verdict_at_poll. Qed.
Print Assumptions C43_verdict.

(* whenever True is returned, it is because of the snapshot of that very poll *)
Theorem C43_verdict_sound : forall c polls j, 0 < budget c -> snd (wait c false None polls) = Agreed j ->
  exists p s, nth_error polls j = Some p /\ p_resp p = RSnap s /\ single_version (p_hosts p) s.
Proof.
  intros c polls j Hb H. rewrite wait_loop in H by exact Hb.
  destruct (loop_Agreed_sound c polls 0%nat 0 j H) as [p [s Hps]]. rewrite Nat.sub_0_r in Hps. exists p, s. exact Hps.
Qed.
Print Assumptions C43_verdict_sound.

(* preloaded results are judged by the same rule *)
Theorem C43_preloaded_verdict : forall c h s polls, 0 < budget c ->
  (snd (wait c false (Some (h, s)) polls) = AgreedPreloaded <-> single_version h s).
Proof. exact preloaded_verdict. Qed.
Print Assumptions C43_preloaded_verdict.

(* while polls time out or disagree, the wait keeps polling until the budget has elapsed: it asks for another poll with
   elapsed < budget, or returns False with elapsed >= budget -- never True, never None, never an early False *)
Theorem C43_keeps_polling : forall c polls, 0 < budget c -> Forall inconclusive polls ->
  (exists k e, snd (wait c false None polls) = More k e /\ e < budget c) \/
  (exists e, snd (wait c false None polls) = Disagreed e /\ budget c <= e).
Proof. intros c polls Hb HF. rewrite wait_loop by exact Hb. apply keeps_polling. exact HF. Qed.
Print Assumptions C43_keeps_polling.

Theorem C43_false_only_after_budget : forall c polls e, 0 < budget c ->
  snd (wait c false None polls) = Disagreed e -> budget c <= e.
Proof. intros c polls e Hb H. rewrite wait_loop in H by exact Hb. exact (loop_Disagreed_budget _ _ _ _ _ H). Qed.
Print Assumptions C43_false_only_after_budget.

(* ... and it does not poll forever: budget-many polls (1 ms granularity) always suffice for a verdict *)
Theorem C43_terminates : forall c polls, 0 < budget c -> 0 < qtimeout c -> Forall (fun p => 0 <= p_dur p) polls ->
  budget c <= Z.of_nat (length polls) -> forall k e, snd (wait c false None polls) <> More k e.
Proof.
  intros c polls Hb Hq HF Hlen k e. rewrite wait_loop by exact Hb.
  apply loop_terminates; [exact Hq|exact HF|lia].
Qed.
Print Assumptions C43_terminates.

(* a schema-changing request's future records whether agreement was reached (any flags of the control connection,
   schema metadata enabled or not; Metadata.refresh not raising) *)
Theorem C43_future_records : forall e c polls, 0 < budget c -> cluster_shutdown e = false -> refresh_raises e = false ->
  (f_is_schema_agreed (schema_change_path e c polls) = true <->
   exists k, snd (wait c (cc_shutdown e) None polls) = Agreed k).
Proof. exact future_records. Qed.
Print Assumptions C43_future_records.

(* in EVERY environment (shutdown, refresh raising, ...) agreement is recorded only if it was reached *)
Theorem C43_future_never_overclaims : forall e c polls, 0 < budget c ->
  f_is_schema_agreed (schema_change_path e c polls) = true ->
  exists k, snd (wait c (cc_shutdown e) None polls) = Agreed k.
Proof. exact future_never_overclaims. Qed.
Print Assumptions C43_future_never_overclaims.

Theorem C43_future_completed : forall e c polls, f_final_set (schema_change_path e c polls) = true.
Proof. exact future_completed. Qed.
Print Assumptions C43_future_completed.

(* observers of the completed request (add_callback callbacks, result() waiters) see the recorded flag: it is assigned BEFORE
   the result is delivered *)
Theorem C43_future_at_delivery : forall e c polls,
  f_at_delivery (schema_change_path e c polls) = Some (f_is_schema_agreed (schema_change_path e c polls)).
Proof. exact future_at_delivery. Qed.
Print Assumptions C43_future_at_delivery.

(* peers(_v2) table rows: a row counts for the host known under (address, native_port); the default port is used only when the
   row has no positive native_port (peers v1) *)
Theorem C43_rows_counted_by_endpoint : forall d h local rows v,
  reported h (RSn d local rows) v <->
  local = Some (Some v) \/ exists a p, In (a, p, Some v) rows /\ counted h (row_endpoint d (a, p, Some v)) = true.
Proof. exact raw_reported. Qed.
Print Assumptions C43_rows_counted_by_endpoint.

Theorem C43_native_port_is_the_port : forall d a p v, 0 < p -> row_endpoint d (a, Some p, v) = (a, p).
Proof. exact row_endpoint_port. Qed.
Print Assumptions C43_native_port_is_the_port.

(* non-vacuity: a script with a disagreement, a timeout, a down peer that disagrees and an unknown peer that disagrees;
   agreement is reached at poll 2 with 1 s budget, and the future records it even with schema metadata disabled *)
Definition ex_hosts : hoststates := [((1, 9042), Up); ((2, 9043), Down); ((100, 9042), Unknown)].
Definition ex_polls : list poll :=
  [ Pl (RSnap (RSn 9042 (Some (Some 7)) [(1, None, Some 8); (2, Some 9043, Some 7)])) ex_hosts 10;
    Pl RTimeout ex_hosts 0;
    Pl (RSnap (RSn 9042 (Some (Some 8)) [(1, Some 9042, Some 8); (2, Some 9043, Some 7); (3, Some 9042, Some 9)])) ex_hosts 5 ].
Example C43_nonvacuous_run : wait (Build_cfg 1000 300) false None ex_polls =
  ([EQuery 300; ESleep 200; EQuery 300; EQuery 300], Agreed 2).
Proof. reflexivity. Qed.
Example C43_nonvacuous_prefix : snd (wait (Build_cfg 1000 300) false None (firstn 2 ex_polls)) = More 2 510.
Proof. reflexivity. Qed.
(* a lagging peer on a non-default native port is counted (and blocks agreement) exactly because it is matched by its own port *)
Example C43_nonvacuous_port :
  agreed [((1, 9043), Up)] (RSn 9042 (Some (Some 7)) [(1, Some 9043, Some 8)]) = false /\
  agreed [((1, 9043), Up)] (RSn 9042 (Some (Some 7)) [(1, None, Some 8)]) = true.
Proof. split; reflexivity. Qed.
Example C43_nonvacuous_future :
  f_is_schema_agreed (schema_change_path (Build_env false false false false) (Build_cfg 1000 300) ex_polls) = true.
Proof. reflexivity. Qed.
Example C43_nonvacuous_disagree :
  snd (wait (Build_cfg 500 300) false None (repeat (Pl (RSnap (RSn 9042 (Some (Some 7)) [(1, None, Some 8)])) ex_hosts 0) 5)) = Disagreed 600.
Proof. reflexivity. Qed.
