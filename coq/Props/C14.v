(* C14 -- every request completes exactly once (cassandra/cluster.py, class ResponseFuture).
   Model: Model/FutureOnce.v (one op = one call into the real class; tied to the source by correspondence, checks/C14.py).
   `run g pf (init c) h` is the state after history h; g = true is the code WITH the first-wins guard in
   _set_final_result/_set_final_exception (the repaired driver), g = false the code without it. *)
From Coq Require Import ZArith List Bool Lia.
From Verif Require Import FutureState FutureOnce C14_proofs FutureCbLock C14_lock_proofs C14_own_proofs.
Import ListNotations.
Local Open Scope Z_scope.

(* The statement, for every configuration (plan, timeout, speculative delays, pools) and every history of
   sends, responses of every kind on any attempt, retry decisions, timer fires, executor runs, page fetches, callback
   registrations, pool changes and clock ticks, in any order and of any length:
   - every registered (callback, errback) pair was invoked at most once in total for the current page fetch -- so never
     twice and never both --, and result() reports exactly the value it was invoked with;
   - once every request sent has been answered or has failed (no retry is waiting in the executor, no pool still owes the
     report of its internal USE after a SET_KEYSPACE answer), or the timeout handler has run, the outcome exists and every registered pair has been invoked exactly once. *)
Definition C14_statement (g pf : bool) : Prop :=
  forall (c : config) (h : list op),
    let s := run g pf (init c) h in
    (forall p, In p (pairs s) ->
       (length (cbs p) + length (ebs p) <= 1)%nat
       /\ (forall v, In v (cbs p) -> result_call s = Some (0, v))
       /\ (forall e, In e (ebs p) -> result_call s = Some (1, e)))
    /\ (all_answered s = true \/ tfired s = true ->
        event s = true /\ final_set s = true
        /\ forall p, In p (pairs s) -> (length (cbs p) + length (ebs p) = 1)%nat).

(* the repaired code: holds in full, whichever way start_fetching_next_page treats its timer *)
Theorem C14_exactly_once : forall pf, C14_statement true pf.
Proof.
  intros pf c h s. destruct (C14_guarded pf c h) as (H1 & H2). fold s in H1, H2. split.
  - intros p Hin. destruct (H1 p Hin) as (Ha & Hb). apply pair_once_spec in Ha. apply pair_reports_spec in Hb. tauto.
  - intros Hq. apply delivered_spec, H2, Hq.
Qed.
Print Assumptions C14_exactly_once.

(* the executable twin used by the check on recorded histories agrees with the statement *)
Theorem C14_check_sound : forall pf c h, c14_ok (run true pf (init c) h) = true.
Proof. intros. apply c14_ok_iff, C14_guarded. Qed.
Print Assumptions C14_check_sound.

(* ---- without the guard the statement fails: two witnesses, each replayed on the real class by checks/C14.py *)
Definition w_cfg := mkConfig [1; 2; 3] (Some 1000) [100] [(1, POk); (2, POk); (3, POk)] 0.
(* two speculative executions both answer: callbacks run twice *)
Definition w_spec := [AddCb; Send; Tick 100; Fire 0; Resp 0 (RRows false); Resp 1 (RRows false)].
(* the client timeout fires, then the first attempt answers: errback and callback both run *)
Definition w_late := [AddCb; Send; Tick 100; Fire 0; Tick 900; Fire 1; Resp 0 (RRows false)].
(* a configuration without speculative executions *)
Definition w_cfg1 := mkConfig [1; 2; 3] (Some 1000) [] [(1, POk); (2, POk); (3, POk)] 0.

Theorem C14_without_guard_refuted : forall pf, ~ C14_statement false pf.
Proof.
  intros pf H. destruct (H w_cfg w_spec) as (H1 & _).
  assert (Hin : In (mkPair [10; 11] []) (pairs (run false pf (init w_cfg) w_spec))) by (destruct pf; vm_compute; left; reflexivity).
  destruct (H1 _ Hin) as (Hle & _). cbn in Hle. lia.
Qed.
Print Assumptions C14_without_guard_refuted.

Example C14_witness_spec : pairs (run false true (init w_cfg) w_spec) = [mkPair [10; 11] []]
                           /\ pairs (run true true (init w_cfg) w_spec) = [mkPair [10] []].
Proof. split; vm_compute; reflexivity. Qed.
Example C14_witness_late : pairs (run false true (init w_cfg) w_late) = [mkPair [10] [1]]
                           /\ pairs (run true true (init w_cfg) w_late) = [mkPair [] [1]].
Proof. split; vm_compute; reflexivity. Qed.
(* non-vacuity: a history with two attempts in flight and a registered pair reaches "everything answered",
   with the outcome delivered exactly once and reported by result() *)
Example C14_nonvacuous :
  let s := run true true (init w_cfg) (w_spec ++ [Result]) in
  all_answered s = true /\ pairs s = [mkPair [10] []] /\ results s = [(0, 10)] /\ length (attempts s) = 2%nat.
Proof. vm_compute. repeat split. Qed.

(* USE statement: the SET_KEYSPACE answer starts Session._set_keyspace_for_all_pools; the outcome is delivered by the LAST pool
   report, also when that report carries the error *)
Example C14_use_statement :
  let h := [AddCb; Send; Resp 0 RSetKs; KsReport 0 2 false; KsReport 0 3 false] in
  all_answered (run true true (init w_cfg1) h) = false
  /\ pairs (run true true (init w_cfg1) (h ++ [KsReport 0 1 true])) = [mkPair [] [4]]
  /\ all_answered (run true true (init w_cfg1) (h ++ [KsReport 0 1 true])) = true
  /\ pairs (run true true (init w_cfg1) (h ++ [KsReport 0 1 false])) = [mkPair [1] []].
Proof. vm_compute. repeat split. Qed.

(* ---- two threads inside the calls: the _callback_lock protocol (Model/FutureCbLock.v, one op = one lock region of
   _set_final_result / add_callback; any number of completing threads, any interleaving, any length) *)
Theorem C14_lock_protocol : forall h : list lop,
  let s := lrun true h in
  (lruns s <= 1)%nat                                                     (* the callback never runs twice *)
  /\ (lfinal s = true -> lpc s = ADone -> lpend s = 0%nat -> lruns s = 1%nat) (* registered, completed, all threads done: exactly once *)
  /\ (lfinal s = false -> lruns s = 0%nat).                               (* never before the outcome exists *)
Proof. exact lock_protocol_once. Qed.
Print Assumptions C14_lock_protocol.

(* deciding run_now after the lock was released: the completion may take its snapshot and run it in between *)
Theorem C14_check_outside_lock_refuted : exists h, lruns (lrun false h) = 2%nat.
Proof. exists [AddLocked; Claim; RunSnap; AddFinish]. reflexivity. Qed.
Print Assumptions C14_check_outside_lock_refuted.

(* the session is shut down before the answer is processed: the executor refuses the retry / the schema refresh; the outcome is
   delivered all the same (ConnectionShutdown, resp. the result of the schema-changing statement) *)
Example C14_shutdown_before_answer :
  pairs (run true true (init w_cfg1) [AddCb; Send; Shutdown; Resp 0 (RRetry DRetryNext)]) = [mkPair [] [5]]
  /\ all_answered (run true true (init w_cfg1) [AddCb; Send; Shutdown; Resp 0 (RRetry DRetryNext)]) = true
  /\ pairs (run true true (init w_cfg1) [AddCb; Send; Shutdown; Resp 0 RSchema]) = [mkPair [1] []]
  /\ all_answered (run true true (init w_cfg1) [AddCb; Send; Resp 0 RSchema]) = false
  /\ pairs (run true true (init w_cfg1) [AddCb; Send; Resp 0 RSchema; RunRefresh 0]) = [mkPair [1] []].
Proof. vm_compute. repeat split. Qed.

(* ---- other statements on the same connection (stream ids are recycled): whatever (_connection, _req_id) name is a request this
   future sent itself on that connection, and it stops naming it once the answer is processed (clear_req) or the send was refused
   (query_gen, PSendFail).  So _on_timeout, which unregisters and orphans that stream, never touches another statement's request. *)
Theorem C14_points_at_own_request : forall g pf c h r,
  cur_req (run g pf (init c) h) = Some r ->
  exists host, nth_error (map ahost (attempts (run g pf (init c) h))) r = Some host /\ cur_conn (run g pf (init c) h) = Some host.
Proof. intros g pf c h. apply Own_run, Own_init. Qed.
Print Assumptions C14_points_at_own_request.

(* re-prepare: UNPREPARED -> _reprepare on the executor -> PREPARE -> its answer -> _execute_after_prepare -> re-execute;
   a session shut down while the PREPARE is in flight fails the future instead of dropping the hand-off *)
Example C14_reprepare :
  let h := [AddCb; Send; Resp 0 RUnprepared; Run 0] in
  all_answered (run true true (init w_cfg1) h) = false
  /\ pairs (run true true (init w_cfg1) (h ++ [PResp 1 PPrepared; Run 0; Resp 2 (RRows false)])) = [mkPair [12] []]
  /\ pairs (run true true (init w_cfg1) (h ++ [Shutdown; PResp 1 PPrepared])) = [mkPair [] [5]]
  /\ pairs (run true true (init w_cfg1) (h ++ [PResp 1 PMismatch; Run 0])) = [mkPair [] [6]].
Proof. vm_compute. repeat split. Qed.
