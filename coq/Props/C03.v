(* C03 -- work in progress *)
From Coq Require Import ZArith List Bool.
From Verif Require Import PyBase ReqPV ReqConsts ReqWire Request ProtocolSpec ReqCanon.
Import ListNotations.
Local Open Scope Z_scope.

Theorem C03_placeholder : True.
Proof. exact I. Qed.
Print Assumptions C03_placeholder.
