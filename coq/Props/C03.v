(* C03 -- request frames conform to the native protocol specification.
   Model/Request.v   : driver-shaped encoder (send_body methods, encode_message), tied to the source by correspondence;
                       ProtocolVersion predicates and flag/opcode constants are regenerated from source (Gen/ReqPV, Gen/ReqConsts).
   Model/ProtocolSpec.v : independent parser of request frames written from the protocol specifications.
   Model/ReqCanon.v  : canon (requested fields in the specification's terms), session_ok (DESIGN 4.0 reading),
                       carries_unsupported (second sentence of the property). *)
From Coq Require Import ZArith List Bool.
From Verif Require Import PyBase ReqPV ReqConsts ReqWire Request ProtocolSpec ReqCanon C03_proofs.
Import ListNotations.
Local Open Scope Z_scope.

(* Every frame the encoder produces -- any supported version, any request kind the session layer can build, any
   option combination, any field values of any size, tracing / beta / custom payload / any compressor that has a
   left inverse -- is read back by the specification parser as exactly the requested fields. *)
Theorem C03_wellformed :
  forall (compressor : option (bytes -> bytes)) (decompress : list Z -> option (list Z)),
  (forall c x, compressor = Some c -> decompress (c x) = Some x) ->
  forall pv e r bs, supported pv = true -> session_ok pv r = true ->
  encode_message pv compressor e r = Some bs ->
  spec_parse decompress bs = Some (canon pv (is_some compressor) e r (body_nonempty e r)).
Proof. intros c d Hd pv e r bs Hs Hok H. exact (proj2 (frame_wellformed c d Hd pv e r bs Hs Hok H)). Qed.
Print Assumptions C03_wellformed.

(* ... and it is one well-formed frame: a header of the version's size whose length field equals the body length *)
Theorem C03_header_length :
  forall (compressor : option (bytes -> bytes)) (decompress : list Z -> option (list Z)),
  (forall c x, compressor = Some c -> decompress (c x) = Some x) ->
  forall pv e r bs, supported pv = true -> session_ok pv r = true ->
  encode_message pv compressor e r = Some bs ->
  exists h body, p_header bs = Some (h, body) /\ h_length h = Z.of_nat (length body) /\ h_version h = pv
                 /\ h_opcode h = opcode r /\ length bs = (header_size pv + length body)%nat.
Proof. intros c d Hd pv e r bs Hs Hok H. exact (proj1 (frame_wellformed c d Hd pv e r bs Hs Hok H)). Qed.
Print Assumptions C03_header_length.

(* A per-request keyspace, a custom payload, continuous paging, (v1) serial consistency or paging, (v2 BATCH) serial
   consistency or timestamp on a version that cannot carry it: rejected -- for EVERY request, hand-constructed included. *)
Theorem C03_rejects : forall pv compressor e r, supported pv = true -> carries_unsupported pv e r = true ->
  encode_message pv compressor e r = None.
Proof. exact frame_rejects. Qed.
Print Assumptions C03_rejects.

(* each request body alone, followed by arbitrary bytes (the parser consumes exactly the body) *)
Theorem C03_body_roundtrip : forall pv r bs rest, supported pv = true -> session_ok pv r = true ->
  send_body pv r = Some bs -> p_body pv (opcode r) (bs ++ rest) = Some (canon_request pv r, rest).
Proof. exact rt_body. Qed.
Print Assumptions C03_body_roundtrip.

(* session_ok is needed: message objects the session layer cannot build (UNSET_VALUE below v4, where BoundStatement.bind
   refuses it; a client timestamp on v2) are encoded into frames that do not read back.  Evidence only (DESIGN 4.0). *)
Definition C03_all_messages_statement : Prop :=
  forall pv e r bs, supported pv = true -> encode_message pv None e r = Some bs ->
  spec_parse (fun b => Some b) bs = Some (canon pv false e r (body_nonempty e r)).
Definition hand_made_execute : request :=
  Execute [1] None {| q_params := Some [VUnset]; q_cl := 1; q_serial := None; q_fetch := None; q_paging_state := None;
                      q_timestamp := None; q_skip_meta := false; q_cpo := None; q_keyspace := None |}.
Definition plain : envelope := {| e_tracing := false; e_payload := []; e_beta := false; e_stream := 0 |}.
Theorem C03_hand_constructed_refuted : ~ C03_all_messages_statement.
Proof.
  intro H. specialize (H 3 plain hand_made_execute _ eq_refl eq_refl). vm_compute in H. discriminate H.
Qed.
Print Assumptions C03_hand_constructed_refuted.

(* non-vacuity: a v4 EXECUTE with values (null, unset, bytes), page size, paging state, serial consistency, timestamp,
   tracing and a custom payload is session-buildable, is encoded, and the theorem's conclusion holds on it *)
Definition ex_msg : qmsg :=
  {| q_params := Some [VNull; VUnset; VBytes [1; 2; 3]]; q_cl := 4; q_serial := Some 8; q_fetch := Some 5000;
     q_paging_state := Some [9; 9]; q_timestamp := Some (-5); q_skip_meta := true; q_cpo := None; q_keyspace := None |}.
Definition ex_env : envelope := {| e_tracing := true; e_payload := [([107], Some [7]); ([108], None)]; e_beta := false; e_stream := 300 |}.
Example C03_nonvacuous :
  supported 4 = true /\ session_ok 4 (Execute [171; 205] None ex_msg) = true /\
  exists bs, encode_message 4 None ex_env (Execute [171; 205] None ex_msg) = Some bs /\ length bs = 70%nat /\
             spec_parse (fun b => Some b) bs = Some (canon 4 false ex_env (Execute [171; 205] None ex_msg) true).
Proof. split; [reflexivity|]. split; [reflexivity|]. eexists. split; [vm_compute; reflexivity|]. split; vm_compute; reflexivity. Qed.

Example C03_nonvacuous_rejects :
  carries_unsupported 4 plain (Prepare [97] (Some [])) = true /\ carries_unsupported 2 plain (Batch 0 [] 1 (Some 8) None None) = true
  /\ carries_unsupported 1 plain (Execute [1] None {| q_params := Some []; q_cl := 1; q_serial := None; q_fetch := None;
       q_paging_state := None; q_timestamp := None; q_skip_meta := false;
       q_cpo := Some {| cp_unit_bytes := false; cp_max_pages := 1; cp_pps := 0; cp_queue := 4 |}; q_keyspace := None |}) = true.
Proof. repeat split. Qed.
