(* C28 -- type descriptors round-trip between Cassandra and CQL notation.
   Model: Model/TypeDesc.v (hand-written, tied to cassandra/cqltypes.py by correspondence, checks/C28.py).
   spec_cass_print / spec_cql_name are the oracle (Cassandra's AbstractType.toString and CQL names);
   cass_parse / drv_cql / cls_codec model lookup_casstype, cql_parameterized_type and the codec structure of the class. *)
From Coq Require Import List Bool Ascii String NArith.
From Verif Require Import TypeDesc C28_proofs.
Import ListNotations.

(* the first clause of the statement, as written *)
Definition C28_full_statement : Prop :=
  forall t, wf t = true ->
  exists c, cass_parse (spec_cass_print t) = POk c /\ drv_cql c = Some (spec_cql_name t) /\ cls_codec c = Some (codec t).

(* it fails on vectors: the parsed class prints the Java class name (open finding C28-1) *)
Theorem C28_cass_parse_refuted : ~ C28_full_statement.
Proof.
  intros H. destruct (H (TVector (TSimple SFloat) (lit "3")) eq_refl) as [c [H1 [H2 _]]].
  vm_compute in H1. inversion H1; subst. vm_compute in H2. discriminate.
Qed.
Print Assumptions C28_cass_parse_refuted.

(* every well-formed tree without vectors, of any depth: same CQL name, same codec *)
Theorem C28_cass_parse_partial : forall t, wf t = true -> vector_free t = true ->
  exists c, cass_parse (spec_cass_print t) = POk c /\ drv_cql c = Some (spec_cql_name t) /\ cls_codec c = Some (codec t).
Proof.
  intros t Hwf Hv. exists (parsed t). split; [apply cass_parse_spec; assumption|]. split; [|apply parsed_codec].
  rewrite parsed_cql. unfold drv_name, spec_cql_name. f_equal. apply vector_free_name. assumption.
Qed.
Print Assumptions C28_cass_parse_partial.

(* every well-formed tree, vectors included: the descriptor parses, the codec is the type's, and the CQL name is the
   specified one except that vectors are written with the marshal class name *)
Theorem C28_cass_parse_codec : forall t, wf t = true ->
  exists c, cass_parse (spec_cass_print t) = POk c /\ cls_codec c = Some (codec t)
            /\ drv_cql c = Some (cql_name_gen vector_class_name comma_sp true t).
Proof.
  intros t Hwf. exists (parsed t). split; [apply cass_parse_spec; assumption|]. split; [apply parsed_codec|apply parsed_cql].
Qed.
Print Assumptions C28_cass_parse_codec.

(* "same value codec", behaviourally: at every protocol version, serialising / deserialising with the parsed class ends, through
   its top-level FrozenType / ReversedType wrappers, at the class of the unwrapped type, called with the SAME protocol version,
   and that class has the codec structure of the type; serial_size() is answered by the same class *)
Theorem C28_codec_route : forall t des pv, wf t = true ->
  exists c c', cass_parse (spec_cass_print t) = POk c /\ route des c pv = (c', pv) /\ size_route c = c' /\
               route des c' pv = (c', pv) /\ cls_codec c' = Some (codec t).
Proof.
  intros t des pv Hwf. exists (parsed t), (parsed (unwrap t)).
  split; [apply cass_parse_spec; assumption|]. split; [apply route_parsed|]. split; [apply size_route_parsed|]. split.
  - rewrite route_parsed. f_equal. f_equal. clear. induction t using ty_ind2; simpl; auto.
  - rewrite parsed_codec. f_equal. apply codec_unwrap.
Qed.
Print Assumptions C28_codec_route.

(* second clause, from the parsed hierarchy on: printing the python list that a type's CQL name denotes gives back the
   canonical CQL name (", " separators), with or without frozen markers.  The string -> list direction (re.Scanner +
   ast.literal_eval) is tied by correspondence only. *)
Theorem C28_cql_roundtrip_print : forall fz t,
  python_to_cqltype (to_py fz t) = cql_name_gen (lit "vector") comma_sp fz t.
Proof. exact print_to_py. Qed.
Print Assumptions C28_cql_roundtrip_print.

(* third clause: _strip_frozen_from_python removes exactly the frozen markers, at every depth: the result is the hierarchy
   of the same type printed without markers, and printing it gives the marker-free name *)
Theorem C28_strip_frozen : forall t, wf_cql t = true ->
  strip_frozen_from_python (to_py true t) = Some (to_py false t) /\
  python_to_cqltype (to_py false t) = cql_name_gen (lit "vector") comma_sp false t.
Proof. intros t H. split; [apply strip_to_py; assumption|apply print_to_py]. Qed.
Print Assumptions C28_strip_frozen.

(* second clause, end to end: for every printed CQL type string (separators "," or ", "; UDT names plain words or double-quoted
   identifiers with any content free of quote / backslash / newline, several of them in one string), cqltype_to_python
   (scanner with the non-greedy quoted token + literal_eval) yields the type's hierarchy and printing it back gives the
   canonical string: the identity for canonical strings, the same string up to the blank after commas otherwise *)
Theorem C28_cql_roundtrip : forall sep fz t, sep_ok sep -> wf_cql t = true ->
  cqltype_to_python (cql_name_gen (lit "vector") sep fz t) = Some (to_py fz t) /\
  option_map python_to_cqltype (cqltype_to_python (cql_name_gen (lit "vector") sep fz t))
  = Some (cql_name_gen (lit "vector") comma_sp fz t).
Proof.
  intros sep fz t Hs Hw. split; [apply parse_cql_name; assumption|].
  rewrite parse_cql_name by assumption. simpl. rewrite print_to_py. reflexivity.
Qed.
Print Assumptions C28_cql_roundtrip.

(* third clause on strings: strip_frozen of a printed name is the same name without any frozen marker *)
Theorem C28_strip_frozen_string : forall sep t, sep_ok sep -> wf_cql t = true ->
  strip_frozen (cql_name_gen (lit "vector") sep true t) = Some (cql_name_gen (lit "vector") comma_sp false t).
Proof. exact strip_frozen_name. Qed.
Print Assumptions C28_strip_frozen_string.

Example C28_nonvacuous_nested_frozen :
  let t := TMap (TFrozen (TFrozen (TList (TSimple SInt)))) (TFrozen (TTuple [TFrozen (TUdt (lit "ks") (lit "u") [] [])])) in
  wf_cql t = true /\
  show (cql_name_gen (lit "vector") comma_sp true t) = "map<frozen<frozen<list<int>>>, frozen<frozen<tuple<frozen<frozen<u>>>>>>"%string /\
  option_map show (strip_frozen (cql_name_gen (lit "vector") comma_sp true t)) = Some "map<list<int>, tuple<u>>"%string /\
  route true (CApp (lit "ReversedType") [CApp (lit "FrozenType") [CApp (lit "ListType") [CReg (lit "Int32Type")] [None]] [None]] [None]) 2%N
    = (CApp (lit "ListType") [CReg (lit "Int32Type")] [None], 2%N).
Proof. vm_compute. repeat split; reflexivity. Qed.

Example C28_nonvacuous_quoted :
  let u n := TUdt (lit "ks") n [] [] in
  let t := TTuple [u (lit """A b"""); TFrozen (TList (TSimple SInt)); u (lit """C, d<>"""); u (lit "plain")] in
  wf_cql t = true /\ sep_ok comma_sp /\
  show (cql_name_gen (lit "vector") comma_sp true t)
    = "frozen<tuple<frozen<""A b"">, frozen<list<int>>, frozen<""C, d<>"">, frozen<plain>>>"%string /\
  option_map show (strip_frozen (cql_name_gen (lit "vector") comma_sp true t))
    = Some "tuple<""A b"", list<int>, ""C, d<>"", plain>"%string.
Proof. vm_compute. repeat split; try reflexivity. right. reflexivity. Qed.

Example C28_nonvacuous :
  let t := TMap (TSimple SInt) (TFrozen (TList (TUdt (lit "ks") (lit "abcd") [lit "f1"; lit "g"]
                                                [TSimple SText; TReversed (TTuple [TSimple SFloat; TSet (TSimple SUuid)])]))) in
  wf t = true /\ vector_free t = true /\
  show (spec_cql_name t) = "map<int, frozen<list<frozen<abcd>>>>"%string /\
  c28_check_cass t = true /\ wf_cql t = true /\
  cqltype_to_python (spec_cql_name t) = Some (to_py true t) /\
  option_map show (strip_frozen (spec_cql_name t)) = Some "map<int, list<abcd>>"%string.
Proof. vm_compute. repeat split; reflexivity. Qed.
