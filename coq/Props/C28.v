(* C28 -- placeholder while the model is being validated *)
From Coq Require Import List Ascii String NArith.
From Verif Require Import TypeDesc.
Import ListNotations.

Theorem C28_placeholder : c28_check_cass (TList (TSimple SInt)) = true.
Proof. vm_compute. reflexivity. Qed.
Print Assumptions C28_placeholder.
