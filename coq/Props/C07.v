(* C07 -- compiled extensions behave exactly like the pure-Python driver (proof part: the C murmur3 extension).
   Model/Murmur3C.v = cmurmur3.c with C semantics; Gen/Murmur3Gen.v = cassandra/murmur3.py regenerated from source. *)
From Coq Require Import ZArith List.
From Verif Require Import PyBase ByteWords Murmur3Spec Murmur3C Murmur3Gen C07_proofs.
Import ListNotations.
Local Open Scope Z_scope.

(* the C extension's algorithm equals Cassandra's hash (as a signed long) for EVERY key ... *)
Theorem C07_murmur3_c_eq_spec : forall key, murmur3_c key = murmur3_long key.
Proof. exact murmur3_c_correct. Qed.
Print Assumptions C07_murmur3_c_eq_spec.

(* ... hence returns the same token as the pure-Python implementation for every key *)
Theorem C07_murmur3_c_eq_py : forall key, Forall is_byte key -> murmur3_py key = Ok (murmur3_c key).
Proof. exact murmur3_c_eq_py. Qed.
Print Assumptions C07_murmur3_c_eq_py.

Example C07_nonvacuous : murmur3_c [1;2;3;200;250;6;7;8;9;10;11;12;13;14;15;16;17;255;128] = 5339654602748896185.
Proof. vm_compute. reflexivity. Qed.
