(* C10 -- a failed connection fails every pending request exactly once.  Model: Model/Conn.v (defunct = DefunctFlag; Close;
   ErrCp; ErrSwap; ErrCall..., close() = Close; ErrSwap; ErrCall...), every callback invocation is an event of the log. *)
From Coq Require Import ZArith List Bool Lia.
From Verif Require Import Conn Conn_lemmas Conn_inv.
Import ListNotations.
Local Open Scope Z_scope.

(* in ANY state: once defunct or closed, send_msg's tests refuse the request (ConnectionShutdown), nothing is registered *)
Theorem C10_send_refused : forall s i, (defunct s = true \/ closed s = true) -> lookup i (ghost s) = Some THeld ->
  let s' := step s (SendCheck i) in reqs s' = reqs s /\ log s' = ERefused i :: log s /\ lookup i (ghost s') = Some TLost.
Proof.
  intros s i D L. unfold step. rewrite L. unfold send_verdict.
  assert (V : (if defunct s then 1 else if closed s then 1 else if negb (writable s) then 2 else 0) = 1).
  { destruct D as [D|D]; rewrite D; [reflexivity|]. destruct (defunct s); reflexivity. }
  rewrite V. proj. cbn [lookup]. rewrite Z.eqb_refl. repeat split; reflexivity.
Qed.
Print Assumptions C10_send_refused.

(* in ANY state: error_all_requests' locked swap leaves nothing registered, so no later response can be delivered to a
   request that was outstanding at the failure (process_msg's pop finds nothing) *)
Theorem C10_swap_empties : forall s, reqs (step s ErrSwap) = [] /\ zlen (erroring (step s ErrSwap)) = zlen (erroring s) + zlen (reqs s).
Proof.
  intros s. unfold step, err_swap. proj. split; [reflexivity|]. rewrite zlen_app.
  destruct (reqs s) as [|[k v] r]; [reflexivity|]. unfold zlen. cbn [length]. rewrite rev_length, map_length. lia.
Qed.
Print Assumptions C10_swap_empties.

Theorem C10_no_late_delivery : forall s i j r d, reqs s = [] -> cur s = Some (j, r, PBegun) -> log (step s (RecvPop i d)) = log s.
Proof.
  intros s i j r d R C. unfold step. rewrite C. destruct (negb (i =? j)); [reflexivity|]. rewrite R. cbn [lookup].
  destruct (lookup i (ghost s)) as [[]|]; cbn [unit_tag Z.eqb Pos.eqb]; proj; reflexivity.
Qed.
Print Assumptions C10_no_late_delivery.


(* the asyncio reactor defers the second half of close() to the loop thread (op CloseRun = `if not self.is_defunct:
   error_all_requests`).  A failure reported between close() and the deferred half finds the connection closed: defunct()
   returns without setting is_defunct (DefunctFlag is a no-op), so the deferred half still fails every pending request. *)
Theorem C10_deferred_close_then_failure : forall s, defunct s = false ->
  let s' := run s [Close; DefunctFlag; CloseRun] in
  closed s' = true /\ defunct s' = false /\ reqs s' = [] /\ zlen (erroring s') = zlen (erroring s) + zlen (reqs s).
Proof.
  intros s D. unfold run. cbn [fold_left].
  assert (C1 : closed (step s Close) = true /\ defunct (step s Close) = false /\ reqs (step s Close) = reqs s /\ erroring (step s Close) = erroring s).
  { unfold step. destruct (closed s) eqn:C; proj; auto. }
  destruct C1 as [A [B [R E]]]. set (s1 := step s Close) in *.
  assert (S2 : step s1 DefunctFlag = s1) by (unfold step; rewrite A, B; reflexivity).
  rewrite S2. assert (S3 : step s1 CloseRun = err_swap s1) by (unfold step; rewrite B; reflexivity). rewrite S3.
  destruct (C10_swap_empties s1) as [X Y]. unfold step in X, Y.
  assert (F : closed (err_swap s1) = closed s1 /\ defunct (err_swap s1) = defunct s1) by (unfold err_swap; proj; split; reflexivity).
  destruct F as [F1 F2].
  split; [rewrite F1; exact A|]. split; [rewrite F2; exact B|]. split; [exact X|]. rewrite Y, R, E. reflexivity.
Qed.
Print Assumptions C10_deferred_close_then_failure.

(* paging sessions are told about the failure whether or not an ordinary request is registered *)
Theorem C10_sessions_errored_without_requests : forall s i se rel, reqs s = [] -> In (i, (se, rel)) (cps s) ->
  In (ECpError se) (log (step s ErrCp)).
Proof.
  intros s i se rel _ I. unfold step.
  assert (X : forall (l : list (Z * (Z * bool))) base, In (i, (se, rel)) l ->
              In (ECpError se) (log (fold_right (fun c acc => ev (ECpError (fst (snd c))) acc) base l))).
  { induction l as [|c l IH]; intros base J; [destruct J|]. cbn [fold_right]. proj.
    destruct J as [->|J]; [left; reflexivity|right; exact (IH base J)]. }
  apply X. exact I.
Qed.
Print Assumptions C10_sessions_errored_without_requests.

(* each ErrCall invokes exactly the next queued callback, once, with ConnectionShutdown *)
Theorem C10_errcall_once : forall s cb rest, erroring s = cb :: rest ->
  erroring (step s ErrCall) = rest /\ log (step s ErrCall) = ECbShutdown cb :: log s.
Proof. intros s cb rest E. unfold step. rewrite E. proj. split; reflexivity. Qed.
Print Assumptions C10_errcall_once.

(* failure injected after three sends, a response and a timeout, with a paging session alive: every outstanding callback exactly once *)
Definition pre : list op :=
  [Borrow; SendCheck 0; SendReg 0 7; Borrow; SendCheck 1; SendReg 1 8; Borrow; SendCheck 2; SendReg 2 9;
   RecvBegin 0; RecvPop 0 DOk; CpNew 100; ReturnConn; RecvEnd].
Theorem C10_exactly_once_instance :
  let s := run (init 4 4 2) (pre ++ [DefunctFlag; Close; ErrCp; ErrSwap; ErrCall; ErrCall; ErrCall; RecvBegin 1; RecvPop 1 DOk]) in
  invoked 8 (log s) = 1 /\ shutdowns 8 (log s) = 1 /\ invoked 9 (log s) = 1 /\ shutdowns 9 (log s) = 1 /\ invoked 7 (log s) = 1
  /\ shutdowns 7 (log s) = 0 /\ In (ECpError 100) (log s) /\ reqs s = [] /\ erroring s = [].
Proof. vm_compute. repeat split. right. right. left. reflexivity. Qed.
Print Assumptions C10_exactly_once_instance.

(* ---- full statement: after the failure procedure has completed, nothing stays registered and every paging session was
   errored.  Both parts are false in the faithful model. ---- *)
Definition failure_done (s : state) : Prop := (defunct s = true \/ closed s = true) /\ erroring s = [] /\ cur s = None.
Definition C10_full_statement : Prop := forall ops,
  let s := run (init 4 4 2) ops in failure_done s -> In ErrSwap ops ->
  reqs s = [] /\ (forall c, In c (cps s) -> In (ECpError (fst (snd c))) (log s)).

(* send_msg's flag tests and its registration are not atomic: a failure in between leaves the request registered on a dead
   connection; it is never errored (finding C10-1) *)
Theorem C10_send_race_refuted : ~ C10_full_statement.
Proof.
  intros F. specialize (F [Borrow; SendCheck 0; DefunctFlag; Close; ErrCp; ErrSwap; SendReg 0 7]).
  cbv zeta in F. assert (X : failure_done (run (init 4 4 2) [Borrow; SendCheck 0; DefunctFlag; Close; ErrCp; ErrSwap; SendReg 0 7])).
  { vm_compute. repeat split; auto. }
  specialize (F X ltac:(cbn; tauto)). destruct F as [R _]. vm_compute in R. discriminate R.
Qed.
Print Assumptions C10_send_race_refuted.

(* an explicit close() (every reactor: is_closed under the lock, then error_all_requests) never errors the paging sessions
   (finding C10-2): the session created in `pre` is still un-notified after the complete close procedure *)
Theorem C10_close_leaves_paging_sessions :
  let s := run (init 4 4 2) (pre ++ [Close; ErrSwap; ErrCall; ErrCall]) in
  closed s = true /\ erroring s = [] /\ reqs s = [] /\ keys (cps s) = [0] /\ existsb (fun e => match e with ECpError _ => true | _ => false end) (log s) = false.
Proof. vm_compute. repeat split. Qed.
Print Assumptions C10_close_leaves_paging_sessions.

Example C10_nonvacuous : failure_done (run (init 4 4 2) (pre ++ [DefunctFlag; Close; ErrCp; ErrSwap; ErrCall; ErrCall])).
Proof. vm_compute. repeat split; auto. Qed.
