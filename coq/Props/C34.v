(* C34 -- Date, time and time-UUID helpers convert consistently.
   Models: Model/Civil.v (proleptic Gregorian day <-> civil date, 'yyyy-mm-dd'), Model/TimeOfDay.v (util.Time; field
   properties and _from_timestamp are REGENERATED from cassandra/util.py into Gen/UtilTime.v on every run),
   Model/TimeUUID.v (uuid_from_time layout in exact integer arithmetic, Cassandra's TimeUUIDType order). *)
From Coq Require Import ZArith List Bool.
From Verif Require Import PyBase UtilTime DecDigits Civil TimeOfDay TimeUUID C34_proofs.
Import ListNotations.
Local Open Scope Z_scope.

(* ALL day counts (no range restriction) convert to a valid civil date and back; every valid date converts to a
   day count and back *)
Theorem C34_days_civil_roundtrip :
  (forall n, let '(y, m, d) := civil_from_days n in days_from_civil y m d = n /\ valid_date y m d = true) /\
  (forall y m d, valid_date y m d = true -> civil_from_days (days_from_civil y m d) = (y, m, d)).
Proof. split; [exact days_of_civil_of_days|exact civil_of_days_of_civil]. Qed.
Print Assumptions C34_days_civil_roundtrip.

(* years 1..9999 (days -719162 .. 2932896): the date has a year in range, its 'yyyy-mm-dd' form parses back to the
   same date, and Date(str(Date(n))) has the same day count *)
Theorem C34_date_string : forall n, MIN_DAY <= n <= MAX_DAY ->
  (let '(y, m, d) := civil_from_days n in 1 <= y <= 9999 /\ parse_date (print_date y m d) = Some (y, m, d)) /\
  date_of_str (date_str n) = Some n.
Proof.
  intros n H. split; [|exact (date_string_roundtrip n H)].
  pose proof (year_range n H) as Y. pose proof (days_of_civil_of_days n) as D.
  destruct (civil_from_days n) as [[y m] d]. destruct D as [_ V]. split; [exact Y|exact (parse_print_date y m d Y V)].
Qed.
Print Assumptions C34_date_string.

(* Date(datetime.datetime(y, m, d, hh, mm, ss)): the day count is that of the calendar day for EVERY year (also before 1970,
   where the second count is negative) and every time of day; converting it back gives the same date *)
Theorem C34_date_from_datetime : forall y m d hh mm ss, valid_date y m d = true -> valid_tod hh mm ss = true ->
  date_from_datetime y m d hh mm ss = days_from_civil y m d /\ civil_from_days (date_from_datetime y m d hh mm ss) = (y, m, d).
Proof. intros. split; [apply date_from_datetime_day|apply date_from_datetime_roundtrip]; assumption. Qed.
Print Assumptions C34_date_from_datetime.

Theorem C34_date_range_ends : days_from_civil 1 1 1 = MIN_DAY /\ days_from_civil 9999 12 31 = MAX_DAY /\ days_from_civil 1970 1 1 = 0.
Proof. repeat split. Qed.
Print Assumptions C34_date_range_ends.

(* nanoseconds <-> fields <-> string, for every time within one day *)
Theorem C34_time_roundtrip : forall n, 0 <= n < DAY ->
  of_fields (time_hour n) (time_minute n) (time_second n) (time_nanosecond n) = n /\
  0 <= time_hour n <= 23 /\ 0 <= time_minute n <= 59 /\ 0 <= time_second n <= 59 /\ 0 <= time_nanosecond n <= 999999999 /\
  time_parse (time_str n) = Some n.
Proof.
  intros n H. destruct (time_fields_ok n H) as [A [B [C [D E]]]].
  repeat split; try assumption; try (apply B || apply C || apply D || apply E). exact (time_parse_str n H).
Qed.
Print Assumptions C34_time_roundtrip.

(* Time accepts an integer exactly when it denotes a time within one day, and stores it unchanged; the string
   constructor only produces times within one day *)
Theorem C34_time_range :
  (forall n, time_accepts n = true <-> 0 <= n < DAY) /\
  (forall n v, time_value n = Some v -> v = n) /\
  (forall s n, time_parse s = Some n -> 0 <= n < DAY).
Proof. split; [exact time_accepts_range|split; [exact time_value_id|exact time_parse_range]]. Qed.
Print Assumptions C34_time_range.

(* a time-UUID generated for an instant decodes back to that instant, to the microsecond (any node, any clock) *)
Theorem C34_uuid_time : forall us node clock, 0 <= us * 10 + OFFSET < 2 ^ 60 ->
  decode_us (uuid_from_us us node clock) = us /\ uuid_time (uuid_from_us us node clock) = us * 10 + OFFSET.
Proof. intros us node clock H. split; [exact (decode_exact us node clock H)|exact (uuid_time_exact us node clock H)]. Qed.
Print Assumptions C34_uuid_time.

(* min/max time-UUIDs of an instant bound every time-UUID of that instant in Cassandra's order *)
Theorem C34_uuid_bounds : forall us node clock, 0 <= node < 2 ^ 48 -> 0 <= clock < 2 ^ 14 ->
  cass_le (min_uuid us) (uuid_from_us us node clock) = true /\ cass_le (uuid_from_us us node clock) (max_uuid us) = true.
Proof. exact uuid_bounds. Qed.
Print Assumptions C34_uuid_bounds.

Example C34_nonvacuous_date : civil_from_days 19000 = (2022, 1, 8) /\ date_str (-719162) = [48;48;48;49;45;48;49;45;48;49]
                               /\ days_from_civil 2000 2 29 = 11016.
Proof. repeat split. Qed.
Example C34_nonvacuous_time : time_accepts 86399999999999 = true /\ time_accepts 86400000000000 = false /\ time_accepts (-1) = false
                               /\ time_parse (time_str 45296123456789) = Some 45296123456789.
Proof. repeat split. Qed.
Example C34_nonvacuous_uuid :
  uuid_int (uuid_from_us 1700000000123456 1 2) = 6327270116954717217681649028212719617 /\ decode_us (uuid_from_us 1700000000123456 1 2) = 1700000000123456
  /\ cass_le (uuid_from_us 5 0 0) (uuid_from_us 5 255 0) = false.
Proof. repeat split. Qed.

(* ------------------------------------------------------------------ tie (T) for uuid_from_time: the integer tail of
   cassandra.util.uuid_from_time REGENERATED from the working tree (Gen/UtilTimeGen.v), followed by the hand model of
   CPython's uuid.UUID(fields=..., version=1) (Model/UuidFields.v), yields exactly the 128-bit integer of the model used
   by C34_uuid_time / C34_uuid_bounds; statements proved in Proofs/C34_bridge.v. *)
Require Verif.Gen.UtilTimeGen Verif.Model.UuidFields Verif.Proofs.UtilTime_proofs Verif.Proofs.C34_bridge.

Theorem C34_source_uuid_is_model : forall us node clock, uuid_accepts node clock = true ->
  exists f, UtilTimeGen.uuid_from_time_tail node clock (us * 10 + OFFSET) = Ok (f, 1) /\
            UuidFields.py_uuid_int f 1 = Some (uuid_int (uuid_from_us us node clock)).
Proof. exact C34_bridge.source_uuid_is_model. Qed.
Print Assumptions C34_source_uuid_is_model.

Theorem C34_source_uuid_rejects : forall us node clock, uuid_accepts node clock = false ->
  match UtilTimeGen.uuid_from_time_tail node clock (us * 10 + OFFSET) with
  | Ok (f, v) => UuidFields.py_uuid_int f v = None
  | Raise => True
  | Fuel => False
  end.
Proof. exact C34_bridge.source_uuid_rejects. Qed.
Print Assumptions C34_source_uuid_rejects.

(* what the source's Time(int) accepts: exactly [0, DAY) (the full statement; it was refuted before the repair) *)
Theorem C34_source_time_accepts : forall t old,
  (exists nt, UtilTimeGen.time_from_timestamp t old = Ok (tt, nt)) <-> 0 <= t < 86400000000000.
Proof. exact UtilTime_proofs.time_accepts_full. Qed.
Print Assumptions C34_source_time_accepts.

Theorem C34_source_time_fields : forall nt,
  UtilTimeGen.time_hour nt * 3600000000000 + UtilTimeGen.time_minute nt * 60000000000 +
  UtilTimeGen.time_second nt * 1000000000 + UtilTimeGen.time_nanosecond nt = nt.
Proof. exact UtilTime_proofs.time_fields_recompose. Qed.
Print Assumptions C34_source_time_fields.
