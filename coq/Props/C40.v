(* C40 -- GraphSON values survive serialization and deserialization. (work in progress: refutations first) *)
From Coq Require Import ZArith List Bool.
From Verif Require Import DyFloat GraphSON.
Import ListNotations.
Local Open Scope Z_scope.

(* the statement the Duration code BEFORE the repair had to meet, and its refutations *)
Definition C40_legacy_duration_statement : Prop :=
  forall us, duration_deserialize (duration_serialize_legacy us) = Some us.

(* -1.5 s is written P-1DT23H59M59.5S, which the driver's own regex rejects *)
Theorem C40_legacy_duration_refuted : ~ C40_legacy_duration_statement.
Proof. intros H. specialize (H (-1500000)). vm_compute in H. discriminate H. Qed.
Print Assumptions C40_legacy_duration_refuted.

(* 1 us is written 1e-06S (rejected); -0.5 s comes back as +0.5 s; 2^36 s - 1 us comes back one second longer *)
Theorem C40_legacy_duration_witnesses :
  duration_deserialize (duration_serialize_legacy 1) = None /\
  duration_deserialize (duration_serialize_legacy (-500000)) = Some 500000 /\
  duration_deserialize (duration_serialize_legacy (68719476736000000 - 1)) = Some (68719476736000000 - 1 + 1000000).
Proof. vm_compute. repeat split; reflexivity. Qed.
Print Assumptions C40_legacy_duration_witnesses.

(* an instance of a datetime subclass got the LocalDate serializer (date is registered before datetime) *)
Theorem C40_legacy_dispatch_refuted :
  first_isinstance KDatetime registry1_legacy = Some TLocalDate /\ first_isinstance KDatetime registry1 = Some TInstant.
Proof. split; reflexivity. Qed.
Print Assumptions C40_legacy_dispatch_refuted.
