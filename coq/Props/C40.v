(* C40 -- GraphSON values survive serialization and deserialization.
   Model: Model/GraphSON.v (hand-written from cassandra/datastax/graph/graphson.py, tied by correspondence on every run):
   the REPAIRED code (datetime registered before date; Duration in integer arithmetic with a leading sign); the code before
   the repairs is kept as registry1_legacy / duration_serialize_legacy with its refutations.
   Python's own leaf formatters/parsers are universally quantified functions constrained by `leaf_laws` (ASSUMED). *)
From Coq Require Import ZArith List Bool Lia.
From Verif Require Import DyFloat GraphSON C40_proofs.
Import ListNotations.
Local Open Scope Z_scope.

(* GraphSON 2 and 3: for every supported value tree (any depth, any width), the reader applied to what the serializer
   wrote gives back the equal value (norm: a blob comes back as bytearray, a datetime-subclass instance as datetime). *)
Theorem C40_roundtrip_23 :
  forall (D Dt Tm Dtm U : Type) (dec_str : D -> list Z) (dec_parse : list Z -> option D) (uuid_str : U -> list Z)
         (uuid_parse : list Z -> option U) (date_iso : Dt -> list Z) (strptime_date : list Z -> option Dt)
         (time_fmt : Tm -> list Z) (strptime_hm strptime_hms strptime_hmsf : list Z -> option Tm) (dtm_iso : Dtm -> list Z)
         (strptime_frac strptime_nofrac : list Z -> option Dtm) (geqb : gval D Dt Tm Dtm U -> gval D Dt Tm Dtm U -> bool),
    leaf_laws D Dt Tm Dtm U dec_str dec_parse uuid_str uuid_parse date_iso strptime_date time_fmt strptime_hm strptime_hms
              strptime_hmsf dtm_iso strptime_frac strptime_nofrac ->
    forall (ver : version) (v : gval D Dt Tm Dtm U), ver <> V1 ->
    supported D Dt Tm Dtm U geqb ver v ->
    exists j, serialize23 D Dt Tm Dtm U dec_str uuid_str date_iso time_fmt dtm_iso ver v = Some j /\
              deserialize23 D Dt Tm Dtm U dec_parse uuid_parse strptime_date strptime_hm strptime_hms strptime_hmsf
                            strptime_frac strptime_nofrac geqb ver j = Some (norm D Dt Tm Dtm U v).
Proof. exact roundtrip23. Qed.
Print Assumptions C40_roundtrip_23.

(* GraphSON 1 (untyped on the wire: the caller names the type, here the serializer chosen for the value): scalars *)
Theorem C40_roundtrip_1 :
  forall (D Dt Tm Dtm U : Type) (dec_str : D -> list Z) (dec_parse : list Z -> option D) (uuid_str : U -> list Z)
         (uuid_parse : list Z -> option U) (date_iso : Dt -> list Z) (strptime_date : list Z -> option Dt)
         (time_fmt : Tm -> list Z) (strptime_hm strptime_hms strptime_hmsf : list Z -> option Tm) (dtm_iso : Dtm -> list Z)
         (strptime_frac strptime_nofrac : list Z -> option Dtm),
    leaf_laws D Dt Tm Dtm U dec_str dec_parse uuid_str uuid_parse date_iso strptime_date time_fmt strptime_hm strptime_hms
              strptime_hmsf dtm_iso strptime_frac strptime_nofrac ->
    forall v : gval D Dt Tm Dtm U, supported1 D Dt Tm Dtm U v ->
    exists j, serialize1 D Dt Tm Dtm U dec_str uuid_str date_iso time_fmt dtm_iso v = Some j /\
              deserialize1 D Dt Tm Dtm U dec_parse uuid_parse strptime_date strptime_hm strptime_hms strptime_hmsf strptime_frac
                           strptime_nofrac (serializer_of D Dt Tm Dtm U V1 v) j = Some (norm D Dt Tm Dtm U v).
Proof. exact roundtrip1. Qed.
Print Assumptions C40_roundtrip_1.

(* every timedelta (negative, sub-second, 1 microsecond, arbitrarily long) survives the gx:Duration text *)
Theorem C40_duration_roundtrip : forall us : Z, duration_deserialize (duration_serialize us) = Some us.
Proof. exact duration_roundtrip. Qed.
Print Assumptions C40_duration_roundtrip.

(* every byte string survives base64 (dse:Blob / gx:ByteBuffer) *)
Theorem C40_base64_roundtrip : forall bs : list Z, Forall (fun b => 0 <= b < 256) bs -> b64_decode (b64_encode bs) = Some bs.
Proof. exact b64_roundtrip. Qed.
Print Assumptions C40_base64_roundtrip.

(* every Point / LineString / Polygon (any number of interior rings) survives its WKT text; a polygon that prints as
   POLYGON EMPTY must not carry interior rings *)
Theorem C40_geometry_roundtrip : forall g : geom, geom_ok g -> from_wkt (geom_kind g) (geom_wkt g) = Some g.
Proof. exact geom_roundtrip. Qed.
Print Assumptions C40_geometry_roundtrip.

(* dispatch: an instance of a datetime subclass is written by the Instant serializer in every version; ints are Int32
   inside [MIN_INT32, MAX_INT32] (the driver's own bounds) and Int64 outside *)
Theorem C40_dispatch : forall ver,
  get_serializer ver KDatetime false None = Some TInstant /\
  (forall z, ver <> V1 -> get_serializer ver KInt true (Some z) =
                          if (MAX_INT32 <? z) || (z <? MIN_INT32) then Some TInt64 else Some TInt32).
Proof. intros ver. split; [destruct ver; reflexivity | intros z H; destruct ver; [congruence | reflexivity | reflexivity]]. Qed.
Print Assumptions C40_dispatch.

(* ---- the code BEFORE the repairs: the statement it had to meet, and its refutations (replayed from corpus/C40) ---- *)
Definition C40_legacy_duration_statement : Prop :=
  forall us, duration_deserialize (duration_serialize_legacy us) = Some us.

(* -1.5 s was written P-1DT23H59M59.5S, which the driver's own regex rejects *)
Theorem C40_legacy_duration_refuted : ~ C40_legacy_duration_statement.
Proof. intros H. specialize (H (-1500000)). vm_compute in H. discriminate H. Qed.
Print Assumptions C40_legacy_duration_refuted.

(* 1 us was written 1e-06S (rejected); -0.5 s came back as +0.5 s; 2^36 s - 1 us came back one second longer *)
Theorem C40_legacy_duration_witnesses :
  duration_deserialize (duration_serialize_legacy 1) = None /\
  duration_deserialize (duration_serialize_legacy (-500000)) = Some 500000 /\
  duration_deserialize (duration_serialize_legacy (68719476736000000 - 1)) = Some (68719476736000000 - 1 + 1000000).
Proof. vm_compute. repeat split; reflexivity. Qed.
Print Assumptions C40_legacy_duration_witnesses.

(* date was registered before datetime: a datetime-subclass instance got the LocalDate serializer and came back as text *)
Theorem C40_legacy_dispatch_refuted :
  first_isinstance KDatetime registry1_legacy = Some TLocalDate /\ first_isinstance KDatetime registry1 = Some TInstant.
Proof. split; reflexivity. Qed.
Print Assumptions C40_legacy_dispatch_refuted.

(* ---- non-vacuity: the laws are satisfiable and a nested GraphSON3 value (negative duration, blob, subclass) round-trips ---- *)
Definition nv_str (z : Z) : list Z := [z].
Definition nv_parse (s : list Z) : option Z := match s with [z] => Some z | _ => None end.
Definition nv_parse_z (s : list Z) : option Z := match s with [z; 90] => Some z | _ => None end.
Definition nv_none (s : list Z) : option Z := None.
Definition nv_geqb (a b : gval Z Z Z Z Z) : bool := false.

Example C40_nonvacuous_laws :
  leaf_laws Z Z Z Z Z nv_str nv_parse nv_str nv_parse nv_str nv_parse nv_str nv_none nv_none nv_parse nv_str nv_parse_z nv_none.
Proof. repeat split; intros; try reflexivity. left. reflexivity. Qed.

Example C40_nonvacuous :
  let v := GList Z Z Z Z Z
             [GTuple Z Z Z Z Z [GInt Z Z Z Z Z 5; GTimedelta Z Z Z Z Z (-1500000); GBlob Z Z Z Z Z BBytes [1; 2; 255]];
              GSet Z Z Z Z Z [GInt Z Z Z Z Z 1099511627776; GStr Z Z Z Z Z [97]];
              GDict Z Z Z Z Z [(GStr Z Z Z Z Z [107], GDatetime Z Z Z Z Z 7 true); (GStr Z Z Z Z Z [108], GDatetimeAware Z Z Z Z Z 9 8)];
              GGeom Z Z Z Z Z (GeoPoly [((0, 0), (0, 0)); ((1, 2), (0, 0)); ((0, 0), (1, 2)); ((0, 0), (0, 0))]
                                       [[((1, 0), (1, 0)); ((3, -1), (1, 0)); ((1, 0), (3, -1)); ((1, 0), (1, 0))]])] in
  supported Z Z Z Z Z nv_geqb V3 v /\
  match serialize23 Z Z Z Z Z nv_str nv_str nv_str nv_str nv_str V3 v with
  | Some j => deserialize23 Z Z Z Z Z nv_parse nv_parse nv_parse nv_none nv_none nv_parse nv_parse_z nv_none nv_geqb V3 j
              = Some (norm Z Z Z Z Z v)
  | None => False
  end.
Proof.
  split.
  - cbn. repeat split; try reflexivity. repeat constructor; lia.
  - vm_compute. reflexivity.
Qed.
(* ---- open finding C40-3: the full statement (no hashability side condition on set members) and its refutation;
   C40_roundtrip_23 is the partial theorem: its `supported` demands set_build / dict_build = Some ..., which fails exactly
   when a deserialised member / key is unhashable (bytearray) ---- *)
Definition C40_full_statement : Prop :=
  forall bs : list Z, Forall (fun b => 0 <= b < 256) bs ->
  let v := GSet Z Z Z Z Z [GBlob Z Z Z Z Z BBytes bs] in
  exists j, serialize23 Z Z Z Z Z nv_str nv_str nv_str nv_str nv_str V3 v = Some j /\
            deserialize23 Z Z Z Z Z nv_parse nv_parse nv_parse nv_none nv_none nv_parse nv_parse_z nv_none nv_geqb V3 j
            = Some (norm Z Z Z Z Z v).

(* {b'\x00'}: written as g:Set [gx:ByteBuffer "AA=="], the reader raises TypeError (unhashable bytearray) *)
Theorem C40_set_of_blobs_refuted : ~ C40_full_statement.
Proof.
  intros H. destruct (H [0]) as (j & E1 & E2); [repeat constructor; lia|].
  vm_compute in E1. injection E1 as <-. vm_compute in E2. discriminate E2.
Qed.
Print Assumptions C40_set_of_blobs_refuted.
