(* C32 -- concurrent execution returns one ordered result per statement.
   Model: Model/Concurrent.v (cassandra/concurrent.py after the `fix:` commit that completes the async future exactly
   once), tied to the source by region-by-region correspondence (checks/C32.py).
   Every theorem quantifies over ANY configuration c (any number of statements with any behaviour vector, any
   concurrency, fail-fast on/off, List/Gen/Future variant, any recursion threshold) and ANY history `ops`
   (any interleaving of caller regions, completions in any order, second regions of the async variant). *)
From Coq Require Import List Bool Arith.
From Verif Require Import Concurrent C32_proofs C32_perstmt.
Import ListNotations.

(* at most `concurrency` slots are held after every region (pending futures + deferred result deliveries) *)
Theorem C32_concurrency_bound : forall c ops, length (inflight (run c ops)) <= conc c.
Proof. exact bound_all. Qed.
Print Assumptions C32_concurrency_bound.

(* in particular for the pending futures, the quantity the harness measures as peak in-flight *)
Theorem C32_concurrency_bound_futures : forall c ops, length (filter (is_later c) (inflight (run c ops))) <= conc c.
Proof. intros c ops. eapply Nat.le_trans; [apply filter_len_le | apply bound_all]. Qed.
Print Assumptions C32_concurrency_bound_futures.

(* the async variant's future: never completed twice (no InvalidStateError in any region), never changes once
   completed, and completed when execute_concurrent_async has returned -- for every history, also n = 0 *)
Theorem C32_future_once : forall c ops,
  fut_err (run c ops) = 0
  /\ (forall more, fut (run c ops) <> FPending -> fut (run c (ops ++ more)) = fut (run c ops))
  /\ (forall o, pc (run c ops) = MFin o -> fut (run c ops) <> FPending).
Proof.
  intros c ops. split; [apply fut_err_zero|]. split.
  - intros more H. rewrite run_app. apply (proj1 (fold_mono c more (run c ops))), H.
  - intros o. apply fin_done.
Qed.
Print Assumptions C32_future_once.

(* fail fast: the stored first failure is never replaced by a later one *)
Theorem C32_first_failure_kept : forall c ops more e, exc (run c ops) = Some e -> exc (run c (ops ++ more)) = Some e.
Proof. intros c ops more e H. rewrite run_app. apply (proj2 (fold_mono c more (run c ops))), H. Qed.
Print Assumptions C32_first_failure_kept.

(* `expected c` = [(0, outcome of statement 0); (1, ...); ...]: one entry per statement, in input order *)
Theorem C32_expected_shape : forall c, length (expected c) = length (behs c) /\ map fst (expected c) = seq 0 (length (behs c)).
Proof.
  intros c. split; [apply expected_length|]. unfold expected.
  assert (G : forall (l : list bool) a, map fst (combine (seq a (length l)) l) = seq a (length l)).
  { induction l as [|x l IH]; intros a; cbn; [reflexivity | rewrite IH; reflexivity]. }
  rewrite <- (map_length ok_of (behs c)). apply G.
Qed.
Print Assumptions C32_expected_shape.

(* List and async variants, any history: whatever list the caller gets back (execute_concurrent's return value, the
   value _results() hands to execute_concurrent_async, the async future's result) is exactly one correct entry per
   statement in input order.  (With fail-fast off; with fail-fast on a returned list means no failure was seen.) *)
Theorem C32_one_per_statement : forall c ops l, var c <> VGen -> 0 < conc c -> ff c = false ->
  (pc (run c ops) = MRet (Return l) \/ pc (run c ops) = MFin (Return l) \/ fut (run c ops) = FResult l) -> l = expected c.
Proof.
  intros c ops l V Hc F H. destruct (Inv_run c ops V Hc) as [_ Hf _ _ Hp _].
  destruct H as [H|[H|H]]; [rewrite H in Hp | rewrite H in Hp | rewrite H in Hf]; cbn in *; auto.
Qed.
Print Assumptions C32_one_per_statement.

(* fail fast: what is raised to the caller / stored in the async future is the failure of a statement that really
   failed, namely the stored first failure (C32_first_failure_kept: it is never replaced) *)
Theorem C32_fail_fast : forall c ops e, var c <> VGen -> 0 < conc c ->
  (pc (run c ops) = MRet (RaiseExc e) \/ pc (run c ops) = MFin (RaiseExc e) \/ fut (run c ops) = FExc e) ->
  exists b, nth_error (behs c) e = Some b /\ ok_of b = false.
Proof.
  intros c ops e V Hc H. destruct (Inv_run c ops V Hc) as [_ Hf _ _ Hp _].
  destruct H as [H|[H|H]]; [rewrite H in Hp | rewrite H in Hp | rewrite H in Hf]; cbn in *; auto.
Qed.
Print Assumptions C32_fail_fast.

(* non-vacuity: 4 statements (later ok, sync ok, later err, sync raise), concurrency 2, completions out of order *)
Example C32_nonvacuous :
  let c := mkCfg [BLaterOk; BSyncOk; BLaterErr; BRaise] 2 false VList 100 in
  let s := run c [MainStep; MainStep; Complete 2; MainStep; Complete 0; MainStep] in
  pc s = MRet (Return [(0, true); (1, true); (2, false); (3, false)]) /\ expected c = [(0, true); (1, true); (2, false); (3, false)]
  /\ fut (run (mkCfg [BLaterErr] 1 true VFuture 100) [MainStep; MainStep; Complete 0; Finish2 0; MainStep; MainStep]) = FExc 0.
Proof. repeat split. Qed.
