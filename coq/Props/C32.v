(* C32 -- concurrent execution returns one ordered result per statement.
   Model: Model/Concurrent.v (cassandra/concurrent.py after the `fix:` commit that completes the async future exactly
   once), tied to the source by region-by-region correspondence (checks/C32.py).
   Every theorem quantifies over ANY configuration c (any number of statements with any behaviour vector, any
   concurrency, fail-fast on/off, List/Gen/Future variant, any recursion threshold) and ANY history `ops`
   (any interleaving of caller regions, completions in any order, second regions of the async variant). *)
From Coq Require Import List Bool Arith.
From Verif Require Import Concurrent C32_proofs.
Import ListNotations.

(* at most `concurrency` slots are held after every region (pending futures + deferred result deliveries) *)
Theorem C32_concurrency_bound : forall c ops, length (inflight (run c ops)) <= conc c.
Proof. exact bound_all. Qed.
Print Assumptions C32_concurrency_bound.

(* in particular for the pending futures, the quantity the harness measures as peak in-flight *)
Theorem C32_concurrency_bound_futures : forall c ops, length (filter (is_later c) (inflight (run c ops))) <= conc c.
Proof. intros c ops. eapply Nat.le_trans; [apply filter_len_le | apply bound_all]. Qed.
Print Assumptions C32_concurrency_bound_futures.

(* the async variant's future: never completed twice (no InvalidStateError in any region), never changes once
   completed, and completed when execute_concurrent_async has returned -- for every history, also n = 0 *)
Theorem C32_future_once : forall c ops,
  fut_err (run c ops) = 0
  /\ (forall more, fut (run c ops) <> FPending -> fut (run c (ops ++ more)) = fut (run c ops))
  /\ (forall o, pc (run c ops) = MFin o -> fut (run c ops) <> FPending).
Proof.
  intros c ops. split; [apply fut_err_zero|]. split.
  - intros more H. rewrite run_app. apply (proj1 (fold_mono c more (run c ops))), H.
  - intros o. apply fin_done.
Qed.
Print Assumptions C32_future_once.

(* fail fast: the stored first failure is never replaced by a later one *)
Theorem C32_first_failure_kept : forall c ops more e, exc (run c ops) = Some e -> exc (run c (ops ++ more)) = Some e.
Proof. intros c ops more e H. rewrite run_app. apply (proj2 (fold_mono c more (run c ops))), H. Qed.
Print Assumptions C32_first_failure_kept.
