(* C24 -- reconnection schedules respect their delay bounds and attempt limits.
   Model/Reconnect.v mirrors cassandra/policies.py (tied by exact correspondence with Fraction parameters). *)
From Coq Require Import QArith Qminmax ZArith List Bool.
From Verif Require Import Reconnect C24_proofs.
Local Open Scope Q_scope.

(* constant schedule: every delay it yields is the fixed delay *)
Theorem C24_constant : forall delay ma i d, constant_schedule delay ma i = Some d -> d = delay.
Proof. intros delay ma i d. unfold constant_schedule, limited. destruct ma as [n|]; [destruct (i <? n)%nat|]; congruence. Qed.
Print Assumptions C24_constant.

(* attempt limit: with max_attempts = n BOTH schedules yield exactly n delays (n = 0: none); without a limit they never end;
   this holds at every index, so no attempt index "overflows" *)
Theorem C24_limit : forall delay base max jit n i,
  (constant_schedule delay (Some n) i = None <-> (n <= i)%nat) /\
  (exp_schedule base max (Some n) jit i = None <-> (n <= i)%nat).
Proof. intros. split; apply limited_length. Qed.
Print Assumptions C24_limit.

Theorem C24_unbounded : forall delay base max jit i,
  constant_schedule delay None i = Some delay /\ exp_schedule base max None jit i = Some (exp_item base max jit i).
Proof. intros. split; reflexivity. Qed.
Print Assumptions C24_unbounded.

(* exponential schedule: every delay lies between the base and the maximum delay ... *)
Theorem C24_exp_bounds : forall base max ma jit i d, 0 <= base -> base <= max ->
  exp_schedule base max ma jit i = Some d -> base <= d /\ d <= max.
Proof.
  intros base max ma jit i d Hb Hbm H.
  assert (d = exp_item base max jit i).
  { unfold exp_schedule, limited in H. destruct ma as [n|]; [destruct (i <? n)%nat|]; congruence. }
  subst d. apply add_jitter_bounds. assumption.
Qed.
Print Assumptions C24_exp_bounds.

(* ... and follows the doubling curve c_i = min(base * 2^i, max) within the jitter band:
   d_i = clamp_[base,max] (j_i * c_i / 100) with 0.85 c_i <= j_i c_i / 100 <= 1.15 c_i, for every index i *)
Theorem C24_exp_curve : forall base max jit i, 0 <= base -> base <= max -> (85 <= jit i <= 115)%Z ->
  let c := curve base max i in
  let x := (inject_Z (jit i) * c) / (100 # 1) in
  exp_item base max jit i == Qmin (Qmax base x) max /\
  (85 # 100) * c <= x /\ x <= (115 # 100) * c /\ base <= c /\ c <= max.
Proof.
  intros base max jit i Hb Hbm Hj c x.
  destruct (curve_bounds base max i Hb Hbm) as [Hc1 Hc2].
  assert (Hc0 : 0 <= c) by (unfold c; apply Qle_trans with base; assumption).
  destruct (jitter_band (jit i) c Hj Hc0) as [J1 J2].
  split; [apply exp_item_spec; assumption|]. repeat split; assumption.
Qed.
Print Assumptions C24_exp_curve.

(* the reconnection handler makes exactly as many attempts as the schedule has delays (while attempts keep failing),
   waiting exactly the scheduled delays in order -- a zero delay is a delay, not the end of the schedule *)
Theorem C24_handler_uses_whole_schedule : forall d0 r k,
  handler (d0 :: r) (repeat AFail k) = Some (firstn (S k) (d0 :: r)) /\
  (length r <= k -> handler (d0 :: r) (repeat AFail k) = Some (d0 :: r))%nat.
Proof.
  intros d0 r k. split; [apply handler_all_fail|]. intros H. rewrite handler_all_fail.
  f_equal. apply firstn_all2. cbn [length]. apply le_n_S. exact H.
Qed.
Print Assumptions C24_handler_uses_whole_schedule.

Example C24_nonvacuous :
  exp_schedule (1 # 2) (10 # 1) (Some 3%nat) (fun _ => 100%Z) 2%nat = Some (exp_item (1#2) (10#1) (fun _ => 100%Z) 2%nat) /\
  Qeq_bool (exp_item (1 # 2) (10 # 1) (fun _ => 100%Z) 2%nat) (2 # 1) = true /\
  exp_schedule (1 # 2) (10 # 1) (Some 3%nat) (fun _ => 100%Z) 3%nat = None /\
  constant_schedule (5 # 1) (Some 0%nat) 0%nat = None.
Proof. repeat split; reflexivity. Qed.
