(* C30 -- prepared-statement binding and routing keys are consistent.
   Model: Model/Bind.v (hand-written from cassandra/query.py, tied by correspondence on every run);
   Cassandra's partition-key encoding: Model/CompositeSpec.v.  Every theorem holds for EVERY value type V and
   EVERY per-column serializer ser (value serialization itself is C01/C02), every column-name list, every
   routing-index list and every protocol version. *)
From Coq Require Import ZArith List Bool.
From Verif Require Import CompositeSpec Bind BindHistory C30_proofs C30_hist_proofs.
Import ListNotations.
Local Open Scope Z_scope.

(* positional = by-name: the dict {name_i: v_i} binds exactly like the list [v_0..v_{n-1}] (same values, same error);
   a short list/dict only on protocol >= 4 (on < 4 they differ: KeyError vs short list). *)
Theorem C30_pos_eq_named : forall V ser names pk_idx pv (vs : list (bval V)),
  NoDup names -> (length vs <= length names)%nat -> (length vs = length names \/ 4 <= pv) ->
  bind V ser names pk_idx pv (InDict (combine names vs)) = bind V ser names pk_idx pv (InList vs).
Proof. exact pos_eq_named. Qed.
Print Assumptions C30_pos_eq_named.

(* keys of the dict that are not column names are ignored (PYTHON-178) *)
Theorem C30_extra_names_ignored : forall V ser names pk_idx pv d k (v : bval V), ~ In k names ->
  bind V ser names pk_idx pv (InDict ((k, v) :: d)) = bind V ser names pk_idx pv (InDict d).
Proof. exact extra_names_ignored. Qed.
Print Assumptions C30_extra_names_ignored.

(* 'unset' only on v4+: below v4 no bound value is ever UNSET (short lists stay short, UNSET and missing names raise);
   on v4+ every missing trailing / missing named value is UNSET and the value list is complete. *)
Theorem C30_unset_v4_only : forall V ser names pk_idx pv,
  (forall inp ws, pv < 4 -> bind V ser names pk_idx pv inp = inr ws -> ~ In WUnset ws) /\
  (forall vs ws, pv < 4 -> bind V ser names pk_idx pv (InList vs) = inr ws -> length ws = length vs) /\
  (forall vs, pv < 4 -> In BUnset vs -> exists e, bind V ser names pk_idx pv (InList vs) = inl e) /\
  (forall d k n, pv < 4 -> nth_error names k = Some n -> dict_get d n = None ->
                 exists e, bind V ser names pk_idx pv (InDict d) = inl e) /\
  (forall vs ws, 4 <= pv -> bind V ser names pk_idx pv (InList vs) = inr ws ->
                 length ws = length names /\
                 forall k, (length vs <= k < length names)%nat -> nth_error ws k = Some WUnset) /\
  (forall d ws k n, bind V ser names pk_idx pv (InDict d) = inr ws -> nth_error names k = Some n ->
                    dict_get d n = None -> 4 <= pv /\ nth_error ws k = Some WUnset).
Proof.
  intros V ser names pk_idx pv. repeat split.
  - apply unset_only_v4_input.
  - apply short_list_v3.
  - apply unset_rejected_v3.
  - apply missing_name_rejected_v3.
  - eapply missing_trailing_unset_v4; eauto.
  - eapply missing_trailing_unset_v4; eauto.
  - eapply missing_name_unset_v4; eauto.
  - eapply missing_name_unset_v4; eauto.
Qed.
Print Assumptions C30_unset_v4_only.

(* an UNSET (explicit, or implied by a missing trailing / named value) partition-key component is rejected *)
Theorem C30_pk_unset_rejected : forall V ser names pk_idx pv,
  (forall (vs : list (bval V)) k, In k pk_idx -> (k < length names)%nat ->
      (nth_error vs k = Some BUnset \/ (4 <= pv /\ (length vs <= k)%nat)) ->
      exists e, bind V ser names pk_idx pv (InList vs) = inl e) /\
  (forall (d : list (Z * bval V)) k n, In k pk_idx -> nth_error names k = Some n ->
      (dict_get d n = None \/ dict_get d n = Some BUnset) ->
      exists e, bind V ser names pk_idx pv (InDict d) = inl e) /\
  (forall vs ws k, bind V ser names pk_idx pv (InList vs) = inr ws -> In k pk_idx -> nth_error ws k <> Some WUnset).
Proof.
  intros V ser names pk_idx pv. split; [|split].
  - apply pk_unset_rejected_list.
  - apply pk_unset_rejected_dict.
  - intros vs ws k H Hin Hu. apply (no_unset_at_pk V ser names pk_idx pv vs ws k H) in Hu.
    rewrite (is_rk_In pk_idx k Hin) in Hu. discriminate.
Qed.
Print Assumptions C30_pk_unset_rejected.

Theorem C30_extra_rejected : forall V ser names pk_idx pv (vs : list (bval V)),
  (length names < length vs)%nat -> bind V ser names pk_idx pv (InList vs) = inl ETooMany.
Proof. exact extra_rejected. Qed.
Print Assumptions C30_extra_rejected.

(* the bound values ARE the serialized inputs, position by position *)
Theorem C30_values_serialized : forall V ser names pk_idx pv vs ws k b,
  bind V ser names pk_idx pv (InList vs) = inr ws ->
  (nth_error ws k = Some (WBytes b) <-> exists v, nth_error vs k = Some (BVal v) /\ ser k v = Some b).
Proof. exact values_serialized. Qed.
Print Assumptions C30_values_serialized.

(* routing key = Cassandra's encoding (composite_spec) of the serialized partition-key values, in routing-index order:
   (1) whenever every partition-key marker got a value (bs = their serializations, each < 64 KiB when composite),
   (2) and NEVER anything else: any routing key the statement reports is that encoding. *)
Theorem C30_routing_key : forall V ser names pk_idx pv vs ws,
  bind V ser names pk_idx pv (InList vs) = inr ws ->
  (forall bs, pk_idx <> [] -> Forall2 (pk_component V ser vs) pk_idx bs ->
      forallb component_ok bs = true \/ length pk_idx = 1%nat ->
      routing_key pk_idx ws = RkBytes (composite_spec bs)) /\
  (forall rk, routing_key pk_idx ws = RkBytes rk ->
      exists bs, Forall2 (pk_component V ser vs) pk_idx bs /\ rk = composite_spec bs).
Proof.
  intros V ser names pk_idx pv vs ws H. split.
  - intros bs. exact (routing_key_of_bind V ser names pk_idx pv vs ws bs H).
  - intros rk. exact (routing_key_never_wrong V ser names pk_idx pv vs ws rk H).
Qed.
Print Assumptions C30_routing_key.

(* from_message: indexes derived from table metadata point at the partition-key columns, in TABLE order
   (so the composite above is in the order Cassandra hashes); server-provided indexes are used as they are. *)
Theorem C30_from_message_indexes : forall ns pkn,
  (forall l, derive_indexes ns [] (Some pkn) = l -> l <> [] -> Forall2 (fun i n => nth_error ns i = Some n) l pkn) /\
  (ns <> [] -> (forall n, In n pkn -> In n ns) -> length (derive_indexes ns [] (Some pkn)) = length pkn) /\
  (forall i idx tpk, ns <> [] -> derive_indexes ns (i :: idx) tpk = i :: idx).
Proof.
  intros ns pkn. split; [|split].
  - apply derive_indexes_table.
  - apply derive_indexes_complete.
  - intros. apply derive_indexes_server. assumption.
Qed.
Print Assumptions C30_from_message_indexes.

(* ---- histories on ONE BoundStatement (bind is public API on an existing statement): Model/BindHistory.v ----
   After ANY history of bind / read-routing_key operations (failed binds included), a successful bind followed by
   any number of reads: the next read reports the routing key of THIS binding, never an earlier one. *)
Theorem C30_rebind_routing_key : forall V ser names pk_idx pv (h : list (bop V)) inp ws n,
  bind V ser names pk_idx pv inp = inr ws ->
  let st := step V ser names pk_idx pv in
  let s0 := fst (run_with V st (init None) h) in
  let s1 := fst (st s0 (OBind inp)) in
  let s2 := fst (run_with V st s1 (repeat ORead n)) in
  snd (st s2 ORead) = ObsRead (routing_key pk_idx ws) ws.
Proof. exact rebind_routing_key. Qed.
Print Assumptions C30_rebind_routing_key.

(* ... hence, with C30_routing_key: Cassandra's encoding of the partition key of the row addressed NOW *)
Theorem C30_rebind_composite : forall V ser names pk_idx pv (h : list (bop V)) vs ws n bs,
  bind V ser names pk_idx pv (InList vs) = inr ws -> pk_idx <> [] ->
  Forall2 (pk_component V ser vs) pk_idx bs -> forallb component_ok bs = true \/ length pk_idx = 1%nat ->
  let st := step V ser names pk_idx pv in
  let s2 := fst (run_with V st (fst (st (fst (run_with V st (init None) h)) (OBind (InList vs)))) (repeat ORead n)) in
  snd (st s2 ORead) = ObsRead (RkBytes (composite_spec bs)) ws.
Proof.
  intros V ser names pk_idx pv h vs ws n bs Hb Hne Hf Hok. cbn zeta.
  rewrite (rebind_routing_key V ser names pk_idx pv h (InList vs) ws n Hb).
  rewrite (routing_key_of_bind V ser names pk_idx pv vs ws bs Hb Hne Hf Hok). reflexivity.
Qed.
Print Assumptions C30_rebind_composite.

(* a routing_key passed to the constructor is reported as given, before and after every bind (API behaviour; the
   statement of C30 makes no demand on a key the application chose itself) *)
Theorem C30_explicit_key_kept : forall V ser names pk_idx pv (ops : list (bop V)) k, pk_idx <> [] ->
  let s := fst (run_with V (step V ser names pk_idx pv) (init (Some k)) ops) in
  st_explicit s = Some k /\ snd (read_key pk_idx s) = RkBytes k.
Proof. exact explicit_kept. Qed.
Print Assumptions C30_explicit_key_kept.

(* the code before the fix kept the derived key across bind(): bind [1,'a']; read; bind [2,'b']; read -> key of row 1 *)
Theorem C30_stale_cache_refuted :
  c30_hist_stale [1; 2] [TInt32; TText] [0%nat] None 4 None
    [OBind (InList [BVal (CInt 1); BVal (CStr [97])]); ORead; OBind (InList [BVal (CInt 2); BVal (CStr [98])]); ORead]
  = [ObsBind None [WBytes [0; 0; 0; 1]; WBytes [97]]; ObsRead (RkBytes [0; 0; 0; 1]) [WBytes [0; 0; 0; 1]; WBytes [97]];
     ObsBind None [WBytes [0; 0; 0; 2]; WBytes [98]]; ObsRead (RkBytes [0; 0; 0; 1]) [WBytes [0; 0; 0; 2]; WBytes [98]]]
  /\ nth 3 (c30_hist [1; 2] [TInt32; TText] [0%nat] None 4 None
    [OBind (InList [BVal (CInt 1); BVal (CStr [97])]); ORead; OBind (InList [BVal (CInt 2); BVal (CStr [98])]); ORead]) (ObsBind None [])
  = ObsRead (RkBytes [0; 0; 0; 2]) [WBytes [0; 0; 0; 2]; WBytes [98]].
Proof. vm_compute. split; reflexivity. Qed.
Print Assumptions C30_stale_cache_refuted.

(* the component length is a 16-bit UNSIGNED big-endian number: 40000 bytes -> 0x9C 0x40, 65535 is the largest component *)
Example C30_unsigned_length :
  u16_be 32767 = [127; 255] /\ u16_be 32768 = [128; 0] /\ u16_be 40000 = [156; 64] /\ u16_be 65535 = [255; 255] /\
  (forall b, component_ok b = true <-> Z.of_nat (length b) < 65536).
Proof. repeat split; try reflexivity; unfold component_ok; apply Z.ltb_lt. Qed.

(* non-vacuity: a 3-column statement (int, text, blob), composite partition key (blob, int) from table metadata,
   bound by name on v4 with the text column missing *)
Example C30_nonvacuous :
  c30_run [1; 2; 3] [TInt32; TText; TBlob] [] (Some [3; 1]) 4
          (InDict [(3, BVal (CBytes [7; 7; 7])); (1, BVal (CInt 1)); (9, BNone)])
  = ([2%nat; 0%nat], inr [WBytes [0; 0; 0; 1]; WUnset; WBytes [7; 7; 7]],
     RkBytes (composite_spec [[7; 7; 7]; [0; 0; 0; 1]])).
Proof. vm_compute. reflexivity. Qed.

Example C30_nonvacuous_hyp : exists bs,
  Forall2 (pk_component cval (cser_cols [TInt32; TText; TBlob]) [BVal (CInt 1); BNone; BVal (CBytes [7; 7; 7])])
          [2%nat; 0%nat] bs /\ forallb component_ok bs = true.
Proof.
  exists [[7; 7; 7]; [0; 0; 0; 1]]. split; [|reflexivity].
  repeat constructor; eexists; split; reflexivity.
Qed.
