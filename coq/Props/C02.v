(* C02 -- placeholder while the harness is brought up; replaced by the real theorems *)
From Coq Require Import ZArith List Bool.
From Verif Require Import PyBase MarshalModel Utf8Model CqlType CqlCodec CassandraSpec.
Import ListNotations.
Local Open Scope Z_scope.

Theorem C02_smoke : from_binary 4 (TList (TScalar SInt)) [0;0;0;1;255;255;255;255] = Some (VSeq [VNull]).
Proof. reflexivity. Qed.
Print Assumptions C02_smoke.
