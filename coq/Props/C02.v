(* C02 -- value encodings are byte-exact with Cassandra's type serializers.
   Specification: Model/CassandraSpecInt.v, Model/CassandraSpec.v (independent transcription).  Model: Model/CqlCodec.v,
   Model/MarshalModel.v; the marshal part of the model is proved equal to Gallina regenerated from cassandra/marshal.py
   (C02_bridge_source_eq_model below), the type-directed part is tied by correspondence (checks/C02.py).
   C02_full: to_binary = spec_result for EVERY type tree, protocol version and kind-correct value (exact bytes on the
   values that have an encoding, refused otherwise), by induction over types (Proofs/C02_exact.v). *)
From Coq Require Import ZArith List Bool.
From Verif Require Import PyBase MarshalModel Utf8Model CqlType CqlCodec CassandraSpecInt CassandraSpec
  Marshal_proofs Vint_proofs C01_proofs C02_proofs C02_exact.
Import ListNotations.
Local Open Scope Z_scope.

(* the full statement: exact on every value that has an encoding, refused otherwise *)
Definition C02_full_statement : Prop :=
  forall pv t v, kind t v = true -> v <> VNull -> to_binary pv t v = spec_result pv t v.

Theorem C02_full : C02_full_statement.
Proof. exact full_statement. Qed.
Print Assumptions C02_full.

(* the two halves, as the property states them *)
Theorem C02_exact : forall pv t v, kind t v = true -> v <> VNull -> in_range pv t v = true ->
  to_binary pv t v = Some (spec_enc pv t v).
Proof. intros pv t v K N R. rewrite (full_statement pv t v K N). unfold spec_result. rewrite R. reflexivity. Qed.
Print Assumptions C02_exact.

Theorem C02_rejects : forall pv t v, kind t v = true -> v <> VNull -> in_range pv t v = false ->
  to_binary pv t v = None.
Proof. intros pv t v K N R. rewrite (full_statement pv t v K N). unfold spec_result. rewrite R. reflexivity. Qed.
Print Assumptions C02_rejects.

(* any encoding Cassandra produces decodes to the value Cassandra means by it *)
Theorem C02_decodes_spec_image : forall pv t v,
  wf_type t = true -> kind t v = true -> in_range pv t v = true -> py_repr t v = true -> v <> VNull ->
  from_binary pv t (spec_enc pv t v) = Some (norm t v).
Proof. exact decodes_spec_image. Qed.
Print Assumptions C02_decodes_spec_image.

(* every scalar, varint / decimal / duration included (BigInteger.toByteArray, VIntCoding through the bridge) *)
Theorem C02_scalar_exact : forall s v, kind_scalar s v = true ->
  ser_scalar s v = if range_scalar s v then Some (spec_scalar s v) else None.
Proof. exact scalar_exact_all. Qed.
Print Assumptions C02_scalar_exact.

(* a `date` given as a datetime / date / string: the day written is the calendar day CONTAINING the instant, before 1970 too
   (floor, not truncation): any time of day on day d gives d, hence the bytes of d + 2^31 by C02_scalar_exact *)
Theorem C02_date_of_instant : forall d tod, 0 <= tod < 86400 ->
  date_days_of_seconds (86400 * d + tod) = d /\
  ser_scalar SDate (VInt (date_days_of_seconds (86400 * d + tod))) = ser_scalar SDate (VInt d).
Proof. intros d tod H. rewrite (date_of_instant d tod H). split; reflexivity. Qed.
Print Assumptions C02_date_of_instant.

Theorem C02_date_day_contains : forall secs,
  86400 * date_days_of_seconds secs <= secs < 86400 * (date_days_of_seconds secs + 1).
Proof. exact date_day_contains. Qed.
Print Assumptions C02_date_day_contains.

(* struct-packed integers: big-endian two's complement exactly on the type's range, refused (struct.error) outside *)
Theorem C02_fixed_width_exact : forall n signed z,
  pack_int n signed z = if int_range n signed z then Some (spec_be n z) else None.
Proof. exact pack_int_exact. Qed.
Print Assumptions C02_fixed_width_exact.

(* every scalar type except varint/decimal/duration: exactly the specified bytes on the range, an exception outside
   (2^31-offset dates, nanosecond times, UTF-8 text with surrogates refused, ascii, floats as bit patterns, ...) *)
Theorem C02_scalar_exact_partial : forall s v, proved_scalar s = true -> kind_scalar s v = true ->
  to_binary 4 (TScalar s) v = (if range_scalar s v then Some (spec_scalar s v) else None) \/ v = VNull.
Proof.
  intros s v P K. destruct v; try (left; exact (scalar_exact s _ P K)). right. reflexivity.
Qed.
Print Assumptions C02_scalar_exact_partial.

(* a null collection element is written as length -1 where the length field is signed (v3+), refused in v1/v2 *)
Theorem C02_null_element_exact : forall pv ser,
  enc_elem pv ser VNull = if 3 <=? pv then Some (spec_elem pv (fun _ => []) VNull) else None.
Proof. exact null_element_exact. Qed.
Print Assumptions C02_null_element_exact.

Theorem C02_null_is_minus_one : enc_elem 4 (fun _ => None) VNull = Some [255; 255; 255; 255] /\ enc_elem 2 (fun _ => None) VNull = None.
Proof. split; reflexivity. Qed.
Print Assumptions C02_null_is_minus_one.

(* zig-zag: the driver's shift/xor on unbounded ints agrees with Java's on every long *)
Theorem C02_zigzag_exact : forall n, int64 n -> encode_zig_zag n = spec_zigzag n /\ decode_zig_zag (encode_zig_zag n) = n.
Proof. intros n H. split; [apply encode_zig_zag_spec | apply decode_encode_zig_zag]; assumption. Qed.
Print Assumptions C02_zigzag_exact.

(* unsigned vints: at most 9 bytes, all bytes, never for values >= 2^64, and they read back (value and size) *)
Theorem C02_uvint_reads_back : forall v bs rest, uvint_pack v = Some bs ->
  0 <= v < 2 ^ 64 /\ (1 <= length bs)%nat /\ Forall is_byte bs /\ uvint_read (bs ++ rest) = Some (v, len bs, rest).
Proof.
  intros v bs rest H. repeat split; try (eapply uvint_pack_lt; eauto).
  - eapply uvint_pack_nonempty; eauto.
  - eapply uvint_pack_bytes; eauto.
  - apply uvint_read_pack; assumption.
Qed.
Print Assumptions C02_uvint_reads_back.

(* durations: three signed vints that decode to the same three longs *)
Theorem C02_vints_decode : forall vs bs, Forall int64 vs -> vints_pack vs = Some bs -> vints_unpack bs = Some vs.
Proof. exact vints_unpack_pack. Qed.
Print Assumptions C02_vints_decode.

(* varint: the bytes are a non-empty two's-complement string whose value is z *)
Theorem C02_varint_value : forall z, varint_pack z <> [] /\ varint_unpack (varint_pack z) = Some z.
Proof. intros. split; [apply varint_pack_nonempty | apply varint_unpack_pack]. Qed.
Print Assumptions C02_varint_value.

(* "never encoded as a different value": two values with the same bytes are the same value (all types, all nesting) *)
Theorem C02_never_another_value : forall pv t v1 v2 bs,
  wf_type t = true -> py_repr t v1 = true -> py_repr t v2 = true -> v1 <> VNull -> v2 <> VNull ->
  to_binary pv t v1 = Some bs -> to_binary pv t v2 = Some bs -> norm t v1 = norm t v2.
Proof. exact encoding_injective. Qed.
Print Assumptions C02_never_another_value.

(* what the driver writes decodes to the value (image of the encoder; = C01) *)
Theorem C02_decodes_image : forall pv t v bs,
  wf_type t = true -> py_repr t v = true -> v <> VNull ->
  to_binary pv t v = Some bs -> from_binary pv t bs = Some (norm t v).
Proof. exact roundtrip_to_from. Qed.
Print Assumptions C02_decodes_image.

(* the model agrees with the specification on concrete nested values, nulls and both length widths included *)
Example C02_nonvacuous :
  let t := TMap (TScalar SText) (TList (TTuple [TScalar SInt; TSet (TScalar SVarint); TScalar SDuration])) in
  let v := VMap [(VText [104; 233; 128512], VSeq [VSeq [VNull; VSeq [VInt (-129); VNull]; VDur 1 (-2) (2 ^ 40)]; VNull])] in
  kind t v = true /\ in_range 4 t v = true /\ to_binary 4 t v = spec_result 4 t v /\ to_binary 2 t v = spec_result 2 t v
  /\ spec_result 2 (TList (TScalar SInt)) (VSeq [VNull]) = None /\ to_binary 2 (TList (TScalar SInt)) (VSeq [VNull]) = None
  /\ to_binary 5 (TVector (TScalar SText) 2) (VSeq [VText [97]; VText []]) = spec_result 5 (TVector (TScalar SText) 2) (VSeq [VText [97]; VText []]).
Proof. cbv zeta. repeat split; vm_compute; reflexivity. Qed.

(* ------------------------------------------------------------------------------------------------------------
   (T) layer: the integer codecs of cassandra/marshal.py REGENERATED FROM SOURCE on every run (Gen/MarshalGen.v)
   are byte-exact with the independent specs of java.math.BigInteger and Cassandra's VIntCoding, for ALL integers,
   and coincide with the hand model (MarshalModel) the type-directed theorems above are stated over. *)
Require Verif.Gen.MarshalGen Verif.Model.JavaBigInteger Verif.Model.VIntCoding Verif.Proofs.MarshalGen_proofs Verif.Proofs.MarshalBridge.

Theorem C02_source_varint_exact : forall z : Z,
  exists bs, MarshalGen.varint_pack z = PyBase.Ok bs /\ bs = JavaBigInteger.java_toByteArray z /\
             Forall JavaBigInteger.is_byte bs /\ MarshalGen.varint_unpack bs = PyBase.Ok z.
Proof. exact MarshalGen_proofs.marshal_varint. Qed.
Print Assumptions C02_source_varint_exact.

Theorem C02_source_varint_minimal : forall z bs, Forall JavaBigInteger.is_byte bs -> JavaBigInteger.java_fromByteArray bs = Some z ->
  forall out, MarshalGen.varint_pack z = PyBase.Ok out -> (length out <= length bs)%nat.
Proof. exact MarshalGen_proofs.marshal_varint_minimal. Qed.
Print Assumptions C02_source_varint_minimal.

Theorem C02_source_varint_decodes_any : forall bs, Forall JavaBigInteger.is_byte bs ->
  PyBase.res_to_option (MarshalGen.varint_unpack bs) = JavaBigInteger.java_fromByteArray bs.
Proof. exact MarshalGen_proofs.marshal_varint_unpack. Qed.
Print Assumptions C02_source_varint_decodes_any.

Theorem C02_source_vints_exact : forall vals, PyBase.res_to_option (MarshalGen.vints_pack vals) = VIntCoding.vints_encode vals.
Proof. exact MarshalGen_proofs.marshal_vints_exact. Qed.
Print Assumptions C02_source_vints_exact.

Theorem C02_source_vints_reject_out_of_range : forall vals, ~ Forall (fun n => - 2 ^ 63 <= n < 2 ^ 63) vals ->
  MarshalGen.vints_pack vals = PyBase.Raise /\ VIntCoding.vints_encode vals = None.
Proof. exact MarshalGen_proofs.marshal_vints_rejects. Qed.
Print Assumptions C02_source_vints_reject_out_of_range.

Theorem C02_source_uvint_rejects : forall v, ~ (0 <= v < 2 ^ 64) ->
  MarshalGen.uvint_pack v = PyBase.Raise /\ VIntCoding.uvint_encode v = None.
Proof. exact MarshalGen_proofs.marshal_uvint_rejects. Qed.
Print Assumptions C02_source_uvint_rejects.

(* bridge: the hand model used by C02_*/C01_* IS what the source computes *)
Theorem C02_bridge_source_eq_model :
  (forall z, MarshalGen.varint_pack z = PyBase.Ok (MarshalModel.varint_pack z)) /\
  (forall bs, Forall JavaBigInteger.is_byte bs -> PyBase.res_to_option (MarshalGen.varint_unpack bs) = MarshalModel.varint_unpack bs) /\
  (forall v, PyBase.res_to_option (MarshalGen.uvint_pack v) = MarshalModel.uvint_pack v) /\
  (forall vals, PyBase.res_to_option (MarshalGen.vints_pack vals) = MarshalModel.vints_pack vals) /\
  (forall n, MarshalGen.encode_zig_zag n = MarshalModel.encode_zig_zag n) /\
  (forall n, MarshalGen.decode_zig_zag n = MarshalModel.decode_zig_zag n).
Proof.
  repeat split.
  - exact MarshalBridge.bridge_varint_pack.
  - exact MarshalBridge.bridge_varint_unpack.
  - exact MarshalBridge.bridge_uvint_pack.
  - exact MarshalBridge.bridge_vints_pack.
Qed.
Print Assumptions C02_bridge_source_eq_model.
