(* C15 -- requests with a timeout finish in bounded time (cassandra/cluster.py, ResponseFuture: _start_timer, _cancel_timer,
   _on_timeout incl. its 3 x 10 ms reschedule, _on_speculative_execute, start_fetching_next_page).
   Model: Model/FutureOnce.v with a virtual clock (ms); tied to the source by correspondence (checks/C15.py).
   pf = true is the code in which start_fetching_next_page cancels/clears the old timer and resets _start_time. *)
From Coq Require Import ZArith List Bool Lia.
From Verif Require Import FutureState FutureOnce C14_proofs C15_proofs.
Import ListNotations.
Local Open Scope Z_scope.

(* Fairness hypothesis, explicit: `punctual` histories never move the clock past the due time of a live (not cancelled, not
   fired) timer -- i.e. the reactor fires every due timer before time goes on.  Everything else is unconstrained: servers may
   stay silent, answer late, answer with any error, pools may fail, retries/speculative executions/page fetches may happen
   in any order.  Query plans are finite lists by construction.

   Statement: execute_async = __init__ ; send_request().  At every moment of every punctual history, if the current page
   fetch (the first or any later one, started at `pstart`) has no outcome yet, the clock is at most timeout + 3 x 10 ms past
   its start.  Hence an outcome (result or OperationTimedOut) exists by pstart + T + 30 at the latest. *)
Definition C15_statement (pf : bool) : Prop :=
  forall (c : config) (T : Z) (h : list op),
    c_timeout c = Some T -> 0 <= T ->
    let s0 := step true pf (init c) Send in
    punctual true pf s0 h ->
    let s := run true pf s0 h in
    final_set s = false -> now s <= pstart s + T + 30.

Theorem C15_bounded : C15_statement true.
Proof.
  intros c T h Hc HT s0 Hp s Hf. apply (CInv_bound T); [|exact Hf].
  apply CInv_run; [exact HT|apply CInv_start; assumption|exact Hp].
Qed.
Print Assumptions C15_bounded.

(* Without speculative executions nothing needs to be assumed about send_request(): it may come late (after the timeout
   timer already fired: the PYTHON-853 path, _on_timeout re-arming itself 3 x 10 ms while no connection is known) or never. *)
Theorem C15_bounded_without_speculation : forall (c : config) (T : Z) (h : list op),
  c_timeout c = Some T -> 0 <= T -> c_specs c = [] ->
  punctual true true (init c) h ->
  let s := run true true (init c) h in
  final_set s = false -> now s <= pstart s + T + 30.
Proof.
  intros c T h Hc HT Hs Hp s Hf. apply (CInv_bound T); [|exact Hf].
  apply CInv_run; [exact HT|apply CInv_init_nospec; assumption|exact Hp].
Qed.
Print Assumptions C15_bounded_without_speculation.

(* the hypothesis only orders events, it never stops the clock for good: whenever a tick of d is refused, some live timer is
   due strictly within d, and it can fire now or after an admissible shorter tick to its due time *)
Theorem C15_fairness_satisfiable : forall (s : state) (d : Z), 0 <= d ->
  punctual_tick s d
  \/ exists k t, nth_error (timers s) k = Some t /\ live t = true /\ due t < now s + d
                 /\ (due t <= now s \/ punctual_tick s (due t - now s)).
Proof. exact blocked_tick_has_fire. Qed.
Print Assumptions C15_fairness_satisfiable.

(* ---- the code before the fix: later pages have no timeout at all *)
Definition w15_cfg := mkConfig [1; 2] (Some 500) [] [(1, POk); (2, POk)] 0.
Definition w15 := [AddCb; Resp 0 (RRows true); NextPage [1; 2]; Tick 5000].

Theorem C15_without_page_reset_refuted : ~ C15_statement false.
Proof.
  intros H. specialize (H w15_cfg 500 w15 eq_refl ltac:(lia)). cbv zeta in H.
  assert (Hp : punctual true false (step true false (init w15_cfg) Send) w15).
  { cbn [punctual w15 punctual_op]. repeat split.
    intros j t Hj Hl. vm_compute in Hj. destruct j as [|[|j]]; try discriminate.
    inversion Hj. subst t. discriminate. }
  specialize (H Hp). vm_compute in H. specialize (H eq_refl). apply H. reflexivity.
Qed.
Print Assumptions C15_without_page_reset_refuted.

(* non-vacuity: silent servers over two pages; the second page times out exactly `timeout` after its own start *)
Example C15_nonvacuous :
  let s0 := step true true (init w15_cfg) Send in
  let h := [AddCb; Resp 0 (RRows true); Tick 2000; NextPage [1; 2]; Tick 500; Fire 1; Result] in
  let s := run true true s0 h in
  punctual true true s0 h /\ pstart s = 2000 /\ now s = 2500 /\ fexc s = Some 1 /\ pairs s = [mkPair [] [1]] /\ results s = [(1, 1)].
Proof.
  cbv zeta. split; [|vm_compute; repeat split].
  cbn [punctual punctual_op]. repeat split.
  - intros j t Hj Hl. vm_compute in Hj. destruct j as [|[|j]]; try discriminate. inversion Hj. subst t. discriminate.
  - intros j t Hj Hl. vm_compute in Hj. destruct j as [|[|[|j]]]; try discriminate.
    + inversion Hj. subst t. discriminate.
    + inversion Hj. subst t. vm_compute. discriminate.
Qed.

(* the bound T + 30 is attained: no host can be reached before the timeout, the handler re-arms itself three times *)
Example C15_bound_tight :
  let c := mkConfig [1] (Some 5) [] [(1, PNoConn)] 0 in
  let h := [Tick 5; Fire 0; Tick 10; Fire 1; Tick 10; Fire 2; Tick 9] in
  final_set (run true true (init c) h) = false /\ now (run true true (init c) h) = 34
  /\ fexc (run true true (init c) (h ++ [Tick 1; Fire 3])) = Some 1.
Proof. vm_compute. repeat split. Qed.
