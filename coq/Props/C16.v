(* C16 -- Retries do exactly what the retry policy decided.
   Model: Model/FutB.v (error branches of ResponseFuture._set_result, _handle_retry_decision, _retry, _retry_task through the
   executor queue, _query_retries; Session._create_response_future's speculative-plan gating in `init`).
   The retry policy is an ORACLE: `pol c : nat -> ekind -> Z -> Z -> option Z -> decision * option Z`, an arbitrary function of
   the consultation number and of every argument it is given.  Every theorem quantifies over all configurations (hence all
   policies, including any "random" one), all states / all histories. *)
From Coq Require Import ZArith List Bool.
From Verif Require Import PyBase FutbProto FutB FutB_lemmas FutB_steps FutB_origin C16_proofs.
Import ListNotations.
Local Open Scope Z_scope.

(* A retryable failure (read/write timeout, unavailable, overloaded, bootstrapping, truncate error, server error,
   connection error, connection shutdown) answered to an open request attempt at host h: the policy is consulted exactly
   once, about that failure, with retry_num = _query_retries (and, for on_request_error, the message's consistency level);
   the failure is recorded in _errors[h]; and the decision is carried out:
     RETRY cl          -> retry counter + 1; unless the request already failed, the message's consistency level becomes cl
                          (if given) and a same-host retry of h is handed to the executor;
     RETRY_NEXT_HOST cl-> the same with a next-host retry;
     RETHROW           -> the request fails with that server error, nothing is scheduled;
     IGNORE            -> the request completes with an empty result, nothing is scheduled. *)
Theorem C16_consulted_once_and_obeyed : forall c s i h k tag, open_query s i h -> inline_retry c = false ->
  let '(d, dcl) := pol c (nconsult s) k tag (retries s) (clarg s k) in
  exists s1, step c s (Resp i (RRetryable k tag))
             = (s1, [Consult (nconsult s) h k tag (retries s) (clarg s k) d dcl; ErrSet h (EResp k tag)])
  /\ nconsult s1 = S (nconsult s)
  /\ lookup (errors s1) h = Some (EResp k tag)
  /\ attempts s1 = mark_done i (attempts s) /\ plan s1 = plan s /\ pools s1 = pools s
  /\ match d with
     | DRetry => retry_effect s s1 dcl (TRetry true h)       (* see C16_proofs.retry_effect: counter + 1; request not failed and *)
     | DNextHost => retry_effect s s1 dcl (TRetry false h)   (* session open: level set, task queued, outcome untouched; session
                                                                shut down: ConnectionShutdown; request already failed: nothing *)
     | DRethrow => fin_exc s1 = (if completed s then fin_exc s else Some (XResp k tag)) /\ fin_res s1 = fin_res s /\
                   queue s1 = queue s /\ retries s1 = retries s /\ msg_cl s1 = msg_cl s
     | DIgnore => fin_res s1 = (if completed s then fin_res s else Some FNone) /\ fin_exc s1 = fin_exc s /\
                  queue s1 = queue s /\ retries s1 = retries s /\ msg_cl s1 = msg_cl s
     end.
Proof. exact retryable_step. Qed.
Print Assumptions C16_consulted_once_and_obeyed.

(* ... and the policy is consulted nowhere else: every consultation in any step is the one above *)
Theorem C16_consulted_only_on_failure : forall c s o s' ev n h k tag rn cl d dcl, step c s o = (s', ev) ->
  In (Consult n h k tag rn cl d dcl) ev ->
  exists i, o = Resp i (RRetryable k tag) /\ open_query s i h /\ n = nconsult s /\ rn = retries s /\ cl = clarg s k /\
            (d, dcl) = pol c n k tag rn cl.
Proof. exact step_consult. Qed.
Print Assumptions C16_consulted_only_on_failure.

(* RETRY cl: when the executor runs the retry (the request has not failed meanwhile, h's pool is usable), exactly one
   message is sent: the original request, to the same host h, at the level the policy chose *)
Theorem C16_obeys_retry : forall c s i h k tag dcl s1 ev1 s2 ev2, open_query s i h -> fin_exc s = None ->
  session_shut s = false -> inline_retry c = false ->
  pol c (nconsult s) k tag (retries s) (clarg s k) = (DRetry, dcl) ->
  step c s (Resp i (RRetryable k tag)) = (s1, ev1) -> pool_of s h = PHealthy ->
  step c s1 (Run (length (queue s))) = (s2, ev2) ->
  ev2 = [Sent h (MOrig (match dcl with Some x => Some x | None => msg_cl s end)) CRetrySame] /\ plan s2 = plan s.
Proof.
  intros c s i h k tag dcl s1 ev1 s2 ev2 O E Sh Inl P S1 Hp S2.
  pose proof (retryable_step c s i h k tag O Inl) as R. rewrite P in R. destruct R as (s1' & R1 & _ & _ & _ & Rp & Rpo & Rd).
  rewrite R1 in S1. inversion S1; subst s1' ev1. destruct Rd as (_ & Rq & _). destruct (Rq E Sh) as (_ & Re & Q & C).
  destruct (run_retry_same c s1 (length (queue s)) h) as (s2' & R2 & _ & _ & Rp2).
  - rewrite Q. apply nth_error_app_last.
  - congruence.
  - rewrite (pool_of_ext s1 s h Rpo). exact Hp.
  - rewrite R2 in S2. inversion S2; subst. rewrite C. split; [reflexivity|congruence].
Qed.
Print Assumptions C16_obeys_retry.

(* RETRY_NEXT_HOST cl: the executor task is exactly one send_request over the plan as it was, at the chosen level: by
   C17_order it goes to the first usable host of the remaining plan, or reports NoHostAvailable *)
Theorem C16_obeys_next_host : forall c s i h k tag dcl s1 ev1 s2 ev2, open_query s i h -> fin_exc s = None ->
  session_shut s = false -> inline_retry c = false ->
  pol c (nconsult s) k tag (retries s) (clarg s k) = (DNextHost, dcl) ->
  step c s (Resp i (RRetryable k tag)) = (s1, ev1) ->
  step c s1 (Run (length (queue s))) = (s2, ev2) ->
  exists s1', plan s1' = plan s /\ pools s1' = pools s /\ queue s1' = queue s /\
              msg_cl s1' = match dcl with Some x => Some x | None => msg_cl s end /\
              send_request s1' true = (s2, ev2) /\ walked s1' (plan s) true s2 ev2.
Proof.
  intros c s i h k tag dcl s1 ev1 s2 ev2 O E Sh Inl P S1 S2.
  pose proof (retryable_step c s i h k tag O Inl) as R. rewrite P in R. destruct R as (s1' & R1 & _ & _ & _ & Rp & Rpo & Rd).
  rewrite R1 in S1. inversion S1; subst s1' ev1. destruct Rd as (_ & Rq & _). destruct (Rq E Sh) as (_ & Re & Q & C).
  rewrite (run_retry_next c s1 (length (queue s)) h) in S2; [|rewrite Q; apply nth_error_app_last|congruence].
  exists (set_queue s1 (remove_nth (length (queue s)) (queue s1))).
  split; [exact Rp|]. split; [exact Rpo|]. split; [cbn [queue set_queue]; rewrite Q; apply remove_nth_app_last|].
  split; [exact C|]. split; [exact S2|].
  unfold send_request in S2. apply walk_walked in S2. cbn [plan set_queue] in S2. rewrite Rp in S2. exact S2.
Qed.
Print Assumptions C16_obeys_next_host.

(* a retry whose request has failed in the meantime sends nothing *)
Theorem C16_no_retry_after_failure : forall c s k reuse h, nth_error (queue s) k = Some (TRetry reuse h) ->
  fin_exc s <> None -> step c s (Run k) = (set_queue s (remove_nth k (queue s)), []).
Proof. exact run_retry_failed. Qed.
Print Assumptions C16_no_retry_after_failure.

(* the retry count passed to the policy is the number of retry decisions taken so far in this execution, and the number
   of consultations is the number of consult events: over every history from the initial state *)
Theorem C16_retry_num : forall c lb target pl cl idem hasp maxa ks ops s evs,
  exec c (init lb target pl cl idem hasp maxa ks) ops = (s, evs) ->
  retries s = retry_count evs /\ nconsult s = length (consults evs).
Proof.
  intros c lb target pl cl idem hasp maxa ks ops s evs H. apply exec_counted in H. destruct H as [R N].
  assert (I : retries (init lb target pl cl idem hasp maxa ks) = 0 /\ nconsult (init lb target pl cl idem hasp maxa ks) = 0%nat).
  { unfold init, start_timer. cbn [spec_armed spec_left]. destruct (0 <? spec_gate idem hasp maxa); split; reflexivity. }
  destruct I as [I1 I2]. rewrite I1 in R. rewrite I2 in N. split; [rewrite R; apply Z.add_0_l|exact N].
Qed.
Print Assumptions C16_retry_num.

(* statements not marked idempotent are never executed speculatively: whatever speculative policy the profile carries,
   at every reachable state the speculative timer is not armed and firing it does nothing *)
Theorem C16_non_idempotent_never_speculative : forall c lb target pl cl hasp maxa ks ops s evs,
  exec c (init lb target pl cl false hasp maxa ks) ops = (s, evs) ->
  spec_armed s = false /\ step c s Spec = (s, []).
Proof.
  intros c lb target pl cl hasp maxa ks ops s evs H.
  assert (N : never_spec s) by (eapply exec_never_spec; [apply init_never_spec|exact H]).
  destruct N as [A L]. split; [exact A|]. cbn [step]. unfold spec_fire. rewrite A. reflexivity.
Qed.
Print Assumptions C16_non_idempotent_never_speculative.

(* non-vacuity: read timeout from host 0 answered RETRY at consistency 5, then an overloaded error answered
   RETRY_NEXT_HOST, then unavailable answered RETHROW; retry_num goes 0, 1, 2 *)
Example C16_nonvacuous :
  let c := {| pol := scripted [(DRetry, Some 5); (DNextHost, None); (DRethrow, None)]; fut_ps := None; known := []; pv := 4; tgt := None; inline_retry := false |} in
  let s0 := init [0; 1] None [(0, PHealthy); (1, PHealthy)] (Some 1) false true 2 None in
  let '(s, evs) := exec c s0 [Start; Resp 0%nat (RRetryable KReadTimeout 10); Run 0%nat;
                              Resp 1%nat (RRetryable KOverloaded 11); Run 0%nat; Resp 2%nat (RRetryable KUnavailable 12)] in
  evs = [Sent 0 (MOrig (Some 1)) CPlan;
         Consult 0 0 KReadTimeout 10 0 None DRetry (Some 5); ErrSet 0 (EResp KReadTimeout 10);
         Sent 0 (MOrig (Some 5)) CRetrySame;
         Consult 1 0 KOverloaded 11 1 (Some 5) DNextHost None; ErrSet 0 (EResp KOverloaded 11);
         Sent 1 (MOrig (Some 5)) CPlan;
         Consult 2 1 KUnavailable 12 2 None DRethrow None; ErrSet 1 (EResp KUnavailable 12)]
  /\ fin_exc s = Some (XResp KUnavailable 12) /\ retries s = 2.
Proof. vm_compute. repeat split. Qed.
