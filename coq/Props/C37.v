(* C37 -- cqlengine statements bind every placeholder to its own clause's value.
   Model: Model/Clauses.v (hand-written from cassandra/cqlengine/statements.py, query.py; tied by correspondence in checks/C37.py).
   A statement is built by ANY sequence of add_where / add_conditional / add_assignment / add_field / update_context_id calls
   (`build k ops`), over any number and kind of clauses and any values; `wf_op` only says that each clause class sits where
   cqlengine itself puts it and that Token() carries as many columns as values (what AbstractQuerySet.filter enforces). *)
From Coq Require Import ZArith List Bool Permutation.
From Verif Require Import Clauses Clauses_proofs.
Import ListNotations.
Local Open Scope Z_scope.

(* every clause class: get_context_size() = number of placeholders rendered = number of context entries, all three being the
   consecutive ids i, i+1, ... (the defect found by this check was exactly a violation of this for empty add/remove/append/prepend) *)
Theorem C37_clause : forall c i, wfc c = true ->
  flat_map fps (clause_render i c) = zseq i (Z.to_nat (clause_size c)) /\
  map fst (clause_ctx i c) = zseq i (Z.to_nat (clause_size c)).
Proof. intros c i H. split; [apply clause_render_ids | apply clause_ctx_keys]; exact H. Qed.
Print Assumptions C37_clause.

(* placeholders of the rendered text = keys of the context: none missing, none extra, no duplicates *)
Theorem C37_bijection : forall k ops, forallb (wf_op k) ops = true ->
  let s := build k ops in
  Permutation (placeholders (render s)) (map fst (context s)) /\
  NoDup (placeholders (render s)) /\ NoDup (map fst (context s)).
Proof. intros k ops H. apply stmt_bijection. apply Inv_build. exact H. Qed.
Print Assumptions C37_bijection.

(* every value a clause supplies is what the context binds to that id, and that id is rendered by that very clause
   (by C37_bijection it is rendered nowhere else) *)
Theorem C37_own_value : forall k ops, forallb (wf_op k) ops = true ->
  let s := build k ops in
  forall p i c id v, In p (render_parts k) -> In (i, c) (get_part p s) -> In (id, v) (clause_ctx i c) ->
  dict_get id (context s) = Some v /\ In id (flat_map fps (clause_render_in k i c)).
Proof.
  intros k ops H s p i c id v Hp Hic Hv. destruct (Inv_build k ops H) as [HI Hk].
  rewrite <- Hk. apply (stmt_own_value (build k ops) p i c id v HI); [rewrite Hk|..]; assumption.
Qed.
Print Assumptions C37_own_value.

(* BatchQuery.execute: the renumbered statements use pairwise disjoint ids (no duplicate in the whole batch text),
   the merged parameters have exactly those keys, and bind every id to the value of its own statement *)
Theorem C37_batch : forall qs, Forall Inv qs ->
  let ss := batch_stmts 0 qs in
  let ps := snd (batch_exec 0 qs []) in
  fst (batch_exec 0 qs []) = map render ss /\
  Forall Inv ss /\
  NoDup (flat_map placeholders (fst (batch_exec 0 qs []))) /\
  Permutation (flat_map placeholders (fst (batch_exec 0 qs []))) (map fst ps) /\
  (forall s id v, In s ss -> In (id, v) (context s) -> dict_get id ps = Some v).
Proof. exact batch_params. Qed.
Print Assumptions C37_batch.

(* statements that enter a batch are the ones built above *)
Theorem C37_batch_members : forall k ops, forallb (wf_op k) ops = true -> Inv (build k ops).
Proof. intros k ops H. apply Inv_build. exact H. Qed.
Print Assumptions C37_batch_members.

(* WHERE / IF / SET / DELETE-field parts: the rendered part is the rendering of exactly the requested clauses, in request order,
   whatever update_context_id calls are interleaved *)
Theorem C37_parts : forall k ops p, In p (render_parts k) ->
  exists l, In (p, part_render k l) (render (build k ops)) /\ map snd l = adds_of p ops.
Proof. exact render_lists_parts. Qed.
Print Assumptions C37_parts.

(* ... and every fragment a clause renders names that clause's own column *)
Theorem C37_parts_field : forall c i fr, In fr (clause_render i c) -> ff fr = clause_field c.
Proof. exact clause_render_field. Qed.
Print Assumptions C37_parts_field.

(* query-set chains: whatever order_by / limit / only / defer / allow_filtering calls are interleaved, the SELECT's WHERE clauses
   are exactly the filters requested, in order, and the statement satisfies the bijection *)
Theorem C37_parts_chain : forall ops, forallb (wf_add Select PWhere) (filters_of ops) = true ->
  map snd (s_where (select_stmt (chain ops))) = filters_of ops /\ bij (select_stmt (chain ops)).
Proof. exact chain_select_ok. Qed.
Print Assumptions C37_parts_chain.

Theorem C37_parts_chain_delete : forall ops,
  forallb (wf_add Delete PWhere) (filters_of ops) = true -> forallb (wf_add Delete PCond) (iffs_of ops) = true ->
  map snd (s_where (delete_stmt (chain ops))) = filters_of ops /\
  map snd (s_cond (delete_stmt (chain ops))) = iffs_of ops /\ bij (delete_stmt (chain ops)).
Proof. exact chain_delete_ok. Qed.
Print Assumptions C37_parts_chain_delete.

Theorem C37_parts_chain_update : forall ops assigns,
  forallb (wf_add Update PWhere) (filters_of ops) = true -> forallb (wf_add Update PCond) (iffs_of ops) = true ->
  forallb (wf_add Update PAssign) assigns = true ->
  map snd (s_where (update_stmt (chain ops) assigns)) = filters_of ops /\
  map snd (s_cond (update_stmt (chain ops) assigns)) = iffs_of ops /\
  map snd (s_assign (update_stmt (chain ops) assigns)) = filter (fun c => negb (clause_size c =? 0)) assigns /\
  bij (update_stmt (chain ops) assigns).
Proof. exact chain_update_ok. Qed.
Print Assumptions C37_parts_chain_update.

(* instance-level conditional update (instance.iff(...).update(...)): the UPDATE carries all requested conditions; the follow-up DELETE of the
   nulled columns carries exactly the requested conditions on columns the UPDATE did not rewrite (by db field name), in order *)
Theorem C37_parts_instance_update : forall keys conds assigns nulled,
  forallb (wf_add Update PWhere) keys = true -> forallb (wf_add Delete PWhere) keys = true ->
  forallb (wf_add Update PCond) conds = true -> forallb (wf_add Delete PCond) conds = true ->
  forallb (wf_add Update PAssign) assigns = true ->
  let asg := filter (fun c => negb (clause_size c =? 0)) assigns in
  let u := fst (inst_update_stmts keys conds assigns nulled) in
  let d := snd (inst_update_stmts keys conds assigns nulled) in
  map snd (s_cond u) = conds /\ map snd (s_assign u) = asg /\ map snd (s_where u) = keys /\
  map snd (s_cond d) = delete_conds conds (map clause_field asg) /\ map snd (s_field d) = map CDelField nulled /\
  map snd (s_where d) = keys /\
  (forall c, In c (map snd (s_cond d)) <-> In c conds /\ ~ In (clause_field c) (map clause_field asg)) /\
  bij u /\ bij d.
Proof. exact inst_update_ok. Qed.
Print Assumptions C37_parts_instance_update.

(* the code before the fix: ListUpdateClause/SetUpdateClause/MapUpdateClause rendered (and bound) an empty add/remove/append/prepend
   although get_context_size() counted 0 for it.  With that rendering the bijection fails: the witness replayed by corpus/C37. *)
Definition old_list_render (i : Z) (f : name) (v : option (list Z)) (op : option listop) (prev : option (list Z)) : list frag :=
  let '(asg, pre, app) := list_analyze v op prev in
  render_opts f i [(KAssign, is_some asg); (KPrepend, is_some pre); (KPlus, is_some app)].
Theorem C37_prefix_refuted :
  let c := CListUpd 0 (Some []) (Some LAppend) None in
  let s := build Update [Add PAssign c; Add PAssign (CAssign 1 (VInt 1))] in
  clause_size c = 0 /\ flat_map fps (old_list_render 0 0 (Some []) (Some LAppend) None) = [0] /\
  flat_map fps (part_render Update [(0, CAssign 1 (VInt 1))]) = [0] /\ map fst (s_assign s) = [0; 0].
Proof. vm_compute. repeat split. Qed.
Print Assumptions C37_prefix_refuted.

Example C37_nonvacuous :
  let ops := [Add PWhere (CWhere 0 true OpIN (QPlain (VList [1; 2])));
              Add PCond (CCond 5 (VInt 3));
              Add PAssign (CListUpd 7 (Some [9; 1; 2; 8]) None (Some [1; 2]));
              Add PAssign (CMapUpd 9 [(1, 2); (3, 4)] None (Some [(1, 2)]));
              Renum 10;
              Add PWhere (CWhere (-1) false OpGT (QToken [4; 5] 2))] in
  forallb (wf_op Update) ops = true /\
  placeholders (render (build Update ops)) = [11; 12; 13; 14; 10; 16; 17; 15] /\
  context (build Update ops) =
    [(10, VInQ (VList [1; 2])); (16, VInt 4); (17, VInt 5); (11, VList [9]); (12, VList [8]); (13, VInt 3); (14, VInt 4); (15, VInt 3)].
Proof. vm_compute. repeat split. Qed.
