(* C12 -- connection pools keep exact accounting and close what they open (HostConnection, protocol v3+).
   Model: Model/Pool.v, one op per atomic region of cassandra/pool.py (repaired code, see findings/C12.json).
   Every theorem quantifies over EVERY sequence of atomic steps, of any length, from any number of threads. *)
From Coq Require Import ZArith List Bool Lia.
From Verif Require Import Pool Pool_base C12_proofs PoolV2 C12v2_proofs.
Import ListNotations.
Local Open Scope Z_scope.

(* a pool never hands out a connection beyond its request capacity: in_flight never exceeds max_request_id,
   whatever borrowers, set_keyspace calls, timeouts, late responses, failures, replacements and shutdowns do *)
Theorem C12_capacity : forall (w : bool) (mx th : Z) (ops : list op) (c : nat),
  0 <= mx -> c_inflight (getc (run (init w mx th) ops) c) <= mx.
Proof.
  intros w mx th ops c H. pose proof (inv_capacity _ c (Inv_reach w mx th ops H)) as [H1 _].
  rewrite maxid_run in H1. exact (proj2 H1).
Qed.
Print Assumptions C12_capacity.

(* a borrow that starts once the pool is shut down fails, for ever after *)
Theorem C12_borrow_after_shutdown_fails : forall (w : bool) (mx th : Z) (ops1 ops2 : list op),
  shut (run (init w mx th) ops1) = true ->
  snd (step (run (run (init w mx th) ops1) ops2) GetConn) = [OErrShutdown].
Proof. intros w mx th ops1 ops2 H. rewrite getconn_shut; [reflexivity|]. apply shut_run, H. Qed.
Print Assumptions C12_borrow_after_shutdown_fails.

(* in-flight counts never go negative; exact accounting: in_flight = live streams + orphaned streams *)
Theorem C12_nonneg : forall (w : bool) (mx th : Z) (ops : list op) (c : nat),
  0 <= mx ->
  let k := getc (run (init w mx th) ops) c in
  0 <= c_inflight k /\ c_inflight k = c_live k + c_orph k /\ 0 <= c_live k /\ 0 <= c_orph k.
Proof.
  intros w mx th ops c H k. pose proof (Inv_reach w mx th ops H) as Hi.
  destruct (inv_capacity _ c Hi) as [H1 H2]. destruct Hi as [[_ HA] _].
  destruct (HA c) as (?&?&_). subst k. lia.
Qed.
Print Assumptions C12_nonneg.

(* after shutdown() has run and no replacement task is queued or running, every connection the pool ever
   opened -- current, trashed, or created by a replacement that raced with the shutdown -- is closed *)
Theorem C12_closes_everything : forall (w : bool) (mx th : Z) (ops : list op),
  0 <= mx -> In ShutdownFlag ops -> quiescent (run (init w mx th) ops) = true ->
  all_closed (run (init w mx th) ops) = true.
Proof. intros w mx th ops H _ Hq. apply inv_closes; [apply Inv_reach, H|exact Hq]. Qed.
Print Assumptions C12_closes_everything.

(* the hypotheses are satisfiable by a non-trivial history: threshold crossed, replacement, old connection
   trashed with a live request, shutdown, late return: 2 connections opened, both closed at the end *)
Definition C12_hist : list op :=
  [GetConn; BorrowTry 0; BorrowTry 0; BorrowTry 0; Orphan 0; ReturnRead 0; Orphan 0; ReturnRead 0;
   GetConn; BorrowReadThr 0; BorrowCheckReplace 0; ReplaceCheck; ReplaceConnect true; ReplaceAssign; ReplaceFinish;
   ShutdownFlag; ShutdownCloseMain; ShutdownTrash; ReturnDec 0; Notify; ReturnRead 0].
Example C12_nonvacuous :
  let s := run (init true 3 2) C12_hist in
  quiescent s = true /\ length (conns s) = 2%nat /\ all_closed s = true /\ In ShutdownFlag C12_hist /\
  trash (run (init true 3 2) (firstn 15 C12_hist)) = [0%nat].
Proof. vm_compute. repeat split; auto 20. Qed.

(* ------------------------------------------------------------------------------------------------
   HostConnectionPool (protocol v1/v2), Model/PoolV2.v: same four statements, for every sequence of its atomic steps. *)
Theorem C12v2_capacity : forall (n : nat) (co mc mx mr mn : Z) (ops : list lop) (c : nat),
  0 <= mx -> l_inflight (lget (lrun (linit n co mc mx mr mn) ops) c) <= mx.
Proof.
  intros n co mc mx mr mn ops c H. pose proof (linv_accounting _ c (LInv_run ops _ (LInv_init n co mc mx mr mn H))) as [H1 _].
  rewrite lmaxid_run in H1. exact (proj2 H1).
Qed.
Print Assumptions C12v2_capacity.

Theorem C12v2_nonneg : forall (n : nat) (co mc mx mr mn : Z) (ops : list lop) (c : nat),
  0 <= mx ->
  let k := lget (lrun (linit n co mc mx mr mn) ops) c in
  0 <= l_inflight k /\ l_inflight k = l_live k + l_orph k.
Proof.
  intros n co mc mx mr mn ops c H k. pose proof (linv_accounting _ c (LInv_run ops _ (LInv_init n co mc mx mr mn H))) as [H1 H2].
  subst k. split; [exact (proj1 H1)|exact H2].
Qed.
Print Assumptions C12v2_nonneg.

(* borrow_connection and every iteration of _wait_for_conn test is_shutdown first (LShutCheck) and raise when it is set *)
Theorem C12v2_borrow_after_shutdown_fails : forall (n : nat) (co mc mx mr mn : Z) (ops1 ops2 : list lop),
  lshut (lrun (linit n co mc mx mr mn) ops1) = true ->
  snd (lstep (lrun (lrun (linit n co mc mx mr mn) ops1) ops2) LShutCheck) = [LBool true].
Proof. intros n co mc mx mr mn ops1 ops2 H. simpl. rewrite (lshut_run ops2 _ H). reflexivity. Qed.
Print Assumptions C12v2_borrow_after_shutdown_fails.

Theorem C12v2_closes_everything : forall (n : nat) (co mc mx mr mn : Z) (ops : list lop),
  0 <= mx -> In LShutdownFlag ops -> lquiescent (lrun (linit n co mc mx mr mn) ops) = true ->
  lall_closed (lrun (linit n co mc mx mr mn) ops) = true.
Proof. intros n co mc mx mr mn ops H _ Hq. apply linv_closes; [apply LInv_run, LInv_init, H|exact Hq]. Qed.
Print Assumptions C12v2_closes_everything.

(* a borrower that was parked on the condition in _wait_for_conn (LWait) and resumes after the pool was shut down -- by that
   shutdown or by a stream freed meanwhile -- fails with "Pool is shutdown" and takes no stream: in every state with the flag
   set, the rest of its loop iteration ends with LErrShutdown and leaves the state untouched *)
Theorem C12v2_woken_borrower_fails : forall (n : nat) (co mc mx mr mn : Z) (ops : list lop) (fuel : nat),
  let s := lrun (linit n co mc mx mr mn) ops in
  lshut s = true -> lexec (lwait_loop (S fuel) LRet) s = (s, LErrShutdown).
Proof. intros n co mc mx mr mn ops fuel s H. apply woken_after_shutdown, H. Qed.
Print Assumptions C12v2_woken_borrower_fails.

(* non-vacuous: a second connection is spawned, retired into the trash with a stream in flight, a third one is being opened
   while shutdown() runs: all three end up closed *)
Example C12v2_nonvacuous :
  let ops := [LTake 0; LTake 0; LMaybeSpawn; LTaskCheck; LTaskConnect 0; LTaskAppend 0; LTaskDone; LTake 1; LTrash 1;
              LMaybeSpawn; LTaskCheck; LTaskConnect 1; LShutdownFlag; LShutdownSnap; LShutdownNext; LShutdownTrash; LTaskAppend 1; LTaskDone] in
  let s := lrun (linit 1 1 3 3 2 1) ops in
  lquiescent s = true /\ length (lconns s) = 3%nat /\ lall_closed s = true /\
  ltrash (lrun (linit 1 1 3 3 2 1) (firstn 9 ops)) = [1%nat].
Proof. vm_compute. repeat split. Qed.
