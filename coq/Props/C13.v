(* C13 -- replacing an overloaded connection never abandons live requests (HostConnection).
   Same model and invariant as C12 (Model/Pool.v, Proofs/C12_proofs.v). *)
From Coq Require Import ZArith List Bool Lia.
From Verif Require Import Pool Pool_base C12_proofs.
Import ListNotations.
Local Open Scope Z_scope.

(* once _replace has finished for connection c, every borrow that starts afterwards gets a strictly newer
   connection (the replacement or a later one), never c again *)
Theorem C13_new_requests_move : forall (w : bool) (mx th : Z) (ops : list op) (c c' : nat),
  0 <= mx -> c_replaced (getc (run (init w mx th) ops) c) = true ->
  In (OConn c') (snd (step (run (init w mx th) ops) GetConn)) -> (c < c')%nat.
Proof. intros w mx th ops c c' H. apply inv_new_requests_move, Inv_reach, H. Qed.
Print Assumptions C13_new_requests_move.

(* whenever the replacement machinery (the else-branch of _replace, or the trash branch of return_connection)
   calls close() on a connection, no non-orphaned request is outstanding on it -- in every reachable state.
   (closes by shutdown() and by the connection's own defunct() carry other reasons and are excluded, as in the statement) *)
Theorem C13_no_close_while_live : forall (w : bool) (mx th : Z) (ops : list op) (o : op) (c : nat) (why : Z),
  0 <= mx -> In (OClose c why) (snd (step (run (init w mx th) ops) o)) ->
  why = BY_TRASH \/ why = BY_REPLACE -> c_live (getc (run (init w mx th) ops) c) = 0.
Proof. intros w mx th ops o c why H. apply close_only_idle, Inv_reach, H. Qed.
Print Assumptions C13_no_close_while_live.

(* a replaced connection is closed as soon as only orphaned streams remain on it and the return_connection
   calls that brought the count down have run to their end *)
Theorem C13_eventually_closed : forall (w : bool) (mx th : Z) (ops : list op) (c : nat),
  0 <= mx ->
  let k := getc (run (init w mx th) ops) c in
  c_replaced k = true -> c_live k = 0 -> c_retp k = 0 -> c_trp k = 0 -> c_closed k = true.
Proof. intros w mx th ops c H k. apply inv_eventually_closed, Inv_reach, H. Qed.
Print Assumptions C13_eventually_closed.

(* a scheduled replacement is never lost: while _is_replacing is set on an open pool, exactly one _replace task is queued or
   running -- whatever made connection attempts fail (ReplaceConnect false stands for ANY exception of the connect) *)
Theorem C13_replacement_not_abandoned : forall (w : bool) (mx th : Z) (ops : list op),
  0 <= mx ->
  let s := run (init w mx th) ops in
  replacing s = true -> shut s = false ->
  (length (queue s) + length (connecting s) + length (assigning s) + length (finishing s) = 1)%nat.
Proof. intros w mx th ops H s. apply (proj2 (Inv2_reach w mx th ops H)). Qed.
Print Assumptions C13_replacement_not_abandoned.

(* non-vacuous: connection 0 crosses the threshold with one live request left, is replaced (trashed, still open),
   a new borrow gets connection 1, and the last return closes connection 0 *)
Definition C13_hist : list op :=
  [GetConn; BorrowTry 0; BorrowTry 0; BorrowTry 0; Orphan 0; ReturnRead 0; Orphan 0; ReturnRead 0;
   GetConn; BorrowReadThr 0; BorrowCheckReplace 0; ReplaceCheck; ReplaceConnect true; ReplaceAssign; ReplaceFinish].
Example C13_nonvacuous :
  let s := run (init true 3 2) C13_hist in
  c_replaced (getc s 0) = true /\ c_closed (getc s 0) = false /\ c_live (getc s 0) = 1 /\ trash s = [0%nat] /\
  snd (step s GetConn) = [OConn 1%nat] /\
  let s' := run s [ReturnDec 0; Notify; ReturnRead 0; ReturnTrash 0] in
  c_live (getc s' 0) = 0 /\ c_closed (getc s' 0) = true /\ events s [ReturnDec 0; Notify; ReturnRead 0; ReturnTrash 0] <> [].
Proof. vm_compute. repeat split; discriminate. Qed.
