(* C47 -- a connection is usable only after a successful handshake.
   Model: Model/Handshake.v (one step = one reactor callback into cassandra/connection.py); tie: correspondence
   with the real Connection handlers (checks/C47.py).  Every theorem quantifies over ALL reply sequences (any length),
   all configurations (authenticator kind, compression setting, ANY local / remote algorithm lists, any version).
   `c_guard cfg = true` = the reactor's close() records ConnectionShutdown while the handshake is unfinished
   (asyncore always; asyncio / twisted / eventlet / gevent since fix C47-1). *)
From Coq Require Import ZArith List Bool Lia ZifyBool.
From Verif Require Segment.
From Verif Require Import PyBase HsProtoVersion Handshake C47_proofs C47_main C47_applied.
Import ListNotations.
Local Open Scope Z_scope.

(* "reported ready" = what Connection.factory tests: connected_event set and no last_error *)
Theorem C47_ready_only_after : forall cfg rs, c_guard cfg = true ->
  reported_ready (fst (run cfg rs)) = true ->
  (exists remote rest, rs = RSupported remote :: rest) /\ (In RReady rs \/ In RAuthSuccess rs).
Proof. exact c47_ready_only_after_lemma. Qed.
Print Assumptions C47_ready_only_after.

(* without that guard in close() the statement fails: SUPPORTED then a disconnect is reported as a ready connection *)
Theorem C47_unguarded_close_refuted :
  exists cfg rs, c_guard cfg = false /\ reported_ready (fst (run cfg rs)) = true /\ ~ (In RReady rs \/ In RAuthSuccess rs).
Proof.
  exists (mkConfig ANone CompAuto [0; 1] 4 false), [RSupported [0; 1]; RDisconnect].
  split; [reflexivity|]. split; [reflexivity|]. intros [H|H]; cbn in H; intuition discriminate.
Qed.
Print Assumptions C47_unguarded_close_refuted.

(* failures: (a) AuthenticationFailed only for authentication reasons; (b) the unambiguous authentication failures are
   AuthenticationFailed; (c) any failure wakes the waiter, is final, and the connection is never reported ready;
   (d) while nothing is reported the handshake has exactly one request outstanding (no silent hang) *)
Theorem C47_error_kinds : forall cfg rs,
  let s := fst (run cfg rs) in
  (last_error s = Some EAuthFailed ->
     In RAuthenticate rs /\ (c_auth cfg = ANone \/ exists k, In (RError k) rs))
  /\ (forall post, c_auth cfg = ANone -> (exists did, pending s = Some (CbStartup did)) ->
        last_error (fst (run cfg (rs ++ RAuthenticate :: post))) = Some EAuthFailed)
  /\ (forall post, pending s = Some CbAuth \/ pending s = Some (CbStartup true) ->
        last_error (fst (run cfg (rs ++ RError EkAuth :: post))) = Some EAuthFailed)
  /\ (forall e, last_error s = Some e ->
        connected s = true /\ reported_ready s = false /\
        forall more, last_error (fst (run cfg (rs ++ more))) = Some e)
  /\ (connected s = false -> last_error s = None /\ exists c, pending s = Some c).
Proof. exact c47_error_kinds_lemma. Qed.
Print Assumptions C47_error_kinds.

(* whatever algorithm is staged, installed as (de)compressor, or announced in STARTUP is supported locally AND was
   offered by the server's SUPPORTED reply; an explicit user choice is respected; compression=False negotiates nothing *)
Theorem C47_compression_both_sides : forall cfg rs a,
  let s := fst (run cfg rs) in
  (pcomp s = Some a \/ comp s = Some a \/ decomp s = Some a
   \/ exists f, In f (snd (run cfg rs)) /\ f_kind f = MStartup (Some a)) ->
  In a (c_local cfg)
  /\ (exists remote rest, rs = RSupported remote :: rest /\ In a remote)
  /\ c_comp cfg <> CompOff /\ (forall n, c_comp cfg = CompName n -> a = n)
  /\ ~ (a = snappy /\ has_cs (c_version cfg) = true).
Proof. exact c47_compression_both_sides_lemma. Qed.
Print Assumptions C47_compression_both_sides.

(* before the server has accepted STARTUP (READY) or asked for authentication (AUTHENTICATE) nothing that leaves the
   connection is compressed -- neither the frame body nor the v5 segment -- and no compressor is installed *)
Theorem C47_compress_only_after_accept : forall cfg rs,
  (forall r, In r rs -> r <> RReady /\ r <> RAuthenticate) ->
  comp (fst (run cfg rs)) = None /\
  forall f, In f (snd (run cfg rs)) -> f_compressed f = false /\ f_segcomp f = false /\ f_checksummed f = false.
Proof. exact c47_compress_only_after_accept_lemma. Qed.
Print Assumptions C47_compress_only_after_accept.

(* checksummed (segment) framing: never for a version without checksumming support, always once the connection is
   reported ready on a version with it; has_cs is exactly {v5, v6} among the driver's protocol versions *)
Theorem C47_checksumming_iff_v5 : forall cfg rs, c_guard cfg = true ->
  let s := fst (run cfg rs) in
  (cksum s = true -> has_cs (c_version cfg) = true)
  /\ (reported_ready s = true -> cksum s = has_cs (c_version cfg))
  /\ (forall f, In f (snd (run cfg rs)) -> f_checksummed f = true -> has_cs (c_version cfg) = true)
  /\ (forall v, In v [1; 2; 3; 4; 5; 6; 65; 66] -> (has_cs v = true <-> v = 5 \/ v = 6)).
Proof. exact c47_checksumming_iff_v5_lemma. Qed.
Print Assumptions C47_checksumming_iff_v5.

(* (T) the model's version predicate IS the driver's: has_checksumming_support is regenerated from cassandra/__init__.py *)
Theorem C47_has_cs_is_source : forall v, has_checksumming_support v = has_cs v.
Proof. intro v. unfold has_checksumming_support, has_cs. lia. Qed.
Print Assumptions C47_has_cs_is_source.

(* once the server has accepted STARTUP (authentication phase, or reported ready) the NEGOTIATED compression is what the
   connection applies: compressor = the algorithm staged by SUPPORTED and announced in STARTUP; checksumming exactly on the
   checksumming versions and then the segment codec compresses iff a compression was negotiated; every AUTH_RESPONSE /
   CREDENTIALS frame is framed accordingly (frame flag below v5, compressing segment codec from v5) *)
Theorem C47_negotiated_compression_applied : forall cfg rs, c_guard cfg = true ->
  let s := fst (run cfg rs) in
  (authphase s \/ reported_ready s = true ->
     comp s = pcomp s /\ cksum s = has_cs (c_version cfg) /\ (cksum s = true -> seglz4 s = is_some (pcomp s)))
  /\ (forall f, In f (snd (run cfg rs)) -> f_kind f = MAuthResponse \/ f_kind f = MCredentials ->
        f_compressed f = is_some (pcomp s) && negb (has_cs (c_version cfg))
        /\ f_checksummed f = has_cs (c_version cfg)
        /\ f_segcomp f = has_cs (c_version cfg) && is_some (pcomp s))
  /\ (forall a, pcomp s = Some a -> announces (snd (run cfg rs)) a).
Proof. exact applied_main. Qed.
Print Assumptions C47_negotiated_compression_applied.

(* reuse: the READY / AUTHENTICATE switch of this model (`enable`) IS the switch model of Model/Segment.v (C06's hstate) *)
Definition to_hstate (s : state) : Segment.hstate :=
  Segment.mkHs (is_some (pcomp s)) (is_some (comp s)) (if cksum s then Some (seglz4 s) else None).

Theorem C47_enable_is_segment_switch : forall v s, cksum s = false ->
  to_hstate (enable v s) = Segment.on_reply (has_cs v) Segment.RReady (to_hstate s)
  /\ to_hstate (enable v s) = Segment.on_reply (has_cs v) Segment.RAuthenticate (to_hstate s).
Proof.
  intros v s Hc. unfold to_hstate, enable, Segment.on_reply, Segment.enable_compression, Segment.enable_checksumming.
  destruct (has_cs v), (pcomp s), (comp s); cbn; rewrite ?Hc; cbn; auto.
Qed.
Print Assumptions C47_enable_is_segment_switch.

(* once the connection is reported, further protocol replies are dropped: the handshake cannot be re-run *)
Theorem C47_handshake_is_final : forall cfg rs r, connected (fst (run cfg rs)) = true ->
  r <> RDisconnect -> r <> RSockErr -> fst (run cfg (rs ++ [r])) = fst (run cfg rs).
Proof. exact c47_handshake_is_final_lemma. Qed.
Print Assumptions C47_handshake_is_final.

(* non-vacuity: a SASL handshake on v5 with lz4 on both sides reaches `ready`, checksummed, compressed after AUTHENTICATE *)
Example C47_nonvacuous :
  let cfg := mkConfig ASasl CompAuto [0; 1] 5 true in
  let rs := [RSupported [1; 0]; RAuthenticate; RChallenge true; RAuthSuccess] in
  reported_ready (fst (run cfg rs)) = true /\ comp (fst (run cfg rs)) = Some 0 /\ cksum (fst (run cfg rs)) = true
  /\ map f_kind (snd (run cfg rs)) = [MOptions; MStartup (Some 0); MAuthResponse; MAuthResponse]
  /\ map f_segcomp (snd (run cfg rs)) = [false; false; true; true].
Proof. cbn. repeat split; reflexivity. Qed.

Example C47_nonvacuous_authfail :
  let cfg := mkConfig ADict (CompName 1) [0; 1] 1 true in
  last_error (fst (run cfg [RSupported [1]; RAuthenticate; RError EkAuth])) = Some EAuthFailed
  /\ last_error (fst (run cfg [RSupported [1]; RError EkAuth])) = Some EConnException.
Proof. cbn. split; reflexivity. Qed.
