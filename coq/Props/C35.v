(* C35 -- cqlengine persists exactly the model state (PARTIAL).
   Proved here: the mathematical core -- the diffs statements.py computes for container columns and counters are correct under
   Cassandra's semantics (CqlSem.v), for ALL lists / sets / integers.  The lifting over operation sequences (C35_persist) and the
   map diff are NOT proved; they are checked on bounded histories by executing the emitted CQL with CqlSem (checks/C35.py). *)
From Coq Require Import ZArith List Bool.
From Verif Require Import Clauses CqlSem Mapper C35_proofs.
Import ListNotations.
Local Open Scope Z_scope.

(* ListUpdateClause._analyze (sub-list search for prepend/append): applying the emitted operations to the previous list gives the new one *)
Theorem C35_list_diff : forall f vl prev,
  apply_assigns (clause_assigns (CListUpd f (Some vl) None prev)) (norm (olistv prev)) = norm (VList vl).
Proof. exact list_diff. Qed.
Print Assumptions C35_list_diff.

(* SetUpdateClause._analyze: additions then removals applied to the previous set give exactly the new set (as sets) *)
Theorem C35_set_diff : forall f vl prev x,
  In x (as_set (apply_assigns (clause_assigns (CSetUpd f (Some vl) None prev)) (norm (osetv prev)))) <-> In x vl.
Proof. exact set_diff_ok. Qed.
Print Assumptions C35_set_diff.

(* CounterUpdateClause: previous + signed |delta| = value *)
Theorem C35_counter : forall f v prev,
  apply_assigns (clause_assigns (CCounter f v prev)) (VInt (counter_prev prev)) = VInt v.
Proof. exact counter_diff. Qed.
Print Assumptions C35_counter.

(* Model._set_persisted snapshots by VALUE (deepcopy): right after persisting no column counts as changed; a later in-place edit of the
   live value (outer or inner collection) can therefore never be hidden by the snapshot *)
Theorem C35_persisted_unchanged : forall cols c, In c (set_persisted cols) -> vm_changed c = false.
Proof. exact persisted_unchanged. Qed.
Print Assumptions C35_persisted_unchanged.

(* DMLQuery.update drops the clustering key from WHERE only if EVERY assigned column is static (not: the last one) *)
Theorem C35_update_key_choice : forall cols sets key,
  In (CUpdate sets key) (dml_update cols) ->
  let upd := filter (fun c => negb (c_pkey c) && negb (val_eqb (c_val c) VNone) &&
                              (vm_changed c || match c_kind c with KCounterC => true | _ => false end)) cols in
  key = key_kvs cols (forallb c_static upd) /\
  ((exists c, In c upd /\ c_static c = false) -> key = key_kvs cols false).
Proof. exact update_key_choice. Qed.
Print Assumptions C35_update_key_choice.

(* the sub-list window test of ListUpdateClause._analyze (two endpoint shortcuts + full comparison) accepts exactly the windows equal to
   the stored list: a window that only agrees at its first and last element is never taken for the stored list *)
Theorem C35_list_window : forall pl sub, pl <> [] -> window_match pl sub = zlist_eqb pl sub.
Proof. exact window_match_iff. Qed.
Print Assumptions C35_list_window.

(* BatchQuery: over ANY sequence of add_query / execute (explicit, repeated, or via the context manager), the batches sent plus what is
   still queued are exactly the statements added, in order, each once -- a batch object executed twice re-sends nothing *)
Theorem C35_batch_once : forall ops, concat (snd (bq_run ops)) ++ fst (bq_run ops) = bq_added ops.
Proof. exact bq_once. Qed.
Print Assumptions C35_batch_once.

(* ---- open findings, as witnesses on the faithful model (replayed on the implementation by corpus/C35) ---- *)
Definition kcol (f : name) (part : bool) (v : Z) : colst :=
  {| c_name := f; c_kind := KScalar; c_part := part; c_clust := negb part; c_static := false; c_val := VInt v; c_prev := VInt v; c_expl := false |}.
Definition xcol (v p : val) (e : bool) : colst :=
  {| c_name := 3; c_kind := KScalar; c_part := false; c_clust := false; c_static := false; c_val := v; c_prev := p; c_expl := e |}.
Definition sc35 : schema := {| pk_col := 0; ck_col := Some 1; static_cols := [2] |}.

(* the statement one would like: after  x = 5 persisted; del x; update(); x = 5; update()  the row stores x = 5 *)
Definition C35_full_statement : Prop :=
  let s0 := [kcol 0 true 1; kcol 1 false 2; xcol (VInt 5) VNone true] in
  let st1 := dml_insert s0 in let s1 := set_persisted (insert_mark s0) in
  let s2 := [kcol 0 true 1; kcol 1 false 2; xcol VNone (VInt 5) false] in          (* del inst.x *)
  let st2 := dml_update s2 in let s3 := set_persisted s2 in
  let s4 := [kcol 0 true 1; kcol 1 false 2; xcol (VInt 5) VNone true] in            (* inst.x = 5 *)
  let st3 := dml_update s4 in
  s1 = [kcol 0 true 1; kcol 1 false 2; xcol (VInt 5) (VInt 5) false] /\ s3 = [kcol 0 true 1; kcol 1 false 2; xcol VNone VNone false] /\
  read_row sc35 (exec_all sc35 [] (st1 ++ st2 ++ st3)) 1 (Some 2) [3] = [(3, VInt 5)].

(* C35-3 (fixed in the driver): Model._set_persisted now also resets the manager of a column it has just deleted, so the re-assignment
   of the old value is written.  Before the fix s3 = s2 held (stale previous_value 5) and the row kept null. *)
Theorem C35_persist_del_then_set : C35_full_statement.
Proof. unfold C35_full_statement. vm_compute. repeat split. Qed.
Print Assumptions C35_persist_del_then_set.

(* C35-4: blind removal of no keys / blind update with no entries is rendered as an assignment of the empty map *)
Theorem C35_blind_map_empty_refuted :
  apply_assigns (clause_assigns (CMapUpd 7 [] (Some MRemove) None)) (VMap [(1, 2)]) = VNone /\
  apply_assigns (clause_assigns (CMapUpd 7 [] (Some MUpdate) None)) (VMap [(1, 2)]) = VNone.
Proof. vm_compute. split; reflexivity. Qed.
Print Assumptions C35_blind_map_empty_refuted.

(* the same step with a non-empty operation does what the documentation says (the failing class is exactly the empty operation) *)
Theorem C35_blind_map_partial :
  apply_assigns (clause_assigns (CMapUpd 7 [(1, 0)] (Some MRemove) None)) (VMap [(1, 2); (3, 4)]) = VMap [(3, 4)] /\
  apply_assigns (clause_assigns (CMapUpd 7 [(5, 6)] (Some MUpdate) None)) (VMap [(1, 2)]) = VMap [(1, 2); (5, 6)].
Proof. vm_compute. split; reflexivity. Qed.
Print Assumptions C35_blind_map_partial.

Example C35_nonvacuous :
  clause_assigns (CListUpd 6 (Some [7; 1; 2; 9]) None (Some [1; 2])) = [APrepend 6 (VList [7]); APlus 6 (VList [9])] /\
  apply_assigns (clause_assigns (CListUpd 6 (Some [7; 1; 2; 9]) None (Some [1; 2]))) (VList [1; 2]) = VList [7; 1; 2; 9] /\
  clause_assigns (CSetUpd 5 (Some [2; 3]) None (Some [1; 2])) = [APlus 5 (VSet [3]); AMinus 5 (VSet [1])].
Proof. vm_compute. repeat split. Qed.
