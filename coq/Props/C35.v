(* C35 -- cqlengine persists exactly the model state (PARTIAL).
   Proved here: the mathematical core -- the diffs statements.py computes for container columns and counters are correct under
   Cassandra's semantics (CqlSem.v), for ALL lists / sets / integers.  The lifting over operation sequences (C35_persist) and the
   map diff are NOT proved; they are checked on bounded histories by executing the emitted CQL with CqlSem (checks/C35.py). *)
From Coq Require Import ZArith List Bool.
From Verif Require Import Clauses CqlSem Mapper C35_proofs.
Import ListNotations.
Local Open Scope Z_scope.

(* ListUpdateClause._analyze (sub-list search for prepend/append): applying the emitted operations to the previous list gives the new one *)
Theorem C35_list_diff : forall f vl prev,
  apply_assigns (clause_assigns (CListUpd f (Some vl) None prev)) (norm (olistv prev)) = norm (VList vl).
Proof. exact list_diff. Qed.
Print Assumptions C35_list_diff.

(* SetUpdateClause._analyze: additions then removals applied to the previous set give exactly the new set (as sets) *)
Theorem C35_set_diff : forall f vl prev x,
  In x (as_set (apply_assigns (clause_assigns (CSetUpd f (Some vl) None prev)) (norm (osetv prev)))) <-> In x vl.
Proof. exact set_diff_ok. Qed.
Print Assumptions C35_set_diff.

(* CounterUpdateClause: previous + signed |delta| = value *)
Theorem C35_counter : forall f v prev,
  apply_assigns (clause_assigns (CCounter f v prev)) (VInt (counter_prev prev)) = VInt v.
Proof. exact counter_diff. Qed.
Print Assumptions C35_counter.

Example C35_nonvacuous :
  clause_assigns (CListUpd 6 (Some [7; 1; 2; 9]) None (Some [1; 2])) = [APrepend 6 (VList [7]); APlus 6 (VList [9])] /\
  apply_assigns (clause_assigns (CListUpd 6 (Some [7; 1; 2; 9]) None (Some [1; 2]))) (VList [1; 2]) = VList [7; 1; 2; 9] /\
  clause_assigns (CSetUpd 5 (Some [2; 3]) None (Some [1; 2])) = [APlus 5 (VSet [3]); AMinus 5 (VSet [1])].
Proof. vm_compute. repeat split. Qed.
