(* C20 -- switching the session keyspace is applied everywhere or reported.
   Model/Keyspace.v: Session._set_keyspace_for_all_pools (remaining-callback set, error dict) over HostConnection pools whose
   connection answers ok / invalid / anything else, or that have no connection / are shut down / already have the keyspace,
   and HostConnectionPool (v1/v2) pools that are empty at that moment; completions arrive in ANY order, pools without
   connection reconnect at any time (KReconnect); a switch may start from ANY well-formed state (kwf) -- in particular the
   state left by a previous, failed switch (reinit).  k_srv is the keyspace really selected on the server side.  Repaired code. *)
From Coq Require Import ZArith List Bool Lia.
From Verif Require Import Pool Keyspace C20_proofs.
Import ListNotations.
Local Open Scope Z_scope.

(* if the switch reported success (final callback called with no errors), every pool that is not shut down has the new
   keyspace selected on the server side of its connection -- including connections opened after the switch -- and a
   HostConnection without connection will select it on the next connection it opens *)
Theorem C20_success_means_all : forall (s0 : kstate) (ops : list kop) (p : kpool),
  kwf s0 ->
  let s := krun s0 ops in
  In [] (calls s) -> In p (pools s) -> k_shut p = false ->
  (k_has p = true -> k_srv p = 2) /\ (k_has p = false -> k_legacy p = false -> k_ks p = 2).
Proof. intros s0 ops p W s H. apply k_success; [apply KInv_run, KInv_wf, W|exact H]. Qed.
Print Assumptions C20_success_means_all.

(* if selecting the keyspace failed on any pool, every invocation of the final callback carries an error for that pool *)
Theorem C20_any_error_reported : forall (s0 : kstate) (ops : list kop) (i : nat) (p : kpool) (a : list (nat * Z)),
  kwf s0 ->
  let s := krun s0 ops in
  nth_error (pools s) i = Some p -> k_failed p = true -> In a (calls s) -> In i (map fst a) /\ a <> [].
Proof.
  intros s0 ops i p a W s Hn Hf Hin.
  assert (H : In i (map fst a)) by (apply (k_error_reported s (KInv_run ops _ (KInv_wf _ W)) i p Hn Hf a Hin)).
  split; [exact H|]. intros ->. destruct H.
Qed.
Print Assumptions C20_any_error_reported.

(* the switch always completes, exactly once: as soon as no USE request is outstanding on any connection -- including when
   pools had no connection or were shut down, and for zero pools -- the final callback has run exactly once; never twice *)
Theorem C20_always_completes : forall (s0 : kstate) (ops : list kop),
  kwf s0 ->
  let s := krun (kstep s0 KStart) ops in
  (length (calls s) <= 1)%nat /\
  ((forall p, In p (pools s) -> k_pending p = false) -> length (calls s) = 1%nat).
Proof.
  intros s0 ops W s. apply k_completes.
  - apply KInv_run, KInv_step, KInv_wf, W.
  - apply started_after_start.
Qed.
Print Assumptions C20_always_completes.

(* the starting points covered: any list of scripted pools, and any state reached by a previous switch, re-scripted *)
Theorem C20_starting_points : forall (outs outs2 : list outcome) (ops : list kop),
  kwf (kinit outs) /\ kwf (reinit (krun (kinit outs) ops) outs2).
Proof. intros. split; [apply kwf_init|apply kwf_reinit, KInv_run, KInv_init]. Qed.
Print Assumptions C20_starting_points.

(* a pool created while keyspace switches are landing -- before it reads the session keyspace, between that read and its
   registration, and during every catch-up round trip, any number of them -- is registered only on exactly the session's
   keyspace; a failed catch-up USE never registers it *)
Theorem C20_new_pool_matches_session : forall (ks0 : Z) (s0 s1 : list Z) (rounds : list (bool * list Z)) (p s n : Z),
  create_pool ks0 s0 s1 rounds = (true, p, s, n) -> p = s.
Proof. intros ks0 s0 s1 rounds p s n H. unfold create_pool in H. eapply catchup_eq; [exact H|reflexivity]. Qed.
Print Assumptions C20_new_pool_matches_session.

Example C20_nonvacuous_create :
  create_pool 1 [] [2] [(false, [3])] = (true, 3, 3, 2) /\ create_pool 1 [] [2] [(false, [3]); (false, [1]); (false, [2])] = (true, 2, 2, 4) /\
  create_pool 1 [] [2] [(true, [])] = (false, 1, 2, 1).
Proof. vm_compute. repeat split. Qed.

Example C20_nonvacuous :
  let s := krun (kinit [POk; PInvalid; PNoConn; PShut; PConnErr; PSame; PEmptyV2]) [KStart; KComplete 4; KComplete 0; KComplete 1; KReconnect 4; KReconnect 6] in
  calls s = [[(1%nat, 1); (4%nat, 2)]] /\ remaining s = [] /\
  map k_srv (pools s) = [2; 1; -1; 1; 2; 2; 2] /\
  (* the retry of the same USE after the failure: pool 1 answers ok this time *)
  calls (krun (reinit s [POk; POk; PNoConn; PShut; POk; PSame; POk]) [KStart; KComplete 1]) = [[]] /\
  calls (krun (kinit [POk; PNoConn; PShut]) [KStart; KComplete 0]) = [[]] /\
  calls (krun (kinit [PNoConn]) [KStart]) = [[]].
Proof. vm_compute. repeat split. Qed.
