(* C20 -- switching the session keyspace is applied everywhere or reported.
   Model/Keyspace.v: Session._set_keyspace_for_all_pools (remaining-callback set, error dict) over HostConnection pools whose
   connection answers ok / invalid / anything else, or that have no connection / are shut down / already have the keyspace;
   completions arrive in ANY order (any list of KComplete events, repeated or spurious ones included). Repaired code. *)
From Coq Require Import ZArith List Bool Lia.
From Verif Require Import Pool Keyspace C20_proofs.
Import ListNotations.
Local Open Scope Z_scope.

(* if the switch reported success (final callback called with no errors), every pool that is not shut down has the new
   keyspace on its connection, or -- having no connection right now -- will select it on the next connection it opens *)
Theorem C20_success_means_all : forall (outs : list outcome) (ops : list kop) (p : kpool),
  let s := krun (kinit outs) ops in
  In [] (calls s) -> In p (pools s) -> k_shut p = false ->
  (k_has p = true -> k_connks p = 2) /\ (k_has p = false -> k_ks p = 2).
Proof. intros outs ops p s H. apply k_success; [apply KInv_run, KInv_init|exact H]. Qed.
Print Assumptions C20_success_means_all.

(* if selecting the keyspace failed on any pool, every invocation of the final callback carries an error for that pool *)
Theorem C20_any_error_reported : forall (outs : list outcome) (ops : list kop) (i : nat) (p : kpool) (a : list (nat * Z)),
  let s := krun (kinit outs) ops in
  nth_error (pools s) i = Some p -> k_failed p = true -> In a (calls s) -> In i (map fst a) /\ a <> [].
Proof.
  intros outs ops i p a s Hn Hf Hin.
  assert (H : In i (map fst a)) by (apply (k_error_reported s (KInv_run ops _ (KInv_init outs)) i p Hn Hf a Hin)).
  split; [exact H|]. intros ->. destruct H.
Qed.
Print Assumptions C20_any_error_reported.

(* the switch always completes, exactly once: as soon as no USE request is outstanding on any connection -- including when
   pools had no connection or were shut down, and for zero pools -- the final callback has run exactly once; never twice *)
Theorem C20_always_completes : forall (outs : list outcome) (ops : list kop),
  let s := krun (kstep (kinit outs) KStart) ops in
  (length (calls s) <= 1)%nat /\
  ((forall p, In p (pools s) -> k_pending p = false) -> length (calls s) = 1%nat).
Proof.
  intros outs ops s. apply k_completes.
  - apply KInv_run, KInv_step, KInv_init.
  - apply started_after_start.
Qed.
Print Assumptions C20_always_completes.

(* a pool created while keyspace switches are landing -- before it reads the session keyspace, between that read and its
   registration, and during every catch-up round trip, any number of them -- is registered on exactly the session's keyspace *)
Theorem C20_new_pool_matches_session : forall (ks0 : Z) (s0 s1 : list Z) (rounds : list (list Z)),
  fst (fst (create_pool ks0 s0 s1 rounds)) = snd (fst (create_pool ks0 s0 s1 rounds)).
Proof. intros. unfold create_pool. apply catchup_eq. Qed.
Print Assumptions C20_new_pool_matches_session.

Example C20_nonvacuous_create : create_pool 1 [] [2] [[3]] = (3, 3, 2) /\ create_pool 1 [] [2] [[3]; [1]; [2]] = (2, 2, 4).
Proof. vm_compute. split; reflexivity. Qed.

Example C20_nonvacuous :
  let s := krun (kinit [POk; PInvalid; PNoConn; PShut; PConnErr; PSame]) [KStart; KComplete 4; KComplete 0; KComplete 1] in
  calls s = [[(1%nat, 1); (4%nat, 2)]] /\ remaining s = [] /\
  calls (krun (kinit [POk; PNoConn; PShut]) [KStart; KComplete 0]) = [[]] /\
  calls (krun (kinit [PNoConn]) [KStart]) = [[]].
Proof. vm_compute. repeat split. Qed.
