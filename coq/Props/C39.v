(* C39 -- column encryption is transparent, including for nulls.
   Model/Encryption.v: PKCS7 concrete; AES-256-CBC (`cryptography`) = enc/dec with the round-trip law as hypothesis;
   per-type codec = ser/deser with the C01 round-trip as hypothesis.  decode_val is the REPAIRED code (a null cell
   is not decrypted); decode_val_unguarded is the code before the fix, kept only for C39_unguarded_refuted. *)
From Coq Require Import ZArith List Bool.
From Verif Require Import Encryption C39_proofs.
Import ListNotations.
Local Open Scope Z_scope.

Theorem C39_pkcs7_roundtrip : forall x, unpad (pad x) = Some x /\ (length (pad x) mod 16 = 0)%nat.
Proof. intros x. split; [apply unpad_pad|apply pad_aligned]. Qed.
Print Assumptions C39_pkcs7_roundtrip.

(* policy.decrypt (policy.encrypt x) = x, whatever IV the encrypting policy used (decrypt takes it from the data) *)
Theorem C39_policy_roundtrip : forall (enc dec : list Z -> list Z -> list Z -> list Z),
  (forall k iv x, (length x mod 16 = 0)%nat -> dec k iv (enc k iv x) = x) ->
  forall k iv x, length iv = 16%nat -> decrypt dec k (encrypt enc k iv x) = Some x.
Proof. intros enc dec H. exact (decrypt_encrypt enc dec H). Qed.
Print Assumptions C39_policy_roundtrip.

(* the statement, parameterised by the result decoder so that it can be stated for both versions of the code *)
Definition C39_transparent_statement
  (decoder : forall V T : Type, (T -> list Z -> option V) -> (list Z -> list Z -> list Z -> list Z) ->
             list (column T) -> list (list (option (list Z))) -> option (list (list (option V)))) : Prop :=
  forall (V T : Type) (ser : T -> V -> option (list Z)) (deser : T -> list Z -> option V)
         (enc dec : list Z -> list Z -> list Z -> list Z),
  (forall k iv x, (length x mod 16 = 0)%nat -> dec k iv (enc k iv x) = x) ->
  (forall t v b, ser t v = Some b -> deser t b = Some v) ->
  forall iv cols (rows : list (list (option V))) wire, length iv = 16%nat ->
  Forall (fun r => length r <= length cols)%nat rows ->
  bind_rows V T ser enc iv cols rows = Some wire ->          (* what the prepared statement sends, row by row *)
  decoder V T deser dec cols wire = Some rows.                (* the server echoes it; the result decodes to the originals *)

(* every value, NULL INCLUDED, any number of rows, any mix of encrypted / plain columns *)
Theorem C39_transparent : C39_transparent_statement decode_rows.
Proof.
  intros V T ser deser enc dec Haes Hcodec iv cols rows wire Hiv Hall Hb.
  exact (rows_roundtrip V T ser deser enc dec Haes Hcodec iv cols rows wire Hiv Hall Hb).
Qed.
Print Assumptions C39_transparent.

(* ... also when the ROWS frame carries its OWN metadata (v5 Metadata_changed after ALTER TABLE, or v3/v4 without
   skip_meta): whatever column list is cached with the prepared statement, decoding follows the in-frame list *)
Theorem C39_transparent_metadata_changed : forall (V T : Type) (ser : T -> V -> option (list Z)) (deser : T -> list Z -> option V)
         (enc dec : list Z -> list Z -> list Z -> list Z),
  (forall k iv x, (length x mod 16 = 0)%nat -> dec k iv (enc k iv x) = x) ->
  (forall t v b, ser t v = Some b -> deser t b = Some v) ->
  forall iv cols cached (rows : list (list (option V))) wire, length iv = 16%nat ->
  Forall (fun r => length r <= length cols)%nat rows ->
  bind_rows V T ser enc iv cols rows = Some wire ->
  recv_rows V T deser dec (Some cols) cached wire = Some rows.
Proof.
  intros V T ser deser enc dec Haes Hcodec iv cols cached rows wire Hiv Hall Hb. unfold recv_rows.
  exact (rows_roundtrip V T ser deser enc dec Haes Hcodec iv cols rows wire Hiv Hall Hb).
Qed.
Print Assumptions C39_transparent_metadata_changed.

(* ---- the set of encrypted columns is derived from the policy, per column, under the column's OWN (keyspace, table, name),
   and the policy may change at any time (add_column).  After ANY history of registrations, decodes and round trips on one
   policy object, writing rows through a prepared statement and reading them back returns them unchanged -- with markers of
   several tables (prepared BATCH / PREPARED response without global table spec) and columns registered late included. *)
Theorem C39_transparent_history : forall (V T : Type) (ser : T -> V -> option (list Z)) (deser : T -> list Z -> option V)
         (enc dec : list Z -> list Z -> list Z -> list Z),
  (forall k iv x, (length x mod 16 = 0)%nat -> dec k iv (enc k iv x) = x) ->
  (forall t v b, ser t v = Some b -> deser t b = Some v) ->
  forall (p0 : policy T) (h : list (pop V T)) ms iv rows wire,
  let p := fst (prun V T ser deser enc dec p0 h) in
  length iv = 16%nat -> Forall (fun r => length r <= length ms)%nat rows ->
  bind_rows V T ser enc iv (map (resolve T p) ms) rows = Some wire ->
  pstep V T ser deser enc dec p (PRound V T ms iv rows) = (p, OutRound V (Some wire) (Some rows)).
Proof.
  intros V T ser deser enc dec Haes Hcodec p0 h ms iv rows wire p Hiv Hall Hb.
  rewrite (surjective_pairing (pstep V T ser deser enc dec p (PRound V T ms iv rows))).
  rewrite (round_transparent V T ser deser enc dec Haes Hcodec p ms iv rows wire Hiv Hall Hb). reflexivity.
Qed.
Print Assumptions C39_transparent_history.

(* what goes out for marker i depends on the policy entry of ITS OWN ColDesc only; a registration is visible at once *)
Theorem C39_sent_by_own_desc : forall (V T : Type) (ser : T -> V -> option (list Z)) (enc : list Z -> list Z -> list Z -> list Z)
    (p : policy T) iv vals ms w i m,
  bind_row V T ser enc iv (map (resolve T p) ms) vals = Some w -> nth_error ms i = Some m ->
  (forall k t x, pol_find T p (m_desc m) = Some (k, t) -> nth_error vals i = Some (Some x) ->
     exists b, ser t x = Some b /\ nth_error w i = Some (Some (encrypt enc k iv b))) /\
  (forall x, pol_find T p (m_desc m) = None -> nth_error vals i = Some (Some x) ->
     exists b, ser (m_type m) x = Some b /\ nth_error w i = Some (Some b)) /\
  (forall d k t, pol_find T (add_column T p d k t) d = Some (k, t)).
Proof.
  intros V T ser enc p iv vals ms w i m Hb Hm.
  destruct (sent_by_own_desc V T ser enc p iv vals ms w i m Hb Hm) as [H1 H2]. split; [exact H1|]. split; [exact H2|].
  intros d k t. rewrite add_column_find. rewrite (proj2 (desc_eqb_eq d d) eq_refl). reflexivity.
Qed.
Print Assumptions C39_sent_by_own_desc.

(* ---- several Clusters / Sessions in one process, statements of every PREPARED shape (with / without partition-key indexes,
   protocol v3 included), registrations and RE-registrations at any time: after ANY history, a round trip through ANY session
   returns the rows -- bind and decode both consult the policy object of that session's own cluster. *)
Theorem C39_transparent_sessions : forall (V T : Type) (ser : T -> V -> option (list Z)) (deser : T -> list Z -> option V)
         (enc dec : list Z -> list Z -> list Z -> list Z),
  (forall k iv x, (length x mod 16 = 0)%nat -> dec k iv (enc k iv x) = x) ->
  (forall t v b, ser t v = Some b -> deser t b = Some v) ->
  forall (st0 : wstate T) (h : list (wop V T)) s sh ms iv rows wire,
  let st := fst (wrun V T ser deser enc dec st0 h) in
  length iv = 16%nat -> Forall (fun r => length r <= length ms)%nat rows ->
  bind_rows V T ser enc iv (map (resolve T (stmt_policy T (fst st) (nth s (snd st) 0%nat) sh)) ms) rows = Some wire ->
  wstep V T ser deser enc dec st (WRound V T s sh ms iv rows) = (st, OutRound V (Some wire) (Some rows)).
Proof.
  intros V T ser deser enc dec Haes Hcodec st0 h s sh ms iv rows wire st Hiv Hall Hb.
  exact (session_round_transparent V T ser deser enc dec Haes Hcodec st s sh ms iv rows wire Hiv Hall Hb).
Qed.
Print Assumptions C39_transparent_sessions.

(* registering a column again (key rotation, corrected type) replaces the earlier registration *)
Theorem C39_reregistration_wins : forall (T : Type) (p : policy T) d k1 t1 k2 t2,
  pol_find T (add_column T (add_column T p d k1 t1) d k2 t2) d = Some (k2, t2).
Proof. exact reregistration_wins. Qed.
Print Assumptions C39_reregistration_wins.

(* a process-wide handler overwritten by every Session.__init__ is NOT transparent: cluster 0 encrypts column (1,1,1),
   cluster 1 has an empty policy and connects last; a value written through session 0 comes back as iv ++ padded bytes *)
Theorem C39_shared_handler_refuted :
  let ops := [WNewCluster (list Z) unit; WNewCluster (list Z) unit; WAdd (list Z) unit 0%nat (1, 1, 1) [7] tt;
              WConnect (list Z) unit 0%nat; WConnect (list Z) unit 1%nat] in
  let st := fst (wrun (list Z) unit c39_ser c39_deser id_cipher id_cipher ([], []) ops) in
  let round := WRound (list Z) unit 0%nat ServerPkIndexes [mkmarker (1, 1, 1) tt] (repeat 9 16) [[Some [5]]] in
  snd (wstep (list Z) unit c39_ser c39_deser id_cipher id_cipher st round)
    = OutRound (list Z) (Some [[Some (repeat 9 16 ++ [5] ++ repeat 15 15)]]) (Some [[Some [5]]]) /\
  snd (wstep_with (list Z) unit c39_ser c39_deser id_cipher id_cipher (handler_policy_shared unit) st round)
    = OutRound (list Z) (Some [[Some (repeat 9 16 ++ [5] ++ repeat 15 15)]]) (Some [[Some (repeat 9 16 ++ [5] ++ repeat 15 15)]]).
Proof. vm_compute. split; reflexivity. Qed.
Print Assumptions C39_shared_handler_refuted.

(* non-null values of encrypted columns go out as iv ++ AES(pad(serialize v)) with the POLICY's type; nulls stay null;
   columns outside the policy go out as their plain serialization *)
Theorem C39_sent_encrypted : forall (V T : Type) (ser : T -> V -> option (list Z)) (enc : list Z -> list Z -> list Z -> list Z)
    iv vals cols w i c,
  bind_row V T ser enc iv cols vals = Some w -> nth_error cols i = Some c ->
  (forall k x, ce_key c = Some k -> nth_error vals i = Some (Some x) ->
      exists b, ser (pol_type c) x = Some b /\ nth_error w i = Some (Some (encrypt enc k iv b))) /\
  (nth_error vals i = Some None -> nth_error w i = Some None) /\
  (forall x, ce_key c = None -> nth_error vals i = Some (Some x) ->
      exists b, ser (meta_type c) x = Some b /\ nth_error w i = Some (Some b)).
Proof.
  intros V T ser enc iv vals cols w i c H Hc. split; [|split].
  - intros k x Hk Hv. exact (sent_encrypted V T ser enc iv vals cols w i c k x H Hc Hk Hv).
  - intros Hv. exact (null_sent_null V T ser enc iv vals cols w i c H Hc Hv).
  - intros x Hk Hv. exact (plain_sent_plain V T ser enc iv vals cols w i c x H Hc Hk Hv).
Qed.
Print Assumptions C39_sent_encrypted.

(* the code before the fix (decrypt applied to a null cell) violates the statement: one encrypted column, one null *)
Theorem C39_unguarded_refuted : ~ C39_transparent_statement decode_rows_unguarded.
Proof.
  intros H.
  specialize (H (list Z) unit c39_ser c39_deser id_cipher id_cipher
                (fun _ _ _ _ => eq_refl) (fun t v b E => eq_sym E)
                (repeat 0 16) [c39_col (Some [1])] [[None]] [[None]] eq_refl).
  assert (Forall (fun r : list (option (list Z)) => (length r <= 1)%nat) [[None]]) as Hall
    by (repeat constructor).
  specialize (H Hall eq_refl). discriminate H.
Qed.
Print Assumptions C39_unguarded_refuted.

(* non-vacuity: two columns (encrypted, plain), three rows incl. a null in the encrypted column and an empty value *)
Example C39_nonvacuous :
  c39_run (repeat 9 16) [Some [1; 2]; None] [[Some [0; 0; 0; 5]; Some [97]]; [None; None]; [Some []; Some [98; 99]]]
  = (Some [[Some (repeat 9 16 ++ [0; 0; 0; 5] ++ repeat 12 12); Some [97]]; [None; None];
           [Some (repeat 9 16 ++ repeat 16 16); Some [98; 99]]],
     Some [[Some [0; 0; 0; 5]; Some [97]]; [None; None]; [Some []; Some [98; 99]]]).
Proof. vm_compute. reflexivity. Qed.
