(* C22 -- token-aware plans put live local replicas first without losing hosts.
   Model: Model/TokenAware.v (hand-written, tied to TokenAwarePolicy.make_query_plan by checks/C22.py), the code AFTER the
   repair d849ab7.  Everything is an arbitrary input: the replica list as iterated (`order`: Metadata.get_replicas's answer,
   permuted by shuffle() or not), host up flags, the child's distance function and the child's plan. *)
From Coq Require Import ZArith List Bool Permutation.
From Verif Require Import LBP LBP_base_proofs TokenAware C22_proofs.
Import ListNotations.
Local Open Scope Z_scope.

(* the plan starts with exactly the replicas that are up and LOCAL, in the order the replica list is iterated: ring order
   without shuffle; with shuffle (any permutation of the ring-order list) the same hosts in the shuffled order *)
Theorem C22_prefix : forall (up : Z -> bool) (cd : Z -> dist) (replicas order child : list Z),
  Permutation replicas order ->
  let prefix := filter (fun r => up r && dist_eqb (cd r) LOCAL) order in
  firstn (length prefix) (ta_plan true up cd order child) = prefix /\
  (forall h, In h prefix <-> In h replicas /\ up h = true /\ cd h = LOCAL) /\
  Permutation (filter (fun r => up r && dist_eqb (cd r) LOCAL) replicas) prefix.
Proof.
  intros up cd replicas order child HP prefix. split; [|split].
  - unfold prefix. change (ta_plan true up cd order child) with (ta_prefix up cd order ++ ta_rest (ta_prefix up cd order) child).
    change (filter (fun r => up r && dist_eqb (cd r) LOCAL) order) with (ta_prefix up cd order).
    rewrite firstn_app, Nat.sub_diag, firstn_all. simpl. apply app_nil_r.
  - intros h. unfold prefix. change (filter (fun r => up r && dist_eqb (cd r) LOCAL) order) with (ta_prefix up cd order).
    rewrite ta_prefix_In. split; intros [H1 H2]; (split; [|exact H2]).
    + eapply Permutation_in; [apply Permutation_sym; exact HP|exact H1].
    + eapply Permutation_in; [exact HP|exact H1].
  - exact (ta_prefix_perm up cd replicas order HP).
Qed.
Print Assumptions C22_prefix.

(* then every remaining host of the wrapped policy's plan, in that policy's order *)
Theorem C22_rest_order : forall (up : Z -> bool) (cd : Z -> dist) (order child : list Z),
  let prefix := ta_prefix up cd order in
  skipn (length prefix) (ta_plan true up cd order child) = filter (fun h => negb (mem h prefix)) child.
Proof.
  intros up cd order child prefix. unfold prefix.
  change (ta_plan true up cd order child) with (ta_prefix up cd order ++ ta_rest (ta_prefix up cd order) child).
  rewrite skipn_app, Nat.sub_diag, skipn_all. reflexivity.
Qed.
Print Assumptions C22_rest_order.

(* no host repeated (the replica list of one token and the child's plan being duplicate-free: C26 and C21) *)
Theorem C22_nodup : forall (up : Z -> bool) (cd : Z -> dist) (order child : list Z),
  NoDup order -> NoDup child -> NoDup (ta_plan true up cd order child).
Proof. exact ta_nodup. Qed.
Print Assumptions C22_nodup.

(* no host of the wrapped plan is left out -- whatever the up flags and distances are, routed or not *)
Theorem C22_nothing_lost : forall (routed : bool) (up : Z -> bool) (cd : Z -> dist) (order child : list Z) (h : Z),
  In h child -> In h (ta_plan routed up cd order child).
Proof. exact ta_nothing_lost. Qed.
Print Assumptions C22_nothing_lost.

(* and nothing else appears: a planned host is in the wrapped plan or is an up, LOCAL replica *)
Theorem C22_nothing_added : forall (routed : bool) (up : Z -> bool) (cd : Z -> dist) (order child : list Z) (h : Z),
  In h (ta_plan routed up cd order child) -> In h child \/ (In h order /\ up h = true /\ cd h = LOCAL).
Proof. exact ta_nothing_added. Qed.
Print Assumptions C22_nothing_added.

(* statements without routing key or keyspace get the child's plan as is *)
Theorem C22_unrouted : forall (up : Z -> bool) (cd : Z -> dist) (order child : list Z),
  ta_plan false up cd order child = child.
Proof. reflexivity. Qed.
Print Assumptions C22_unrouted.

(* the code before the repair lost hosts: replica 1 is LOCAL and in the child's plan but not marked up yet *)
Theorem C22_before_fix_refuted :
  ~ (forall (up : Z -> bool) (cd : Z -> dist) (order child : list Z) (h : Z),
       In h child -> In h (ta_plan_before_fix up cd order child)).
Proof.
  intros H. specialize (H (fun h => h =? 2) (fun _ => LOCAL) [1] [2; 1] 1 (or_intror (or_introl eq_refl))).
  vm_compute in H. destruct H as [H|[]]. discriminate.
Qed.
Print Assumptions C22_before_fix_refuted.

Example C22_nonvacuous :
  (* replicas 3,1,4 (ring order); 3 is up and local, 1 is local but not up yet, 4 is remote; child plan 1,2,3,4 *)
  ta_plan true (fun h => mem h [2; 3; 4]) (fun h => if h =? 4 then REMOTE else LOCAL) [3; 1; 4] [1; 2; 3; 4] = [3; 1; 2; 4]
  /\ ta_plan_before_fix (fun h => mem h [2; 3; 4]) (fun h => if h =? 4 then REMOTE else LOCAL) [3; 1; 4] [1; 2; 3; 4] = [3; 2; 4].
Proof. split; reflexivity. Qed.
