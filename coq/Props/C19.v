(* C19 -- Unknown prepared statements are transparently re-prepared.
   Model: Model/FutB.v (PreparedQueryNotFound branch of ResponseFuture._set_result, _reprepare, _execute_after_prepare as
   executor tasks); ProtocolVersion.uses_keyspace_flag is REGENERATED from cassandra/__init__.py (Gen/FutbProto.v).
   The model is the driver AFTER the repair of finding C19-1 (fix commit in findings/C19.json): before it, the step of
   C19_mismatch_fails_and_stops sent the original request again after failing it (corpus/C19/*.json reproduce that).
   All theorems hold for every configuration and every state, hence along every history. *)
From Coq Require Import ZArith List Bool.
From Verif Require Import PyBase FutbProto FutB FutB_lemmas FutB_steps FutB_origin C16_proofs C19_proofs.
Import ListNotations.
Local Open Scope Z_scope.

(* UNPREPARED(id) from host h for an open request attempt, the driver knows the statement (stmt_for), no keyspace mismatch:
   nothing is sent on the event loop; when the executor runs the task (h's pool usable), exactly one message goes out:
   PREPARE of the same query string to the same host h, with the statement's keyspace iff the protocol version carries
   the keyspace flag; the request's outcome is untouched *)
Theorem C19_reprepare : forall c s i h id tag pid qs ks s1 ev1 s2 ev2,
  open_query s i h -> stmt_for c id = Some (pid, qs, ks) -> ks_mismatch c s ks = false -> session_shut s = false ->
  step c s (Resp i (RUnprepared id tag)) = (s1, ev1) -> pool_of s h = PHealthy ->
  step c s1 (Run (length (queue s))) = (s2, ev2) ->
  ev1 = [] /\ queue s1 = queue s ++ [TReprepare h qs (if uses_keyspace_flag (pv c) then ks else None)] /\
  ev2 = [Sent h (MPrepare qs (if uses_keyspace_flag (pv c) then ks else None)) CReprepare] /\
  fin_exc s2 = fin_exc s /\ fin_res s2 = fin_res s.
Proof.
  intros c s i h id tag pid qs ks s1 ev1 s2 ev2 O St Km Sh S1 Hp S2.
  rewrite (unprepared_step c s i h id tag pid qs ks O St), Km, (submit_open (done_i s i) _ Sh) in S1. inversion S1; subst s1 ev1. clear S1.
  destruct (run_reprepare c (push_task (done_i s i) (TReprepare h qs (if uses_keyspace_flag (pv c) then ks else None)))
              (length (queue s)) h qs (if uses_keyspace_flag (pv c) then ks else None)) as (s2' & R & _ & _ & E1 & E2).
  - cbn [queue push_task done_i set_attempts]. apply nth_error_app_last.
  - exact Hp.
  - rewrite R in S2. inversion S2; subst. repeat split; auto.
Qed.
Print Assumptions C19_reprepare.

(* PREPARED with the same id (or the future carries no prepared statement) from host h: when the executor runs the task
   (request not failed meanwhile, h usable), exactly one message goes out: the ORIGINAL request, to the same host h *)
Theorem C19_resend : forall c s j h id s1 ev1 s2 ev2,
  open_prepare s j h -> id_matches c id -> fin_exc s = None -> session_shut s = false ->
  step c s (Resp j (RPrepared id)) = (s1, ev1) -> pool_of s h = PHealthy ->
  step c s1 (Run (length (queue s))) = (s2, ev2) ->
  ev1 = [] /\ ev2 = [Sent h (MOrig (msg_cl s)) CResend] /\ fin_exc s2 = None.
Proof.
  intros c s j h id s1 ev1 s2 ev2 O M E Sh S1 Hp S2.
  rewrite (prepared_step c s j h _ O), (submit_open (done_i s j) _ Sh) in S1. inversion S1; subst s1 ev1. clear S1.
  destruct (run_after_prepare_ok c (push_task (done_i s j) (TAfterPrepare h (RPrepared id))) (length (queue s)) h id)
    as (s2' & R & _ & _ & E2); auto.
  - cbn [queue push_task done_i set_attempts]. apply nth_error_app_last.
  - rewrite R in S2. inversion S2; subst. auto.
Qed.
Print Assumptions C19_resend.

(* a different statement id, or a keyspace mismatch: the request fails with that error and the step sends nothing,
   schedules nothing, opens no attempt (the state differs from before only by the error and the consumed task/attempt) *)
Theorem C19_mismatch_fails_and_stops : forall c s,
  (forall k h id pid pqs pks, nth_error (queue s) k = Some (TAfterPrepare h (RPrepared id)) -> fin_exc s = None ->
     fut_ps c = Some (pid, pqs, pks) -> pid <> id ->
     step c s (Run k) = (fail_with (set_queue s (remove_nth k (queue s))) XIdMismatch, [])) /\
  (forall i h id tag pid qs ks, open_query s i h -> stmt_for c id = Some (pid, qs, ks) -> ks_mismatch c s ks = true ->
     step c s (Resp i (RUnprepared id tag)) = (fail_with (done_i s i) XKsMismatch, [])).
Proof.
  intros c s. split.
  - intros k h id pid pqs pks. apply run_after_prepare_mismatch.
  - intros i h id tag pid qs ks O St Km. rewrite (unprepared_step c s i h id tag pid qs ks O St), Km. reflexivity.
Qed.
Print Assumptions C19_mismatch_fails_and_stops.

(* `fail_with s x` (first outcome wins, cluster.py _set_final_exception): for a request without outcome it stores x *)
Theorem C19_failure_is_the_outcome : forall s x, fin_res s = None -> fin_exc s = None ->
  fail_with s x = set_exc s x /\ fin_exc (fail_with s x) = Some x.
Proof. intros s x R E. rewrite (fail_with_fresh s x R E). split; reflexivity. Qed.
Print Assumptions C19_failure_is_the_outcome.

(* Session.shutdown() before the follow-up work is accepted: the re-prepare / the re-send is refused, the request (if it has no
   outcome yet) fails with ConnectionShutdown, nothing is queued and nothing is sent *)
Theorem C19_shutdown_refuses_followup : forall c s,
  (forall i h id tag pid qs ks, open_query s i h -> stmt_for c id = Some (pid, qs, ks) -> ks_mismatch c s ks = false ->
     session_shut s = true -> step c s (Resp i (RUnprepared id tag)) = (fail_with (done_i s i) XShutdown, [])) /\
  (forall j h r, open_prepare s j h -> session_shut s = true ->
     step c s (Resp j r) = (fail_with (done_i s j) XShutdown, [])).
Proof.
  intros c s. split.
  - intros i h id tag pid qs ks O St Km Sh. rewrite (unprepared_step c s i h id tag pid qs ks O St), Km.
    unfold submit. change (session_shut (done_i s i)) with (session_shut s). rewrite Sh. reflexivity.
  - intros j h r O Sh. rewrite (prepared_step c s j h r O). unfold submit.
    change (session_shut (done_i s j)) with (session_shut s). rewrite Sh. reflexivity.
Qed.
Print Assumptions C19_shutdown_refuses_followup.

(* an error answer to the PREPARE (server error, unexpected message) fails the request with that error, nothing is sent;
   and once the request has failed, the after-prepare task sends nothing either *)
Theorem C19_prepare_error_fails_and_stops : forall c s k h r,
  nth_error (queue s) k = Some (TAfterPrepare h r) ->
  (forall x, fin_exc s = None -> prepare_error r = Some x ->
     step c s (Run k) = (fail_with (set_queue s (remove_nth k (queue s))) x, [])) /\
  (fin_exc s <> None -> step c s (Run k) = (set_queue s (remove_nth k (queue s)), [])).
Proof.
  intros c s k h r N. split.
  - intros x E P. eapply run_after_prepare_error; eauto.
  - intros E. eapply run_after_prepare_failed; eauto.
Qed.
Print Assumptions C19_prepare_error_fails_and_stops.

(* a PREPARE is sent only by a re-prepare task, and such a task exists only because that host answered UNPREPARED *)
Theorem C19_prepare_only_after_unprepared : forall c s o s' ev,  step c s o = (s', ev) ->
  (forall h qs ks cz, In (Sent h (MPrepare qs ks) cz) ev ->
     exists k, o = Run k /\ nth_error (queue s) k = Some (TReprepare h qs ks)) /\
  (forall h qs ks, In (TReprepare h qs ks) (queue s') -> In (TReprepare h qs ks) (queue s) \/
     exists i id tag a, o = Resp i (RUnprepared id tag) /\ nth_error (attempts s) i = Some a /\ a_done a = false /\
                        a_prep a = false /\ a_host a = h).
Proof.
  intros c s o s' ev H. split.
  - intros h qs ks cz Hin.
    destruct (step_sent _ _ _ _ _ _ _ _ H Hin) as [[_ [cl E]]|[(k & t & -> & N & T & _)|(i & k & tag & dcl & [|] & a & _ & _ & _ & T & _)]];
      [discriminate| |cbn in T; destruct T as (_ & E & _); discriminate|cbn in T; contradiction].
    exists k. split; [reflexivity|]. destruct t as [[|] h0|h0 qs0 ks0|h0 [| | |id| | | | |]]; cbn in T; try contradiction;
      destruct T as (-> & E & _); try discriminate. inversion E; subst. exact N.
  - intros h qs ks Hin. destruct (step_queue _ _ _ _ _ _ H Hin) as [G|(i & r & a & -> & N & D & G)]; [left; exact G|].
    right. destruct (a_prep a) eqn:P; [discriminate|]. cbn in G. destruct G as (-> & id & tag & ->).
    exists i, id, tag, a. auto.
Qed.
Print Assumptions C19_prepare_only_after_unprepared.

(* non-vacuity: UNPREPARED from host 1 -> PREPARE to 1 (keyspace carried on v5) -> PREPARED same id -> re-sent to 1 -> rows;
   and on v4 a PREPARED with another id fails the request and nothing more is sent *)
Example C19_nonvacuous :
  let c5 := {| pol := scripted []; fut_ps := Some (7, 3, Some 2); known := []; pv := 5; tgt := None; inline_retry := false |} in
  let c4 := {| pol := scripted []; fut_ps := Some (7, 3, None); known := []; pv := 4; tgt := None; inline_retry := false |} in
  let s0 := init [1; 0] None [(0, PHealthy); (1, PHealthy)] (Some 1) false false 0 (Some 9) in
  (let '(s, evs) := exec c5 s0 [Start; Resp 0%nat (RUnprepared 7 10); Run 0%nat; Resp 1%nat (RPrepared 7); Run 0%nat;
                                Resp 2%nat RRows] in
   evs = [Sent 1 (MOrig (Some 1)) CPlan; Sent 1 (MPrepare 3 (Some 2)) CReprepare; Sent 1 (MOrig (Some 1)) CResend]
   /\ fin_res s = Some FRows /\ fin_exc s = None) /\
  (let '(s, evs) := exec c4 s0 [Start; Resp 0%nat (RUnprepared 7 10); Run 0%nat; Resp 1%nat (RPrepared 8); Run 0%nat] in
   evs = [Sent 1 (MOrig (Some 1)) CPlan; Sent 1 (MPrepare 3 None) CReprepare]
   /\ fin_exc s = Some XIdMismatch /\ queue s = [] /\ length (attempts s) = 2%nat).
Proof. vm_compute. repeat split. Qed.
