(* C27 -- CQL identifiers and literals produced by the driver read back unchanged.
   Lexer and driver mirror: Model/CqlLex.v.  Reserved words, the character classes / end anchor of
   valid_cql3_word_re and the escaping inside the USE statement are REGENERATED from the source (Gen/CqlKeywords.v).
   Reading (DESIGN 4.0): reserved = the driver's cql_keywords_reserved. *)
From Coq Require Import String Ascii.
From Coq Require Import ZArith List Bool.
From Verif Require Import CqlKeywords CqlLex C27_proofs.
Import ListNotations.
Local Open Scope Z_scope.

(* every quoted identifier lexes as one identifier equal to the original name -- all code-point lists *)
Theorem C27_quoted : forall n, lex_ident (escape_name n) = Some (n, []).
Proof. exact quoted_roundtrip. Qed.
Print Assumptions C27_quoted.

(* left unquoted only when CQL reads the bare word back unchanged and it is not reserved *)
Theorem C27_unquoted_ok : forall n, maybe_escape_name n = n -> lex_ident n = Some (n, []) /\ reserved n = false.
Proof. exact unquoted_ok. Qed.
Print Assumptions C27_unquoted_ok.

(* hence whatever protect_name / protect_names emit reads back as the name *)
Theorem C27_protect_name : forall n, lex_ident (protect_name n) = Some (n, []).
Proof. exact protect_name_roundtrip. Qed.
Print Assumptions C27_protect_name.

Theorem C27_protect_names : forall ns, map lex_ident (protect_names ns) = map (fun n => Some (n, [])) ns.
Proof. intros ns. unfold protect_names. rewrite map_map. apply map_ext. exact protect_name_roundtrip. Qed.
Print Assumptions C27_protect_names.

(* every quoted string literal lexes as one string equal to the original text *)
Theorem C27_string : forall s, lex_string (cql_quote s) = Some (s, []).
Proof. exact string_roundtrip. Qed.
Print Assumptions C27_string.

Theorem C27_protect_value :
  (forall s, lex_string (protect_value (PVStr s)) = Some (s, [])) /\
  (forall z, lex_integer (protect_value (PVInt z)) = Some (z, [])) /\
  (forall b, lex_word (protect_value (PVBool b)) = (if b then codes "true" else codes "false", [])) /\
  lex_word (protect_value PVNone) = (codes "null", []).
Proof. split; [exact protect_value_str|split; [exact protect_value_int|split; [exact protect_value_bool|exact protect_value_none]]]. Qed.
Print Assumptions C27_protect_value.

(* keyspace switching: the USE statement names exactly the requested keyspace *)
Theorem C27_use_keyspace : forall ks, lex_use (use_keyspace ks) = Some ks.
Proof. exact use_keyspace_roundtrip. Qed.
Print Assumptions C27_use_keyspace.

(* schema export (as_cql_query / export_as_string producers of cassandra/metadata.py): a protected name list tokenizes to
   exactly those identifiers, for any sufficiently large fuel (one unit per token or blank) *)
Theorem C27_name_list : forall ns, exists K, forall fuel, (K <= fuel)%nat ->
  tokenize fuel (names_joined ns) = Some (names_tokens ns).
Proof.
  intros ns. exists (names_fuel ns 1). intros fuel Hle. apply (tokenize_ge (names_fuel ns 1)); [assumption|].
  pose proof (tok_names_joined ns 1 [] (conj I I)) as H. rewrite app_nil_r in H. rewrite H. apply pre_list_some.
Qed.
Print Assumptions C27_name_list.

(* DSE 6.8 graph edge tables: label, partition key (single or composite) and clustering columns of the FROM / TO clauses *)
Theorem C27_edge_export : forall label pks ccs,
  (exists K, forall fuel, (K <= fuel)%nat ->
     tokenize fuel (export_edge (codes "FROM") label pks ccs) = Some (edge_tokens (TKw (codes "from")) label pks ccs)) /\
  (exists K, forall fuel, (K <= fuel)%nat ->
     tokenize fuel (export_edge (codes "TO") label pks ccs) = Some (edge_tokens (TKw (codes "to")) label pks ccs)).
Proof.
  intros label pks ccs. split; apply tok_export_edge_from_to; [exact tok_kw_from|exact tok_kw_to].
Qed.
Print Assumptions C27_edge_export.

(* custom-index WITH OPTIONS map (dict of str -> str through the Encoder): every key and value reads back *)
Theorem C27_index_options : forall kvs, exists K, forall fuel, (K <= fuel)%nat ->
  tokenize fuel (string_map kvs) = Some (map_tokens kvs).
Proof. exact tok_string_map. Qed.
Print Assumptions C27_index_options.

(* record of the two defects found by this check (fixed in the driver, findings/C27.json): the same statements are
   false for the `$`-anchored regex and for the unescaped USE statement *)
Theorem C27_dollar_anchor_refuted : ~ (forall n, maybe_escape_name_d true n = n -> lex_ident n = Some (n, [])).
Proof. exact dollar_anchor_refuted. Qed.
Print Assumptions C27_dollar_anchor_refuted.

Theorem C27_use_unescaped_refuted : ~ (forall ks, lex_use (use_keyspace_e false ks) = Some ks).
Proof. exact use_unescaped_refuted. Qed.
Print Assumptions C27_use_unescaped_refuted.

(* non-vacuity: some names are left bare, reserved / mixed-case / quote-bearing / empty ones are quoted *)
Example C27_nonvacuous_bare : maybe_escape_name (codes "abc_1") = codes "abc_1".
Proof. vm_compute. reflexivity. Qed.
Example C27_nonvacuous_reserved : maybe_escape_name (codes "select") = DQ :: codes "select" ++ [DQ].
Proof. vm_compute. reflexivity. Qed.
Example C27_nonvacuous_mixed : maybe_escape_name (codes "Ab") = DQ :: codes "Ab" ++ [DQ] /\ lex_ident (codes "Ab") = Some (codes "ab", []).
Proof. vm_compute. split; reflexivity. Qed.
Example C27_nonvacuous_quote : escape_name [97; 34; 98] = [34; 97; 34; 34; 98; 34] /\ escape_name [] = [34; 34].
Proof. vm_compute. split; reflexivity. Qed.
