(* C46 -- per-statement options override profile and session defaults.
   Model: Model/Options.v (Session._create_response_future + BoundStatement inheritance), tied to the source by
   exhaustive correspondence over the set/unset lattice (checks/C46.py).
   Quantified over: both configuration modes, the three statement kinds, every statement/profile/session option
   value, every timeout argument, every protocol version (only hypothesis: a batch needs protocol >= 2, as the
   driver raises UnsupportedOperation otherwise). *)
From Coq Require Import ZArith List Bool Lia.
From Verif Require Import Options C46_proofs.
Import ListNotations.
Local Open Scope Z_scope.

(* a setting made on the statement is the one in effect -- whatever the profile and the session say *)
Theorem C46_statement_wins : forall m k st pr se t pg pv f, effective m k st pr se t pg pv = Some f ->
  (forall v, s_cl st = Some v -> m_cl f = v)
  /\ (forall v, s_serial st = Some v -> m_serial f = Some v)
  /\ (forall v, s_retry st = Some v -> f_retry f = v)
  /\ (forall v, s_fetch st = FSet v -> k <> Batch -> pv <> 1 -> m_fetch f = v)
  /\ (forall v, t = TSet v -> f_timeout f = v).
Proof.
  intros m k st pr se t pg pv f H. destruct (effective_common _ _ _ _ _ _ _ _ _ H) as (A & B & C & D & _).
  repeat split; intros v E.
  - rewrite A. unfold eff_cl. rewrite E. reflexivity.
  - rewrite B. unfold eff_serial. rewrite E. reflexivity.
  - rewrite C. unfold eff_retry. rewrite E. reflexivity.
  - intros N P. destruct (effective_fetch _ _ _ _ _ _ _ _ _ H N) as [F _]. rewrite F, E.
    destruct (pv =? 1) eqn:Q; [apply Z.eqb_eq in Q; contradiction | reflexivity].
  - rewrite D, E. reflexivity.
Qed.
Print Assumptions C46_statement_wins.

(* a BoundStatement's own settings win over the PreparedStatement's, which win over profile/session *)
Theorem C46_bound_inherits : forall prep expl mk,
  (forall v, s_cl expl = Some v -> s_cl (bound_of prep expl mk) = Some v)
  /\ (s_cl expl = None -> s_cl (bound_of prep expl mk) = s_cl prep)
  /\ (forall v, s_serial expl = Some v -> s_serial (bound_of prep expl mk) = Some v)
  /\ (s_serial expl = None -> s_serial (bound_of prep expl mk) = s_serial prep)
  /\ (forall v, s_retry expl = Some v -> s_retry (bound_of prep expl mk) = Some v)
  /\ (s_retry expl = None -> s_retry (bound_of prep expl mk) = s_retry prep)
  /\ (forall v, s_fetch expl = FSet v -> s_fetch (bound_of prep expl mk) = FSet v)
  /\ (s_fetch expl = FUnset -> s_fetch (bound_of prep expl mk) = s_fetch prep).
Proof. intros prep expl mk. unfold bound_of. cbn. repeat split; intros; try rewrite H; reflexivity. Qed.
Print Assumptions C46_bound_inherits.

(* otherwise: the execution profile's setting, or in legacy mode the session's; row factory, load-balancing and
   speculative-execution policy always come from there (statements carry no such setting) *)
Theorem C46_else_profile_or_session : forall m k st pr se t pg pv f, effective m k st pr se t pg pv = Some f ->
  (s_cl st = None -> m_cl f = match m with Legacy => d_cl se | Profiles => p_cl pr end)
  /\ (s_serial st = None -> m_serial f = match m with Legacy => d_serial se | Profiles => p_serial pr end)
  /\ (s_retry st = None -> f_retry f = match m with Legacy => d_retry se | Profiles => p_retry pr end)
  /\ (t = TNotSet -> f_timeout f = match m with Legacy => d_timeout se | Profiles => p_timeout pr end)
  /\ (s_fetch st = FUnset -> k <> Batch -> 2 <= pv -> m_fetch f = d_fetch se)
  /\ f_rowf f = match m with Legacy => d_rowf se | Profiles => p_rowf pr end
  /\ f_lbp f = match m with Legacy => d_lbp se | Profiles => p_lbp pr end
  /\ f_spec f = match m with
                | Legacy => None
                | Profiles => if s_idem st then Some (p_spec pr, or_else (s_keyspace st) (d_keyspace se)) else None
                end.
Proof.
  intros m k st pr se t pg pv f H. destruct (effective_common _ _ _ _ _ _ _ _ _ H) as (A & B & C & D & E & F & _).
  repeat split; try assumption.
  - intros N. rewrite A. unfold eff_cl. rewrite N. reflexivity.
  - intros N. rewrite B. unfold eff_serial. rewrite N. reflexivity.
  - intros N. rewrite C. unfold eff_retry. rewrite N. reflexivity.
  - intros N. rewrite D, N. reflexivity.
  - intros N NB P. destruct (effective_fetch _ _ _ _ _ _ _ _ _ H NB) as [G _]. rewrite G, N.
    destruct (2 <=? pv) eqn:Q; [reflexivity | apply Z.leb_gt in Q; exfalso; apply (Z.lt_irrefl pv); eapply Z.lt_le_trans; eauto].
  - exact (effective_spec _ _ _ _ _ _ _ _ _ H).
Qed.
Print Assumptions C46_else_profile_or_session.

(* the message carries exactly the effective values; gating of fetch size (v1), client timestamp (v3+, enabled),
   keyspace (v5+/DSE_V2, never on EXECUTE); the paging state passes through unchanged; a request is always built
   except for a batch on protocol 1 *)
Theorem C46_message_carries : forall m k st pr se t pg pv,
  (k = Batch -> 2 <= pv) ->
  exists f, effective m k st pr se t pg pv = Some f
  /\ m_cl f = eff_cl m st pr se /\ m_serial f = eff_serial m st pr se
  /\ m_ts f = (if (3 <=? pv) && d_use_ts se then Some (d_ts se) else None)
  /\ m_keyspace f = match k with Bound => None | _ => if uses_keyspace_flag pv then s_keyspace st else None end
  /\ (k <> Batch -> m_paging f = pg /\ (pv = 1 -> m_fetch f = None)).
Proof.
  intros m k st pr se t pg pv Hb. destruct (effective_some m k st pr se t pg pv Hb) as [f H]. exists f.
  destruct (effective_common _ _ _ _ _ _ _ _ _ H) as (A & B & _ & _ & _ & _ & T).
  repeat split; try assumption.
  - exact (effective_keyspace _ _ _ _ _ _ _ _ _ H).
  - destruct (effective_fetch _ _ _ _ _ _ _ _ _ H H0) as [_ P]. exact P.
  - intros ->. destruct (effective_fetch _ _ _ _ _ _ _ _ _ H H0) as [F _]. rewrite F. destruct (s_fetch st); reflexivity.
Qed.
Print Assumptions C46_message_carries.

(* the encoder rejects a request only when the protocol version cannot carry an option in effect (never silently
   dropping it); from protocol v3 on every request built here is encodable *)
Theorem C46_rejected_only_if_uncarriable : forall k f pv, encodes k f pv = false ->
  pv < 3 /\ ((k = Batch /\ (m_serial f <> None \/ m_ts f <> None \/ m_keyspace f <> None))
             \/ (k <> Batch /\ pv < 2 /\ (m_serial f <> None \/ m_fetch f <> None \/ m_paging f <> None))).
Proof.
  intros k f pv H. unfold encodes in H.
  assert (T : forall o, truthy o = true -> o <> None) by (intros [v|] E; [discriminate | discriminate E]).
  assert (S : forall o, is_some o = true -> o <> None) by (intros [v|] E; [discriminate | discriminate E]).
  destruct k.
  - destruct (pv <? 2) eqn:E; [|discriminate]. apply Z.ltb_lt in E. apply negb_false_iff in H. rewrite !orb_true_iff in H.
    split; [lia|]. right. split; [discriminate|]. split; [exact E|]. destruct H as [[H|H]|H]; auto.
  - destruct (pv <? 2) eqn:E; [|discriminate]. apply Z.ltb_lt in E. apply negb_false_iff in H. rewrite !orb_true_iff in H.
    split; [lia|]. right. split; [discriminate|]. split; [exact E|]. destruct H as [[H|H]|H]; auto.
  - destruct (pv <? 3) eqn:E; [|discriminate]. apply Z.ltb_lt in E. apply negb_false_iff in H. rewrite !orb_true_iff in H.
    split; [lia|]. left. split; [reflexivity|]. destruct H as [[H|H]|H]; auto.
Qed.
Print Assumptions C46_rejected_only_if_uncarriable.

Theorem C46_v3_always_encodes : forall k f pv, 3 <= pv -> encodes k f pv = true.
Proof.
  intros k f pv H. unfold encodes.
  destruct k; [destruct (pv <? 2) eqn:E | destruct (pv <? 2) eqn:E | destruct (pv <? 3) eqn:E]; try reflexivity;
    apply Z.ltb_lt in E; lia.
Qed.
Print Assumptions C46_v3_always_encodes.

(* a consistency level configured on the profile (or assigned to the legacy session) is the one in effect for statements
   without their own, on ordinary and on DBaaS clusters alike; only a level nobody chose follows the cluster kind *)
Theorem C46_configured_level_in_effect : forall dbaas m k st pr se t pg pv f pcl scl,
  s_cl st = None ->
  effective m k st (mkProf (configured_cl dbaas pcl) (p_serial pr) (p_retry pr) (p_timeout pr) (p_rowf pr) (p_lbp pr) (p_spec pr))
            (mkSess (configured_cl dbaas scl) (d_serial se) (d_retry se) (d_timeout se) (d_rowf se) (d_lbp se) (d_fetch se)
                    (d_use_ts se) (d_ts se) (d_keyspace se)) t pg pv = Some f ->
  (forall v, m = Profiles -> pcl = Some v -> m_cl f = v)
  /\ (forall v, m = Legacy -> scl = Some v -> m_cl f = v)
  /\ (m = Profiles -> pcl = None -> m_cl f = if dbaas then 6 else 10)
  /\ (m = Legacy -> scl = None -> m_cl f = if dbaas then 6 else 10).
Proof.
  intros dbaas m k st pr se t pg pv f pcl scl Hs H.
  destruct (effective_common _ _ _ _ _ _ _ _ _ H) as (A & _). unfold eff_cl in A. rewrite Hs in A.
  repeat split; intros; subst; cbn in A; exact A.
Qed.
Print Assumptions C46_configured_level_in_effect.

(* the speculative-execution policy in effect is really used: its timer is the one armed when the request is created,
   whenever the policy's delay is below the client timeout -- in particular when there is NO client timeout
   (execute(timeout=None), request_timeout=None, every execute_concurrent* call) *)
Theorem C46_speculative_policy_in_effect : forall p delay timeout, 0 <= delay ->
  (timeout = None \/ exists t, timeout = Some t /\ delay < t) -> first_timer (Some p) delay timeout = TSpec delay.
Proof.
  intros p delay timeout Hd H. unfold first_timer. destruct (0 <=? delay) eqn:E; [|apply Z.leb_gt in E; lia].
  destruct H as [->|(t & -> & Hlt)]; [reflexivity|]. destruct (delay <? t) eqn:F; [reflexivity | apply Z.ltb_ge in F; lia].
Qed.
Print Assumptions C46_speculative_policy_in_effect.

Theorem C46_no_policy_no_speculation : forall delay timeout d, first_timer None delay timeout <> TSpec d.
Proof. intros delay timeout d. unfold first_timer. destruct timeout; discriminate. Qed.
Print Assumptions C46_no_policy_no_speculation.

(* giving a legacy setting commits the cluster to legacy mode (so that setting is the one in effect, see
   C46_else_profile_or_session with m = Legacy) and it stays there; likewise for profiles; whatever the history *)
Theorem C46_mode_follows_configuration : forall ops m,
  (forall m', cfg_step m SetLegacy = Some m' -> mode_of m' = Legacy /\ mode_of (cfg_final m' ops) = Legacy)
  /\ (forall m', cfg_step m UseProfiles = Some m' -> mode_of (cfg_final m' ops) = Profiles).
Proof.
  intros ops m. split; intros m' H.
  - assert (m' = CLegacy) by (destruct m; cbn in H; congruence). subst m'. split; [reflexivity|].
    clear H. induction ops as [|o ops IH]; [reflexivity|]. destruct o; cbn; exact IH.
  - assert (m' = CProfiles) by (destruct m; cbn in H; congruence). subst m'.
    clear H. induction ops as [|o ops IH]; [reflexivity|]. destruct o; cbn; exact IH.
Qed.
Print Assumptions C46_mode_follows_configuration.

(* the row factory in effect is the one that builds the rows, on the ordinary path and on the continuous-paging path *)
Theorem C46_row_factory_builds_rows : forall m k st pr se t pg pv f cont, effective m k st pr se t pg pv = Some f ->
  rows_built_by f cont = match m with Legacy => d_rowf se | Profiles => p_rowf pr end
  /\ (continuous_in_effect m cont = true -> m = Profiles).
Proof.
  intros m k st pr se t pg pv f cont H. destruct (effective_common _ _ _ _ _ _ _ _ _ H) as (_ & _ & _ & _ & R & _).
  split; [exact R|]. destruct m; cbn; [discriminate | reflexivity].
Qed.
Print Assumptions C46_row_factory_builds_rows.

Example C46_nonvacuous :
  let st := mkStmt (Some 6) None None (FSet (Some 50)) (Some 9) true in
  let pr := mkProf 10 (Some 8) 20 (Some 30) 40 41 42 in
  let se := mkSess 1 None 21 (Some 31) 43 44 (Some 5000) true 777 (Some 3) in
  effective Profiles Simple st pr se TNotSet (Some 12) 4
    = Some (mkFields 6 (Some 8) (Some 50) (Some 777) None (Some 12) (Some 30) 20 40 41 (Some (42, Some 9)))
  /\ effective Legacy Bound (bound_of (mkStmt (Some 2) (Some 8) (Some 22) FUnset None false) (mkStmt None None None FUnset None false) (Some 9))
        pr se (TSet None) None 5
    = Some (mkFields 2 (Some 8) (Some 5000) (Some 777) None None None 22 43 44 None)
  /\ effective Profiles Batch st pr se TNotSet None 1 = None.
Proof. repeat split. Qed.
