(* C11 -- messages pushed concurrently reach the socket whole and in order (PARTIAL: see docs/C11.md).
   Model: Model/Push.v.  A schedule is ANY list of ops (thread t pushes its next message / the loop runs the oldest
   scheduled _push_msg / handle_write sends one chunk), any number of threads, any message contents and sizes.
   What the model assumes and cannot exhibit: call_soon_threadsafe / callFromThread are FIFO, a coroutine without an
   await between put_nowait calls is one loop step, sock_sendall / transport.write send the whole chunk. *)
From Coq Require Import ZArith List Bool Arith.
From Verif Require Import Push C11_proofs.
Import ListNotations.

(* chunking loses nothing, reorders nothing, respects the buffer size, for every message and every positive size *)
Theorem C11_chunks : forall n m, (0 < n)%nat ->
  exists cs, chunks n m = Some cs /\ concat cs = m /\ Forall (fun c => (length c <= n)%nat) cs /\ cs <> [].
Proof. exact chunks_ok. Qed.
Print Assumptions C11_chunks.

(* at every point of every interleaving: bytes on the wire, then the write queue, then the scheduled tasks are exactly
   the pushed messages concatenated in scheduling order (so every message is contiguous, none duplicated or lost);
   that order restricted to a thread is a prefix of the thread's own push sequence; when the loop has drained, the
   wire IS the concatenation *)
Theorem C11_order : forall md prog ops, mode_ok md ->
  let s := run md prog ops in
  wire s ++ concat (queue s) ++ concat (map t_msg (tasks s)) = concat (map snd (order s))
  /\ (forall t, thread_part t (order s) ++ todo s t = prog t)
  /\ (tasks s = [] -> queue s = [] -> wire s = concat (map snd (order s)))
  /\ Forall (fun tk => concat (t_chunks tk) = t_msg tk) (tasks s).
Proof. exact order_main. Qed.
Print Assumptions C11_order.

(* out_buffer_size = 0 is not a usable configuration: push() raises for every non-empty message *)
Theorem C11_zero_buffer_raises : forall m, (0 < length m)%nat -> chunks 0 m = None.
Proof. exact chunks_zero_raises. Qed.
Print Assumptions C11_zero_buffer_raises.

Example C11_nonvacuous :
  let prog := prog_of [[(1%Z, 5%nat); (2%Z, 2%nat)]; [(3%Z, 4%nat)]] in
  let s := run (Chunked 3) prog [Push 0; Push 1; RunTask; Write; Push 0; RunTask; Write; Write; RunTask; Write; Write] in
  wire s = [1;1;1;1;1;3;3;3;3;2;2]%Z /\ queue s = [] /\ tasks s = []
  /\ chunks 3 [1;1;1;1;1]%Z = Some [[1;1;1]; [1;1]]%Z.
Proof. cbn. repeat split; reflexivity. Qed.
