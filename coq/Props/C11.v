(* C11 -- messages pushed concurrently reach the socket whole and in order (PARTIAL: see docs/C11.md).
   Model: Model/Push.v.  A schedule is ANY list of ops: thread t calls push() with its next message (application threads
   hand off through a threadsafe callback that creates the task, the loop thread / every twisted thread schedules the
   step directly, all in ONE ready FIFO) / the loop runs its oldest ready entry / the socket accepts up to k bytes of the
   chunk being written.  Any number of threads, any message contents and sizes, any partial-send pattern.
   What the model assumes and cannot exhibit: the ready queue is FIFO, a coroutine without an await between put_nowait
   calls is one loop step, the writer resumes the unsent rest of a chunk (sock_sendall / twisted transport buffer). *)
From Coq Require Import ZArith List Bool Arith.
From Verif Require Import Push C11_proofs.
Import ListNotations.

(* chunking loses nothing, reorders nothing, respects the buffer size, for every message and every positive size *)
Theorem C11_chunks : forall n m, (0 < n)%nat ->
  exists cs, chunks n m = Some cs /\ concat cs = m /\ Forall (fun c => (length c <= n)%nat) cs /\ cs <> [].
Proof. exact chunks_ok. Qed.
Print Assumptions C11_chunks.

(* at every point of every interleaving: the bytes accepted by the socket, then the unsent rest of the current chunk,
   then the write queue are exactly the messages whose task step has run, concatenated whole in that order (no message
   truncated, duplicated or interleaved, however the socket splits the sends); that order restricted to a thread,
   followed by the thread's messages still in the ready queue (scheduled steps first, then handoffs) and by what it has
   not pushed yet, is the thread's program; when everything is drained the wire IS the concatenation and each thread's
   part of it is exactly what the thread pushed *)
Theorem C11_order : forall c prog ops, mode_ok (p_mode c) -> p_keep_rest c = true ->
  let s := run c prog ops in
  wire s ++ cur s ++ concat (queue s) = concat (map snd (order s))
  /\ (forall t, thread_part t (order s) ++ steps_of t (ready s) ++ handoffs_of t (ready s) ++ todo s t = prog t)
  /\ (drained s -> wire s = concat (map snd (order s)) /\ forall t, thread_part t (order s) ++ todo s t = prog t).
Proof. exact order_main. Qed.
Print Assumptions C11_order.

(* a writer that treats a partial send as complete (drops the unsent rest of the chunk) truncates messages *)
Theorem C11_partial_send_must_resume :
  exists c prog ops, mode_ok (p_mode c) /\ p_keep_rest c = false /\
    drained (run c prog ops) /\ wire (run c prog ops) <> concat (map snd (order (run c prog ops))).
Proof.
  exists (mkCfg (Chunked 4) (fun _ => false) false), (prog_of [[(7%Z, 6%nat)]]),
         [Push 0; RunReady; RunReady; SendPart 3; SendPart 4].
  split; [cbn; auto with arith|]. split; [reflexivity|]. split; [cbv; auto|]. cbv. discriminate.
Qed.
Print Assumptions C11_partial_send_must_resume.

(* protocol v5 send path: send_msg hands the whole run of segments of a frame to push() in ONE call, so for any segment
   encoder, any MAX_PAYLOAD_LENGTH and any interleaving the drained wire is a concatenation of complete segment runs, and
   each thread's part of it is the encoding of a prefix of the frames it sent, in its order *)
Theorem C11_send_v5_segments_contiguous : forall enc maxp c frames ops, mode_ok (p_mode c) -> p_keep_rest c = true ->
  let s := run c (send_prog enc maxp frames) ops in
  drained s ->
  wire s = concat (map snd (order s))
  /\ forall t, exists k, thread_part t (order s) = map (encode_v5_or_nil enc maxp) (firstn k (frames t)).
Proof. exact send_v5_main. Qed.
Print Assumptions C11_send_v5_segments_contiguous.

(* ... whereas pushing every segment on its own lets another thread's request land between the segments of a large one *)
Theorem C11_segment_per_push_refuted :
  let enc := fun (sc : bool) (p : msg) => (if sc then 1%Z else 0%Z) :: p in
  let frames := fun t : nat => match t with O => [[7; 7; 7]%Z] | S O => [[9]%Z] | _ => [] end in
  exists ops, let s := run (mkCfg Whole (fun _ => true) true) (send_prog_per_segment enc 2 frames) ops in
    drained s /\ wire s = enc false [7; 7]%Z ++ encode_v5_or_nil enc 2 [9]%Z ++ enc false [7]%Z.
Proof.
  exists [Push 0; Push 1; Push 0; RunReady; RunReady; RunReady; SendPart 9; SendPart 9; SendPart 9].
  cbv. auto.
Qed.
Print Assumptions C11_segment_per_push_refuted.

(* out_buffer_size = 0 is not a usable configuration: push() raises for every non-empty message *)
Theorem C11_zero_buffer_raises : forall m, (0 < length m)%nat -> chunks 0 m = None.
Proof. exact chunks_zero_raises. Qed.
Print Assumptions C11_zero_buffer_raises.

Example C11_nonvacuous :
  let prog := prog_of [[(1%Z, 5%nat); (2%Z, 2%nat)]; [(3%Z, 4%nat)]] in
  (* thread 0 = application thread (handoff, then task step), thread 1 = the loop thread (step scheduled directly) *)
  let c := mkCfg (Chunked 3) (fun t => Nat.eqb t 1) true in
  let s := run c prog [Push 0; Push 1; RunReady; RunReady; SendPart 2; RunReady; Push 0; SendPart 9; SendPart 1; SendPart 9;
                       RunReady; RunReady; SendPart 9; SendPart 9; SendPart 9] in
  wire s = [3;3;3;3;1;1;1;1;1;2;2]%Z /\ drained s
  /\ chunks 3 [1;1;1;1;1]%Z = Some [[1;1;1]; [1;1]]%Z.
Proof. cbv. repeat split; reflexivity. Qed.
