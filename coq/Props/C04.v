(* C04 -- response frames decode to exactly what the server sent.
   spec side  : Model/ResponseSpec.v (response, spec_flags/spec_opcode/spec_body, wf_spec, exact, documented_exception)
   driver side: Model/Response.v (decode_message, to_exception), tied to cassandra/protocol.py by correspondence
                (checks/C04.py: every generated case is decoded by the real _ProtocolHandler.decode_message and by this model). *)
From Coq Require Import ZArith List Bool String Ascii.
From Verif Require Import Response ResponseSpec C04_proofs C04_frame_proofs C04_gap_proofs C04_cache_proofs.
Import ListNotations.
Local Open Scope Z_scope.

(* The statement at full strength: every response that is well-formed under the protocol specification, at every
   protocol version, with any tracing id / warnings / custom payload, decodes to exactly its contents. *)
Definition C04_full_statement : Prop :=
  forall pv rm stream r, wf_spec pv rm r = true ->
    decode_message pv rm stream (spec_flags r) (spec_opcode r) (spec_body pv r) = Some (exact pv rm stream r).

(* It fails on this driver, in three ways (witnesses are replayed on the implementation by checks/C04.py). *)
Definition gap_auth_success : response := mkresp None None None (RAuthSuccess (Some [255])).
Definition gap_cas_write_unknown : response := mkresp None None None (RError (ErrCasWriteUnknown 8 1 2) (zs "cas")).
Definition gap_contentions : response := mkresp None None None (RError (ErrWriteTimeout 8 1 2 5 (Some 3)) (zs "to")).

(* (1) an AUTH_SUCCESS token that is not UTF-8 text is not delivered at all (UnicodeDecodeError) *)
Theorem C04_auth_success_binary_refuted :
  wf_spec 4 None gap_auth_success = true /\
  decode_message 4 None 0 (spec_flags gap_auth_success) (spec_opcode gap_auth_success) (spec_body 4 gap_auth_success) = None.
Proof. split; vm_compute; reflexivity. Qed.
Print Assumptions C04_auth_success_binary_refuted.

(* (2) CAS_WRITE_UNKNOWN (0x1700, v5) loses <cl><received><blockfor> *)
Theorem C04_cas_write_unknown_refuted :
  wf_spec 5 None gap_cas_write_unknown = true /\
  decode_message 5 None 0 (spec_flags gap_cas_write_unknown) (spec_opcode gap_cas_write_unknown) (spec_body 5 gap_cas_write_unknown)
  = Some (mkmsg 0 None None None (BError CErrorMessage 5888 (zs "cas") EiNone)) /\
  exact 5 None 0 gap_cas_write_unknown = mkmsg 0 None None None (BError CErrorMessage 5888 (zs "cas") (EiCasWriteUnknown 8 1 2)).
Proof. repeat split; vm_compute; reflexivity. Qed.
Print Assumptions C04_cas_write_unknown_refuted.

(* (3) the <contentions> count of a v5 CAS Write_timeout is dropped *)
Theorem C04_contentions_refuted :
  wf_spec 5 None gap_contentions = true /\
  decode_message 5 None 0 (spec_flags gap_contentions) (spec_opcode gap_contentions) (spec_body 5 gap_contentions)
  = Some (mkmsg 0 None None None (BError CWriteTimeout 4352 (zs "to") (EiWriteTimeout 8 1 2 5 None))) /\
  exact 5 None 0 gap_contentions = mkmsg 0 None None None (BError CWriteTimeout 4352 (zs "to") (EiWriteTimeout 8 1 2 5 (Some 3))).
Proof. repeat split; vm_compute; reflexivity. Qed.
Print Assumptions C04_contentions_refuted.

Theorem C04_full_refuted : ~ C04_full_statement.
Proof.
  intros H. specialize (H 4 None 0 gap_auth_success (proj1 C04_auth_success_binary_refuted)).
  rewrite (proj2 C04_auth_success_binary_refuted) in H. discriminate H.
Qed.
Print Assumptions C04_full_refuted.

(* The partial statement: outside exactly those three classes (driver_gap r = false, part of wf_response) every
   well-formed response -- RESULT void / rows / set_keyspace / prepared / schema_change with every metadata flag
   combination, every ERROR code, EVENT, SUPPORTED, READY, AUTHENTICATE, AUTH_CHALLENGE, AUTH_SUCCESS, with or without
   tracing id, warnings, custom payload, at every protocol version, of any size -- decodes to exactly its contents. *)
Theorem C04_decode : forall pv rm stream r,
  wf_response pv rm r = true ->
  decode_message pv rm stream (spec_flags r) (spec_opcode r) (spec_body pv r) = Some (exact pv rm stream r).
Proof. exact decode_exact. Qed.
Print Assumptions C04_decode.

Theorem C04_partial : forall pv rm stream r,
  wf_spec pv rm r = true -> driver_gap r = false ->
  decode_message pv rm stream (spec_flags r) (spec_opcode r) (spec_body pv r) = Some (exact pv rm stream r).
Proof. intros pv rm stream r W G. apply decode_exact. unfold wf_response. rewrite W, G. reflexivity. Qed.
Print Assumptions C04_partial.

(* the hypothesis of C04_partial excludes exactly the failing class: a spec-well-formed response decodes to its exact
   contents if and only if it is outside driver_gap *)
Theorem C04_gap_exact : forall pv rm stream r,
  wf_spec pv rm r = true ->
  (decode_message pv rm stream (spec_flags r) (spec_opcode r) (spec_body pv r) = Some (exact pv rm stream r)
   <-> driver_gap r = false).
Proof.
  intros pv rm stream r W. split.
  - intros D. destruct (driver_gap r) eqn:G; [|reflexivity]. exfalso. exact (gap_fails pv rm stream r W G D).
  - intros G. apply C04_partial; assumption.
Qed.
Print Assumptions C04_gap_exact.

(* server errors surface as the documented exception types with their fields intact *)
Theorem C04_exceptions : forall pv rm stream r e m,
  wf_response pv rm r = true -> rs_body r = RError e m ->
  exists d, decode_message pv rm stream (spec_flags r) (spec_opcode r) (spec_body pv r) = Some d
            /\ to_exception (m_body d) = Some (documented_exception e m).
Proof.
  intros pv rm stream r e m W B. exists (exact pv rm stream r). split; [apply decode_exact; exact W|].
  unfold wf_response in W. apply andb_prop in W. destruct W as [W G].
  rewrite driver_gap_supported in G. rewrite negb_involutive in G.
  unfold wf_spec in W. repeat (apply andb_prop in W; destruct W as [W ?]).
  unfold exact. cbn [m_body]. rewrite B in *. eapply exceptions_table; eassumption.
Qed.
Print Assumptions C04_exceptions.

(* ---- state that outlives a frame: the process-global UDT class cache (UserType._cache) behind read_type.
   decode_message_st is one decode_message call in a process whose cache is c; decode_history a sequence of them. *)

(* whatever earlier frames left in the cache, a well-formed frame decodes to exactly its own contents *)
Theorem C04_cache_independent : forall c pv rm stream r,
  wf_response pv rm r = true ->
  fst (decode_message_st true c pv rm stream (spec_flags r) (spec_opcode r) (spec_body pv r)) = Some (exact pv rm stream r).
Proof. exact decode_st_exact. Qed.
Print Assumptions C04_cache_independent.

(* every history (any length, any initial cache) of well-formed frames: each one decodes to exactly what it carries *)
Theorem C04_history : forall (h : list (Z * option (list colspec) * Z * response)) c,
  Forall (fun x => let '(pv, rm, stream, r) := x in wf_response pv rm r = true) h ->
  decode_history true c (map (fun x => let '(pv, rm, stream, r) := x in frame_of pv rm stream r) h)
  = map (fun x => let '(pv, rm, stream, r) := x in Some (exact pv rm stream r)) h.
Proof. exact history_exact. Qed.
Print Assumptions C04_history.

(* the `instance.subtypes != field_types` test of make_udt_class is necessary: without it (check_subtypes = false) a
   type re-created with the same field names and other field types is decoded with the stale class *)
Definition udt_rows (ft : Z) : response :=
  mkresp None None None
    (RResult (ResRows (mkrmeta None None (McSome (ColsGlobal (zs "ks") (zs "t") [(zs "c", TUdt (zs "ks") (zs "u") [(zs "f", TPrim ft)])])))
                      [[Some [0;0;0;4;0;0;0;1]]])).
Theorem C04_stale_udt_class_refuted :
  wf_response 4 None (udt_rows 9) = true /\ wf_response 4 None (udt_rows 13) = true /\
  nth_error (decode_history false [] [frame_of 4 None 0 (udt_rows 9); frame_of 4 None 1 (udt_rows 13)]) 1%nat
  <> Some (Some (exact 4 None 1 (udt_rows 13))) /\
  nth_error (decode_history true [] [frame_of 4 None 0 (udt_rows 9); frame_of 4 None 1 (udt_rows 13)]) 1%nat
  = Some (Some (exact 4 None 1 (udt_rows 13))).
Proof. split; [vm_compute; reflexivity|]. split; [vm_compute; reflexivity|]. split; [vm_compute; discriminate|vm_compute; reflexivity]. Qed.
Print Assumptions C04_stale_udt_class_refuted.

(* a non-trivial response satisfies the hypotheses: traced, with a warning and a payload (one null value), paged rows
   under a global table spec with nested map / tuple / UDT / list column types, a null cell and an empty cell *)
Definition sample : response :=
  mkresp (Some [1;2;3;4;5;6;7;8;9;10;11;12;13;14;15;16]) (Some [zs "warn"]) (Some [(zs "k", Some [1;2]); (zs "j", None)])
    (RResult (ResRows (mkrmeta (Some [9;9]) None
                (McSome (ColsGlobal (zs "ks") (zs "t")
                   [(zs "a", TPrim 9);
                    (zs "b", TMap (TPrim 13) (TTuple [TPrim 3; TUdt (zs "ks") (zs "u") [(zs "f", TList (TPrim 2))]]))])))
              [[Some [0;0;0;1]; None]; [Some []; Some [7]]])).

Example C04_nonvacuous :
  wf_response 4 None sample = true /\ spec_flags sample = 14 /\
  exists d, decode_message 4 None 7 (spec_flags sample) (spec_opcode sample) (spec_body 4 sample) = Some d
            /\ m_warnings d = Some [zs "warn"]
            /\ match m_body d with BResult r => r_rows r = Some [[Some [0;0;0;1]; None]; [Some []; Some [7]]] | _ => False end.
Proof. split; [vm_compute; reflexivity|]. split; [reflexivity|]. eexists. split; [vm_compute; reflexivity|]. split; reflexivity. Qed.

Example C04_nonvacuous_error :
  wf_response 5 None (mkresp None None None (RError (ErrReadFailure 6 1 2 (FMap [([10;0;0;1], 3)]) 1) (zs "boom"))) = true.
Proof. vm_compute. reflexivity. Qed.
