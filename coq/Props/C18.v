(* C18 -- paged results yield every row exactly once, in order.
   Model: Model/Paging.v (ResultSet + ResponseFuture paging over a scripted server), tied to cassandra/cluster.py
   by correspondence (checks/C18.py).  `server` is ANY script: any number of pages, any page sizes incl. empty, and
   any number of page requests that end in an error delivered to the application (`Fail`), anywhere. *)
From Coq Require Import ZArith List Bool.
From Verif Require Import Paging C18_proofs.
Import ListNotations.
Local Open Scope Z_scope.

(* list(result_set) / `for row in result_set` terminates (fuel not exhausted) and returns the concatenation of
   all pages' rows in server order (no failing request: an exception would leave list()/the loop) *)
Theorem C18_iter : forall srv, nfails srv = O -> snd (iterate srv) = VRows (concat (pages srv)).
Proof. intros srv H. rewrite (proj1 (iterate_spec srv H)), all_rows_concat. reflexivity. Qed.
Print Assumptions C18_iter.

(* an application that keeps calling next() on the same iterator after failed page fetches still gets every row
   exactly once, in order; a failed request is repeated with the SAME paging state (that of the last page received) *)
Theorem C18_iter_across_failures : forall srv,
  snd (iterate_retry srv) = VRows (concat (pages srv)) /\ reqs (fst (iterate_retry srv)) = expected_reqs None srv.
Proof. intros srv. destruct (iterate_retry_spec srv) as [A B]. rewrite A, all_rows_concat. auto. Qed.
Print Assumptions C18_iter_across_failures.

(* the first request carries no paging state; request k (k >= 1) carries the state returned with page k-1 *)
Theorem C18_states : forall srv, nfails srv = O -> reqs (fst (iterate srv)) = None :: map Some (states srv).
Proof. intros srv H. exact (proj2 (iterate_spec srv H)). Qed.
Print Assumptions C18_states.

Theorem C18_states_kth : forall srv k st, nfails srv = O -> nth_error (states srv) k = Some st ->
  nth_error (reqs (fst (iterate srv))) (S k) = Some (Some st).
Proof. intros srv k st Hn H. rewrite (C18_states srv Hn). cbn. rewrite nth_error_map, H. reflexivity. Qed.
Print Assumptions C18_states_kth.

(* for ANY access pattern (any sequence of iter/next/fetch_next_page/one/[i]/==/list calls, failures included): the
   requests sent are a prefix of the expected sequence (states in order, failed requests repeated with the same state),
   and never more requests than pages + failures: nothing is requested after the page without paging state *)
Theorem C18_stops : forall srv ops,
  let '(s0, o0) := init srv in let '(s', o) := run_state s0 ops in
  (exists rest, reqs (o0 ++ o) ++ rest = expected_reqs None srv)
  /\ (length (reqs (o0 ++ o)) <= npages srv + nfails srv)%nat.
Proof.
  intros srv ops. pose proof (any_pattern_prefix srv ops) as P.
  destruct (init srv) as [s0 o0]. destruct (run_state s0 ops) as [s' o].
  split; [eexists; exact P|].
  apply (f_equal (@length _)) in P. rewrite app_length, expected_length in P. rewrite <- P. apply Nat.le_add_r.
Qed.
Print Assumptions C18_stops.

Theorem C18_expected_nofail : forall srv, nfails srv = O -> expected_reqs None srv = None :: map Some (states srv).
Proof. intros srv H. apply expected_nofail, H. Qed.
Print Assumptions C18_expected_nofail.

(* exactly as many requests as pages when iterating to the end *)
Theorem C18_stops_iter : forall srv, nfails srv = O -> length (reqs (fst (iterate srv))) = npages srv.
Proof. intros srv H. rewrite (C18_states srv H). cbn. rewrite map_length. apply states_length. Qed.
Print Assumptions C18_stops_iter.

(* materialising through the index / equality operators agrees with iteration (same rows or same exception, same requests) *)
Theorem C18_list_eq_iter : forall srv, materialise srv = iterate srv.
Proof. exact materialise_spec. Qed.
Print Assumptions C18_list_eq_iter.

Theorem C18_getitem : forall srv i, nfails srv = O -> let '(s0, _) := init srv in
  exists o, snd (step s0 (OGetItem i)) = o ++ [Ret (py_getitem (concat (pages srv)) i)] /\ reqs o = map Some (states srv).
Proof. intros srv i H. rewrite <- all_rows_concat. exact (getitem_spec srv i H). Qed.
Print Assumptions C18_getitem.

Theorem C18_eq : forall srv other, nfails srv = O -> let '(s0, _) := init srv in
  exists o b, snd (step s0 (OEq other)) = o ++ [Ret (VBool b)] /\ (b = true <-> concat (pages srv) = other).
Proof.
  intros srv other Hn. pose proof (eq_spec srv other Hn) as E. destruct (init srv) as [s0 o0].
  destruct E as (o & E & _). exists o, (zlist_eqb (all_rows srv) other). split; [exact E|].
  rewrite <- all_rows_concat. apply zlist_eqb_eq.
Qed.
Print Assumptions C18_eq.

(* manual paging (current_rows; while has_more_pages: fetch_next_page() [called again if it raised]; current_rows)
   yields the same rows and sends the same requests as iteration -- with or without failing requests *)
Theorem C18_manual_eq_iter : forall srv,
  snd (manual srv) = Some (concat (pages srv)) /\ reqs (fst (manual srv)) = reqs (fst (iterate_retry srv)).
Proof.
  intros srv. destruct (manual_spec srv) as (o & E & R). destruct (iterate_retry_spec srv) as [_ R2].
  rewrite E, R2. cbn [fst snd]. rewrite all_rows_concat. auto.
Qed.
Print Assumptions C18_manual_eq_iter.

(* non-vacuity: four pages, two of them empty, one page request failing twice *)
Example C18_nonvacuous :
  let srv := More [1; 2] 10 (More [] 11 (Fail (Fail (More [3] 12 (Last []))))) in
  iterate_retry srv = ([Req None; Req (Some 10); Req (Some 11); Req (Some 11); Req (Some 11); Req (Some 12)], VRows [1; 2; 3])
  /\ manual srv = ([Req None; Req (Some 10); Req (Some 11); Req (Some 11); Req (Some 11); Req (Some 12)], Some [1; 2; 3])
  /\ snd (iterate srv) = VError
  /\ snd (run_state (fst (init srv)) [OIter; ONext; ONext; ONext; ONext; ONext; ONext]) =
     [Ret VSelf; Ret (VRow 1); Ret (VRow 2); Req (Some 10); Req (Some 11); Ret VError; Req (Some 11); Ret VError;
      Req (Some 11); Ret (VRow 3); Req (Some 12); Ret VStop].
Proof. repeat split. Qed.
