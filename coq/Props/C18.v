(* C18 -- paged results yield every row exactly once, in order.
   Model: Model/Paging.v (ResultSet + ResponseFuture paging over a scripted server), tied to cassandra/cluster.py
   by correspondence (checks/C18.py).  `server` is ANY script: any number of pages, any page sizes incl. empty. *)
From Coq Require Import ZArith List Bool.
From Verif Require Import Paging C18_proofs.
Import ListNotations.
Local Open Scope Z_scope.

(* list(result_set) / `for row in result_set` terminates (fuel not exhausted) and returns the concatenation of
   all pages' rows in server order *)
Theorem C18_iter : forall srv, snd (iterate srv) = Some (concat (pages srv)).
Proof. intros srv. destruct (iterate_spec srv) as [E _]. rewrite E. cbn. rewrite all_rows_concat. reflexivity. Qed.
Print Assumptions C18_iter.

(* the first request carries no paging state; request k (k >= 1) carries the state returned with page k-1 *)
Theorem C18_states : forall srv, reqs (fst (iterate srv)) = None :: map Some (states srv).
Proof. intros srv. exact (proj2 (iterate_spec srv)). Qed.
Print Assumptions C18_states.

Theorem C18_states_kth : forall srv k st, nth_error (states srv) k = Some st ->
  nth_error (reqs (fst (iterate srv))) (S k) = Some (Some st).
Proof. intros srv k st H. rewrite C18_states. cbn. rewrite nth_error_map, H. reflexivity. Qed.
Print Assumptions C18_states_kth.

(* for ANY access pattern (any sequence of iter/next/fetch_next_page/one/[i]/==/list calls): the requests sent are a
   prefix of [None; st_0; st_1; ...]: states in order, and never a request after the page without paging state *)
Theorem C18_stops : forall srv ops,
  let '(s0, o0) := init srv in let '(s', o) := run_state s0 ops in
  (exists rest, reqs (o0 ++ o) ++ rest = None :: map Some (states srv))
  /\ (length (reqs (o0 ++ o)) <= npages srv)%nat.
Proof.
  intros srv ops. pose proof (any_pattern_prefix srv ops) as P.
  destruct (init srv) as [s0 o0]. destruct (run_state s0 ops) as [s' o].
  split; [eexists; exact P|].
  apply (f_equal (@length _)) in P. rewrite app_length in P. cbn [length] in P.
  rewrite !map_length, states_length in P. rewrite <- P. apply Nat.le_add_r.
Qed.
Print Assumptions C18_stops.

(* exactly as many requests as pages when iterating to the end *)
Theorem C18_stops_iter : forall srv, length (reqs (fst (iterate srv))) = npages srv.
Proof. intros srv. rewrite C18_states. cbn. rewrite map_length. apply states_length. Qed.
Print Assumptions C18_stops_iter.

(* materialising through the index / equality operators agrees with iteration (same rows, same requests) *)
Theorem C18_list_eq_iter : forall srv, materialise srv = iterate srv.
Proof. exact materialise_spec. Qed.
Print Assumptions C18_list_eq_iter.

Theorem C18_getitem : forall srv i, let '(s0, _) := init srv in
  exists o, snd (step s0 (OGetItem i)) = o ++ [Ret (py_getitem (concat (pages srv)) i)] /\ reqs o = map Some (states srv).
Proof. intros srv i. rewrite <- all_rows_concat. exact (getitem_spec srv i). Qed.
Print Assumptions C18_getitem.

Theorem C18_eq : forall srv other, let '(s0, _) := init srv in
  exists o b, snd (step s0 (OEq other)) = o ++ [Ret (VBool b)] /\ (b = true <-> concat (pages srv) = other).
Proof.
  intros srv other. pose proof (eq_spec srv other) as E. destruct (init srv) as [s0 o0].
  destruct E as (o & E & _). exists o, (zlist_eqb (all_rows srv) other). split; [exact E|].
  rewrite <- all_rows_concat. apply zlist_eqb_eq.
Qed.
Print Assumptions C18_eq.

(* manual paging (current_rows; while has_more_pages: fetch_next_page(); current_rows) agrees with iteration *)
Theorem C18_manual_eq_iter : forall srv,
  snd (manual srv) = snd (iterate srv) /\ reqs (fst (manual srv)) = reqs (fst (iterate srv)).
Proof.
  intros srv. destruct (manual_spec srv) as (o & E & R). destruct (iterate_spec srv) as [E2 R2].
  rewrite R2, E. cbn [fst snd]. split; [|exact R]. rewrite E2. reflexivity.
Qed.
Print Assumptions C18_manual_eq_iter.

(* non-vacuity: four pages, two of them empty (one in the middle, one last) *)
Example C18_nonvacuous :
  let srv := More [1; 2] 10 (More [] 11 (More [3] 12 (Last []))) in
  iterate srv = ([Req None; Req (Some 10); Req (Some 11); Req (Some 12)], Some [1; 2; 3])
  /\ manual srv = ([Req None; Req (Some 10); Req (Some 11); Req (Some 12)], Some [1; 2; 3])
  /\ snd (run_state (fst (init srv)) [OIter; ONext; ONext; ONext; ONext]) =
     [Ret VSelf; Ret (VRow 1); Ret (VRow 2); Req (Some 10); Req (Some 11); Ret (VRow 3); Req (Some 12); Ret VStop].
Proof. repeat split. Qed.
